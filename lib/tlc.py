"""Thin, careful wrapper around TLC (model checking and batch trace validation).

Exit-code policy of the whole framework (see DESIGN.md §4): a TLC crash, a parse error or a
malformed trace is a *machinery failure* (MachineryError -> exit 2), never a verdict.
"""
from __future__ import annotations

import json
import os
import re
import shutil
import subprocess
import tempfile
import time
from dataclasses import dataclass, field

VERIF = os.path.dirname(os.path.dirname(os.path.abspath(__file__)))
SPEC_DIR = os.path.join(VERIF, "spec")
JAR = "/opt/veriftools/tla/tla2tools.jar:/opt/veriftools/tla/CommunityModules-deps.jar"


class MachineryError(Exception):
    pass


@dataclass
class TLCResult:
    rc: int
    out: str
    generated: int = 0
    distinct: int = 0
    depth: int = 0
    wall_s: float = 0.0
    violated: str | None = None  # name of violated invariant/property, if any
    coverage: dict = field(default_factory=dict)

    @property
    def ok(self) -> bool:
        return self.rc == 0 and self.violated is None


_RE_STATES = re.compile(r"(\d+) states generated, (\d+) distinct states found")
_RE_DEPTH = re.compile(r"depth of the complete state graph search is (\d+)")
_RE_INV = re.compile(r"Error: Invariant (\S+) is violated")
_RE_PROP = re.compile(r"Error: (?:Action|Temporal) propert(?:y|ies) (\S+)? ?(?:is|were) violated")
_RE_SIM = re.compile(r"The number of states generated: (\d+)")


def _java_cmd(heap_gb: int | None = None) -> list[str]:
    cmd = ["java", "-XX:+UseParallelGC", "-Xss128m"]  # deep recursive operators (e.g. the Place solver run) overflow the default 1 MB thread stack
    if heap_gb:
        cmd.append(f"-Xmx{heap_gb}g")
    cmd += ["-cp", JAR, "tlc2.TLC"]
    return cmd


def run_tlc(
    module: str,
    cfg: str | None = None,
    *,
    workers: int | str = "auto",
    env: dict | None = None,
    extra: list[str] | None = None,
    timeout: float = 3600,
    heap_gb: int | None = None,
    spec_dir: str = SPEC_DIR,
    expect_violation: bool = False,
) -> TLCResult:
    """Run TLC on spec/<module>.tla with config spec/<cfg>. Raises MachineryError on anything that is
    neither 'no error' nor a clean invariant/property violation."""
    meta = tempfile.mkdtemp(prefix="tlcmeta_")
    cmd = _java_cmd(heap_gb) + [
        "-workers",
        str(workers),
        "-metadir",
        meta,
        "-noGenerateSpecTE",
    ]
    if cfg:
        cmd += ["-config", cfg]
    cmd += list(extra or []) + [module]
    e = dict(os.environ)
    e.update({k: str(v) for k, v in (env or {}).items()})
    t0 = time.time()
    try:
        p = subprocess.run(cmd, cwd=spec_dir, env=e, capture_output=True, text=True, timeout=timeout)
    except subprocess.TimeoutExpired as ex:
        raise MachineryError(f"TLC timeout after {timeout}s on {module}/{cfg}") from ex
    finally:
        shutil.rmtree(meta, ignore_errors=True)
    out = p.stdout + p.stderr
    res = TLCResult(rc=p.returncode, out=out, wall_s=time.time() - t0)
    m = None
    for m in _RE_STATES.finditer(out):
        pass
    if m:
        res.generated, res.distinct = int(m.group(1)), int(m.group(2))
    else:
        m = _RE_SIM.search(out)
        if m:
            res.generated = res.distinct = int(m.group(1))
    m = _RE_DEPTH.search(out)
    if m:
        res.depth = int(m.group(1))
    m = _RE_INV.search(out)
    if m:
        res.violated = m.group(1)
    elif "is violated" in out or "was violated" in out or "were violated" in out:
        mm = re.search(r"Error: (.*violated.*)", out)
        res.violated = mm.group(1) if mm else "property"
    if res.violated is None and p.returncode != 0:
        tail = "\n".join(out.splitlines()[-40:])
        raise MachineryError(f"TLC failed (rc={p.returncode}) on {module}/{cfg}:\n{tail}")
    if res.violated is not None and not expect_violation:
        # a property of the *specification itself* failed: that is a broken model, not a verdict on the code
        tail = "\n".join(out.splitlines()[-60:])
        raise MachineryError(f"spec-level violation of {res.violated} in {module}/{cfg}:\n{tail}")
    return res


def validate_traces(
    module: str,
    cfg: str,
    cases: list[dict],
    *,
    chunk: int = 400,
    parallel: int = 8,
    timeout: float = 3600,
    env: dict | None = None,
    heap_gb: int | None = 4,
) -> tuple[dict[str, str], int, int]:
    """Batch trace validation. `cases` is a list of JSON-able records, each with a unique string 'id'.
    The trace spec reads them from IOEnv.TRACE_FILE, steps through all of them and writes one record
    {"id":..., "v": "<ok | failing clause>"} per case to IOEnv.VERDICT_FILE in its POSTCONDITION.
    Returns (verdicts by id, states generated, distinct states)."""
    if not cases:
        return {}, 0, 0
    ids = [c["id"] for c in cases]
    if len(set(ids)) != len(ids):
        raise MachineryError("duplicate case ids in trace batch")
    work = tempfile.mkdtemp(prefix="trace_")
    try:
        chunks = [cases[i : i + chunk] for i in range(0, len(cases), chunk)]
        jobs = []
        for n, ch in enumerate(chunks):
            tf = os.path.join(work, f"t{n}.json")
            vf = os.path.join(work, f"v{n}.ndjson")
            with open(tf, "w") as f:
                json.dump(ch, f, separators=(",", ":"))
            jobs.append((tf, vf, ch))
        verdicts: dict[str, str] = {}
        gen = dist = 0
        import concurrent.futures as cf

        def one(job):
            tf, vf, ch = job
            e = {"TRACE_FILE": tf, "VERDICT_FILE": vf}
            e.update(env or {})
            r = run_tlc(module, cfg, workers=1, env=e, timeout=timeout, heap_gb=heap_gb)
            if not os.path.exists(vf):
                raise MachineryError(f"trace spec {module} wrote no verdict file:\n" + r.out[-3000:])
            vs = {}
            with open(vf) as f:
                for line in f:
                    line = line.strip()
                    if line:
                        rec = json.loads(line)
                        vs[rec["id"]] = rec["v"]
            missing = [c["id"] for c in ch if c["id"] not in vs]
            if missing:
                raise MachineryError(f"trace spec {module} gave no verdict for {missing[:5]} (+{len(missing)-5 if len(missing)>5 else 0})\n" + r.out[-3000:])
            return vs, r.generated, r.distinct

        with cf.ThreadPoolExecutor(max_workers=max(1, parallel)) as ex:
            for vs, g, d in ex.map(one, jobs):
                verdicts.update(vs)
                gen += g
                dist += d
        return verdicts, gen, dist
    finally:
        shutil.rmtree(work, ignore_errors=True)


def sany(module: str, spec_dir: str = SPEC_DIR) -> tuple[bool, str]:
    p = subprocess.run(
        ["java", "-cp", JAR, "tla2sany.SANY", module + ".tla"], cwd=spec_dir, capture_output=True, text=True
    )
    out = p.stdout + p.stderr
    ok = p.returncode == 0 and "Semantic errors" not in out and "*** Errors" not in out and "Fatal" not in out
    return ok, out
