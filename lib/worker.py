"""Process-pool helper: run check-module functions on the real code in spawned workers."""
import importlib
import os
import sys


def _init(src, verif):
    sys.path.insert(0, verif)
    sys.path.insert(0, src)
    os.environ.setdefault("JAX_PLATFORMS", "cpu")
    os.environ.setdefault("JAX_ENABLE_X64", "1")
    # one core per worker: XLA/Eigen thread pools of 16 threads x 14 processes thrash otherwise
    try:
        ncpu = os.cpu_count() or 1
        os.sched_setaffinity(0, {os.getpid() % ncpu})
    except Exception:
        pass
    os.environ.setdefault("OMP_NUM_THREADS", "1")
    os.environ.setdefault("XLA_FLAGS", "--xla_cpu_multi_thread_eigen=false")


def _call(args):
    modname, fn, case = args
    mod = importlib.import_module(modname)
    return getattr(mod, fn)(case)


def pmap(modname, fn, cases, procs=4, mode="thread"):
    """Map checks.<mod>.<fn> over cases (order preserved).
    mode="thread": thread pool in this process (JAX releases the GIL while compiling/executing; measured 3x
    with 4 threads, and no per-process 6 s fdtdx import, which does not scale in this VM).
    mode="process": spawned workers, for long independent simulations."""
    cases = list(cases)
    if procs <= 1 or len(cases) < 4:
        mod = importlib.import_module(modname)
        return [getattr(mod, fn)(c) for c in cases]
    if mode == "thread":
        from concurrent.futures import ThreadPoolExecutor

        f = getattr(importlib.import_module(modname), fn)
        with ThreadPoolExecutor(max_workers=procs) as ex:
            return list(ex.map(f, cases))
    import multiprocessing as mp
    from concurrent.futures import ProcessPoolExecutor

    src = os.environ.get("FDTDX_SRC", "/repo/src")
    verif = os.path.dirname(os.path.dirname(os.path.abspath(__file__)))
    ctx = mp.get_context("spawn")
    n = min(procs, max(1, len(cases) // 2))
    chunksize = max(1, len(cases) // (n * 8))
    with ProcessPoolExecutor(max_workers=n, mp_context=ctx, initializer=_init, initargs=(src, verif)) as ex:
        return list(ex.map(_call, [(modname, fn, c) for c in cases], chunksize=chunksize))
