"""Check context: accumulates what a run covered, classifies verdicts, writes evidence/replays.

A check module (checks/Cxx.py) defines
    ID, TITLE
    def model_check(ctx)            # run TLC on the specification itself (ctx.mc(...))
    def gen_cases(ctx) -> iterable  # inputs (JSON-able dicts with unique 'id'), exhaustive and/or seeded
    def observe(case) -> dict       # run the REAL code from /repo/src on one input, return the trace record
    TRACE = (module, cfg)           # trace spec validating the records, one verdict per record
    def classify(case, verdict) -> "violation" | "drift"   (optional; default: violation)
and optionally  extra(ctx)  for additional multi-stage work.
"""
from __future__ import annotations

import hashlib
import json
import os
import sys
import time

from . import tlc
from .tlc import MachineryError, VERIF

EVID_DIR = os.path.join(VERIF, "evidence")
REPLAY_DIR = os.path.join(VERIF, "replays")
KNOWN_FILE = os.path.join(VERIF, "known_findings.json")


def _match_value(spec, val) -> bool:
    if isinstance(spec, dict):
        for op, ref in spec.items():
            if op == ">" and not (val is not None and val > ref):
                return False
            if op == ">=" and not (val is not None and val >= ref):
                return False
            if op == "<" and not (val is not None and val < ref):
                return False
            if op == "<=" and not (val is not None and val <= ref):
                return False
            if op == "!=" and not (val != ref):
                return False
            if op == "in" and val not in ref:
                return False
            if op == "prefix" and not (isinstance(val, str) and val.startswith(ref)):
                return False
        return True
    return spec == val


def load_known(prop: str) -> list[dict]:
    if not os.path.exists(KNOWN_FILE):
        return []
    with open(KNOWN_FILE) as f:
        data = json.load(f)
    return [e for e in data.get("findings", []) if e.get("property") == prop and e.get("status") == "open"]


class Ctx:
    def __init__(self, prop: str, tier: str, seed: int, level: str = "model_checking"):
        self.prop = prop
        self.tier = tier
        self.seed = seed
        self.level = level
        self.t0 = time.time()
        self.states = 0
        self.transitions = 0
        self.traces = 0
        self.samples: list = []
        self.violations: list[dict] = []
        self.known_hits: dict[str, int] = {}
        self.drift: list[dict] = []
        self.notes: list[str] = []
        self.mc_runs: list[dict] = []
        self.exhaustive = True
        self.assumptions: list[str] = []
        self.extra_cov: dict = {}
        self.known = load_known(prop)
        self.nontrivial = 0

    @property
    def quick(self) -> bool:
        return self.tier == "quick"

    # ---- TLC on the specification itself
    def mc(self, module: str, cfg: str, *, workers="auto", extra=None, timeout=None, env=None, heap_gb=None, label=None):
        if timeout is None:
            timeout = 3600 if self.quick else 4 * 3600
        r = tlc.run_tlc(module, cfg, workers=workers, extra=extra, timeout=timeout, env=env, heap_gb=heap_gb)
        self.states += r.distinct
        self.transitions += r.generated
        self.mc_runs.append(
            {"module": module, "cfg": cfg, "distinct": r.distinct, "generated": r.generated, "depth": r.depth, "wall_s": round(r.wall_s, 1), "label": label or ""}
        )
        return r

    def mc_negative(self, module: str, cfg: str, *, workers="auto", extra=None, timeout=600, env=None):
        """A deliberately wrong instance of the spec must be rejected by TLC (anti-vacuity)."""
        r = tlc.run_tlc(module, cfg, workers=workers, extra=extra, timeout=timeout, env=env, expect_violation=True)
        if r.violated is None:
            raise MachineryError(f"negative instance {module}/{cfg} was NOT rejected by TLC: invariant is vacuous")
        self.mc_runs.append({"module": module, "cfg": cfg, "negative_instance_rejected": r.violated, "wall_s": round(r.wall_s, 1)})
        return r

    # ---- conformance
    def validate(self, module: str, cfg: str, records: list[dict], inputs: dict[str, dict] | None = None, *, classify=None, chunk=400, parallel=8, timeout=3600, env=None):
        """Validate impl-observed records against the trace spec; classify every non-ok verdict."""
        verdicts, gen, dist = tlc.validate_traces(module, cfg, records, chunk=chunk, parallel=parallel, timeout=timeout, env=env)
        self.states += dist
        self.transitions += gen
        self.traces += len(records)
        by_id = {r["id"]: r for r in records}
        for cid, v in verdicts.items():
            if v == "ok":
                continue
            rec = by_id[cid]
            inp = (inputs or {}).get(cid, None)
            kind = classify(rec, v) if classify else "violation"
            item = {"id": cid, "verdict": v, "record": rec, "input": inp if inp is not None else rec.get("input")}
            if kind == "drift":
                self.drift.append(item)
            elif kind == "malformed":
                raise MachineryError(f"trace record {cid} rejected as malformed by {module}: {v}")
            else:
                self._violation(item)
        return verdicts

    def _violation(self, item: dict):
        facts = dict(item.get("facts") or {})
        rec = item.get("record") or {}
        for k, v in rec.items():
            if isinstance(v, (int, str, bool, float)) and k not in facts:
                facts[k] = v
        inp = item.get("input") or {}
        if isinstance(inp, dict):
            for k, v in inp.items():
                if isinstance(v, (int, str, bool, float)) and k not in facts:
                    facts[k] = v
        facts["verdict"] = item.get("verdict")
        for e in self.known:
            if all(_match_value(spec, facts.get(k)) for k, spec in e.get("match", {}).items()):
                self.known_hits[e["id"]] = self.known_hits.get(e["id"], 0) + 1
                return
        self.violations.append(item)

    def direct_violation(self, cid: str, verdict: str, record: dict, facts: dict | None = None):
        self._violation({"id": cid, "verdict": verdict, "record": record, "input": record.get("input"), "facts": facts or {}})

    def sample(self, x):
        if len(self.samples) < 4:
            self.samples.append(x)

    # ---- finish
    def finish(self) -> int:
        os.makedirs(EVID_DIR, exist_ok=True)
        os.makedirs(REPLAY_DIR, exist_ok=True)
        lines = []
        for e in self.known:
            # an open known finding is always announced (the check's own machinery re-observes it when hit)
            n = self.known_hits.get(e["id"], 0)
            lines.append(f"KNOWN-FINDING: property={self.prop} {e['what']} [observed {n}x in this run]")
        paths = []
        for v in self.violations[:20]:
            h = hashlib.sha1(json.dumps(v, sort_keys=True, default=str).encode()).hexdigest()[:10]
            path = os.path.join(REPLAY_DIR, f"{self.prop}-{h}.json")
            with open(path, "w") as f:
                json.dump({"property": self.prop, **v}, f, indent=1, default=str)
            paths.append(path)
            lines.append(f"VIOLATION property={self.prop} replay={path}")
            lines.append(f"  case {v['id']}: failing clause: {v['verdict']}")
        cov = {
            "states": max(self.states, 0),
            "transitions": max(self.transitions, 0),
            "traces_validated_against_impl": self.traces,
            "samples": self.samples[:4] if self.samples else ["(no sample recorded)"],
            "exhaustive": bool(self.exhaustive),
            "tlc_runs": self.mc_runs,
            "spec_drift": [{"id": d["id"], "verdict": d["verdict"]} for d in self.drift[:20]],
            "known_findings_observed": self.known_hits,
            "distinct_nontrivial": self.nontrivial,
            "notes": self.notes,
        }
        cov.update(self.extra_cov)
        if self.level == "other" and "explanation" not in cov:
            cov["explanation"] = "; ".join(self.notes) or "trace-monitor"
        ev = {
            "property_id": self.prop,
            "tier": self.tier,
            "seed": int(self.seed),
            "level": self.level,
            "coverage": cov,
            "assumptions": self.assumptions,
            "wall_s": round(time.time() - self.t0, 2),
            "violations": len(self.violations),
        }
        with open(os.path.join(EVID_DIR, f"{self.prop}.json"), "w") as f:
            json.dump(ev, f, indent=1, default=str)
        for ln in lines:
            print(ln)
        if self.drift:
            print(f"note: {len(self.drift)} spec_drift item(s) (property predicate holds, detailed model differs) - see evidence")
        print(
            f"{self.prop} [{self.tier}] states={self.states} transitions={self.transitions} traces={self.traces} "
            f"violations={len(self.violations)} known={sum(self.known_hits.values())} wall={ev['wall_s']}s"
        )
        sys.stdout.flush()
        return 1 if self.violations else 0
