"""C31 - Setups survive a JSON round trip.
Spec: spec/JsonRT.tla (+JsonRTDefs), trace spec: spec/Trace_JsonRT.tla.  DESIGN.md §5 C31.

Seeded random scenes are built from the serialisable object and constraint kinds, exported with
fdtdx.conversion.json.export_json_str ({"config", "object_list", "constraints"}, the layout of fdtdx's own
integration test; every fourth scene that only uses JsonSetup's whitelisted kinds goes through JsonSetup.dumps /
JsonSetup.loads instead), imported back with import_from_json and BOTH setups are placed with the same PRNG key.
Resolved slices and 31-bit SHA-1 fingerprints of every array (ArrayContainer leaves, placed-object leaves,
returned config) are sent to TLC; Trace_JsonRT decides equality item by item.  The JSON encoder is not modelled."""
import hashlib
import json
import random

ID = "C31"
TRACE = ("Trace_JsonRT", "Trace_JsonRT.cfg")
CHUNK = 20
PARALLEL = 4

DX = 50e-9
N = (12, 12, 10)
FACES = ("min_x", "max_x", "min_y", "max_y", "min_z", "max_z")


def model_check(ctx):
    ctx.mc("JsonRT", "MC_JsonRT_q.cfg" if ctx.quick else "MC_JsonRT_t.cfg", workers=2,
           label="one item per state: 13 top-level classes (config, 7 object kinds, 5 constraint kinds) x all assignments of their constructor fields from 1-3 values per field "
                 "(tuples with None, nested objects, dicts, numpy/jax arrays of either dtype, dtypes, lists); Export then Import")
    ctx.mc_negative("JsonRT", "MC_JsonRT_neg.cfg", workers=2)
    ctx.mc_negative("JsonRT", "MC_JsonRT_neg2.cfg", workers=2)
    ctx.mc_negative("JsonRT", "MC_JsonRT_neg3.cfg", workers=2)
    ctx.assumptions += [
        "the JSON encoder/decoder itself (json.dumps/loads, float repr round trip) is NOT modelled in TLA+; it is exercised by the conformance runs only",
        "Place is treated as a deterministic function of the placement-read fields (JsonRTDefs!ClassFields); both setups are placed with the same PRNG key in the same process",
        "scenes: uniform 50 nm grid (fields float32/float64) or an explicit RectilinearGrid with float64 edges, volume 12x12x10, boundaries from BoundaryConfig (pml/pec/pmc/periodic), "
        "UniformMaterialObject (isotropic, diagonal, full-tensor, magnetic, conductive, Lorentz/Drude dispersive materials), Sphere, ExtrudedPolygon, Cylinder (random scenes + one designated scene), "
        "PointDipoleSource / UniformPlaneSource / GaussianPlaneSource with switches, Energy/Field/PoyntingFlux/Phasor detectors with switches, all five constraint kinds "
        "(position with real and grid margins, size with proportions/offsets/grid offsets, extension, grid coordinates, real coordinates)",
        "arrays are compared through SHA-1 fingerprints (dtype + shape + bytes) truncated to 31 bits; a collision could hide a difference with probability 2^-31 per array",
        "Device objects (not JSON-serialisable: parameter transformations) and gradient configs are out of scope; scenes whose ORIGINAL setup does not place are skipped and counted",
    ]


# ---------------------------------------------------------------- inputs (plain JSON; everything is rebuilt in observe)
def _mat(rng, rich=True, aniso=True):
    if aniso:
        k = rng.choice(("iso", "iso", "diag", "full", "mag", "cond", "lorentz", "drude") if rich else ("iso", "diag"))
    else:           # plane sources refuse anisotropic materials in their plane
        k = rng.choice(("iso", "iso", "condiso", "lorentz", "drude") if rich else ("iso", "iso"))
    return {"kind": k, "eps": rng.choice((2.0, 2.25, 4.0, 12.25)), "p": rng.choice((1, 2, 3))}


def _switch(rng):
    return rng.choice(({}, {}, {"interval": 3}, {"start_time": 5e-15, "end_time": 25e-15}, {"fixed_on_time_steps": [0, 3, 4, 9]},
                       {"start_after_periods": 1.0, "period": 4e-15}, {"is_always_off": True}))


def _pos(rng):
    """How an object is pinned: one of the five constraint kinds (+ size constraints where the kind needs a size)."""
    return {"how": rng.choice(("grid", "grid", "rel", "rel_grid", "real", "center")), "at": [rng.randrange(1, 5) for _ in range(3)],
            "anchor": [rng.choice((-1, 0, 1)) for _ in range(3)]}


def gen_cases(ctx):
    rng = random.Random(ctx.seed)
    ctx.exhaustive = False
    n = 12 if ctx.quick else 120
    for s in range(n):
        strict = s % 4 == 3          # only kinds on JsonSetup's whitelist: goes through JsonSetup.dumps / loads
        types = {}
        for ax in "xyz":
            t = rng.choice(("pml", "pml", "pec", "pmc", "periodic"))
            if t == "periodic":
                types["min_" + ax] = types["max_" + ax] = "periodic"
            else:
                types["min_" + ax] = t
                types["max_" + ax] = rng.choice(("pml", "pec", "pmc"))
        grid = rng.choice(("uniform", "uniform", "rect64"))     # float32 edge arrays: see notes/C31.md (dtype is not exported)
        src_kinds = [rng.choice(("dipole", "dipole", "uniform", "gauss")) for _ in range(rng.choice((1, 1, 2)))]
        if strict:
            types = {f: "pml" for f in FACES}
            grid = "uniform"
            src_kinds = [rng.choice(("uniform", "gauss")) for _ in src_kinds]
        an = all(k == "dipole" for k in src_kinds)
        objs = []
        for i in range(rng.choice((2, 3, 4))):
            k = "box" if strict else rng.choice(("box", "box", "sphere", "poly", "cyl"))
            o = {"kind": k, "name": f"m{i}", "order": rng.choice((0, 0, 1, 3)), "pos": _pos(rng)}
            if strict and o["pos"]["how"] == "real":
                o["pos"]["how"] = "rel"
            if i == 0 and s % 3 == 0:
                k = o["kind"] = "box"                   # every third scene has a conductive box for sure
            if k == "box":
                o.update(mat=_mat(rng, True, an), size=rng.choice(("grid", "real", "rel", "extend")), shape=[rng.randrange(1, 4) for _ in range(3)])
                if i == 0 and s % 3 == 0:
                    o["mat"]["kind"] = "condiso" if not an or s % 2 else "cond"
            elif k == "sphere":
                o.update(mats=[_mat(rng, False, an), _mat(rng, False, an)], r=[rng.choice((1.0, 1.5, 2.0)) for _ in range(3)], pick=rng.randrange(2))
            elif k == "cyl":
                o.update(mats=[_mat(rng, False, an)], axis=rng.randrange(3), r=rng.choice((1.0, 1.5, 2.0)), len=rng.choice((1, 2, 3)))
            else:
                o.update(mats=[_mat(rng, False, an)], axis=rng.randrange(3), verts=rng.choice(([[-2, -1], [2, -1], [2, 1], [0, 0], [-2, 1]], [[-1, -1.5], [1, -1.5], [0, 1.5]])), len=rng.choice((1, 2)))
            objs.append(o)
        srcs = []
        for i, k in enumerate(src_kinds):
            srcs.append({"kind": k, "name": f"s{i}", "switch": _switch(rng), "axis": rng.randrange(3), "dir": rng.choice("+-"), "pol": rng.randrange(3),
                         "wl": rng.choice((0.8e-6, 1.0e-6, 1.55e-6)), "at": [rng.randrange(3, 7) for _ in range(3)], "amp": rng.choice((1.0, 0.5)),
                         "profile": rng.choice(("single", "gauss"))})
        dets = []
        for i in range(rng.choice((1, 2, 2))):
            k = rng.choice(("energy", "field", "flux", "phasor"))
            dets.append({"kind": k, "name": f"d{i}", "switch": rng.choice(({}, {"interval": 2})) if k == "phasor" else _switch(rng), "how": rng.choice(("same", "grid")), "at": [rng.randrange(2, 5) for _ in range(3)],
                         "shape": [rng.randrange(1, 5) for _ in range(3)], "opt": rng.random() < 0.5, "f64": rng.random() < 0.3})
        yield {"id": f"rt-{s}", "grid": grid, "dtype": rng.choice(("f32", "f64")), "courant": rng.choice((0.99, 0.7)), "time": rng.choice((30e-15, 45e-15)),
               "thick": rng.choice((2, 3)), "types": types, "vol_mat": _mat(rng, False, an), "vol_by": rng.choice(("grid", "real")),
               "objs": objs, "srcs": srcs, "dets": dets, "via": "setup" if strict else "raw", "cyl": None}
    # designated Cylinder scenes (a Cylinder could not be re-imported before /repo 7406267)
    for s in range(1 if ctx.quick else 3):
        yield {"id": f"cyl-{s}", "grid": "uniform", "dtype": "f32", "courant": 0.99, "time": 30e-15, "thick": 2, "types": {f: "pml" for f in FACES},
               "vol_mat": {"kind": "iso", "eps": 2.0, "p": 1}, "vol_by": "grid", "objs": [], "srcs": [], "dets": [], "via": "raw",
               "cyl": {"axis": s % 3, "r": 1.5 + 0.5 * s, "len": 2, "at": [3, 3, 3]}}


# ---------------------------------------------------------------- scene construction with the real classes
def _material(m):
    import fdtdx
    from fdtdx import dispersion as dsp

    e, p = float(m["eps"]), float(m["p"])
    k = m["kind"]
    if k == "iso":
        return fdtdx.Material(permittivity=e)
    if k == "diag":
        return fdtdx.Material(permittivity=(e, e + p, e + 2 * p))
    if k == "full":
        return fdtdx.Material(permittivity=(e, 0.5, 0.0, 0.5, e + p, 0.0, 0.0, 0.0, e + 2 * p))
    if k == "mag":
        return fdtdx.Material(permittivity=e, permeability=(1.0, 1.0 + p, 2.0))
    if k == "condiso":
        return fdtdx.Material(permittivity=e, electric_conductivity=0.1 * p)
    if k == "cond":
        return fdtdx.Material(permittivity=e, electric_conductivity=0.1 * p, magnetic_conductivity=(0.0, 0.2, 0.1 * p))
    w = 2e15 * p
    if k == "lorentz":
        return fdtdx.Material(permittivity=e, dispersion=dsp.DispersionModel(poles=(dsp.LorentzPole(resonance_frequency=w, damping=0.1 * w, delta_epsilon=0.5 * p),)))
    return fdtdx.Material(permittivity=e, dispersion=dsp.DispersionModel(poles=(dsp.DrudePole(plasma_frequency=w, damping=0.2 * w), dsp.LorentzPole(resonance_frequency=2 * w, damping=0.05 * w, delta_epsilon=1.0))))


def _sw(d):
    import fdtdx

    return fdtdx.OnOffSwitch(**d)


def _pin(o, ob, vol, cons, uniform):
    """Pins the lower corner of `ob` with one of the constraint kinds; `at` are cell indices on the 50 nm lattice."""
    import fdtdx

    at, how = o["at"], o["how"]
    if not uniform and how in ("grid", "rel_grid"):
        how = "real"
    if how == "grid":
        cons.append(ob.set_grid_coordinates(axes=(0, 1, 2), sides=("-", "-", "-"), coordinates=tuple(at)))
    elif how == "rel":
        cons.append(ob.place_relative_to(vol, axes=(0, 1, 2), own_positions=(-1, -1, -1), other_positions=(-1, -1, -1), margins=tuple(a * DX for a in at)))
    elif how == "rel_grid":
        cons.append(ob.place_relative_to(vol, axes=(0, 1), own_positions=(-1, -1), other_positions=(-1, -1), margins=(at[0] * DX, 0.0), grid_margins=(0, at[1])))
        cons.append(ob.place_relative_to(vol, axes=2, own_positions=-1, other_positions=-1, grid_margins=at[2]))
    elif how == "real":
        cons.append(fdtdx.RealCoordinateConstraint(object=ob.name, axes=(0, 1, 2), sides=("-", "-", "-"), coordinates=tuple((a - n / 2) * DX for a, n in zip(at, N))))   # measured from the domain centre
    else:
        cons.append(ob.place_at_center(vol, axes=(0, 1, 2)))


def build(case):
    import jax.numpy as jnp
    import numpy as np
    import fdtdx

    uniform = case["grid"] == "uniform"
    if uniform:
        grid = fdtdx.UniformGrid(spacing=DX)
    else:
        dt = np.float32 if case["grid"] == "rect32" else np.float64
        e = [jnp.asarray((np.arange(n + 1) * DX).astype(dt)) for n in N]
        grid = fdtdx.RectilinearGrid(x_edges=e[0], y_edges=e[1], z_edges=e[2])
    cfg = fdtdx.SimulationConfig(time=case["time"], grid=grid, dtype=jnp.float32 if case["dtype"] == "f32" else jnp.float64, backend="cpu", courant_factor=case["courant"])
    if case["vol_by"] == "grid" or not uniform:
        vol = fdtdx.SimulationVolume(name="vol", partial_grid_shape=N, material=_material(case["vol_mat"]))
    else:
        vol = fdtdx.SimulationVolume(name="vol", partial_real_shape=tuple(n * DX for n in N), material=_material(case["vol_mat"]))
    bc = fdtdx.BoundaryConfig.from_uniform_bound(thickness=case["thick"], override_types=dict(case["types"]))
    bd, cl = fdtdx.boundary_objects_from_config(bc, vol)
    objs, cons = [vol] + list(bd.values()), list(cl)
    for o in case["objs"]:
        if o["kind"] == "box":
            sh = o["shape"]
            kw = {}
            if o["size"] == "grid" and uniform:
                kw["partial_grid_shape"] = tuple(sh)
            elif o["size"] in ("real", "grid"):
                kw["partial_real_shape"] = tuple(s * DX for s in sh)
            elif o["size"] == "rel":
                kw["partial_real_shape"] = (None, None, sh[2] * DX)
            else:
                kw["partial_real_shape"] = (sh[0] * DX, sh[1] * DX, None)
            ob = fdtdx.UniformMaterialObject(name=o["name"], material=_material(o["mat"]), placement_order=o["order"], color=fdtdx.colors.PINK, **kw)
            if o["size"] == "rel":
                cons.append(ob.size_relative_to(vol, axes=(0, 1), proportions=(0.25, 0.5), offsets=(DX, 0.0), grid_offsets=(0, -1) if uniform else (0, 0)))
            pos = dict(o["pos"])
            if o["size"] == "extend":
                cons.append(ob.extend_to(None, axis=2, direction="+"))
                if pos["how"] == "center":
                    pos["how"] = "rel"
            _pin(pos, ob, vol, cons, uniform)
        elif o["kind"] == "sphere":
            mats = {f"k{i}": _material(m) for i, m in enumerate(o["mats"])}
            r = o["r"]
            ob = fdtdx.Sphere(name=o["name"], radius=r[0] * DX, radius_y=r[1] * DX, radius_z=r[2] * DX, materials=mats, material_name=f"k{o['pick']}", placement_order=o["order"])
            _pin(o["pos"], ob, vol, cons, uniform)
        elif o["kind"] == "cyl":
            prs = [None, None, None]
            prs[o["axis"]] = o["len"] * DX
            ob = fdtdx.Cylinder(name=o["name"], radius=o["r"] * DX, axis=o["axis"], partial_real_shape=tuple(prs), materials={"fib": _material(o["mats"][0]), "air": fdtdx.Material(permittivity=1.0)},
                                material_name="fib", placement_order=o["order"])
            _pin(o["pos"], ob, vol, cons, uniform)
        else:
            mats = {"core": _material(o["mats"][0]), "clad": fdtdx.Material(permittivity=1.5)}
            prs = [None, None, None]
            prs[o["axis"]] = o["len"] * DX
            ob = fdtdx.ExtrudedPolygon(name=o["name"], vertices=np.asarray(o["verts"], dtype=np.float64) * DX, axis=o["axis"], partial_real_shape=tuple(prs),
                                       materials=mats, material_name="core", placement_order=o["order"])
            _pin(o["pos"], ob, vol, cons, uniform)
        objs.append(ob)
    for s in case["srcs"]:
        wc = fdtdx.WaveCharacter(wavelength=s["wl"])
        tp = fdtdx.SingleFrequencyProfile() if s["profile"] == "single" else fdtdx.GaussianPulseProfile(spectral_width=fdtdx.WaveCharacter(wavelength=5 * s["wl"]), center_wave=wc)
        if s["kind"] == "dipole":
            ob = fdtdx.PointDipoleSource(name=s["name"], partial_grid_shape=(1, 1, 1), wave_character=wc, temporal_profile=tp, polarization=s["pol"], amplitude=s["amp"], switch=_sw(s["switch"]))
            _pin({"how": "grid", "at": s["at"]}, ob, vol, cons, uniform)
        else:
            a = s["axis"]
            pg = [None, None, None]
            pg[a] = 1
            pol = [0.0, 0.0, 0.0]
            pol[(a + 1 + s["pol"] % 2) % 3] = 1.0
            kw = dict(name=s["name"], partial_grid_shape=tuple(pg), wave_character=wc, temporal_profile=tp, direction=s["dir"], fixed_E_polarization_vector=tuple(pol), switch=_sw(s["switch"]))
            ob = fdtdx.UniformPlaneSource(amplitude=s["amp"], **kw) if s["kind"] == "uniform" else fdtdx.GaussianPlaneSource(radius=3 * DX, **kw)
            cons.append(ob.place_relative_to(vol, axes=a, own_positions=-1, other_positions=-1, margins=s["at"][a] * DX))
            cons += ob.same_position_and_size(vol, axes=tuple(x for x in range(3) if x != a))
        objs.append(ob)
    for d in case["dets"]:
        kw = dict(name=d["name"], switch=_sw(d["switch"]), plot=not d["opt"])
        if d["kind"] != "phasor":
            kw["dtype"] = jnp.float64 if d["f64"] and case["dtype"] == "f64" else jnp.float32
        if d["how"] == "grid":
            kw["partial_real_shape"] = tuple(s * DX for s in d["shape"])
        if d["kind"] == "energy":
            ob = fdtdx.EnergyDetector(as_slices=d["opt"], **kw)
        elif d["kind"] == "field":
            ob = fdtdx.FieldDetector(reduce_volume=d["opt"], **kw)
        elif d["kind"] == "flux":
            if d["how"] == "grid":
                shp = list(kw["partial_real_shape"])
                shp[2] = DX
                kw["partial_real_shape"] = tuple(shp)
            ob = fdtdx.PoyntingFluxDetector(direction="+", fixed_propagation_axis=2, reduce_volume=d["opt"], **kw)
        else:
            ob = fdtdx.PhasorDetector(wave_characters=(fdtdx.WaveCharacter(wavelength=1e-6), fdtdx.WaveCharacter(wavelength=1.5e-6)), reduce_volume=d["opt"], **kw)
        if d["how"] == "grid":
            _pin({"how": "rel", "at": d["at"]}, ob, vol, cons, uniform)
        elif d["kind"] == "flux":
            cons += ob.same_position_and_size(vol, axes=(0, 1))
            cons.append(ob.size_relative_to(vol, axes=2, proportions=0.0, offsets=DX))
            cons.append(ob.place_relative_to(vol, axes=2, own_positions=-1, other_positions=0))
        else:
            cons += ob.same_position_and_size(vol)
        objs.append(ob)
    if case["cyl"]:
        c = case["cyl"]
        prs = [None, None, None]
        prs[c["axis"]] = c["len"] * DX
        ob = fdtdx.Cylinder(name="cyl", radius=c["r"] * DX, axis=c["axis"], partial_real_shape=tuple(prs), materials={"a": fdtdx.Material(permittivity=4.0)}, material_name="a")
        _pin({"how": "grid", "at": c["at"]}, ob, vol, cons, uniform)
        objs.append(ob)
    return cfg, objs, cons


# ---------------------------------------------------------------- observation
def _fp(x):
    import numpy as np

    a = np.asarray(x)
    h = hashlib.sha1(str(a.dtype).encode() + str(a.shape).encode() + np.ascontiguousarray(a).tobytes()).digest()
    return int.from_bytes(h[:4], "big") >> 1


def _leaves(o):
    import jax

    return [[jax.tree_util.keystr(p), _fp(v)] for p, v in jax.tree_util.tree_leaves_with_path(o)]


def _placed(cfg, objs, cons):
    import jax
    import fdtdx

    oc, arrays, params, cfg2, _ = fdtdx.place_objects(objs, cfg, cons, jax.random.PRNGKey(0))
    recs = []
    for o in oc.objects:
        recs.append({"name": o.name, "cls": type(o).__name__, "slice": [int(v) for ab in o.grid_slice_tuple for v in ab], "state": _leaves(o)})
    cf = _leaves(cfg2) + [["time_steps_total", int(cfg2.time_steps_total)], ["dtype", _fp(str(cfg2.dtype))], ["params", _fp(str(sorted(params.keys()) if hasattr(params, "keys") else len(params)))]]
    return {"objs": recs, "arrays": _leaves(arrays), "cfg": cf}


def _items(orig, back):
    from fdtdx.conversion.json import export_json

    out = []
    for a, b in zip(orig, back):
        ea, eb = export_json(a), export_json(b)
        va, vb = ea.get("__value__", ea), eb.get("__value__", eb)
        names = sorted(k for k in va if not k.startswith("__"))
        changed = sorted(k for k in names if json.dumps(va[k], sort_keys=True) != json.dumps(vb.get(k, "<missing>"), sort_keys=True))
        out.append({"cls": type(a).__name__, "exported": names, "changed": changed})
    return out


def _errcls(ex):
    return f"{type(ex).__name__}: {ex}"[:160].replace("\n", " ").replace('"', "'")


def observe(case):
    from loguru import logger
    from fdtdx.conversion.json import JsonSetup, export_json_str, import_from_json

    logger.disable("fdtdx")
    cfg, objs, cons = build(case)
    try:
        a = _placed(cfg, objs, cons)
    except Exception as ex:  # noqa: BLE001 - an ORIGINAL scene that does not place is not a C31 input
        return {"id": case["id"], "skipped": _errcls(ex)}
    empty = {"objs": [], "arrays": [], "cfg": []}
    rec = {"id": case["id"], "via": case["via"], "stage": "ok", "err": "", "errcls": "", "a": a, "b": empty, "items": [],
           "n_objs": len(objs), "n_cons": len(cons), "classes": sorted({type(o).__name__ for o in objs} | {type(c).__name__ for c in cons}), "json_chars": 0}
    try:
        cfg_f, objs_f, cons_f = cfg, objs, cons      # place_objects returns placed COPIES; these are still the unplaced user objects
        if case["via"] == "setup":
            s = JsonSetup(config=cfg_f, object_list=list(objs_f), constraints=list(cons_f), meta={"seed": 1}).dumps()
        else:
            s = export_json_str({"config": cfg_f, "object_list": objs_f, "constraints": cons_f})
        rec["json_chars"] = len(s)
    except Exception as ex:  # noqa: BLE001 - judged by the trace spec
        rec.update(stage="export_failed", errcls=_errcls(ex))
        return rec
    try:
        if case["via"] == "setup":
            st = JsonSetup.loads(s)
            cfg_b, objs_b, cons_b = st.config, st.object_list, st.constraints
        else:
            d = import_from_json(s)
            cfg_b, objs_b, cons_b = d["config"], d["object_list"], d["constraints"]
    except Exception as ex:  # noqa: BLE001
        rec.update(stage="import_failed", errcls=_errcls(ex))
        return rec
    rec["items"] = _items([cfg_f] + list(objs_f) + list(cons_f), [cfg_b] + list(objs_b) + list(cons_b)) if len(objs_b) == len(objs_f) and len(cons_b) == len(cons_f) else []
    try:
        rec["b"] = _placed(cfg_b, objs_b, cons_b)
    except Exception as ex:  # noqa: BLE001
        rec.update(stage="back_place_failed", errcls=_errcls(ex))
    return rec


def classify(record, verdict):
    if verdict.startswith("malformed:"):
        return "malformed"
    if verdict.startswith("model:"):
        return "drift"
    return "violation"


def run(ctx):
    from lib.worker import pmap

    model_check(ctx)
    inputs = list(gen_cases(ctx))
    out = pmap(__name__, "observe", inputs, procs=PARALLEL, mode="thread")
    recs = [r for r in out if "skipped" not in r]
    skipped = [r for r in out if "skipped" in r]
    ctx.extra_cov["scenes_skipped_because_the_original_does_not_place"] = [f"{r['id']}: {r['skipped']}" for r in skipped][:10]
    if len(skipped) > len(out) // 3:
        from lib.tlc import MachineryError
        raise MachineryError(f"{len(skipped)} of {len(out)} scenes do not place, first: {skipped[0]}")
    for r in recs[:1]:
        ctx.sample({k: v for k, v in r.items() if k not in ("a", "b", "items")} | {"objects": [[o["name"], o["cls"], o["slice"]] for o in r["a"]["objs"]], "arrays": [k for k, _ in r["a"]["arrays"]]})
    ctx.nontrivial = len(recs)
    ctx.extra_cov["classes_round_tripped"] = sorted({c for r in recs for c in r["classes"]})
    ctx.extra_cov["objects_compared"] = sum(len(r["a"]["objs"]) for r in recs)
    ctx.extra_cov["arrays_compared"] = sum(len(r["a"]["arrays"]) for r in recs)
    ctx.extra_cov["array_keys"] = sorted({k.split("[")[0] for r in recs for k, _ in r["a"]["arrays"]})
    ctx.extra_cov["scenes_via_JsonSetup"] = sum(1 for r in recs if r["via"] == "setup")
    ctx.validate(*TRACE, recs, {c["id"]: c for c in inputs}, classify=classify, chunk=CHUNK)
