"""C26 - Resolved object placement satisfies every constraint.
Spec: spec/Place.tla (+PlaceDefs, GridDefs), trace spec: spec/Trace_Place.tla, harness: harness/place_sys.py.  DESIGN.md §5 C26."""
from harness import place_sys as H

ID = "C26"
TRACE = ("Trace_Place", "Trace_Place.cfg")
CHUNK = 150
PARALLEL = 1

model_check = H.model_check
observe = H.observe
classify = H.classify


def gen_cases(ctx):
    return H.gen_cases(ctx, "C26")


def run(ctx):
    H.run(ctx, "C26")
