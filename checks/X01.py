"""X01 (spec growth beyond the 43 listed properties) - total-field/scattered-field BOX source TFSFPlaneSourceRegion.
Spec: spec/TfsfRegionDefs.tla (connecting condition derived from the Yee update equations, incident-wave clock), spec/TfsfRegion.tla
(exact 1-D state machine StepE / InjectE(face) / StepH / InjectH(face) with on/off gating; invariants OutsideZero, InsideIncident),
trace spec: spec/Trace_TfsfRegion.tla.

Three kinds of records, all built through the public pipeline (place_objects -> apply_params), vacuum:
  probe : tiny box (2 x 3 x 4 cells), incident profile = CustomTimeSignalProfile holding the ramp s[j] = j, so that
          the profile value IS the profile time.  One call of fdtdx.fdtd.update.update_E / update_H on all-zero fields returns
          exactly what the source injects; every non-zero entry is decoded into
              (field, component, cell, sign, clock2, off2):   value / (C * amplitude) = clock2 / 2 + off2 / (2 S) + M
          (S = Courant number, irrational w.r.t. 1/2, so the integers clock2, off2 are unique).  TLC compares the SET of entries with
          the connecting condition DERIVED in TfsfRegionDefs (cells, components, signs, half-step clock, per-cell time offsets).
  leak  : empty box of 16^3 cells (0.8 wavelengths), 20 cells per wavelength, 5 cells of free space and 8 PML cells around it (or
          periodic transverse faces with periodic_axes), one library EnergyDetector (float64, every step) over the free volume;
          per carrier period: max over the steps of (mean / max energy density outside the box dilated by 2 cells) divided by the
          peak over time of the mean density inside the box eroded by 2 cells, as integers in ppb.
  lin   : transversely periodic slab, run twice (amplitude factor 1 and k, through static_amplitude_factor or amplitude), the
          final E and H of the second run minus k times the first, relative, in 1e-12 units.
TLC (Trace_TfsfRegion) decides every clause; Python only runs the code and encodes integers."""
import json
import math
import random

ID = "X01"
TRACE = ("Trace_TfsfRegion", "Trace_TfsfRegion.cfg")
PARALLEL = 4
CHUNK = 8
RES = 50e-9
CPW = 20
FACES = ("min_x", "max_x", "min_y", "max_y", "min_z", "max_z")
M_RAMP = 64            # probe profile: value = profile time in steps + M_RAMP  (> 0 for every sample)
PROBE_STEP = 5
TOL_DEC_PPB = 1000     # decoding residual allowed (1e-6 of a half step)


# ------------------------------------------------------------------ model checking
NEGATIVES = ("neg", "neg2", "neg3", "neg4", "neg5")


def model_check(ctx):
    import os
    from concurrent.futures import ThreadPoolExecutor

    if os.environ.get("VERIF_SKIP_MC") == "1":      # development knob for mutation runs (the specification does not depend on the code)
        ctx.notes.append("VERIF_SKIP_MC=1: model checking skipped")
        return
    label = ("1-D TF/SF box: every placeable box on a line of 6 (thorough: 8) cells x direction x amplitude {1,3} x switch delay x every incident table over "
             "{-1,0,1} of length 3 (5) x both face orders; ASSUME: the per-face table equals the connecting condition derived from the update equations")
    with ThreadPoolExecutor(max_workers=3) as ex:      # six independent TLC runs; three at a time, 4 workers each
        futs = [ex.submit(ctx.mc, "TfsfRegion", "MC_TfsfRegion_q.cfg" if ctx.quick else "MC_TfsfRegion_t.cfg", label=label, workers=4 if ctx.quick else "auto")]
        futs += [ex.submit(ctx.mc_negative, "TfsfRegion", f"MC_TfsfRegion_{c}.cfg", workers=4) for c in NEGATIVES]
        for f in futs:
            f.result()
    ctx.assumptions += [
        "1-D model at Courant number 1 (exact discrete wave): proves the face table (nodes, signs, half-step clock, gating of whole steps, causal phase origin) exactly; it does not model numerical dispersion, which is why real runs are bounded, not zero",
        "negative instance neg5 (phase origin at the box lower corner for direction '-') is what the unchanged code implements: finding X01-F1",
        "leak bounds (max 5.5e-3; mean 3e-4 / 8e-4 / 2.5e-3 for 0 / 1 / 2 wrap axes) are monitored bounds, >= 10 x the values of the unchanged code at 20 cells per wavelength and a box of 16 cells; they are not derived",
    ]


# ------------------------------------------------------------------ cases
PROBE_BOX = (2, 3, 4)   # distinct sides (an axis mix-up changes the set of cells); the same array shapes for every axis keep the eager-op compile cache warm


def probe_cases(quick, rng):
    out = []

    def mk(axis, d, q, per=(), sw="on"):
        out.append({"id": f"probe-{'xyz'[axis]}{d}-E{'xyz'[q]}-p{''.join('xyz'[a] for a in per) or 'none'}-{sw}", "kind": "probe",
                    "axis": axis, "dir": d, "q": q, "periodic": list(per), "switch": sw})
    for axis in range(3):
        tr = [a for a in range(3) if a != axis]
        for d in "+-":
            for q in tr:
                mk(axis, d, q)
                if not quick:
                    for per in ((tr[0],), (tr[1],), tuple(tr)):
                        mk(axis, d, q, per)
                    mk(axis, d, q, sw="delay")
                    mk(axis, d, q, sw="off")
    if quick:
        # every wrap-axis set costs ~10 s of one-off compilation (new array shapes): four of the nine sets per run
        mk(0, "+", 1, (1,))
        mk(0, "-", 2, (1, 2))
        mk(1, "+", 2, (2,))
        mk(2, "-", 0, (0, 1))
        a = rng.randrange(3)
        tr = [x for x in range(3) if x != a]
        mk(a, "+", rng.choice(tr), sw="delay")
        mk((a + 1) % 3, "-", rng.choice([x for x in range(3) if x != (a + 1) % 3]), sw="delay")
        mk((a + 2) % 3, rng.choice("+-"), rng.choice([x for x in range(3) if x != (a + 2) % 3]), sw="off")
    return out


def leak_cases(quick, rng):
    out = []

    def mk(axis, d, pol, profile, per=(), sw="on"):
        phi = math.radians(rng.choice([-1, 1]) * rng.uniform(20.0, 70.0))
        return {"id": f"leak-{'xyz'[axis]}{d}-{pol}-{profile}-p{''.join('xyz'[a] for a in per) or 'none'}-{sw}", "kind": "leak", "axis": axis, "dir": d,
                "pol": pol, "profile": profile, "periodic": list(per), "switch": sw, "phi": phi}
    if not quick:
        for axis in range(3):
            tr = [a for a in range(3) if a != axis]
            for d in "+-":
                for pol in ("h", "v", "obl"):
                    for profile in ("cw", "pulse"):
                        out.append(mk(axis, d, pol, profile))
                out.append(mk(axis, d, "obl", "pulse", per=tuple(tr)))
                out.append(mk(axis, d, "h", "cw", per=(tr[0],)))
                out.append(mk(axis, d, "v", "pulse", per=(tr[1],)))
                out.append(mk(axis, d, "obl", "cw", sw="delay"))
        return out
    # quick: 6 scenes; every run covers the three axes, both directions, the three polarisation classes, both profiles,
    # a transversely periodic slab, a half-periodic box and a delayed switch
    axes = [0, 1, 2]
    rng.shuffle(axes)
    d0 = rng.choice("+-")
    d1 = "-" if d0 == "+" else "+"
    pols = ["h", "v", "obl"]
    rng.shuffle(pols)
    out.append(mk(axes[0], "+", pols[0], "cw", sw="delay"))
    out.append(mk(axes[1], d1, pols[1], "pulse"))
    out.append(mk(axes[2], d0, pols[2], "pulse"))
    out.append(mk(axes[0], "-", "obl", "cw"))                       # finding X01-F1 shows here (direction '-', profile that starts at t = 0)
    a = axes[1]
    tr = [x for x in range(3) if x != a]
    out.append(mk(a, d0, rng.choice(["h", "v", "obl"]), "pulse", per=tuple(tr)))
    a = axes[2]
    tr = [x for x in range(3) if x != a]
    out.append(mk(a, d1, rng.choice(["h", "v"]), "pulse", per=(rng.choice(tr),)))
    seen, uniq = set(), []
    for c in out:
        if c["id"] not in seen:
            seen.add(c["id"])
            uniq.append(c)
    return uniq


def lin_cases(quick, rng):
    out = []
    combos = [("saf", 2), ("amp", 3), ("saf", -1)] if quick else [("saf", 2), ("saf", 3), ("saf", -1), ("amp", 2), ("amp", 3), ("amp", 4)]
    for i, (via, k) in enumerate(combos):
        axis = rng.randrange(3) if quick else i % 3
        out.append({"id": f"lin-{via}-{k}-{'xyz'[axis]}", "kind": "lin", "axis": axis, "dir": rng.choice("+-"), "pol": rng.choice(["h", "v", "obl"]),
                    "via": via, "k": k, "phi": math.radians(rng.uniform(20.0, 70.0))})
    return out


def gen_cases(ctx):
    rng = random.Random(ctx.seed)
    ctx.exhaustive = False
    return probe_cases(ctx.quick, rng) + leak_cases(ctx.quick, rng) + lin_cases(ctx.quick, rng)


# ------------------------------------------------------------------ scene construction (public pipeline)
def _base():
    import jax.numpy as jnp

    import fdtdx

    cfg0 = fdtdx.SimulationConfig(time=1e-15, grid=fdtdx.UniformGrid(spacing=RES), backend="cpu", dtype=jnp.float64)
    return cfg0.time_step_duration, cfg0.courant_number


def _vec(axis, pol, phi):
    from fdtdx.core.axis import get_oriented_transverse_axes

    h, v = get_oriented_transverse_axes(axis)
    out = [0.0, 0.0, 0.0]
    if pol == "h":
        out[h] = 1.0
    elif pol == "v":
        out[v] = 1.0
    else:
        out[h], out[v] = math.cos(phi), math.sin(phi)
    return tuple(out)


DELAY_PERIODS = 1.5


def _scene(axis, d, evec, box, gap, pml, T, temporal_profile, periodic=(), switch="on", saf=1.0, amp=1.0, detector=False):
    """volume = box + gap + pml on confined axes, box itself on periodic axes; returns placed objects, arrays, config"""
    import jax
    import jax.numpy as jnp

    import fdtdx

    dt, _ = _base()
    config = fdtdx.SimulationConfig(time=(T + 0.25) * dt, grid=fdtdx.UniformGrid(spacing=RES), backend="cpu", dtype=jnp.float64, gradient_config=None)
    assert config.time_steps_total == T, (config.time_steps_total, T)
    shape = tuple(box[a] if a in periodic else box[a] + 2 * gap + 2 * pml for a in range(3))
    vol = fdtdx.SimulationVolume(partial_grid_shape=shape)
    over = {f: "periodic" for f in FACES if "xyz".index(f[-1]) in periodic}
    bcfg = fdtdx.BoundaryConfig.from_uniform_bound(thickness=pml, override_types=over)
    bd, cl = fdtdx.boundary_objects_from_config(bcfg, vol)
    objs, cons = [vol] + list(bd.values()), list(cl)
    wc = fdtdx.WaveCharacter(wavelength=CPW * RES)
    kw = dict(name="src", partial_grid_shape=tuple(box), propagation_axis=axis, direction=d, wave_character=wc, temporal_profile=temporal_profile,
              fixed_E_polarization_vector=tuple(evec), periodic_axes=tuple(periodic), static_amplitude_factor=saf, amplitude=amp)
    if switch == "delay":
        kw["switch"] = fdtdx.OnOffSwitch(start_after_periods=DELAY_PERIODS, period=wc.get_period())
    elif switch == "off":      # switched on only after the probed step
        kw["switch"] = fdtdx.OnOffSwitch(start_after_periods=1000.0, period=wc.get_period())
    src = fdtdx.TFSFPlaneSourceRegion(**kw)
    lo = tuple(0 if a in periodic else pml + gap for a in range(3))
    cons.append(src.set_grid_coordinates(axes=(0, 1, 2), sides=("-", "-", "-"), coordinates=lo))
    objs.append(src)
    if detector:
        dshape = tuple(shape[a] if a in periodic else shape[a] - 2 * pml for a in range(3))
        det = fdtdx.EnergyDetector(name="u", dtype=jnp.float64, plot=False, partial_grid_shape=dshape)
        cons.append(det.set_grid_coordinates(axes=(0, 1, 2), sides=("-", "-", "-"), coordinates=tuple(0 if a in periodic else pml for a in range(3))))
        objs.append(det)
    key = jax.random.PRNGKey(0)
    obj, arrays, params, config, _ = fdtdx.place_objects(object_list=objs, config=config, constraints=cons, key=key)
    arrays, obj, _ = fdtdx.apply_params(arrays, obj, params, key)
    return obj, arrays, config


def _premises(obj, arrays, src, periodic):
    import numpy as np

    homogeneous = bool(np.all(np.asarray(arrays.inv_permittivities) == 1.0) and np.all(np.asarray(arrays.inv_permeabilities) == 1.0))
    normal = bool(src.azimuth_angle == 0.0 and src.elevation_angle == 0.0 and src.max_angle_random_offset == 0.0)
    wrap_ok = all(type(b).__name__ == "BlochBoundary" for b in obj.boundary_objects if b.axis in periodic) and \
        all(type(b).__name__ != "BlochBoundary" for b in obj.boundary_objects if b.axis not in periodic)
    return homogeneous, normal, bool(wrap_ok)


# ------------------------------------------------------------------ probe
def _decode(vals, S):
    """vals = clock2 / 2 + off2 / (2 S): unique small integers (S is irrational w.r.t. 1/2). Returns clock2, off2, residual (half steps)"""
    import numpy as np

    A = np.arange(0, 4 * PROBE_STEP + 8)[:, None]
    B = np.arange(-40, 41)[None, :]
    grid = A / 2.0 + B / (2.0 * S)
    c2, o2, res = [], [], []
    for v in vals:
        r = np.abs(grid - v)
        i, j = np.unravel_index(np.argmin(r), r.shape)
        c2.append(int(A[i, 0]))
        o2.append(int(B[0, j]))
        res.append(float(r[i, j]) * 2.0)
    return c2, o2, res


def observe_probe(case):
    import jax.numpy as jnp
    import numpy as np

    import fdtdx
    from fdtdx.fdtd.update import update_E, update_H

    dt, S = _base()
    axis, d, q = case["axis"], case["dir"], case["q"]
    periodic = tuple(case["periodic"])
    box = list(PROBE_BOX)
    tp = fdtdx.CustomTimeSignalProfile(signal=jnp.arange(0, 4 * M_RAMP, dtype=jnp.float64), time_step_duration=dt, start_time=-M_RAMP * dt)
    evec = [0.0, 0.0, 0.0]
    evec[q] = 1.0
    T = 120
    obj, arrays, config = _scene(axis, d, evec, box, gap=2, pml=2, T=T, temporal_profile=tp, periodic=periodic, switch=case["switch"], amp=2.0, saf=0.5)
    src = [o for o in obj.objects if o.name == "src"][0]
    homogeneous, normal, wrap_ok = _premises(obj, arrays, src, periodic)
    on = np.asarray(src._is_on_at_time_step_arr, dtype=bool)
    delay = int(np.argmax(on)) if on.any() else T
    n = PROBE_STEP + (delay if case["switch"] == "delay" else 0)
    is_on = bool(on[n])
    C = float(config.courant_number)
    assert float(np.abs(np.asarray(arrays.fields.E)).max()) == 0.0 and float(np.abs(np.asarray(arrays.fields.H)).max()) == 0.0
    outE = np.asarray(update_E(jnp.asarray(n), arrays, obj, config, simulate_boundaries=True).fields.E)
    outH = np.asarray(update_H(jnp.asarray(n), arrays, obj, config, simulate_boundaries=True).fields.H)
    entries, devmax = [], 0.0
    for fld, arr in (("E", outE), ("H", outH)):
        nz = np.argwhere(arr != 0.0)
        vals = [abs(arr[tuple(ix)]) / (C * 1.0) - M_RAMP for ix in nz]     # amplitude * static_amplitude_factor = 2 * 0.5 = 1
        c2, o2, res = _decode(vals, S)
        for ix, a, b, r in zip(nz, c2, o2, res):
            entries.append({"fld": fld, "comp": int(ix[0]), "idx": [int(ix[1]), int(ix[2]), int(ix[3])], "sgn": 1 if arr[tuple(ix)] > 0 else -1, "clock2": a, "off2": b})
            devmax = max(devmax, r)
    bx = src.grid_slice_tuple
    shape = [int(s) for s in outE.shape[1:]]
    return {"id": case["id"], "kind": "probe", "axis": axis, "dir": d, "q": q, "periodic": list(periodic), "switch": case["switch"],
            "lo": [int(bx[a][0]) for a in range(3)], "hi": [int(bx[a][1]) for a in range(3)], "shape": shape,
            "step": n, "delaySteps": delay, "on": is_on, "homogeneous": homogeneous, "normal": normal, "wrapOk": wrap_ok,
            "entries": entries, "devPpb": int(min(2_000_000_000, math.ceil(devmax * 1e9))), "tolPpb": TOL_DEC_PPB}


# ------------------------------------------------------------------ leak
BOX, GAP, PML, WPER, NPER = 16, 5, 8, 3, 10


def _profile(name):
    import fdtdx
    from fdtdx.constants import c as c0

    wl = CPW * RES
    if name == "cw":
        tp = fdtdx.SingleFrequencyProfile()
        assert tp.num_startup_periods == 4
        return tp
    return fdtdx.GaussianPulseProfile(spectral_width=fdtdx.WaveCharacter(frequency=(c0 / wl) / 4), center_wave=fdtdx.WaveCharacter(wavelength=wl))


def _ppb(x, cap=2_000_000_000):
    if not math.isfinite(x):
        return cap
    return int(min(cap, max(0, math.ceil(x))))


def observe_leak(case):
    import numpy as np

    import fdtdx

    dt, S = _base()
    axis, d = case["axis"], case["dir"]
    periodic = tuple(case["periodic"])
    psteps = CPW / S
    extra = DELAY_PERIODS if case["switch"] == "delay" else 0.0
    T = int(round((NPER + extra) * psteps))
    box = [WPER if a in periodic else BOX for a in range(3)]
    obj, arrays, config = _scene(axis, d, _vec(axis, case["pol"], case["phi"]), box, GAP, PML, T, _profile(case["profile"]), periodic=periodic,
                                 switch=case["switch"], detector=True)
    by = {o.name: o for o in obj.objects}
    src = by["src"]
    homogeneous, normal, wrap_ok = _premises(obj, arrays, src, periodic)
    on = np.asarray(src._is_on_at_time_step_arr, dtype=bool)
    delay = int(np.argmax(on))
    _, out = fdtdx.run_fdtd(arrays, obj, config, show_progress=False)
    u = np.asarray(out.detector_states["u"]["energy"], dtype=np.float64)
    assert u.shape[0] == T, (u.shape, T)
    bx, dl = src.grid_slice_tuple, by["u"].grid_slice_tuple
    shp = u.shape[1:]
    idx = np.indices(shp)
    inside = np.ones(shp, bool)
    outside = np.zeros(shp, bool)
    for a in range(3):
        if a in periodic:
            continue
        lo, hi = bx[a][0] - dl[a][0], bx[a][1] - dl[a][0]
        inside &= (idx[a] >= lo + 2) & (idx[a] < hi - 2)
        outside |= (idx[a] < lo - 2) | (idx[a] >= hi + 2)
    ui = u[:, inside].mean(1)
    uo = u[:, outside].mean(1)
    um = u[:, outside].max(1)
    peak = float(ui.max())
    ok = math.isfinite(peak) and peak > 0
    edges = sorted({min(T, delay + int(round(k * psteps))) for k in range(NPER + 1)} | {0, T})
    events = []
    for a, b in zip(edges[:-1], edges[1:]):
        events.append({"t0": a, "t1": b, "leakMean": _ppb(1e9 * float(uo[a:b].max()) / peak) if ok else 2_000_000_000,
                       "leakMax": _ppb(1e9 * float(um[a:b].max()) / peak) if ok else 2_000_000_000})
    return {"id": case["id"], "kind": "leak", "axis": axis, "dir": d, "pol": case["pol"], "profile": case["profile"], "periodic": list(periodic), "switch": case["switch"],
            "delaySteps": delay, "T": T, "startSteps": int(math.ceil(2 * psteps)), "cpwMilli": int(round(1000 * CPW * RES / config.uniform_spacing())),
            "boxCells": BOX, "homogeneous": homogeneous, "normal": normal, "wrapOk": wrap_ok, "insidePos": bool(ok),
            "insidePeakMilli": _ppb(1000 * peak) if ok else 0, "nInside": int(inside.sum()), "nOutside": int(outside.sum()), "events": events,
            "maxLeakMean": max(e["leakMean"] for e in events), "maxLeakMax": max(e["leakMax"] for e in events)}


# ------------------------------------------------------------------ linearity
def observe_lin(case):
    import numpy as np

    import fdtdx

    dt, S = _base()
    axis, d = case["axis"], case["dir"]
    periodic = tuple(a for a in range(3) if a != axis)
    T = int(round(5 * CPW / S))
    box = [WPER if a in periodic else BOX for a in range(3)]
    k = case["k"]
    runs = []
    for fac in (1, k):
        kw = {"saf": float(fac)} if case["via"] == "saf" else {"amp": float(fac)}
        obj, arrays, config = _scene(axis, d, _vec(axis, case["pol"], case["phi"]), box, GAP, PML, T, _profile("cw"), periodic=periodic, **kw)
        _, out = fdtdx.run_fdtd(arrays, obj, config, show_progress=False)
        runs.append(np.concatenate([np.asarray(out.fields.E, dtype=np.float64).ravel(), np.asarray(out.fields.H, dtype=np.float64).ravel()]))
    ref = float(np.abs(k * runs[0]).max())
    pos = math.isfinite(ref) and ref > 1e-3
    dev = float(np.abs(runs[1] - k * runs[0]).max()) / ref if pos else 1.0
    return {"id": case["id"], "kind": "lin", "axis": axis, "dir": d, "via": case["via"], "k": k, "refPos": bool(pos), "devPpt": _ppb(1e12 * dev), "T": T}


def observe(case):
    return {"probe": observe_probe, "leak": observe_leak, "lin": observe_lin}[case["kind"]](case)


def classify(rec, verdict):
    return "malformed" if verdict.startswith("malformed") else "violation"


def run(ctx):
    from lib.worker import pmap

    model_check(ctx)
    inputs = list(gen_cases(ctx))
    # simulations first (long), probes (eager ops, cheap once their array shapes are compiled) fill the pool behind them
    order = [c for c in inputs if c["kind"] != "probe"] + [c for c in inputs if c["kind"] == "probe"]
    got = {r["id"]: r for r in pmap(__name__, "observe", order, procs=PARALLEL, mode="thread")}
    recs = [got[c["id"]] for c in inputs]
    for r in (recs[0], [r for r in recs if r["kind"] == "leak"][0], [r for r in recs if r["kind"] == "lin"][0]):
        s = dict(r)
        if "entries" in s:
            s["entries"] = s["entries"][:6] + [f"... {len(r['entries'])} entries"]
        ctx.sample(s)
    ctx.nontrivial = len({json.dumps(c, sort_keys=True) for c in inputs})
    ctx.validate(*TRACE, recs, {c["id"]: c for c in inputs}, classify=classify, chunk=CHUNK)
    leaks = [r for r in recs if r["kind"] == "leak"]
    clean = [r for r in leaks if not (r["dir"] == "-" and r["profile"] == "cw")]
    ctx.extra_cov["observed_margins"] = {
        "leak_max_max_ppb": max([r["maxLeakMax"] for r in clean] or [0]), "leak_max_bound_ppb": 5500000,
        "leak_mean_max_ppb_by_wrap_axes": {str(w): max([r["maxLeakMean"] for r in clean if len(r["periodic"]) == w] or [0]) for w in (0, 1, 2)},
        "leak_mean_bound_ppb_by_wrap_axes": {"0": 300000, "1": 800000, "2": 2500000},
        "dir_minus_cw_leak_max_ppb": max([r["maxLeakMax"] for r in leaks if r not in clean] or [0]),
        "lin_dev_ppt": {r["id"]: r["devPpt"] for r in recs if r["kind"] == "lin"},
        "probe_decode_dev_ppb": max([r["devPpb"] for r in recs if r["kind"] == "probe"] or [0]),
    }
    ctx.extra_cov["scenes"] = [r["id"] for r in recs]
    ctx.notes += [f"records: {sum(r['kind'] == 'probe' for r in recs)} probes ({sum(len(r['entries']) for r in recs if r['kind'] == 'probe')} injected entries compared with the derived connecting condition), "
                  f"{len(leaks)} leak scenes, {sum(r['kind'] == 'lin' for r in recs)} linearity pairs",
                  "finding X01-F1: direction '-' uses the box LOWER corner as phase origin, so the incident wave is already inside the box at clock 0 (probe verdict 'causal', leak verdict 'quiet-start' for profiles that start at t = 0)"]
