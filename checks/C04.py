"""C04 - time-reversal gradients equal exact (checkpointed) autodiff gradients.
Spec: spec/Schedule.tla; trace spec: spec/Trace_Schedule.tla. Real runs through jax.vjp(run_fdtd) with hooks."""
import random

ID = "C04"
HOOKS = True
PARALLEL = 1  # hook events go to one global list: scenes must run one at a time
TRACE = ("Trace_Schedule", "Trace_Schedule.cfg")


def model_check(ctx):
    ctx.mc("Schedule", "MC_Schedule_q.cfg" if ctx.quick else "MC_Schedule_t.cfg", label="all T, reversible checkpoint counts, methods, partial runs")
    ctx.mc_negative("Schedule", "MC_Schedule_neg.cfg")
    ctx.assumptions += [
        "gradient oracle: JAX autodiff through the checkpointed while loop (trusted)",
        "gradients compared on cells outside every absorbing layer, relative to the largest oracle gradient entry; tolerance 1e-6",
        "loss = random linear + quadratic functional of all detector outputs (random cotangents)",
    ]


def _scenes(ctx):
    rng = random.Random(ctx.seed)
    per = {}
    pmlz = {"min_z": "pml", "max_z": "pml"}
    pmlall = {f: "pml" for f in ("min_x", "max_x", "min_y", "max_y", "min_z", "max_z")}
    mixed = {"min_x": "pec", "max_x": "pmc", "min_z": "pml", "max_z": "pml"}
    base = [
        ("periodic-energy", {"shape": [6, 6, 6], "T": 9, "bounds": per, "sources": [{"pos": [3, 3, 3], "pol": 0}, {"pos": [2, 3, 3], "pol": 1, "switch": {"interval": 2, "start_after_periods": 0.5, "period": 2.4e-15}}], "slab": {"lo": [0, 0, 2], "hi": [6, 6, 4], "eps": 2.0},
                             "detectors": [{"kind": "energy", "name": "en", "lo": [1, 1, 1], "hi": [5, 5, 5]}]}, [0, 1]),  # T=9,K=1: boundary 4.5 (round-half-even tie)
        ("pmlz-field", {"shape": [6, 6, 10], "T": 10, "bounds": pmlz, "pml": 3, "sources": [{"pos": [3, 3, 5], "pol": 1, "switch": {"fixed_on_time_steps": [2, 3, 5, 6, 8]}}, {"pos": [2, 2, 5], "pol": 0, "kind": "mdipole", "switch": {"interval": 3}}], "slab": {"lo": [0, 0, 4], "hi": [6, 6, 6], "eps": 3.0},
                        "detectors": [{"kind": "field", "name": "fd", "lo": [2, 2, 4], "hi": [4, 4, 7], "switch": {"interval": 2}}]}, [3]),  # T=10,K=3: boundaries 2.5, 5, 7.5 (ties)
        ("pmlall-poynting", {"shape": [9, 9, 9], "T": 10, "bounds": pmlall, "pml": 2, "sources": [{"pos": [4, 4, 4], "pol": 2}, {"pos": [3, 5, 4], "pol": 0, "kind": "mdipole"}],
                             "detectors": [{"kind": "poynting", "name": "pf", "lo": [3, 3, 6], "hi": [6, 6, 7], "axis": 2}]}, [0, 9]),
        ("mixed-walls", {"shape": [6, 6, 10], "T": 8, "bounds": mixed, "pml": 3, "sources": [{"pos": [3, 3, 5], "pol": 1}], "slab": {"lo": [1, 1, 4], "hi": [5, 5, 6], "eps": 2.5, "mu": 1.5},
                         "detectors": [{"kind": "energy", "name": "en", "lo": [1, 1, 3], "hi": [5, 5, 7]}]}, [1]),
        ("conductive-every-step", {"shape": [6, 6, 6], "T": 8, "bounds": per, "sources": [{"pos": [3, 3, 3], "pol": 0}], "slab": {"lo": [0, 0, 2], "hi": [6, 6, 4], "eps": 2.0, "mu": 1.5, "sigma": 2e3, "sigma_m": 3e5},  # electric AND magnetic loss
                                   "detectors": [{"kind": "energy", "name": "en", "lo": [1, 1, 1], "hi": [5, 5, 5]}]}, [7]),
    ]
    for name, sc, ks in base:
        for k in ks:
            yield {"id": f"{name}-K{k}", "scene": sc, "K": k, "wseed": rng.randrange(10**6)}
    if not ctx.quick:
        for n in range(24):
            T = rng.randint(5, 14)
            faces = ("min_x", "max_x", "min_y", "max_y", "min_z", "max_z")
            b = {}
            for ax in "xyz":
                kind = rng.choice(["periodic", "pml", "pml", "walls"])
                if kind == "pml":
                    b[f"min_{ax}"] = b[f"max_{ax}"] = "pml"
                elif kind == "walls":
                    b[f"min_{ax}"] = rng.choice(["pec", "pmc", "pml"])
                    b[f"max_{ax}"] = rng.choice(["pec", "pmc", "pml"])
            pml = rng.randint(2, 3)
            shp = [rng.randint(8, 10) for _ in range(3)]
            c = [s // 2 for s in shp]
            sigma = rng.choice([0.0, 0.0, 0.0, 1e3])
            dets = [{"kind": rng.choice(["energy", "field", "poynting"]), "name": "d0", "lo": [c[0] - 1, c[1] - 1, c[2]], "hi": [c[0] + 1, c[1] + 1, c[2] + 1], "axis": 2,
                     "switch": rng.choice([{}, {"interval": 2}, {"fixed_on_time_steps": sorted(rng.sample(range(T), 3))}])}]
            sc = {"shape": shp, "T": T, "bounds": b, "pml": pml, "sources": [{"pos": c, "pol": rng.randint(0, 2), "kind": rng.choice(["dipole", "mdipole"]),
                               "switch": rng.choice([{}, {}, {"interval": 2}, {"fixed_on_time_steps": sorted(rng.sample(range(T), 4))}, {"start_time": 0.0, "interval": 3}])}],
                  "slab": {"lo": [c[0] - 1, c[1] - 1, c[2] - 1], "hi": [c[0] + 1, c[1] + 1, c[2] + 1], "eps": rng.choice([1.5, 2.0, 4.0]), "mu": rng.choice([1.0, 1.0, 2.0]), "sigma": sigma, "sigma_m": (rng.choice([0.0, 2e5]) if sigma > 0 else 0.0)}, "detectors": dets}
            K = T - 1 if sigma > 0 else rng.choice([0, 1, 2, T - 1])
            yield {"id": f"rand{n}-K{K}", "scene": sc, "K": K, "wseed": rng.randrange(10**6)}


def gen_cases(ctx):
    return list(_scenes(ctx))


def _run_grad(arrays, obj, config, method, K, wseed):
    import jax
    import jax.numpy as jnp
    import numpy as np

    import fdtdx
    from fdtdx.fdtd.container import ArrayContainer, FieldState
    from harness import scenes as S
    from harness import sched as H

    a, c = S.attach_gradient(arrays, config, obj, method, num_checkpoints=3, num_checkpoints_reversible=K)
    rs = np.random.RandomState(wseed)
    wts = {dn: {k: jnp.asarray(rs.standard_normal(np.shape(v))) for k, v in sorted(d.items())} for dn, d in sorted(a.detector_states.items())}
    mu_is_array = isinstance(a.inv_permeabilities, jax.Array) and a.inv_permeabilities.ndim > 0

    def f(ie, imu):
        arrs = ArrayContainer(
            fields=FieldState(E=a.fields.E, H=a.fields.H, psi_E=a.fields.psi_E, psi_H=a.fields.psi_H),
            inv_permittivities=ie, inv_permeabilities=imu if mu_is_array else a.inv_permeabilities,
            detector_states=a.detector_states, recording_state=a.recording_state,
            electric_conductivity=a.electric_conductivity, magnetic_conductivity=a.magnetic_conductivity,
        )
        tt, out = fdtdx.run_fdtd(arrs, obj, c, show_progress=False)
        loss = 0.0
        for dn, d in sorted(out.detector_states.items()):
            for k, v in sorted(d.items()):
                v = jnp.real(v)
                scale = 1.0
                loss = loss + jnp.sum(wts[dn][k] * v) * scale + 0.5 * jnp.sum(v * v)
        return loss, (tt, out.fields.E, out.fields.H, out.detector_states)

    S.take_events()
    imu0 = a.inv_permeabilities if mu_is_array else jnp.zeros(())
    loss, vjp_fn, aux = jax.vjp(f, a.inv_permittivities, imu0, has_aux=True)
    jax.block_until_ready(loss)
    evp = S.take_events()
    g = vjp_fn(jnp.ones_like(loss))
    jax.block_until_ready(g)
    evr = S.take_events()
    tt, E, Hf, dst = aux
    end = H.ev(ev="run_end", t=int(tt), fpE=H.field_fp(E), fpH=H.field_fp(Hf), fpD=H.det_fp(dst))
    return dict(loss=float(loss), g_eps=np.asarray(g[0]), g_mu=np.asarray(g[1]) if mu_is_array else None, primal=evp, reverse=evr, end=end)


def observe(case):
    import numpy as np

    from harness import scenes as S
    from harness import sched as H

    sc = case["scene"]
    T, K = sc["T"], case["K"]
    obj, arrays, config = S.build_scene(sc)
    rev = _run_grad(arrays, obj, config, "reversible", K, case["wseed"])
    ck = _run_grad(arrays, obj, config, "checkpointed", 0, case["wseed"])
    mask = H.interior_mask(obj, tuple(sc["shape"]))
    errs = []
    for key in ("g_eps", "g_mu"):
        if rev[key] is None:
            continue
        gr, gc = rev[key], ck[key]
        m = np.broadcast_to(mask, gr.shape)
        if not (np.all(np.isfinite(gr[m])) and np.all(np.isfinite(gc[m]))):
            errs.append(2e9)
            continue
        den = float(np.max(np.abs(gc[m])))
        errs.append(0.0 if den == 0 and float(np.max(np.abs(gr[m]))) == 0 else float(np.max(np.abs(gr[m] - gc[m])) / max(den, 1e-300)))
    gerr = int(min(2e9, round(max(errs) * 1e9)))
    events = [H.ev(ev="run_start", kind="full", method="reversible", K=K)]
    events += [H.norm_hook(e) for e in rev["primal"]] + [rev["end"]]
    events += [H.norm_hook(e) for e in rev["reverse"]] + [H.ev(ev="grad_end", gerr=gerr)]
    events += [H.ev(ev="run_start", kind="full", method="checkpointed", K=0)]
    events += [H.norm_hook(e) for e in ck["primal"]] + [ck["end"]]
    events += [H.norm_hook(e) for e in ck["reverse"]] + [H.ev(ev="grad_end", gerr=0)]
    import jax

    jax.clear_caches()
    nz = bool(np.max(np.abs(ck["g_eps"])) > 0)
    no_pml = len(obj.pml_objects) == 0
    return H.finalize(case["id"], T, events, tol=50, gtol=1000, cmp_fp=no_pml, extra={"K": K, "grad_nonzero": nz, "gerr_ppb": gerr})


def classify(rec, verdict):
    return "malformed" if verdict.startswith("malformed") else "violation"
