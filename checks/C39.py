"""C39 - Material descriptions are normalised and classified consistently (fdtdx/materials.py).
Spec: spec/Materials.tla (+MaterialsDefs), trace spec: spec/Trace_Materials.tla.  DESIGN.md §5 C39.

Conformance: real fdtdx.Material objects are built from inputs in the four formats (the universe of Materials.tla
plus seeded random dyadic values), and what the real code stored / answered / listed is sent to TLC, which evaluates
the spec's Normalize / Represents / Tensor predicates / common-order predicate on it.  The complex-permittivity
round trip is numeric: the harness logs relative deviations (units of 1e-12), TLC checks the bound (trace-monitor)."""
import itertools
import math
import random

ID = "C39"
TRACE = ("Trace_Materials", "Trace_Materials.cfg")
CHUNK = 400
PARALLEL = 4
SCALE = 8  # every real number used in "dict" cases is a multiple of 1/8
PROPS = ("eps", "mu", "se", "sm")
KW = {"eps": "permittivity", "mu": "permeability", "se": "electric_conductivity", "sm": "magnetic_conductivity"}


def model_check(ctx):
    ctx.mc("Materials", "MC_Materials_q.cfg" if ctx.quick else "MC_Materials_t.cfg", workers=4,
           label="dictionaries of <=2 (quick) / <=3 (thorough) materials; every applicable input format of 11 permittivity tensors x permeability x conductivity at the first position (thorough: first two), 9-tuples behind it; every pair of inputs compared over the whole universe")
    ctx.mc_negative("Materials", "MC_Materials_neg.cfg", workers=2)   # nested tuple flattened column-major
    ctx.mc_negative("Materials", "MC_Materials_neg2.cfg", workers=2)  # every list sorted by its own key
    if not ctx.quick:
        ctx.mc_negative("Materials", "MC_Materials_neg3.cfg", workers=2)  # 3-tuple broadcast from its first entry
    ctx.assumptions += [
        "dictionary cases use floats that are multiples of 1/8 (exact as scaled integers; math.isclose then coincides with equality)",
        "entries are written as Python float / int, numpy float64 / float32 / int64 and mixed int-float wherever the code accepts them (all of them for scalars, 9-tuples, nested tuples; Python float / np.float64 for 3-tuples)",
        "3-tuples of int / np.float32 / np.int64 / mixed entries are rejected by the code with a ValueError: checked as 'raises loudly or normalises correctly'; lists and numpy arrays are silently broadcast as scalars (recorded as drift, see notes)",
        "complex-permittivity round trip is trace-monitored: deviations computed in float64 by the harness, bound 1e-9 relative checked by TLC",
    ]


# ------------------------------------------------------------------ inputs (mirror of Materials.tla)
def inputs_of(t):
    """all formats that can denote the 9-tuple t (integers, already scaled)"""
    out = [{"fmt": "flat9", "v": list(t)}, {"fmt": "nested", "v": [list(t[0:3]), list(t[3:6]), list(t[6:9])]}]
    if all(t[k] == 0 for k in (1, 2, 3, 5, 6, 7)):
        out.append({"fmt": "diag3", "v": [t[0], t[4], t[8]]})
        if t[0] == t[4] == t[8]:
            out.append({"fmt": "scalar", "v": [t[0]]})
    return out


def _universe():
    S = SCALE
    eps_t = [(a * S, 0, 0, 0, b * S, 0, 0, 0, c * S) for a in (1, 2) for b in (1, 2) for c in (1, 2)]
    for k in (1, 3, 6):
        t = [S, 0, 0, 0, S, 0, 0, 0, S]
        t[k] = S
        eps_t.append(tuple(t))
    eps = [i for t in eps_t for i in inputs_of(t)]
    mu = [{"fmt": "scalar", "v": [S]}, {"fmt": "scalar", "v": [2 * S]}, {"fmt": "diag3", "v": [S, 2 * S, S]}]
    se = [{"fmt": "scalar", "v": [0]}, {"fmt": "scalar", "v": [S]}]
    sm = [{"fmt": "scalar", "v": [0]}]
    return eps, mu, se, sm


def _rand_tensor(rng, positive):
    kind = rng.random()
    lo = 1 if positive else 0
    d = [rng.randint(lo, 40) for _ in range(3)]
    if kind < 0.3:
        d = [d[0]] * 3
    t = [d[0], 0, 0, 0, d[1], 0, 0, 0, d[2]]
    if kind > 0.7:
        for k in rng.sample((1, 2, 3, 5, 6, 7), rng.randint(1, 3)):
            t[k] = rng.randint(-8, 8)
    return tuple(t)


def _rand_input(rng, positive=False):
    return rng.choice(inputs_of(_rand_tensor(rng, positive)))


def gen_cases(ctx):
    rng = random.Random(ctx.seed)
    eps, mu, se, sm = _universe()
    single = [{"eps": e, "mu": u, "se": s, "sm": t} for e in eps for u in mu for s in se for t in sm]
    # A. every material of the spec's universe on its own
    for n, src in enumerate(single):
        yield {"id": f"one{n}", "kind": "dict", "mats": [{"name": "m1", "src": src, "disp": 0}]}
    # B. dictionaries from the spec's universe (pairs: all in thorough, seeded sample in quick; triples sampled)
    if ctx.quick:
        ctx.exhaustive = False
        pairs = [(rng.randrange(len(single)), rng.randrange(len(single))) for _ in range(250)]
    else:
        pairs = list(itertools.product(range(len(single)), repeat=2))
        rng.shuffle(pairs)
        pairs = pairs[:12000]
        ctx.exhaustive = False
    for n, (a, b) in enumerate(pairs):
        yield {"id": f"two{n}", "kind": "dict", "mats": [{"name": "m1", "src": single[a], "disp": 0}, {"name": "m2", "src": single[b], "disp": 0}]}
    for n in range(120 if ctx.quick else 3000):
        ks = [rng.randrange(len(single)) for _ in range(3)]
        yield {"id": f"three{n}", "kind": "dict", "mats": [{"name": f"m{j + 1}", "src": single[k], "disp": rng.choice((0, 0, j + 1))} for j, k in enumerate(ks)]}
    # C. random dyadic values, 1-5 materials, shuffled names, frequent ties in the sort key, some dispersive
    for n in range(200 if ctx.quick else 4000):
        k = rng.randint(1, 5)
        names = rng.sample(["air", "si", "sio2", "au", "poly", "x", "Z", "b2"], k)
        mats = []
        for j, nm in enumerate(names):
            if mats and rng.random() < 0.35:  # tie in the key: same leading components, different rest
                src = {p: dict(mats[-1]["src"][p]) for p in PROPS}
                src["sm"] = _rand_input(rng)
                if rng.random() < 0.5:
                    src["sm"] = {"fmt": "flat9", "v": [mats[-1]["m0"]] + [rng.randint(0, 9) for _ in range(8)]}
            else:
                src = {"eps": _rand_input(rng, True), "mu": _rand_input(rng, True), "se": _rand_input(rng), "sm": _rand_input(rng)}
            first = inputs_first(src["sm"])
            mats.append({"name": nm, "src": src, "disp": rng.choice((0, 0, j + 1)), "m0": first})
        for m in mats:
            m.pop("m0")
        yield {"id": f"rnd{n}", "kind": "dict", "mats": mats}
    # G. the same universe written in every ACCEPTED numeric representation (exhaustive), one property at a time
    n = 0
    for e in eps:
        for rep in ACCEPTED[e["fmt"]]:
            if rep == "float" or not rep_ok(e, rep):
                continue
            src = {"eps": dict(e, num=rep), "mu": mu[n % 3], "se": se[n % 2], "sm": sm[0]}
            if n % 4 == 1:   # ... and the other properties too
                src["mu"] = dict(src["mu"], num="np_f64" if src["mu"]["fmt"] == "diag3" else rep)
                src["se"] = dict(src["se"], num=rep)
            yield {"id": f"rep{n}", "kind": "dict", "mats": [{"name": "m1", "src": src, "disp": 0}]}
            n += 1
    # ... and random dictionaries whose members mix representations (whole-number tensors half of the time)
    for n in range(120 if ctx.quick else 3000):
        mats = []
        for j in range(rng.randint(1, 4)):
            src = {}
            for prop in PROPS:
                inp = _rand_input(rng, prop in ("eps", "mu"))
                if rng.random() < 0.5:
                    inp = rng.choice(inputs_of(tuple(x * SCALE for x in tensor_of(inp))))
                reps = [r for r in ACCEPTED[inp["fmt"]] if rep_ok(inp, r)]
                src[prop] = dict(inp, num=rng.choice(reps))
            mats.append({"name": f"r{j}", "src": src, "disp": rng.choice((0, 0, j + 1))})
        yield {"id": f"reprnd{n}", "kind": "dict", "mats": mats}
    # H. forms the code does NOT accept: they must be rejected loudly (or, should they ever be accepted, be normalised
    #    correctly).  Observations, never violations unless a numeric 9-tuple is stored that is not the tensor entered.
    n = 0
    for e in eps:
        if e["fmt"] != "diag3":
            continue
        for rep in ("int", "np_f32", "np_i64", "mixed"):
            yield {"id": f"form{n}", "kind": "form", "inp": dict(e, num=rep), "container": "tuple"}
            n += 1
    noniso = [x for x in eps if tensor_of(x)[0] != tensor_of(x)[8]]
    for fmt in ("diag3", "flat9", "nested"):
        e = next(x for x in noniso if x["fmt"] == fmt)
        for container in ("list", "ndarray"):
            yield {"id": f"form{n}", "kind": "form", "inp": dict(e, num="float"), "container": container}
            n += 1
    # D. complex permittivity round trip (trace-monitor)
    for n in range(150 if ctx.quick else 2000):
        ncomp = rng.choice((1, 3, 9, 9))
        comps = []
        for c in range(ncomp):
            diag = ncomp != 9 or c in (0, 4, 8)
            re = rng.uniform(1.0, 16.0) if diag else rng.uniform(-0.2, 0.2)
            im = rng.choice((0.0, rng.uniform(0.0, 5.0), rng.uniform(1e-6, 1e-2), -rng.uniform(0.0, 0.5)))
            comps.append([re, im])
        via = rng.choice(("frequency", "wavelength", "reference_wavelength", "reference_period", "reference_frequency"))
        lam = rng.uniform(0.3e-6, 12e-6)
        yield {"id": f"cplx{n}", "kind": "complex", "comps": comps, "nested": ncomp == 9 and rng.random() < 0.5, "via": via, "wavelength": lam}


def tensor_of(inp):
    """the 9-tuple an input denotes (only used to GENERATE the twin inputs; TLC re-checks SameTensor)"""
    v = inp["v"]
    if inp["fmt"] == "scalar":
        return (v[0], 0, 0, 0, v[0], 0, 0, 0, v[0])
    if inp["fmt"] == "diag3":
        return (v[0], 0, 0, 0, v[1], 0, 0, 0, v[2])
    if inp["fmt"] == "nested":
        return tuple(x for row in v for x in row)
    return tuple(v)


def inputs_first(inp):
    return inp["v"][0][0] if inp["fmt"] == "nested" else inp["v"][0]


# ------------------------------------------------------------------ running the real code
# numeric representations of the entries of an input (the claim does not depend on them; like the four formats they
# are just ways of writing the same tensor down).  Whole-number representations need whole values (v % SCALE == 0).
REPS = ("float", "int", "np_f64", "np_f32", "np_i64", "mixed")
# what the code accepts today: any representation for a scalar, a 9-tuple and a nested tuple; a 3-tuple only of Python
# floats (np.float64 is a subclass of float).  Everything else must at least be rejected loudly.
ACCEPTED = {"scalar": ("float", "int", "np_f64", "np_f32", "np_i64"), "diag3": ("float", "np_f64"),
            "flat9": REPS, "nested": REPS}


def _num(x, rep):
    import numpy as np

    f = x / float(SCALE)
    if rep == "float":
        return f
    if rep == "int":
        return int(x // SCALE)
    if rep == "np_f64":
        return np.float64(f)
    if rep == "np_f32":
        return np.float32(f)
    if rep == "np_i64":
        return np.int64(x // SCALE)
    if rep == "mixed":
        return int(x // SCALE) if x % SCALE == 0 else f
    raise ValueError(rep)


def rep_ok(inp, rep):
    """can the input be written in this representation at all (whole numbers for the integer ones)?"""
    flat = [x for row in inp["v"] for x in row] if inp["fmt"] == "nested" else inp["v"]
    return rep not in ("int", "np_i64") or all(x % SCALE == 0 for x in flat)


def _to_arg(inp, container="tuple"):
    import numpy as np

    rep = inp.get("num", "float")
    v = inp["v"]
    if inp["fmt"] == "scalar":
        return _num(v[0], rep)
    if inp["fmt"] == "nested":
        rows = [[_num(x, rep) for x in row] for row in v]
        if container == "ndarray":
            return np.asarray(rows, dtype=np.float64)
        return [list(r) for r in rows] if container == "list" else tuple(tuple(r) for r in rows)
    vals = [_num(x, rep) for x in v]
    if container == "ndarray":
        return np.asarray(vals, dtype=np.float64)
    return list(vals) if container == "list" else tuple(vals)


def _scaled(t):
    out, exact = [], True
    for x in t:
        y = float(x) * SCALE
        r = int(round(y))
        exact = exact and (r == y)
        out.append(r)
    return out, exact


def _material(src, disp):
    import warnings

    import fdtdx

    kw = {KW[p]: _to_arg(src[p]) for p in PROPS}
    if disp:
        from fdtdx.dispersion import DispersionModel, LorentzPole

        kw["dispersion"] = DispersionModel(poles=(LorentzPole(resonance_frequency=1e15 * disp, damping=1e13 * disp, delta_epsilon=0.5 + disp),))
    with warnings.catch_warnings():
        warnings.simplefilter("ignore")
        return fdtdx.Material(**kw)


def _observe_dict(case):
    import warnings

    import numpy as np
    from fdtdx import materials as M

    exact = True
    mats, objs = [], {}
    for spec in case["mats"]:
        mat = _material(spec["src"], spec["disp"])
        objs[spec["name"]] = mat
        stored = {}
        for p in PROPS:
            stored[p], ex = _scaled(getattr(mat, KW[p]))
            exact = exact and ex
        twins = []
        for p in PROPS:
            for alt in inputs_of(tensor_of(spec["src"][p])):
                if alt == spec["src"][p]:
                    continue
                src2 = dict(spec["src"])
                src2[p] = alt
                t, ex = _scaled(getattr(_material(src2, 0), KW[p]))
                exact = exact and ex
                twins.append({"p": p, "inp": alt, "t": t})
        preds = {
            "iso": {"eps": bool(mat.is_isotropic_permittivity), "mu": bool(mat.is_isotropic_permeability),
                    "se": bool(mat.is_isotropic_electric_conductivity), "sm": bool(mat.is_isotropic_magnetic_conductivity)},
            "diag": {"eps": bool(mat.is_diagonally_anisotropic_permittivity), "mu": bool(mat.is_diagonally_anisotropic_permeability),
                     "se": bool(mat.is_diagonally_anisotropic_electric_conductivity), "sm": bool(mat.is_diagonally_anisotropic_magnetic_conductivity)},
            "all_iso": bool(mat.is_all_isotropic), "all_diag": bool(mat.is_all_diagonally_anisotropic),
            "magnetic": bool(mat.is_magnetic), "e_cond": bool(mat.is_electrically_conductive), "m_cond": bool(mat.is_magnetically_conductive),
        }
        mats.append({"name": spec["name"], "src": spec["src"], "m": stored, "twins": twins, "preds": preds})
    names = list(M.compute_ordered_names(objs))
    ordered = M.compute_ordered_materials(objs)
    keys = list(objs)
    matidx = [next((i + 1 for i, k in enumerate(keys) if objs[k] is o), 0) for o in ordered]
    fns = {"eps": M.compute_allowed_permittivities, "mu": M.compute_allowed_permeabilities,
           "se": M.compute_allowed_electric_conductivities, "sm": M.compute_allowed_magnetic_conductivities}
    lists = {}
    for p in PROPS:
        lists[p] = {}
        for mode, kw in (("iso", {"isotropic": True}), ("diag", {"diagonally_anisotropic": True}), ("full", {})):
            rows = []
            for row in fns[p](objs, **kw):
                r, ex = _scaled(row)
                exact = exact and ex
                rows.append(r)
            lists[p][mode] = rows
    # dispersive coefficient table: which material does row r belong to?
    npoles = M.compute_max_dispersive_poles(objs)
    dt = 1e-17
    with warnings.catch_warnings():
        warnings.simplefilter("ignore")
        table = M.compute_allowed_dispersive_coefficients(objs, dt, npoles, 1)
        own = {k: M.compute_allowed_dispersive_coefficients({k: objs[k]}, dt, npoles, 1) for k in keys}
    disp = [[bool(all(np.array_equal(table[a][r], own[k][a][0]) for a in range(4))) for k in keys] for r in range(len(keys))]
    return {"id": case["id"], "kind": "dict", "scale": SCALE, "exact": bool(exact), "mats": mats, "names": names, "matidx": matidx, "lists": lists, "disp": disp}


def _observe_complex(case):
    import warnings

    import jax.numpy as jnp
    import numpy as np
    import fdtdx
    from fdtdx import constants
    from fdtdx.dispersion import effective_complex_inv_permittivity

    vals = [complex(re, im) for re, im in case["comps"]]
    lam = case["wavelength"]
    f = constants.c / lam
    kw = {}
    if case["via"] == "frequency":
        kw["frequency"] = f
        omega = 2.0 * math.pi * f
    elif case["via"] == "wavelength":
        kw["wavelength"] = lam
        omega = 2.0 * math.pi * (constants.c / lam)
    else:
        which = case["via"].split("_")[1]
        wc = fdtdx.WaveCharacter(**{which: {"wavelength": lam, "period": lam / constants.c, "frequency": f}[which]})
        kw["reference"] = wc
        omega = 2.0 * math.pi * wc.get_frequency()
    if len(vals) == 1:
        arg = vals[0]
    elif case.get("nested"):
        arg = (tuple(vals[0:3]), tuple(vals[3:6]), tuple(vals[6:9]))
    else:
        arg = tuple(vals)
    built, comps = True, []
    try:
        with warnings.catch_warnings():
            warnings.simplefilter("ignore")
            mat = fdtdx.Material.from_complex_permittivity(arg, **kw)
    except Exception:
        built = False
    if built:
        eps9, sig9 = mat.permittivity, mat.electric_conductivity
        idx = {1: (0,), 3: (0, 4, 8), 9: tuple(range(9))}[len(vals)]
        ref = max(abs(v) for v in vals)
        # the library's own evaluation of the complex permittivity at omega (diagonal entries; a unit conductivity spacing)
        inv = jnp.asarray([1.0 / eps9[0], 1.0 / eps9[4], 1.0 / eps9[8]], dtype=jnp.float64).reshape(3, 1)
        sg = jnp.asarray([sig9[0], sig9[4], sig9[8]], dtype=jnp.float64).reshape(3, 1)
        back_code = 1.0 / np.asarray(effective_complex_inv_permittivity(inv, omega, 1e-17, electric_conductivity=sg, conductivity_spacing=1.0))[:, 0]
        for v, k in zip(vals, idx):
            back = complex(eps9[k], sig9[k] / (omega * constants.eps0))
            scale_ref = abs(v) if abs(v) > 0 else ref
            dev = abs(back - v) / scale_ref
            dev_code = 0
            if k in (0, 4, 8) and (len(vals) < 9 or all(abs(vals[j]) == 0 for j in range(9) if j not in (0, 4, 8))):
                dev_code = abs(complex(back_code[k // 4]) - v) / scale_ref
            sgn = (sig9[k] > 0) - (sig9[k] < 0)
            comps.append({"re_in": int(round(v.real * 1e6)), "im_in": (v.imag > 0) - (v.imag < 0), "re_out": int(round(back.real * 1e6)),
                          "im_in_micro": int(round(v.imag * 1e6)), "im_out_micro": int(round(back.imag * 1e6)),
                          "re_exact": bool(eps9[k] == v.real), "dev": int(min(2 * 10**9, math.ceil(dev * 1e12))),
                          "dev_code": int(min(2 * 10**9, math.ceil(dev_code * 1e12))), "sigma_sign": int(sgn)})
    else:
        comps = [{"re_in": 0, "im_in": 0, "re_out": 0, "im_in_micro": 0, "im_out_micro": 0, "re_exact": False, "dev": 0, "dev_code": 0, "sigma_sign": 0} for _ in vals]
    return {"id": case["id"], "kind": "complex", "tol": 1000, "built": built, "via": case["via"], "comps": comps}


def _observe_form(case):
    import numbers
    import warnings

    import fdtdx

    inp = case["inp"]
    raised, numeric, t, err = False, False, [0] * 9, ""
    try:
        with warnings.catch_warnings():
            warnings.simplefilter("ignore")
            stored = fdtdx.Material(permittivity=_to_arg(inp, case["container"])).permittivity
        numeric = len(stored) == 9 and all(isinstance(x, numbers.Number) for x in stored)   # numpy scalars are Numbers, arrays/lists are not
        if numeric:
            t, exact = _scaled(stored)
            numeric = bool(exact)
            t = t if exact else [0] * 9
    except Exception as ex:
        raised, err = True, f"{type(ex).__name__}: {ex}"[:160]
    return {"id": case["id"], "kind": "form", "scale": SCALE, "inp": {"fmt": inp["fmt"], "v": inp["v"]}, "rep": inp.get("num", "float"),
            "container": case["container"], "raised": raised, "error": err, "numeric": numeric, "t": t}


def observe(case):
    if case["kind"] == "form":
        return _observe_form(case)
    return _observe_dict(case) if case["kind"] == "dict" else _observe_complex(case)


def classify(record, verdict):
    if verdict.startswith("malformed:"):
        return "malformed"
    if verdict.startswith(("documented order:", "other predicates:", "forms:")):
        return "drift"
    return "violation"
