"""C09 - Periodic and Bloch domains match their supercells.
Spec: spec/Supercell.tla (+SupercellDefs, RelNum); trace spec: spec/Trace_Supercell.tla.  DESIGN.md §5 C09.

Two real stepped runs per case (fdtdx.fdtd.forward.forward on scenes from place_objects/apply_params): N cells with
periodic/Bloch boundaries and m*N cells with the same boundary objects and bloch vector, materials tiled, initial
fields tiled with the Bloch phase per copy.  TLC evaluates the tile relation on the observed arrays of every step."""
import math
import random

ID = "C09"
TRACE = ("Trace_Supercell", "Trace_Supercell.cfg")
CHUNK = 6
PARALLEL = 4

RES = 50e-9
UNIT = {0: [1, 0, 1], 1: [0, 1, 1], 2: [-1, 0, 1], 3: [0, -1, 1]}
PYTH = [[3, 4, 5], [4, 3, 5], [-3, 4, 5], [3, -4, 5], [5, 12, 13], [-12, 5, 13], [12, -5, 13], [-4, -3, 5], [8, 15, 17], [-15, 8, 17]]
# sign of the wave-vector component k = atan2(pi, pr) / L: both signs are forced into every tier (see _case)
UNIT_POS, UNIT_NEG = [[0, 1, 1], [-1, 0, 1]], [[0, -1, 1]]
PYTH_POS, PYTH_NEG = [p for p in PYTH if p[1] > 0], [p for p in PYTH if p[1] < 0]


def model_check(ctx):
    ctx.mc("Supercell", "MC_Supercell_q.cfg" if ctx.quick else "MC_Supercell_t.cfg",
           label="1-D lattices N in {2,3} x m in {2,3} and 2x2 cells tiled 2x2 (thorough: up to 3 tiled axes), all unit phases per axis, basis states + dense state")
    ctx.mc_negative("Supercell", "MC_Supercell_neg.cfg")   # phase on the wrong ghost cell
    ctx.mc_negative("Supercell", "MC_Supercell_neg2.cfg")  # L computed from N-1 cells
    if not ctx.quick:
        ctx.mc_negative("Supercell", "MC_Supercell_neg3.cfg")  # conj dropped
        ctx.mc_negative("Supercell", "MC_Supercell_neg4.cfg")  # wrap order swapped
    ctx.assumptions += [
        "model: integer coefficients c*inv_eps in {1,2}, Gaussian-integer fields, unit phases (polynomial identity in the coefficients)",
        "conformance, exact cases: courant number 0.5, inv_eps in {1/2,1,2}, Gaussian-integer fields, phases in {1,i,-1,-i}: values*8^t are integers, tolerance 0 "
        "(observed rounding deviation bounded by 1e-11 of the largest value because exp(i*pi/2) is not exact in float64)",
        "conformance, generic cases: Pythagorean phases (a+ib)/c (k = atan2(b,a)/L, an irrational multiple of pi/L), random float materials and fields, "
        "tolerance 1e-11 of the largest field value",
        "non-tiled axes carry PEC / PMC / PML boundaries (m = 1 there)",
    ]


def _case(rng, cid, mode, naxes_tiled, walls, matmode, T, neg=False):
    """neg: the first tiled axis is a Bloch axis with a NEGATIVE wave-vector component (else a positive one)"""
    axes = [0, 1, 2]
    rng.shuffle(axes)
    tiled = sorted(axes[:naxes_tiled])
    forced = tiled[0]
    N, M, kinds, phi = [0, 0, 0], [1, 1, 1], ["", "", ""], [[1, 0, 1] for _ in range(3)]
    for a in range(3):
        if a in tiled:
            N[a] = rng.choice([2, 3])
            M[a] = rng.choice([2, 3])
            if a == forced:
                kinds[a] = "bloch"
                phi[a] = rng.choice((UNIT_NEG if neg else UNIT_POS) if mode == "exact" else (PYTH_NEG if neg else PYTH_POS))
            elif rng.random() < 0.6:
                kinds[a] = "bloch"
                phi[a] = UNIT[rng.choice([1, 2, 3, 1, 3])] if mode == "exact" else rng.choice(PYTH)
            else:
                kinds[a] = "periodic"
        else:
            w = rng.choice(walls)
            kinds[a] = w
            N[a] = 6 if w == "pml" else rng.choice([2, 3])
            if w == "periodic" and rng.random() < 0.5:
                kinds[a] = "bloch" if mode == "exact" else "periodic"
                phi[a] = UNIT[rng.choice([1, 2, 3])] if kinds[a] == "bloch" else [1, 0, 1]
    # Trace_Supercell clears denominators: copy j is compared through the multiplier prod_a den_a^j[a] (j[a] <= M[a]-1),
    # which must stay below 30000 (3-limb arithmetic inside TLC, WellFormed).  Replace the largest denominators by the
    # den-5 family (same sign of k) until it does; 5^(2+2+2) = 15625 always fits.
    def mult():
        m = 1
        for a in range(3):
            m *= phi[a][2] ** (M[a] - 1)
        return m

    while mult() >= 30000:
        a = max(range(3), key=lambda a: phi[a][2] ** (M[a] - 1))
        phi[a] = [3, 4, 5] if phi[a][1] > 0 else [3, -4, 5]
    assert mult() < 30000
    return {"id": cid, "mode": mode, "N": N, "M": M, "kinds": kinds, "phi": phi, "mat": matmode, "T": T, "seed": rng.randrange(10**9)}


def gen_cases(ctx):
    rng = random.Random(ctx.seed * 7919 + 9)
    ctx.exhaustive = False
    nq = 1 if ctx.quick else 6
    n = 0
    for rep in range(nq):
        for mode in ("exact", "float"):
            for nt, walls, mat in [(1, ["pec", "pmc"], "arr"), (1, ["periodic"], "arr"), (2, ["pec", "periodic"], "arr"), (1, ["pec", "pmc", "periodic"], "slab"),
                                   (2, ["pmc", "periodic"], "slab"), (3, ["pec"], "arr")]:
                n += 1
                neg = n % 2 == 0
                yield _case(rng, f"{mode}-{nt}ax-{mat}-{'kneg' if neg else 'kpos'}-{n}", mode, nt, walls, mat, 3 if mode == "exact" else 4, neg)
        n += 1
        yield _case(rng, f"float-1ax-pml-kpos-{n}", "float", 1, ["pml"], "arr", 4, False)
        n += 1
        yield _case(rng, f"float-2ax-pml-kneg-{n}", "float", 2, ["pml"], "slab", 3, True)


def _scene(case, big):
    N, M = case["N"], case["M"]
    shape = [N[a] * (M[a] if big else 1) for a in range(3)]
    bounds, kvec = {}, [0.0, 0.0, 0.0]
    for a, ax in enumerate("xyz"):
        bounds[f"min_{ax}"] = bounds[f"max_{ax}"] = case["kinds"][a]
        if case["kinds"][a] == "bloch":
            pr, pi, _ = case["phi"][a]
            kvec[a] = math.atan2(pi, pr) / (N[a] * RES)
    from harness.rel_scene import CF_HALF

    sc = {"shape": shape, "T": case["T"], "res": RES, "cf": CF_HALF, "bounds": bounds, "kvec": kvec, "pml": 2}
    if case["mat"] == "slab":
        rng = random.Random(case["seed"] + 1)
        lo = [rng.randrange(0, N[a]) for a in range(3)]
        hi = [rng.randrange(lo[a] + 1, N[a] + 1) for a in range(3)]
        if case["mode"] == "exact":
            eps = rng.choice([2.0, 0.5, [2.0, 1.0, 0.5], [0.5, 2.0, 2.0]])
        else:
            eps = rng.choice([2.25, [1.5, 2.75, 3.1], [2.2, 1.0, 1.7]])
        slabs = []
        reps = [range(M[a]) if big else range(1) for a in range(3)]
        for jx in reps[0]:
            for jy in reps[1]:
                for jz in reps[2]:
                    off = [jx * N[0], jy * N[1], jz * N[2]]
                    slabs.append({"lo": [l + o for l, o in zip(lo, off)], "hi": [h + o for h, o in zip(hi, off)], "eps": eps, "name": f"slab{jx}{jy}{jz}"})
        sc["slabs"] = slabs
    return sc


def observe(case):
    import jax.numpy as jnp
    import numpy as np

    from harness import rel_scene as RS

    N, M, T = case["N"], case["M"], case["T"]
    exact = case["mode"] == "exact"
    rng = np.random.default_rng(case["seed"])
    so, sa, scfg = RS.build(_scene(case, False))
    bo, ba, bcfg = RS.build(_scene(case, True))
    # The fields are complex whenever a requested phase is not 1, whatever dtype the library allocated: a Bloch
    # boundary with exp(i k L) != 1 that reports needs_complex_fields = False (real container, no ghost phase) is the
    # property being violated by the code, not a harness error - the run then shows up as a tile violation.
    need_cplx = any(list(p) != [1, 0, 1] for p in case["phi"])
    lib_cplx = bool(jnp.iscomplexobj(sa.fields.E)) and bool(jnp.iscomplexobj(ba.fields.E))
    cplx = need_cplx or lib_cplx
    assert tuple(ba.fields.E.shape[1:]) == tuple(N[a] * M[a] for a in range(3))
    shp = (3, *N)
    # ---- materials of the N-cell scene
    if case["mat"] == "arr":
        mcomp = int(rng.choice([1, 3]))
        if exact:
            inv_eps = rng.choice([0.5, 1.0, 2.0], size=(mcomp, *N))
        else:
            inv_eps = rng.uniform(0.3, 1.0, size=(mcomp, *N))
        sa = sa.aset("inv_permittivities", jnp.asarray(inv_eps))
        ba = ba.aset("inv_permittivities", jnp.asarray(np.tile(inv_eps, (1, *M))))
    mS, mB = np.asarray(sa.inv_permittivities), np.asarray(ba.inv_permittivities)
    mcomp = int(mS.shape[0])
    # ---- initial fields of the N-cell scene, tiled with the phase per copy
    def field0():
        if exact:
            f = rng.integers(-3, 4, size=shp).astype(np.float64) * (rng.random(shp) < 0.6)
            if cplx:
                f = f + 1j * rng.integers(-3, 4, size=shp) * (rng.random(shp) < 0.5)
        else:
            f = rng.normal(size=shp)
            if cplx:
                f = f + 1j * rng.normal(size=shp)
        return f

    ph = [complex(p[0], p[1]) / p[2] for p in case["phi"]]

    def tile(f):
        out = np.zeros((3, *[N[a] * M[a] for a in range(3)]), dtype=f.dtype)
        for jx in range(M[0]):
            for jy in range(M[1]):
                for jz in range(M[2]):
                    fac = ph[0] ** jx * ph[1] ** jy * ph[2] ** jz
                    if exact:  # unit phases: exact Gaussian rotation
                        fac = complex(round(fac.real), round(fac.imag))
                    blk = f * (fac if cplx else fac.real)
                    out[:, jx * N[0]:(jx + 1) * N[0], jy * N[1]:(jy + 1) * N[1], jz * N[2]:(jz + 1) * N[2]] = blk
        return out

    E0, H0 = field0(), field0()
    dt = jnp.complex128 if cplx else sa.fields.E.dtype
    sa = sa.aset("fields->E", jnp.asarray(E0, dtype=dt)).aset("fields->H", jnp.asarray(H0, dtype=dt))
    ba = ba.aset("fields->E", jnp.asarray(tile(E0), dtype=dt)).aset("fields->H", jnp.asarray(tile(H0), dtype=dt))
    sruns = [(0, sa)] + list(RS.step_forward(sa, so, scfg, T))
    bruns = [(0, ba)] + list(RS.step_forward(ba, bo, bcfg, T))
    obs = [(t, np.asarray(s.fields.E), np.asarray(s.fields.H), np.asarray(b.fields.E), np.asarray(b.fields.H)) for (t, s), (_, b) in zip(sruns, bruns)]
    if exact:
        scE = scH = None
        mscale = 4.0
    else:
        scE = RS.rel_scale(*[o[1] for o in obs], *[o[3] for o in obs])
        scH = RS.rel_scale(*[o[2] for o in obs], *[o[4] for o in obs])
        mscale = RS.rel_scale(mS)
    steps = []
    for t, sE, sH, bE, bH in obs:
        fe = 8.0**t if exact else scE
        fh = 8.0**t if exact else scH
        a1, d1 = RS.enc_cplx(sE, fe)
        a2, d2 = RS.enc_cplx(sH, fh)
        a3, d3 = RS.enc_cplx(bE, fe)
        a4, d4 = RS.enc_cplx(bH, fh)
        if exact:
            big = max(1.0, float(np.max(np.abs(sE))) * fe, float(np.max(np.abs(sH))) * fh)
            dev = max(d1, d2, d3, d4) / big
            dev = int(min(10**9, round(dev * 1e12))) if np.isfinite(dev) else 10**9
        else:
            dev = 0
        steps.append({"t": t, "dev": dev, "sE": a1, "sH": a2, "bE": a3, "bH": a4})
    encS, _ = RS.enc_real(mS, mscale)
    encB, _ = RS.enc_real(mB, mscale)
    return {"id": case["id"], "N": N, "M": M, "phi": case["phi"], "tol": 0 if exact else 10, "devtol": 10, "exact": exact, "mcomp": mcomp,
            "mS": encS, "mB": encB, "steps": steps, "kinds": "/".join(case["kinds"]), "complex": bool(cplx), "library_allocated_complex": lib_cplx,
            "kvec_signs": "".join("+" if p[1] > 0 or (p[1] == 0 and p[0] < 0) else "-" if p[1] < 0 else "0" for p in case["phi"])}


def classify(rec, verdict):
    return "malformed" if verdict.startswith("malformed") else "violation"
