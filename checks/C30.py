"""C30 - Recorded boundary data decompresses to what was recorded.
Spec: spec/Recorder.tla (+RecorderDefs), trace spec: spec/Trace_Recorder.tla.  DESIGN.md §5 C30."""
import random

ID = "C30"
TRACE = ("Trace_Recorder", "Trace_Recorder.cfg")
CHUNK = 150
PARALLEL = 5


def model_check(ctx):
    ctx.mc("Recorder", "MC_Recorder_q.cfg" if ctx.quick else "MC_Recorder_t.cfg", label="all (T,K,Start) triples x basis+quadratic histories")
    ctx.mc_negative("Recorder", "MC_Recorder_neg.cfg")
    ctx.assumptions += [
        "value histories are integer multiples of 840 so every interpolated value is an exact integer in float64",
        "narrowing dtype conversion is out of the property's claim and not exercised",
    ]


def gen_cases(ctx):
    rng = random.Random(ctx.seed)
    maxT, maxK = (12, 5) if ctx.quick else (40, 8)
    n = 0
    for T in range(1, maxT + 1):
        for k in range(1, maxK + 1):
            for start in range(0, T):
                # thorough enumerates every triple; quick thins large T (all T<=8 kept) deterministically by seed
                if ctx.quick and T > 8 and rng.random() > 0.5:
                    ctx.exhaustive = False
                    continue
                pipe = ["everyk"]
                r = rng.random()
                if r < 0.15:
                    pipe = ["f32->f64", "everyk"]
                elif r < 0.25:
                    pipe = ["everyk", "f32->f64"]
                elif r < 0.30:
                    pipe = ["c64->c128", "everyk"]
                n += 1
                yield {"id": f"T{T}k{k}s{start}-{'+'.join(pipe)}", "T": T, "k": k, "start": start, "pipe": pipe}
    # dtype-only pipelines (no time filter): k=1,start=0 in the rule
    for T in (1, 2, 5):
        for pipe in (["f32->f64"], ["c64->c128"], []):
            yield {"id": f"T{T}-dtypeonly-{'+'.join(pipe) or 'none'}", "T": T, "k": 1, "start": 0, "pipe": pipe}


def observe(case):
    import jax
    import jax.numpy as jnp
    import numpy as np
    from fdtdx.interfaces.modules import DtypeConversion
    from fdtdx.interfaces.recorder import Recorder
    from fdtdx.interfaces.time_filter import LinearReconstructEveryK

    T, k, start, pipe = case["T"], case["k"], case["start"], case["pipe"]
    nch = T + 1  # channel 1: quadratic history (never zero), channel 2+j: basis history e_j
    in_dtype = jnp.float64
    mods = []
    for p in pipe:
        if p == "everyk":
            mods.append(LinearReconstructEveryK(k=k, start_recording_after=start))
        elif p == "f32->f64":
            in_dtype = jnp.float32
            mods.append(DtypeConversion(dtype=jnp.float64))
        elif p == "c64->c128":
            in_dtype = jnp.complex64
            mods.append(DtypeConversion(dtype=jnp.complex128))
    hist = np.zeros((T, nch), dtype=np.int64)
    for u in range(T):
        hist[u, 0] = 840 * (u * u + 1)
        hist[u, 1 + u] = 840
    rec = Recorder(modules=mods)
    rec, state = rec.init_state({"x": jax.ShapeDtypeStruct((nch,), in_dtype)}, max_time_steps=T, backend="cpu")
    key = jax.random.PRNGKey(0)
    # compress/decompress are called with a traced time step inside the simulation loop: jit them the same way
    jc = jax.jit(lambda v, s, u: rec.compress({"x": v}, s, u, key))
    jd = jax.jit(lambda s, u: rec.decompress(s, u, key))
    events = []
    arr_size = int(state.data["x"].shape[0])
    cplx = jnp.issubdtype(in_dtype, jnp.complexfloating)
    for u in range(T):
        before = np.asarray(state.data["x"])
        v = jnp.asarray(hist[u], dtype=in_dtype)
        if cplx:
            v = v * (1 + 0j)
        state = jc(v, state, jnp.asarray(u, dtype=jnp.int32))
        after = np.asarray(state.data["x"])
        changed = [int(a) for a in range(arr_size) if not np.array_equal(before[a], after[a])]
        slot = -1 if not changed else (changed[0] if len(changed) == 1 else -2)
        events.append({"ev": "compress", "t": u, "slot": slot, "vals": [int(x) for x in hist[u]]})
    for u in range(T - 1, start - 1, -1):
        out, state = jd(state, jnp.asarray(u, dtype=jnp.int32))
        o = np.asarray(out["x"])
        dev = 0.0
        if np.iscomplexobj(o):
            dev = float(np.max(np.abs(o.imag)))
            o = o.real
        o = o.astype(np.float64)
        if not np.all(np.isfinite(o)):
            vals, devi = [-777777] * nch, 10**9
        else:
            r = np.rint(o)
            dev = max(dev, float(np.max(np.abs(o - r))))
            vals, devi = [int(x) for x in r], int(min(10**9, round(dev * 1e9 / float(np.max(np.abs(hist))))))
        same_dtype = out["x"].dtype == in_dtype
        events.append({"ev": "decompress", "t": u, "vals": vals, "dev": devi if same_dtype else 10**9})
    return {"id": case["id"], "T": T, "k": k, "start": start, "nch": nch, "array_size": arr_size, "tol": 300, "events": events, "pipe": "+".join(pipe)}
