"""C17 - Phasor detectors compute the windowed discrete Fourier transform.
Spec: spec/Phasor.tla (+PhasorDefs), trace spec: spec/Trace_Phasor.tla.  DESIGN.md §5 C17.

Conformance: really placed PhasorDetector / PhasorPoyntingFluxDetector / ClosedSurfacePhasorPoyntingFluxDetector
objects are driven through their real `update` with integer field histories at frequencies with
omega*dt = q*pi/2; every stored state and the returned fluxes go to TLC, which owns the DFT sum."""
import itertools
import random

ID = "C17"
TRACE = ("Trace_Phasor", "Trace_Phasor.cfg")
CHUNK = 60
PARALLEL = 4

ALL6 = ["Ex", "Ey", "Ez", "Hx", "Hy", "Hz"]


def model_check(ctx):
    ctx.mc(
        "Phasor",
        "MC_Phasor_q.cfg" if ctx.quick else "MC_Phasor_t.cfg",
        label="all on-lists of length T<=%d x stride 1..3 x mode x inverse x window table {none, ramp, hann} x q in 1..3 x impulse/cosine/quadratic histories"
        % (4 if ctx.quick else 7),
    )
    ctx.mc_negative("Phasor", "MC_Phasor_neg.cfg")  # window weight omitted, scale 2/sum(w) kept
    ctx.mc_negative("Phasor", "MC_Phasor_neg2.cfg")  # thinning by t % stride over all steps
    ctx.assumptions += [
        "frequencies with omega*dt = q*pi/2 (period 4*dt/q), q in 1..3, so exp(i*omega*t) is a power of i; float64 evaluates it to within 1e-15, results are rounded to integers and the relative deviation (ppb) is sent along (tol 1 ppb)",
        "window weights are multiples of 1/4 (none; a user-defined TemporalWindow table; TukeyWindow alpha 0 / 0.5 / 1 sampled where it is dyadic); their values are read from the window's own get_window and handed to the spec as a table that must be non-negative",
        "field histories are integer multiples of 4*sum(4w) so that the scaled phasor is an exact integer",
        "the base on-list comes from OnOffSwitch(fixed_on_time_steps=...); the switch rule itself is property C14",
        "update() is called exactly on the steps of the detector's own on-mask, as fdtd.update.update_detector_states does",
    ]


def gen_cases(ctx):
    rng = random.Random(ctx.seed)
    ctx.exhaustive = False
    n_cases = 100 if ctx.quick else 1500
    kinds = ["PhasorDetector"] * 4 + ["PhasorPoyntingFluxDetector"] * 3 + ["ClosedSurfacePhasorPoyntingFluxDetector"] * 3
    for k in range(n_cases):
        dk = kinds[k % len(kinds)]
        T = rng.randint(1, 8)
        r = rng.random()
        if r < 0.35:
            base = list(range(T))
        elif r < 0.6:
            a = rng.randrange(T)
            base = list(range(a, rng.randint(a, T - 1) + 1))
        else:
            base = [t for t in range(T) if rng.random() < 0.6] or [rng.randrange(T)]
        win = rng.choice(["none", "none", "table", "table", "tukey1", "tukey05", "tukey0"])
        case = {
            "id": f"k{k}-{dk}", "dk": dk, "T": T, "base": base, "stride_in": rng.choice([1, 1, 2, 3]),
            "mode": rng.choice(["continuous", "pulse"]), "inverse": rng.random() < 0.3,
            "q": rng.sample([1, 2, 3], rng.choice([1, 2])), "win": win,
            "table4": [rng.choice([0, 1, 2, 3, 4, 4]) for _ in range(T)],
            "grid": rng.choice(["uniform", "rect", "rect"]),
            "widths": [[rng.randint(1, 3) for _ in range(4)] for _ in range(3)],
            "seed": rng.randrange(1 << 30),
        }
        if dk == "PhasorDetector":
            comps = rng.sample(ALL6, rng.randint(1, 6))
            case.update({"components": comps, "n": [rng.randint(1, 2) for _ in range(3)]})
        elif dk == "PhasorPoyntingFluxDetector":
            ax = rng.randrange(3)
            n = [rng.randint(1, 2) for _ in range(3)]
            fixed = rng.random() < 0.3
            if not fixed:
                n = [max(2, v) for v in n]
                n[ax] = 1
            case.update({"n": n, "prop": ax, "fixed": fixed, "keep_all": rng.random() < 0.4, "direction": rng.choice("+-")})
        else:
            n = [rng.randint(1, 3) for _ in range(3)]
            if all(v == 1 for v in n):
                n[rng.randrange(3)] = 2
            axes = None if rng.random() < 0.7 else sorted(rng.sample([0, 1, 2], rng.randint(1, 3)))
            case.update({"n": n, "axes": axes, "orientation": rng.choice(["outward", "inward"])})
        case["lo"] = [rng.randint(0, 4 - v) for v in case["n"]]
        yield case


def _cint(a, scale=1.0):
    """complex/real array -> nested [re, im] (or plain) integer lists + deviation in ppb relative to the largest magnitude"""
    import numpy as np

    a = np.asarray(a) * scale
    if np.iscomplexobj(a):
        st = np.stack([a.real, a.imag], axis=-1)
    else:
        st = a.astype(np.float64)
    r = np.rint(st)
    mag = max(1.0, float(np.max(np.abs(st)))) if st.size else 1.0
    dev = float(np.max(np.abs(st - r))) / mag if st.size else 0.0
    return r.astype(np.int64).tolist(), int(min(10**9, round(dev * 1e9)))


def observe(case):
    import jax
    import jax.numpy as jnp
    import numpy as np
    import fdtdx
    from fdtdx.core.jax.pytrees import autoinit, frozen_field
    from fdtdx.core.switch import OnOffSwitch
    from fdtdx.core.window import TemporalWindow, TukeyWindow
    from fdtdx.objects.detectors.detector import Detector
    from fdtdx.objects.detectors.poynting_flux import ClosedSurfacePhasorPoyntingFluxDetector, PhasorPoyntingFluxDetector

    from loguru import logger

    logger.disable("fdtdx")  # aliasing warnings for strides 2,3 at omega*dt = q*pi/2 are expected here
    global _TABLE_WINDOW
    if "_TABLE_WINDOW" not in globals():

        @autoinit
        class TableWindow(TemporalWindow):
            """user-defined apodization: weight table4[k] / 4 at the k-th time step"""

            table4: tuple = frozen_field()
            dt: float = frozen_field()

            def get_window(self, time):
                idx = jnp.clip(jnp.rint(time / self.dt).astype(jnp.int32), 0, len(self.table4) - 1)
                return jnp.asarray(self.table4, dtype=jnp.float64)[idx] / 4.0

        _TABLE_WINDOW = TableWindow

    rng = np.random.default_rng(case["seed"])
    T, n, lo, dk = case["T"], case["n"], case["lo"], case["dk"]
    cf = 0.5 * 3**0.5
    if case["grid"] == "uniform":
        grid = fdtdx.UniformGrid(spacing=1.0)
        widths_full = [[1] * 4 for _ in range(3)]
    else:
        widths_full = case["widths"]
        edges = [np.concatenate([[0.0], np.cumsum(w)]).astype(np.float64) for w in widths_full]
        grid = fdtdx.RectilinearGrid(x_edges=jnp.asarray(edges[0]), y_edges=jnp.asarray(edges[1]), z_edges=jnp.asarray(edges[2]))
    cfg0 = fdtdx.SimulationConfig(time=1.0, grid=grid, backend="cpu", dtype=jnp.float64, courant_factor=cf)
    dt = cfg0.time_step_duration
    cfg = fdtdx.SimulationConfig(time=T * dt, grid=grid, backend="cpu", dtype=jnp.float64, courant_factor=cf)
    assert cfg.time_steps_total == T
    wcs = tuple(fdtdx.WaveCharacter(period=4.0 * dt / q) for q in case["q"])
    if case["win"] == "none":
        apod = None
    elif case["win"] == "table":
        apod = _TABLE_WINDOW(table4=tuple(case["table4"]), dt=dt)
    else:
        alpha = {"tukey1": 1.0, "tukey05": 0.5, "tukey0": 0.0}[case["win"]]
        m = 8 if alpha == 0.5 else 4
        apod = TukeyWindow(start_time=0.0, end_time=m * dt, alpha=alpha)
    common = dict(
        name="d", dtype=jnp.complex128, wave_characters=wcs, scaling_mode=case["mode"], dft_subsample=case["stride_in"],
        apodization=apod, inverse=case["inverse"], switch=OnOffSwitch(fixed_on_time_steps=list(case["base"])),
    )
    comps = ALL6
    if dk == "PhasorDetector":
        comps = list(case["components"])
        det = fdtdx.PhasorDetector(components=tuple(comps), **common)
    elif dk == "PhasorPoyntingFluxDetector":
        det = PhasorPoyntingFluxDetector(
            direction=case["direction"], keep_all_components=case["keep_all"],
            fixed_propagation_axis=(case["prop"] if case["fixed"] else None), **common)
    else:
        det = ClosedSurfacePhasorPoyntingFluxDetector(orientation=case["orientation"], axes=(tuple(case["axes"]) if case["axes"] is not None else None), **common)

    gs = tuple((lo[a], lo[a] + n[a]) for a in range(3))
    rec = {
        "id": case["id"], "dk": dk, "T": T, "base": [t in case["base"] for t in range(T)], "stride_in": case["stride_in"],
        "mode": case["mode"], "inverse": bool(case["inverse"]), "q": list(case["q"]), "components": comps, "n": list(n),
        "widths": [widths_full[a][lo[a]: lo[a] + n[a]] for a in range(3)], "tol": 1, "win": case["win"],
        "flux": {"kind": "none", "axes": [], "sign": 1, "vals2": [], "dev": 0},
    }
    time = jnp.arange(T) * dt
    wfun = np.ones(T) if apod is None else np.asarray(apod.get_window(time), dtype=np.float64)
    win4, wdev = _cint(wfun, 4.0)
    rec.update({"win4": win4, "wdev": wdev, "refused": False, "stride": max(1, case["stride_in"]), "kept": [False] * T, "dw4": [0] * T,
                "wsum4": 0, "F": [], "blocks": [], "events": []})
    try:
        det = det.place_on_grid(gs, cfg, jax.random.PRNGKey(0))
    except Exception as e:  # the documented refusal: window sums to <= 0 over the recorded steps
        if "sums to" in str(e):
            rec["refused"] = True  # the spec decides whether the refusal was due (sum over the recorded steps <= 0)
            return rec
        raise
    dw4, wdev2 = _cint(np.asarray(det._window_at_time_step_arr, dtype=np.float64), 4.0)
    wsum4, wdev3 = _cint(np.asarray([det._window_sum]), 4.0)
    kept = [bool(v) for v in np.asarray(det._is_on_at_time_step_arr)]
    rec.update({"kept": kept, "stride": int(det._dft_stride), "dw4": dw4, "wsum4": wsum4[0], "wdev": max(wdev, wdev2, wdev3)})
    # the base on-list as the detector's switch sees it (Detector._calculate_on_list, before thinning)
    rec["base"] = [bool(v) for v in Detector._calculate_on_list(det)]

    K = 4 * max(1, wsum4[0])
    F = rng.integers(1, 6, size=(T, 6, *n)) * rng.choice([-1, 1], size=(T, 6, *n)) * K
    rec["F"] = F.tolist()
    state = det.init_state()
    if dk == "ClosedSurfacePhasorPoyntingFluxDetector":
        active = det._resolve_active_axes()
        keys, blocks = [], []
        for a in active:
            for side in ("min", "max"):
                keys.append(f"phasor_axis{a}_{side}")
                blo, bn = [0, 0, 0], list(n)
                bn[a] = 1
                blo[a] = 0 if side == "min" else n[a] - 1
                blocks.append({"lo": blo, "n": bn})
    else:
        keys, blocks = ["phasor"], [{"lo": [0, 0, 0], "n": list(n)}]
    rec["blocks"] = blocks
    events = []
    upd = jax.jit(lambda t, E, H, st: det.update(t, E, H, st, jnp.ones((3, *n)), 1.0))
    for t in range(T):
        if not kept[t]:
            continue
        Ft = jnp.asarray(F[t], dtype=jnp.float64)
        state = upd(jnp.asarray(t, dtype=jnp.int32), Ft[:3], Ft[3:], state)
        sts, dev = [], 0
        for kname in keys:
            li, dv = _cint(np.asarray(state[kname])[0])
            sts.append(li)
            dev = max(dev, dv)
        events.append({"t": t, "st": sts, "dev": dev})
    rec["events"] = events

    if dk == "PhasorPoyntingFluxDetector":
        fl = np.asarray(det.compute_poynting_flux(state), dtype=np.float64)
        fl = fl.reshape((len(case["q"]), -1))
        v2, dv = _cint(fl, 2.0)
        rec["flux"] = {"kind": "plane", "axes": [0, 1, 2] if case["keep_all"] else [int(det.propagation_axis)],
                       "sign": -1 if case["direction"] == "-" else 1, "vals2": v2, "dev": dv}
    elif dk == "ClosedSurfacePhasorPoyntingFluxDetector":
        fl = np.asarray(det.compute_net_flux(state), dtype=np.float64).reshape((len(case["q"]), 1))
        v2, dv = _cint(fl, 2.0)
        rec["flux"] = {"kind": "closed", "axes": [int(a) for a in det._resolve_active_axes()],
                       "sign": -1 if case["orientation"] == "inward" else 1, "vals2": v2, "dev": dv}
    # fact for triage / known-finding matching: the configuration of DESIGN.md §8 item 7
    rec["closed_surface_with_window"] = bool(dk == "ClosedSurfacePhasorPoyntingFluxDetector" and any(dw4[t] != 4 for t in range(T) if kept[t]))
    return rec


def classify(record, verdict):
    if verdict.startswith("malformed:"):
        return "malformed"
    return "violation"
