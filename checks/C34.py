"""C34 - Symmetric placement keeps the upper half and clips objects consistently.
Spec: spec/SymPlace.tla (+SymPlaceDefs), trace spec: spec/Trace_SymPlace.tla.  DESIGN.md §5 C34.

Scenes go through the public fdtdx.place_objects with SimulationConfig(symmetry=...); the record holds
what came back (error kind, reduced volume, placed and unreduced slices, walls) as integers; TLC decides."""
import itertools
import random

ID = "C34"
TRACE = ("Trace_SymPlace", "Trace_SymPlace.cfg")
CHUNK = 60
PARALLEL = 5


def model_check(ctx):
    ctx.mc("SymPlace", "MC_SymPlace_q.cfg" if ctx.quick else "MC_SymPlace_t.cfg", workers=6,
           label="x axis 1..6 (thorough 1..8) cells, y/z in {2,3} ({2,3,4}); all intervals, all 27 symmetry tuples")
    ctx.mc_negative("SymPlace", "MC_SymPlace_neg.cfg", workers=4)
    ctx.assumptions += [
        "the volume's full-domain slice starts at 0 on every axis (always so in place_objects); object boxes are pinned with grid coordinates so the requested box is the full-domain slice",
        "scenes whose reduced volume would be 1x1x1 are skipped: fdtdx cannot allocate a one-cell volume with or without symmetry (create_named_sharded_matrix), which is outside C34",
        "objects are UniformMaterialObject and EnergyDetector boxes (no per-class placement validation); uniform grid",
    ]


def _intervals(n):
    return [(s, e) for s in range(n) for e in range(s + 1, n + 1)]


def _red(n, k):
    return n if k == 0 else n - n // 2


def _scene(cid, dims, sym, boxes):
    return {"id": cid, "dims": list(dims), "sym": list(sym), "boxes": [[list(iv) for iv in b] for b in boxes]}


def gen_cases(ctx):
    rng = random.Random(ctx.seed)
    others = [((4, 2), (0, 0)), ((2, 4), (-1, 1)), ((4, 4), (1, -1)), ((2, 3), (1, 0)), ((3, 2), (0, -1)), ((6, 2), (-1, -1))]
    nmax = 6 if ctx.quick else 8
    n = 0
    # A. per-axis sweep: every size, every symmetry kind, every interval on the swept axis
    for a in range(3):
        for na in range(1, nmax + 1):
            for k in (-1, 0, 1):
                (n1, n2), (k1, k2) = others[n % len(others)]
                n += 1
                dims, sym = [n1, n2], [k1, k2]
                dims.insert(a, na)
                sym.insert(a, k)
                if all(_red(d, s) == 1 for d, s in zip(dims, sym)) and not (k != 0 and na % 2):
                    dims[(a + 1) % 3] = 4
                ivs = [_intervals(d) for d in dims]
                boxes = []
                for j, iv in enumerate(ivs[a]):
                    b = [ivs[x][(j * 3 + x) % len(ivs[x])] for x in range(3)]
                    b[a] = iv
                    boxes.append(b)
                yield _scene(f"sweep-a{a}-n{na}-k{k}", dims, sym, boxes)
    # B. all 27 symmetry tuples with seeded random sizes and boxes
    ctx.exhaustive = False
    rounds = 2 if ctx.quick else 12
    for r in range(rounds):
        for sym in itertools.product((-1, 0, 1), repeat=3):
            pool = [2, 4, 6, 2, 4, 6, 3, 5] if r % 2 == 0 else [2, 3, 4, 5, 6, 8]
            dims = [rng.choice(pool) for _ in range(3)]
            if all(_red(d, s) == 1 for d, s in zip(dims, sym)):
                dims[rng.randrange(3)] = 4
            boxes = [[rng.choice(_intervals(d)) for d in dims] for _ in range(6)]
            yield _scene(f"mixed-{r}-" + "".join("mzp"[s + 1] for s in sym) + "-" + "x".join(map(str, dims)), dims, sym, boxes)


def observe(case):
    import jax.numpy as jnp
    import fdtdx

    dims, sym, boxes = case["dims"], case["sym"], case["boxes"]
    cfg = fdtdx.SimulationConfig(time=20e-15, grid=fdtdx.UniformGrid(spacing=50e-9), dtype=jnp.float64, symmetry=tuple(sym))
    vol = fdtdx.SimulationVolume(name="vol", partial_grid_shape=tuple(dims), material=fdtdx.Material(permittivity=1.0))
    objs, cons, names = [vol], [], []
    for i, b in enumerate(boxes):
        shape = tuple(e - s for s, e in b)
        if i % 2 == 0:
            o = fdtdx.UniformMaterialObject(name=f"o{i}", partial_grid_shape=shape, material=fdtdx.Material(permittivity=2.0))
        else:
            o = fdtdx.EnergyDetector(name=f"o{i}", partial_grid_shape=shape)
        objs.append(o)
        names.append(o.name)
        cons.append(o.set_grid_coordinates(axes=(0, 1, 2), sides=("-", "-", "-"), coordinates=tuple(s for s, _ in b)))
    rec = {"id": case["id"], "dims": dims, "sym": sym, "err": "none", "errmsg": "", "vol": [], "vol_unred": [], "arr_shape": [],
           "objs": [{"name": nm, "box": b, "present": False, "red": [], "unred": []} for nm, b in zip(names, boxes)], "walls": [], "npmc": 0}
    try:
        oc, arrays, _, cfg2, _ = fdtdx.place_objects(objs, cfg, cons)
    except ValueError as e:
        msg = str(e)
        rec["err"] = "odd" if "even number of cells" in msg and "symmetr" in msg else "other"
        rec["errmsg"] = msg[:200]
        return rec
    except Exception as e:  # noqa: BLE001 - any other exception is an observation, judged by the trace spec
        rec["err"] = "other"
        rec["errmsg"] = f"{type(e).__name__}: {e}"[:200]
        return rec

    def tl(t):
        return [[int(a), int(b)] for a, b in t]

    by = {o.name: o for o in oc.objects}
    rec["vol"] = tl(oc.volume.grid_slice_tuple)
    rec["vol_unred"] = tl(oc.volume.unreduced_grid_slice_tuple)
    rec["arr_shape"] = [int(x) for x in arrays.fields.E.shape[1:]]
    for r in rec["objs"]:
        o = by.get(r["name"])
        if o is not None:
            r.update(present=True, red=tl(o.grid_slice_tuple), unred=tl(o.unreduced_grid_slice_tuple))
    rec["walls"] = [{"axis": int(w.axis) + 1, "dir": str(w.direction), "slice": tl(w.grid_slice_tuple), "name": w.name} for w in oc.pec_objects]
    rec["npmc"] = len(oc.pmc_objects)
    return rec


def classify(record, verdict):
    if verdict.startswith("malformed:"):
        return "malformed"
    if verdict.startswith("model:"):
        return "drift"
    return "violation"


def run(ctx):
    from lib.worker import pmap

    model_check(ctx)
    inputs = list(gen_cases(ctx))
    recs = pmap(__name__, "observe", inputs, procs=PARALLEL, mode="thread")
    for r in recs[:2]:
        ctx.sample(r)
    objs = [o for r in recs if r["err"] == "none" for o in r["objs"]]
    ctx.extra_cov["scenes_rejected_for_odd_cell_count"] = sum(1 for r in recs if r["err"] == "odd")
    ctx.extra_cov["scenes_other_error"] = sum(1 for r in recs if r["err"] == "other")
    ctx.extra_cov["objects_dropped"] = sum(1 for o in objs if not o["present"])
    ctx.extra_cov["objects_clipped"] = sum(1 for o in objs if o["present"] and o["red"] != o["unred"])
    ctx.extra_cov["objects_kept_unclipped"] = sum(1 for o in objs if o["present"] and o["red"] == o["unred"])
    ctx.extra_cov["pec_walls_observed"] = sum(len(r["walls"]) for r in recs)
    ctx.nontrivial = len(objs) + ctx.extra_cov["scenes_rejected_for_odd_cell_count"]
    ctx.validate(*TRACE, recs, {c["id"]: c for c in inputs}, classify=classify, chunk=CHUNK)
