"""C15 - Detectors record the co-located fields of their region.
Spec: spec/Colocate.tla (+ColocateDefs), trace spec: spec/Trace_Colocate.tla.  DESIGN.md §5 C15.

Conformance: tiny scenes are built through the PUBLIC pipeline (place_objects -> apply_params) with real FieldDetectors
(all six components, exact_interpolation on/off, some only active at the second step) at every box position of the
volume; the REAL recording path runs on integer fields
  mode "step"    fdtdx.fdtd.forward.forward(record_detectors=True) for two steps (uniform grid, courant number exactly 1/2:
                 all fields stay dyadic), the harness logs H before and E, H after each step
  mode "direct"  fdtdx.fdtd.update.update_detector_states on integer E, H, H_prev (non-uniform RectilinearGrid with cell
                 widths in {1,2,3} where a step would leave the dyadic numbers; PML scenes)
and TLC evaluates the definitional co-location formula on the logged arrays and compares it with what the detectors stored."""
import itertools
import os
import random

ID = "C15"
TRACE = ("Trace_Colocate", "Trace_Colocate.cfg")
CHUNK = 3
PARALLEL = 4

FACES = ("min_x", "max_x", "min_y", "max_y", "min_z", "max_z")
RS = 16          # stored records are sent as RS * fs * value
LCM = 3600       # lcm of all products (w_i + w_{i-1}) (w_j + w_{j-1}) with widths in {1,2,3}: direct-mode fields are multiples
T = 2


def model_check(ctx):
    if os.environ.get("C15_SKIP_MC"):  # mutation self-tests only exercise the conformance stage
        ctx.notes.append("model checking skipped (C15_SKIP_MC)")
        return
    if ctx.quick:
        ctx.mc("Colocate", "MC_Colocate_q.cfg",
               label="4x3x3 lattice: all 360 boxes x exact on/off, 6 halo configurations (zero, wrap, electric/magnetic planes, far side periodic), uniform + stretched widths, 1 generic integer field")
    else:
        ctx.mc("Colocate", "MC_Colocate_t.cfg",
               label="4x3x3 lattice: all 360 boxes x exact on/off, ALL 216 per-axis (wrap, symmetry) configurations, uniform + stretched widths, generic field")
        ctx.mc("Colocate", "MC_Colocate_t2.cfg",
               label="4x3x3 lattice: all 360 boxes x exact on/off, 6 halo configurations, 3 width patterns, 4 Step-separated field states (generic + single-component labelled)")
    ctx.mc_negative("Colocate", "MC_Colocate_neg.cfg")   # is_interior accepts e = N
    ctx.mc_negative("Colocate", "MC_Colocate_neg2.cfg")  # block path forgets to slice the widths
    ctx.mc_negative("Colocate", "MC_Colocate_neg3.cfg")  # mirror source index 1 <-> 2
    ctx.assumptions += [
        "halo kinds are derived from the scene inputs: periodic face -> wrap; PEC/PMC/PML face -> zero; config.symmetry -1 -> mirror on the min side, +1 -> zero on the min side; Bloch phases (complex fields) are not exercised",
        "the cell behind edge 0 is given the width of cell 0 on every boundary kind (the library's convention, shared with its curl metric); on a periodic non-uniform axis the physically neighbouring cell is the last one - the property text does not fix this and the spec follows the library",
        "exactness: step mode uses courant_factor = sqrt(3)/2 (courant number exactly 1/2) and integer initial fields on a uniform grid, so E, H after two steps are multiples of 1/16; direct mode uses integer fields that are multiples of 3600 on grids with widths in {1,2,3}: every stored value times 16 is an integer and the comparison is exact (dev must be 0)",
        "only FieldDetector (all six components, reduce_volume=False) is observed; what other detectors do with the co-located fields is C16/C17",
        "a mirror axis has at least two cells (the on-plane mirror partner is cell 1)",
    ]


# ---------------------------------------------------------------------------------------------- cases
def _intervals(n):
    return [(s, e) for s in range(n) for e in range(s + 1, n + 1)]


def _all_boxes(N):
    return [list(map(list, b)) for b in itertools.product(*(_intervals(n) for n in N))]


def _cls(iv, n):
    return (iv[0] == 0) * 1 + (iv[1] == n) * 2  # 0 interior, 1 touches min, 2 touches max, 3 both


def _class_boxes(N, rng):
    """one box for every combination of per-axis contact classes (4^3 = 64): every edge and corner contact"""
    out = []
    for cl in itertools.product(range(4), repeat=3):
        box = []
        for a in range(3):
            cands = [iv for iv in _intervals(N[a]) if _cls(iv, N[a]) == cl[a]]
            if not cands:
                break
            box.append(list(rng.choice(cands)))
        if len(box) == 3:
            out.append(box)
    return out


SCENES = {
    # name: (reduced shape, symmetry, bounds, widths of the REDUCED domain or None, mode)
    "per": ((4, 3, 3), (0, 0, 0), {}, None, "step"),
    "pecpmc": ((4, 3, 3), (0, 0, 0), {"min_x": "pec", "max_x": "pec", "min_y": "pmc", "max_y": "pmc"}, None, "step"),
    "pmcpec": ((3, 4, 3), (0, 0, 0), {"min_y": "pec", "max_y": "pmc", "min_z": "pmc", "max_z": "pec"}, None, "step"),
    "pml": ((4, 3, 3), (0, 0, 0), {f: "pml" for f in FACES}, None, "direct"),
    "rect": ((4, 3, 3), (0, 0, 0), {}, [[1, 2, 3, 1], [2, 1, 3], [3, 1, 2]], "direct"),
    "rect2": ((3, 3, 4), (0, 0, 0), {"min_z": "pec", "max_z": "pec"}, [[3, 1, 2], [1, 3, 3], [2, 1, 1, 3]], "direct"),
    "rectpml": ((4, 3, 3), (0, 0, 0), {f: "pml" for f in FACES}, [[2, 3, 1, 1], [1, 2, 3], [3, 3, 1]], "direct"),
    "symEx": ((4, 3, 3), (-1, 0, 0), {}, None, "step"),                      # electric plane x, far side periodic
    "symEyMz": ((3, 4, 3), (0, -1, 1), {"max_y": "pec"}, None, "step"),       # electric y (far side PEC), magnetic z (far side periodic)
    "symExyz": ((3, 3, 3), (-1, -1, -1), {"max_x": "pmc", "max_z": "pec"}, None, "step"),
    "symMx": ((4, 3, 3), (1, 0, 0), {}, None, "step"),                      # magnetic plane x, far side periodic: min halo must NOT wrap
    "symRect": ((4, 3, 3), (-1, 1, 0), {}, [[1, 2, 3, 1], [3, 1, 2], [3, 1, 2]], "direct"),
    "symRect2": ((3, 4, 3), (-1, -1, 0), {"max_x": "pec"}, [[2, 1, 3], [1, 3, 2, 2], [1, 1, 3]], "direct"),
}


QUICK_SKIP = ("pmcpec", "rect2", "symRect2")  # thorough tier only


def _case(cid, scene, dets, seed):
    N, sym, bounds, widths, mode = SCENES[scene]
    return {"id": cid, "scene": scene, "N": list(N), "sym": list(sym), "bounds": dict(bounds), "widths": widths, "mode": mode,
            "dets": dets, "seed": seed}


def _dets(boxes, rng, N, p_raw=0.0, p_late=0.15):
    """interior boxes (the fast path) are always exact and always on; raw twins are added for a share of the boxes"""
    out = []
    for b in boxes:
        interior = all(s >= 1 and e <= n - 1 for (s, e), n in zip(b, N))
        late = (not interior) and rng.random() < p_late
        out.append({"box": b, "exact": True, "on": [False, True] if late else [True, True]})
        if rng.random() < p_raw:
            out.append({"box": b, "exact": False, "on": [True, True] if rng.random() >= p_late else [False, True]})
    return out


def gen_cases(ctx):
    only = [x for x in os.environ.get("C15_ONLY", "").split(",") if x]  # self-test convenience: keep the cases whose id contains one of these
    for c in _gen_cases(ctx):
        if not only or any(x in c["id"] for x in only):
            yield c
    if only:
        ctx.exhaustive = False


def _gen_cases(ctx):
    rng = random.Random(ctx.seed)
    k = 0
    per_case = 60
    if ctx.quick:
        ctx.exhaustive = False
    # A. periodic uniform volume, step mode: EVERY box with exact interpolation
    N = SCENES["per"][0]
    boxes = _all_boxes(N)
    rng.shuffle(boxes)
    for i in range(0, len(boxes), per_case):
        k += 1
        yield _case(f"c{k}-per-all{i // per_case}", "per", _dets(boxes[i:i + per_case], rng, N), rng.randrange(1 << 30))
    # B. every scene kind: one box per contact-class combination (quick) / every box (thorough), exact and raw mixed
    for scene in SCENES:
        if ctx.quick and scene in QUICK_SKIP:
            continue
        N = SCENES[scene][0]
        if ctx.quick:
            bl = _class_boxes(N, rng)
        else:
            bl = _all_boxes(N)
            rng.shuffle(bl)
        for i in range(0, len(bl), 64 if ctx.quick else per_case):
            k += 1
            part = bl[i:i + (64 if ctx.quick else per_case)]
            yield _case(f"c{k}-{scene}-{i}", scene, _dets(part, rng, N, p_raw=0.2), rng.randrange(1 << 30))
    # C. thorough: seeded random boundary / symmetry / width combinations
    if not ctx.quick:
        for r in range(24):
            k += 1
            N = rng.choice([(4, 3, 3), (3, 4, 3), (3, 3, 4), (3, 3, 3), (5, 3, 2)])
            sym = [rng.choice([0, 0, -1, 1]) for _ in range(3)]
            bounds = {}
            for a, ax in enumerate("xyz"):
                kind = rng.choice(["periodic", "pec", "pmc", "pml", "mixed"])
                if kind == "periodic":
                    continue
                if kind == "mixed" and sym[a] == 0:
                    bounds[f"min_{ax}"], bounds[f"max_{ax}"] = rng.choice([("pec", "pmc"), ("pmc", "pec"), ("pml", "pec"), ("pec", "pml")])
                elif kind == "mixed":
                    bounds[f"min_{ax}"] = bounds[f"max_{ax}"] = "pec"
                else:
                    bounds[f"min_{ax}"] = bounds[f"max_{ax}"] = kind
            rect = rng.random() < 0.5
            widths = [[rng.randint(1, 3) for _ in range(n)] for n in N] if rect else None
            has_pml = any(v == "pml" for v in bounds.values())
            mode = "direct" if (rect or has_pml) else "step"
            c = {"id": f"c{k}-rand{r}", "scene": "rand", "N": list(N), "sym": sym, "bounds": bounds, "widths": widths, "mode": mode,
                 "dets": _dets(_class_boxes(N, rng), rng, N, p_raw=0.2), "seed": rng.randrange(1 << 30)}
            yield c


# ---------------------------------------------------------------------------------------------- observation
def _halo_kinds(sym, bounds):
    lo, hi = [], []
    for a, ax in enumerate("xyz"):
        bmin = bounds.get(f"min_{ax}", "periodic")
        bmax = bounds.get(f"max_{ax}", "periodic")
        if sym[a] == -1:
            lo.append("mirror")
        elif sym[a] == 1:
            lo.append("zero")
        else:
            lo.append("wrap" if bmin == "periodic" else "zero")
        hi.append("wrap" if bmax == "periodic" else "zero")
    return lo, hi


def _build(case):
    """scene through the public pipeline -> (objects, arrays, config, detector names)"""
    import jax
    import jax.numpy as jnp
    import numpy as np
    import fdtdx
    from fdtdx.objects.object import RealCoordinateConstraint

    N, sym = case["N"], case["sym"]
    full = [2 * n if s != 0 else n for n, s in zip(N, sym)]
    off = [n if s != 0 else 0 for n, s in zip(N, sym)]  # reduced index + off = index in the full (unreduced) volume
    cf = 0.5 * 3**0.5
    if case["widths"] is None:
        grid = fdtdx.UniformGrid(spacing=1.0)
        edges = None
    else:
        wfull = [(list(reversed(w)) + list(w)) if s != 0 else list(w) for w, s in zip(case["widths"], sym)]
        edges = [np.concatenate([[0.0], np.cumsum(w)]).astype(np.float64) for w in wfull]
        grid = fdtdx.RectilinearGrid(x_edges=jnp.asarray(edges[0]), y_edges=jnp.asarray(edges[1]), z_edges=jnp.asarray(edges[2]))
    kw = dict(grid=grid, backend="cpu", dtype=jnp.float64, courant_factor=cf, symmetry=tuple(sym), gradient_config=None)
    dt = fdtdx.SimulationConfig(time=1.0, **kw).time_step_duration
    config = fdtdx.SimulationConfig(time=(T + 0.25) * dt, **kw)
    assert config.time_steps_total == T, config.time_steps_total
    volume = fdtdx.SimulationVolume(partial_grid_shape=tuple(full))
    objects, constraints = [volume], []
    bounds = {f: case["bounds"].get(f, "periodic") for f in FACES}
    bcfg = fdtdx.BoundaryConfig.from_uniform_bound(thickness=1, override_types={f: b for f, b in bounds.items() if b != "pml"})
    bdict, clist = fdtdx.boundary_objects_from_config(bcfg, volume)
    objects.extend(bdict.values())
    constraints.extend(clist)
    names = []
    for i, d in enumerate(case["dets"]):
        fb = [(s + off[a], e + off[a]) for a, (s, e) in enumerate(d["box"])]
        on_steps = [t for t in range(T) if d["on"][t]]
        sw = fdtdx.OnOffSwitch() if len(on_steps) == T else fdtdx.OnOffSwitch(fixed_on_time_steps=on_steps)
        kwd = dict(name=f"d{i}", dtype=jnp.float64, exact_interpolation=bool(d["exact"]), reduce_volume=False, switch=sw, plot=False)
        if edges is None:
            det = fdtdx.FieldDetector(partial_grid_shape=tuple(e - s for s, e in fb), **kwd)
            constraints.append(det.set_grid_coordinates(axes=(0, 1, 2), sides=("-", "-", "-"), coordinates=tuple(s for s, _ in fb)))
        else:
            det = fdtdx.FieldDetector(**kwd)
            constraints.append(RealCoordinateConstraint(
                object=det.name, axes=(0, 1, 2, 0, 1, 2), sides=("-", "-", "-", "+", "+", "+"),
                coordinates=tuple(float(edges[a][fb[a][0]]) for a in range(3)) + tuple(float(edges[a][fb[a][1]]) for a in range(3))))
        objects.append(det)
        names.append(det.name)
    key = jax.random.PRNGKey(0)
    obj, arrays, params, config, _ = fdtdx.place_objects(object_list=objects, config=config, constraints=constraints, key=key)
    arrays, obj, _ = fdtdx.apply_params(arrays, obj, params, key)
    return obj, arrays, config, names


def observe(case):
    import jax
    import jax.numpy as jnp
    import numpy as np
    from loguru import logger

    logger.disable("fdtdx")
    from fdtdx.fdtd.forward import forward
    from fdtdx.fdtd.update import update_detector_states

    N, sym, mode = case["N"], case["sym"], case["mode"]
    lo, hi = _halo_kinds(sym, case["bounds"])
    W = case["widths"] if case["widths"] is not None else [[1] * n for n in N]
    rect = case["widths"] is not None
    fs = 4**T if mode == "step" else 1
    rec = {"id": case["id"], "scene": case["scene"], "mode": mode, "N": list(N), "W": [list(w) for w in W], "lo": lo, "hi": hi,
           "fs": fs, "rs": RS, "frames": [], "dets": [], "raised": False, "err": "", "dev": 0, "tol": 0,
           # facts for triage
           "rect": rect, "has_sym": any(s != 0 for s in sym)}
    obj, arrays, config, names = _build(case)
    if tuple(arrays.fields.E.shape[1:]) != tuple(N):
        raise RuntimeError(f"harness: reduced volume {arrays.fields.E.shape} differs from the intended {N}")
    if abs(float(config.courant_number) - 0.5) > 0:
        raise RuntimeError("harness: courant number is not exactly 1/2")
    by_name = {d.name: d for d in obj.forward_detectors}
    rng = np.random.default_rng(case["seed"])
    devs = [0.0]

    def ints(a, scale):
        a = np.asarray(a, dtype=np.float64) * scale
        r = np.rint(a)
        if a.size:
            devs.append(float(np.max(np.abs(a - r))))
        return r.astype(np.int64).tolist()

    def draw():
        mult = LCM if rect else 1
        return (rng.integers(-9, 10, size=(3, *N)) * mult).astype(np.float64)

    key = jax.random.PRNGKey(0)
    try:
        if mode == "step":
            stepf = jax.jit(lambda ts, arr: forward((ts, arr), config, obj, key, record_detectors=True, record_boundaries=False, simulate_boundaries=True))
            arrays = arrays.aset("fields->E", jnp.asarray(draw())).aset("fields->H", jnp.asarray(draw()))
            for t in range(T):
                h_prev = np.asarray(arrays.fields.H)
                _, arrays = stepf(jnp.asarray(t, dtype=jnp.int32), arrays)
                rec["frames"].append({"E": ints(arrays.fields.E, fs), "Hp": ints(h_prev, fs), "H": ints(arrays.fields.H, fs)})
        else:
            updf = jax.jit(lambda ts, arr, hp: update_detector_states(ts, arr, obj, config, hp, False))
            for t in range(T):
                e, h, hp = draw(), draw(), draw()
                arrays = arrays.aset("fields->E", jnp.asarray(e)).aset("fields->H", jnp.asarray(h))
                arrays = updf(jnp.asarray(t, dtype=jnp.int32), arrays, jnp.asarray(hp))
                rec["frames"].append({"E": ints(e, fs), "Hp": ints(hp, fs), "H": ints(h, fs)})
        jax.block_until_ready(arrays.detector_states)
    except Exception as e:  # noqa: BLE001 - an exception while recording on a legal scene is an observation
        rec["raised"] = True
        rec["err"] = f"{type(e).__name__}: {str(e)[:300]}"
        return rec
    for nm, d in zip(names, case["dets"]):
        det = by_name[nm]
        st = np.asarray(arrays.detector_states[nm]["fields"])
        gs = det.grid_slice_tuple
        rec["dets"].append({"s": [int(gs[a][0]) for a in range(3)], "e": [int(gs[a][1]) for a in range(3)], "exact": bool(d["exact"]),
                            "on": [bool(x) for x in d["on"]], "rec": ints(st, fs * RS)})
    rec["dev"] = int(min(10**9, round(max(devs) * 1e9)))
    return rec


def classify(record, verdict):
    if verdict.startswith("malformed:"):
        return "malformed"
    return "violation"
