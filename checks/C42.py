"""C42 - Results do not depend on the number of devices.
Spec: spec/Shard.tla (+ShardDefs, RelNum); trace spec: spec/Trace_Shard.tla.  DESIGN.md §5 C38/C42.

The same scene is run by harness/rel_shard_runner.py in three SEPARATE interpreters with
XLA_FLAGS=--xla_force_host_platform_device_count=1|2|4 (fields sharded along x by create_named_sharded_matrix);
TLC compares final fields and every detector state array of the 2- and 4-device runs with the 1-device run."""
import json
import os
import random
import subprocess
import tempfile

ID = "C42"
TRACE = ("Trace_Shard", "Trace_Shard.cfg")
CHUNK = 1
PARALLEL = 1
DEVS = (1, 2, 4)


def model_check(ctx):
    ctx.mc("Shard", "MC_Shard_q.cfg" if ctx.quick else "MC_Shard_t.cfg", label="1-D lattices of 4 and 8 cells on 1, 2, 4 shards, wrap and zero padding, basis + dense states")
    ctx.mc_negative("Shard", "MC_Shard_neg.cfg")
    ctx.assumptions += [
        "emulated host devices (XLA_FLAGS=--xla_force_host_platform_device_count), one interpreter per device count",
        "tolerance 1e-11 of the largest value of each compared array (XLA may fuse / reduce in a different order per partitioning); "
        "the record also states whether the arrays were bit-identical",
        "the runner reports the number of devices and the sharding of E; a run that is not actually sharded over N devices is a malformed record",
    ]


def _scene(rng):
    shape = [rng.choice([8, 12]), rng.choice([6, 7]), rng.choice([6, 8])]
    kinds = rng.choice([("pml", "periodic", "pec"), ("periodic", "pml", "pmc"), ("pec", "periodic", "pml"), ("pml", "pml", "periodic")])
    bounds = {}
    for a, ax in enumerate("xyz"):
        bounds[f"min_{ax}"] = bounds[f"max_{ax}"] = kinds[a]
        if kinds[a] == "pml" and a > 0:
            shape[a] = 8
    lo = [rng.randrange(0, n - 1) for n in shape]
    hi = [rng.randrange(l + 1, n + 1) for l, n in zip(lo, shape)]
    # two more slabs of IDENTICAL extent at different positions (different materials): equal-sized indexed updates of
    # the same material array must each land at their own offset on every device count
    sz = [rng.randrange(2, n // 2 + 1) for n in shape]
    lo1 = [rng.randrange(0, n - z + 1) for n, z in zip(shape, sz)]
    lo2 = [rng.randrange(0, n - z + 1) for n, z in zip(shape, sz)]
    while lo2 == lo1:
        lo2 = [rng.randrange(0, n - z + 1) for n, z in zip(shape, sz)]
    twins = [{"name": "twinA", "lo": lo1, "hi": [l + z for l, z in zip(lo1, sz)], "eps": [4.0, 1.3, 2.2], "sigma": 0.0},
             {"name": "twinB", "lo": lo2, "hi": [l + z for l, z in zip(lo2, sz)], "eps": [1.4, 3.6, 2.9], "sigma": 0.0}]
    inner = lambda: [rng.randrange(2, n - 2) for n in shape]
    return {"shape": shape, "T": 12, "res": 25e-9, "cf": 0.99, "pml": 2, "bounds": bounds,
            "slabs": [{"name": "slab0", "lo": lo, "hi": hi, "eps": [2.0, 3.1, 1.6], "sigma": rng.choice([0.0, 100.0])}] + twins,
            "sources": [{"kind": "dipole", "pos": inner(), "pol": rng.randrange(3), "wl": 400e-9}, {"kind": "mdipole", "pos": inner(), "pol": rng.randrange(3), "wl": 500e-9}],
            "detectors": [{"kind": "field", "name": "fd", "lo": [0, 1, 1], "hi": [shape[0], shape[1] - 1, shape[2] - 1], "exact": True, "switch": {"interval": 4}},
                          {"kind": "energy", "name": "en", "lo": [0, 0, 0], "hi": list(shape), "exact": True, "reduce": True},
                          {"kind": "poynting", "name": "pf", "lo": [shape[0] // 2, 0, 0], "hi": [shape[0] // 2 + 1, shape[1], shape[2]], "axis": 0, "exact": True}]}


def gen_cases(ctx):
    rng = random.Random(ctx.seed * 49979687 + 42)
    ctx.exhaustive = False
    for n in range(1 if ctx.quick else 6):
        yield {"id": f"scene{n}", "scene": _scene(rng)}


def _run(scene, ndev, work):
    verif = os.path.dirname(os.path.dirname(os.path.abspath(__file__)))
    sf, of = os.path.join(work, f"scene{ndev}.json"), os.path.join(work, f"out{ndev}.json")
    with open(sf, "w") as f:
        json.dump(scene, f)
    env = dict(os.environ)
    env["XLA_FLAGS"] = f"--xla_force_host_platform_device_count={ndev}"
    env["JAX_PLATFORMS"] = "cpu"
    env["JAX_ENABLE_X64"] = "1"
    env["FDTDX_VERIF"] = "0"
    p = subprocess.run(["/venv/bin/python", os.path.join(verif, "harness", "rel_shard_runner.py"), sf, of], env=env, capture_output=True, text=True, timeout=1800)
    if p.returncode != 0 or not os.path.exists(of):
        raise RuntimeError(f"runner failed for {ndev} devices:\n{p.stderr[-3000:]}")
    with open(of) as f:
        return json.load(f)


def observe(case):
    import concurrent.futures as cf

    import numpy as np

    from harness import rel_scene as RS

    work = tempfile.mkdtemp(prefix="c42_")
    try:
        with cf.ThreadPoolExecutor(max_workers=3) as ex:
            outs = dict(zip(DEVS, ex.map(lambda n: _run(case["scene"], n, work), DEVS)))
    finally:
        import shutil

        shutil.rmtree(work, ignore_errors=True)
    src = os.path.abspath(os.environ.get("FDTDX_SRC", "/repo/src"))
    sharded_ok = all(outs[n]["ndev"] == n and outs[n]["nshards"] == n and outs[n]["src"].startswith(src) for n in DEVS)
    pairs, identical = [], True
    ref = outs[1]["arrays"]
    for n in (2, 4):
        for ra, rb in zip(ref, outs[n]["arrays"]):
            a = np.array([float.fromhex(v) for v in ra["v"]])
            b = np.array([float.fromhex(v) for v in rb["v"]])
            identical = identical and a.shape == b.shape and bool(np.array_equal(a, b))
            s = RS.rel_scale(a, b)
            pairs.append({"what": ra["what"], "ra": "1 device", "rb": f"{n} devices", "a": RS.enc_real(a, s)[0], "b": RS.enc_real(b, s)[0] if ra["shape"] == rb["shape"] else []})
    if not sharded_ok:
        pairs = [{"what": "setup", "ra": "1 device", "rb": "n devices", "a": [[0, 0, 0]], "b": []}]
    return {"id": case["id"], "tol": 10, "pairs": pairs, "bit_identical": identical, "shardings": {str(n): outs[n]["sharding"] for n in DEVS}}


def classify(rec, verdict):
    return "malformed" if verdict.startswith("malformed") else "violation"
