"""C01 - discrete electromagnetic energy is conserved; lossy media only dissipate.
Spec: spec/Yee.tla (+YeeDefs) mode "energy"; trace spec: spec/Trace_Yee.tla; harness: harness/yee_sys.py.  DESIGN.md §5 C01."""
import random

ID = "C01"
TRACE = ("Trace_Yee", "Trace_Yee.cfg")
CHUNK = 3
PARALLEL = 4
TOL = 100  # monitors are in units of 1e-13: relative 1e-11


def model_check(ctx):
    if ctx.quick:
        ctx.mc("Yee", "MC_Yee_C01_q.cfg", label="energy identity: 2 boundary configs (Bloch i / -1, PEC, PMC, halo) x all pairs of admissible unit states, anisotropic eps/mu pattern")
        ctx.mc("Yee", "MC_Yee_C01_q2.cfg", label="energy identity with conductive entries / non-uniform cell widths, all pairs")
    else:
        ctx.mc("Yee", "MC_Yee_C01_t.cfg", label="per-axis sweep of all 13 boundary kinds x 3 shapes x all pairs, 2 steps")
        ctx.mc("Yee", "MC_Yee_C01_t2.cfg", label="mixed boundary combinations x {vacuum, lossy, non-uniform, both} x all pairs")
    ctx.mc_negative("Yee", "MC_Yee_C01_neg.cfg")   # wrong sign in one curl_E term
    ctx.mc_negative("Yee", "MC_Yee_C01_neg2.cfg")  # PEC zeroing the normal component
    if not ctx.quick:
        ctx.mc_negative("Yee", "MC_Yee_C01_neg3.cfg")  # primal instead of dual width in curl_H
        ctx.mc_negative("Yee", "MC_Yee_C01_neg4.cfg")  # one difference shifted the wrong way
    ctx.assumptions += [
        "energy = sum wE eps |E|^2 + sum wH mu Re(conj(H_prev) H), wE = primal width along the component x dual widths across it (dual[0] = w[0] as in _metric_scale), wH the converse; computed by TLC on integers (exact records) or by numpy in the harness (tolerance records)",
        "initial states satisfy the wall conditions (tangential E = 0 on PEC face cells, tangential H = 0 on PMC face cells); for the initial state H_prev is defined by the documented H update (exact records: Yee!Prime in the trace spec; tolerance records: the code's own backward())",
        "exact records: courant_factor = sqrt(3)/2 (courant_number = 1/2), inv_eps, inv_mu in {1/2,1,2}, integer fields; Bloch phases exp(i k L) in {1,i,-1,-i}",
        "tolerance records (conductivity, non-uniform grids, random float materials/fields, generic Bloch vectors): |W' - W| <= 1e-11 S1 per step, with conductivity W' - W <= 1e-11 S1, S1 = sum of the absolute values of the terms of W after step 1",
        "bare zero-field halo faces are obtained by removing the wall object of that face from the ObjectContainer returned by place_objects",
    ]


def gen_cases(ctx):
    from harness import yee_sys as Y

    rng = random.Random(ctx.seed)
    ctx.exhaustive = False
    cases = []
    sweep = Y.sweep_configs()
    if ctx.quick:
        sweep = [s for n, s in enumerate(sweep) if n % 2 == (ctx.seed % 2)] + [sweep[1], sweep[16], sweep[29]]  # every other kind per axis + the Bloch(i/-i) ones
    seen = set()
    for shape, kinds in sweep:
        cid = f"x-sweep-{'x'.join(map(str, shape))}-k{'.'.join(map(str, kinds))}"
        if cid in seen:
            continue
        seen.add(cid)
        cases.append({"id": cid, "mode": "exact", "cfg": Y.pattern_cfg(shape, kinds, mat=1, T=2), "seed": rng.randrange(10**6), "nb": 8 if ctx.quick else None})
    for n in range(4 if ctx.quick else 60):
        shape = rng.choice([[3, 2, 2], [2, 3, 2], [2, 2, 3], [3, 3, 2], [2, 3, 3]])
        kinds = Y.random_kinds(rng)
        cfg = Y.pattern_cfg(shape, kinds, mat=1, T=2)
        val = [1, 2, 4]
        cfg["ie2"] = [rng.choice(val) for _ in cfg["ie2"]]
        cfg["im2"] = [rng.choice(val) for _ in cfg["im2"]]
        cases.append({"id": f"x-rand{n}-{'x'.join(map(str, shape))}-k{'.'.join(map(str, kinds))}", "mode": "exact", "cfg": cfg, "seed": rng.randrange(10**6), "nb": 8 if ctx.quick else None})
    # tolerance scenes: conductivity, non-uniform grids, random float tensors, generic Bloch vectors, several steps
    for n in range(14 if ctx.quick else 120):
        shape = [rng.randint(2, 5), rng.randint(2, 4), rng.randint(2, 3)]
        rng.shuffle(shape)
        kinds = Y.random_kinds(rng)
        nn = 3 * shape[0] * shape[1] * shape[2]
        cfg = {"shape": shape, "kinds": kinds, "T": 6}
        flavour = ["lossy", "nonuniform", "float", "all"][n % 4]
        cfg["fie"] = [rng.uniform(0.2, 1.0) for _ in range(nn)]
        cfg["fim"] = [rng.uniform(0.3, 1.0) for _ in range(nn)]
        if flavour in ("lossy", "all"):
            cfg["fsig"] = [rng.choice([0.0, rng.uniform(0.0, 3.0)]) for _ in range(nn)]
        if flavour in ("nonuniform", "all"):
            if rng.random() < 0.5:
                cfg["w"] = [[rng.choice([1, 2]) for _ in range(s)] for s in shape]
            else:
                cfg["w"] = [[rng.uniform(1.0, 2.5) for _ in range(s)] for s in shape]
            for a in range(3):
                cfg["w"][a][rng.randrange(shape[a])] = 1  # same smallest spacing on every axis
        if any(k in (2, 3, 4) for k in kinds) and rng.random() < 0.7:
            cfg["bloch_k"] = [rng.uniform(-3.0, 3.0) for _ in range(3)]
        cases.append({"id": f"t-{flavour}{n}-{'x'.join(map(str, shape))}-k{'.'.join(map(str, kinds))}", "mode": "tol", "cfg": cfg, "seed": rng.randrange(10**6)})
    # material arrays with DIFFERENT component counts (isotropic permittivity + diagonal conductivity and vice versa,
    # likewise permeability), by direct array replacement and through the public pipeline (Material with scalar
    # permittivity and tuple conductivity); conductivity small along one axis, larger along the others
    # (a) periodic box at courant_factor 0.99, vacuum permeability (inv_mu stays the pipeline's scalar), isotropic random
    #     permittivity in [1,4], loss number a = c sigma eta0 inv_eps / 2 <= 0.02 along one axis and <= 1.5 along the
    #     others, 24 steps: an update that mixes up the components of sigma is then unstable and the energy GROWS
    for n in range(4 if ctx.quick else 12):
        shape = rng.choice([[3, 2, 2], [4, 3, 3], [3, 4, 2], [6, 6, 6]]) if n >= 4 else [[4, 3, 3], [3, 2, 2], [3, 4, 2], [2, 3, 4]][n]
        cells = shape[0] * shape[1] * shape[2]
        small = (0, 0, 1, 2)[n % 4]
        cnum = 0.99 / 3**0.5
        eps = [rng.uniform(1.0, 4.0) for _ in range(cells)]
        fsig = []
        for comp in range(3):
            fsig += [2.0 * (rng.uniform(0.0, 0.02) if comp == small else rng.uniform(0.0, 1.5)) * eps[k] / cnum for k in range(cells)]
        cfg = {"shape": shape, "kinds": [1, 1, 1], "T": 24, "cf": 0.99, "comp": {"ie": 1, "sig": 3}, "fie": [1.0 / e for e in eps] * 3, "fsig": fsig}
        cases.append({"id": f"t-counts-box{n}-eps1sig3-small{'xyz'[small]}-{'x'.join(map(str, shape))}", "mode": "tol", "cfg": cfg, "seed": rng.randrange(10**6)})
    # (b) every combination of component counts, random boundary kinds
    combos = [(1, 3, 3), (3, 1, 1), (1, 3, 1), (1, 1, 3), (3, 3, 1), (3, 1, 3)]
    for n in range(len(combos) if ctx.quick else 4 * len(combos)):
        ie_n, sig_n, im_n = combos[n % len(combos)]
        shape = [rng.randint(3, 5), rng.randint(2, 4), rng.randint(2, 3)]
        rng.shuffle(shape)
        kinds = [1, 1, 1] if n % 2 == 0 else Y.random_kinds(rng)
        cells = shape[0] * shape[1] * shape[2]
        small = rng.randrange(3)
        fsig = []
        for comp in range(3):
            fsig += [rng.uniform(0.0, 0.1) if comp == small else rng.uniform(0.0, 6.0) for _ in range(cells)]
        cfg = {"shape": shape, "kinds": kinds, "T": 6, "comp": {"ie": ie_n, "sig": sig_n, "im": im_n},
               "fie": [rng.uniform(0.25, 1.0) for _ in range(3 * cells)], "fim": [rng.uniform(0.3, 1.0) for _ in range(3 * cells)], "fsig": fsig}
        cases.append({"id": f"t-counts{n}-eps{ie_n}sig{sig_n}mu{im_n}-{'x'.join(map(str, shape))}-k{'.'.join(map(str, kinds))}", "mode": "tol", "cfg": cfg, "seed": rng.randrange(10**6)})
    # (c) through the public pipeline: Material with scalar / tuple permittivity, permeability and conductivity, cf 0.99
    slabs = [{"eps": 2.0, "sigma": [2e3, 3.0e5, 4.0e5]}, {"eps": [2.0, 3.0, 4.0], "sigma": 1.2e5}, {"eps": 2.0, "mu": [1.0, 2.0, 1.5], "sigma": [2e5, 4e3, 1e5]},
             {"eps": 1.5, "sigma": [1e5, 2e5, 1e3]}, {"eps": [1.5, 2.5, 2.0], "mu": 1.5, "sigma": [5e3, 5e3, 3e5]}]
    for n, sl in enumerate(slabs if not ctx.quick else slabs[:3]):
        shape = [rng.randint(3, 5), rng.randint(3, 4), rng.randint(2, 3)]
        kinds = [1, 1, 1] if n % 2 == 0 else Y.random_kinds(rng)
        cfg = {"shape": shape, "kinds": kinds, "T": 24, "cf": 0.99, "slab": dict(lo=[0, 0, 0], hi=list(shape), **sl)}
        cases.append({"id": f"t-pipeline-material{n}-{'x'.join(map(str, shape))}-k{'.'.join(map(str, kinds))}", "mode": "tol", "cfg": cfg, "seed": rng.randrange(10**6)})
    return cases


def _observe(case):
    import jax
    import jax.numpy as jnp
    import numpy as np

    from harness import yee_sys as Y

    cfg = case["cfg"]
    rs = np.random.RandomState(case["seed"])
    obj, arrays, config = Y.build(cfg)
    fwd, bwd, arrays, config = Y.steppers(obj, arrays, config, with_backward=True)
    dt = Y.field_dtype(arrays)
    vf, vb = jax.vmap(fwd), jax.vmap(bwd)
    rec = {"id": case["id"], "kind": "energy", "tol": TOL, "devtol": 1000, "runs": [], "mons": []}
    if case["mode"] == "exact":
        E0, H0 = Y.int_states(cfg, rs, n_dense=6, n_pairs=4, n_basis=case.get("nb"))
        B = E0.shape[0]
        t = jnp.zeros((B,), dtype=jnp.int32)
        E1, H1 = vf(t, jnp.asarray(E0, dtype=dt), jnp.asarray(H0, dtype=dt))
        E2, H2 = vf(t + 1, E1, H1)
        E1, H1, E2, H2 = (np.asarray(x) for x in (E1, H1, E2, H2))
        rec.update(Y.spec_fields(cfg))
        rec["exact"] = True
        for b in range(B):
            S, dev = [], 0.0
            for k, (E, H) in enumerate(((E0[b], H0[b]), (E1[b], H1[b]), (E2[b], H2[b]))):
                o, d = Y.obs_state(E, H, k)
                S.append(o)
                dev = max(dev, d)
            rec["runs"].append({"S": S, "dev": Y.ppb(dev), "t0": 0, "ab": [0, 0]})
        W1 = Y.energy(cfg, arrays, E1, H0, H1)
        W2 = Y.energy(cfg, arrays, E2, H1, H2)
        ref = Y.energy_scale(cfg, arrays, E1, H0, H1)
        ok = ref > 0
        worst = float(np.max(np.abs(W2[ok] - W1[ok]) / ref[ok])) if np.any(ok) else 0.0
        rec["mons"].append({"name": "energy changed over a lossless step (float64 evaluation of the exact run)", "d": Y.scaled(worst), "two": True})
        rec["nstates"] = int(B)
    else:
        rec["exact"] = False
        cplx = np.issubdtype(np.dtype(dt), np.complexfloating)
        B = 6
        E0, H0 = Y.float_states(cfg, rs, B, cplx)
        E, H = jnp.asarray(E0, dtype=dt), jnp.asarray(H0, dtype=dt)
        lossy = arrays.electric_conductivity is not None
        # energy of the initial state: H one half-step earlier through the code's own reverse H update (backward())
        _, Hm1 = vb(jnp.ones((B,), dtype=jnp.int32), E, H)
        Ws = [Y.energy(cfg, arrays, np.asarray(E), np.asarray(Hm1), np.asarray(H))]
        Ds = []
        ref = None
        for step in range(cfg["T"]):
            Hp, Ep = H, E
            E, H = vf(jnp.full((B,), step, dtype=jnp.int32), E, H)
            Ws.append(Y.energy(cfg, arrays, np.asarray(E), np.asarray(Hp), np.asarray(H)))
            Ds.append(Y.dissipation(cfg, arrays, config, np.asarray(Ep), np.asarray(E)))
            if ref is None:
                ref = Y.energy_scale(cfg, arrays, np.asarray(E), np.asarray(Hp), np.asarray(H))  # scale of W1's terms
        Ws = np.stack(Ws)  # (T + 1, B)
        for step in range(0, cfg["T"]):
            d = (Ws[step + 1] - Ws[step]) / ref
            if lossy:
                rec["mons"].append({"name": f"energy increased over step {step} with non-negative conductivity", "d": Y.scaled(float(np.max(d))), "two": False, "soft": False})
                # stronger than the statement: W' - W + (per-component manifest dissipation) = 0  -> spec drift only
                bal = (Ws[step + 1] - Ws[step] + Ds[step]) / ref
                rec["mons"].append({"name": f"energy balance with the per-component dissipation term off at step {step}", "d": Y.scaled(float(np.max(np.abs(bal)))), "two": True, "soft": True})
            else:
                rec["mons"].append({"name": f"energy changed over lossless step {step}", "d": Y.scaled(float(np.max(np.abs(d)))), "two": True, "soft": False})
        rec["component_counts"] = Y.component_counts(arrays)
        rec["lossy"] = bool(lossy)
        rec["dissipated_fraction"] = float(1 - np.min(Ws[-1] / Ws[0]))
    return rec


def observe(case):
    from harness import yee_sys as Y

    return Y.safe_observe(_observe, case, "energy", TOL)


def classify(rec, verdict):
    if verdict.startswith("malformed"):
        return "malformed"
    if verdict.startswith("model:") or verdict.startswith("inexact:"):
        return "drift"
    return "violation"


def run(ctx):
    import sys

    from harness import yee_sys as Y

    Y.pipeline(sys.modules[__name__], ctx)
