"""C29 - Sources and detectors see the device materials after parameters are applied.
Spec: spec/Overlap.tla (+OverlapDefs), trace spec: spec/Trace_Overlap.tla.  DESIGN.md §5 C29.

Every case is a scene built through the public pipeline (place_objects -> apply_params) with one or
two Devices and one or two sources/detectors whose boxes stand in a chosen Allen relation per axis.
The record carries the boxes as placed and integer fingerprints of every state array of the objects
(observed / fresh apply on ALL arrays the call returned / apply on pre-device arrays) after each of two
consecutive apply_params calls with different parameters; TLC decides."""
import hashlib
import itertools
import random

ID = "C29"
TRACE = ("Trace_Overlap", "Trace_Overlap.cfg")
CHUNK = 300
PARALLEL = 5

N = 7
DEV = (2, 5)
NOISY = {"._E", "._H", "._neff", "._time_offset_E", "._time_offset_H", "._mode_E", "._mode_H", "._mode_neff"}
NEFF_SCALE = 10**8  # effective index as integer multiples of 1e-8
NEFF_TOL = 3        # |obs - fresh| <= 3e-8 (float64 eigen-solver noise is ~1e-15); the trace spec owns this bound
REP = {
    "before": (0, 1), "meets": (0, 2), "overlaps": (1, 3), "starts": (2, 3), "during": (3, 4), "finishes": (4, 5),
    "equals": (2, 5), "finished_by": (1, 5), "contains": (1, 6), "started_by": (2, 6), "overlapped_by": (4, 6),
    "met_by": (5, 7), "after": (6, 7),
}  # mirror of OverlapDefs!Rep (only used to CHOOSE inputs; TLC recomputes the relation from the placed slices)
REL = list(REP)
# one-cell intervals (propagation axis of plane objects) and the relation they realise against DEV
THIN = {"before": (0, 1), "meets": (1, 2), "starts": (2, 3), "during": (3, 4), "finishes": (4, 5), "met_by": (5, 6), "after": (6, 7)}
SHORT = {"before": "b", "meets": "m", "overlaps": "o", "starts": "s", "during": "d", "finishes": "f", "equals": "e",
         "finished_by": "fi", "contains": "di", "started_by": "si", "overlapped_by": "oi", "met_by": "mi", "after": "a"}


def model_check(ctx):
    W = 4  # small state spaces: more TLC workers only add contention on the shared machine
    if ctx.quick:
        ctx.mc("Overlap", "MC_Overlap_q.cfg", workers=W, label="1 device, object over one representative box per Allen triple (13^3)")
        ctx.mc("Overlap", "MC_Overlap_pairq.cfg", workers=W, label="2 devices, 2 objects over x-sweep + diagonal boxes, rule closed_all_axes")
    else:
        ctx.mc("Overlap", "MC_Overlap_t.cfg", workers=W, label="1 device, object over all 28^3 boxes of the 7^3 lattice")
        ctx.mc("Overlap", "MC_Overlap_pair.cfg", workers=W, label="2 devices, 2 objects over all axis sweeps + diagonal boxes, rule closed_all_axes")
    ctx.mc_negative("Overlap", "MC_Overlap_neg.cfg", workers=W)   # flag rule of the code before the fix
    ctx.mc_negative("Overlap", "MC_Overlap_neg2.cfg", workers=W)  # dispersion/conductivity copies taken before the device loop
    ctx.assumptions += [
        "objects have no random offsets, so apply() does not depend on the PRNG key and bit-equality with a fresh apply is meaningful",
        "devices are discrete two-material devices with one design voxel per cell and a parity parameter pattern (inverted in the second apply_params call), so every device cell changes in every call",
        "device materials: eps 2 / eps 4 (plain), eps 2 / eps_inf 4 + one Lorentz pole, eps 2 / eps 4 + electric conductivity; apply_params never writes electric_conductivity, so conductive scenes only exercise objects reading that array, they cannot go stale",
        "state = all pytree leaves of the object (private fields set by apply); detectors without an apply override have no material-dependent state and pass trivially",
        "mode sources/detectors: the eigenmode solver is not bit-reproducible, so only the stored material slices (exact) and the effective index (3e-8 absolute) are compared, not the mode fields",
    ]


def _case(cid, kind, box, devs=None, extra=None):
    return {"id": cid, "devs": devs or [[list(DEV)] * 3], "objs": [{"kind": kind, "box": [list(b) for b in box]}] + (extra or [])}


def gen_cases(ctx):
    rng = random.Random(ctx.seed)
    seen = set()

    def emit(c):
        if c["id"] not in seen:
            seen.add(c["id"])
            return [c]
        return []

    def rid(rs):
        return "-".join(SHORT[r] for r in rs)

    # 1. dipole (material-sampling box of any extent): per-axis sweep over all 13 relations, two backgrounds
    triples = []
    for a in range(3):
        for r in REL:
            for bgr in (("during", "during"), ("overlaps", "finished_by")):
                if ctx.quick and a > 0 and bgr[0] == "overlaps":
                    continue
                rs = list(bgr)
                rs.insert(a, r)
                triples.append(tuple(rs))
    triples_sweep = list(triples)
    if ctx.quick:
        ctx.exhaustive = False
        allt = list(itertools.product(REL, repeat=3))
        triples += rng.sample(allt, 14)
    else:
        triples = list(itertools.product(REL, repeat=3))
    for rs in triples:
        yield from emit(_case(f"dipole-{rid(rs)}", "dipole", [REP[r] for r in rs]))

    # 2. plane sources (one cell thick along the propagation axis) and stateless detectors
    plane = []
    for ax in range(3):
        for rt in THIN:
            for bgr in (("during", "during"), ("contains", "overlapped_by"), ("equals", "starts")):
                plane.append((ax, rt, bgr))
    if ctx.quick:
        must = [p for p in plane if p[1] == "during" and p[2] == ("during", "during")]
        rest = [p for p in plane if p not in must]
        plane = must + rng.sample(rest, 9)
    kinds = ["uniform", "gauss"]
    for i, (ax, rt, bgr) in enumerate(plane):
        box = [REP[bgr[0]], REP[bgr[1]]]
        box.insert(ax, THIN[rt])
        rs = list(bgr)
        rs.insert(ax, rt)
        kind = kinds[i % 2] if ctx.quick else None
        for k in ([kind] if kind else kinds):
            yield from emit(_case(f"{k}{ax}-{rid(rs)}", k, box))
    for k, box in (("energy", [(3, 4)] * 3), ("energy", [(1, 6), (3, 4), (2, 5)]), ("poynting", [(3, 4), (3, 5), (3, 4)]),
                   ("phasor", [(3, 4)] * 3), ("field", [(4, 6), (3, 4), (0, 2)])):
        yield from emit(_case(f"{k}-" + "_".join(f"{a}{b}" for a, b in box), k, box))

    # 3. mode source / mode detector in a 5^3 device (mode solver on the plane's permittivity slice)
    big = [[[1, 6]] * 3]
    modes = [("mode", [(3, 4), (2, 5), (2, 5)]), ("modedet", [(2, 5), (3, 4), (2, 5)]), ("mode", [(3, 4), (0, 7), (1, 6)]),
             ("modedet", [(0, 7), (0, 7), (3, 4)]), ("mode", [(0, 1), (0, 7), (0, 7)])]
    for k, box in modes[: 3 if ctx.quick else 5]:
        yield from emit(_case(f"{k}-big-" + "_".join(f"{a}{b}" for a, b in box), k, box, devs=big))

    # 4. two devices and two objects per scene
    two = [[[0, 3]] * 3, [[4, 7]] * 3]
    pairs = [([(1, 2)] * 3, [(5, 6)] * 3), ([(1, 6)] * 3, [(3, 4)] * 3), ([(1, 2), (1, 2), (0, 7)], [(5, 6), (4, 7), (5, 6)]),
             ([(3, 4), (0, 7), (0, 7)], [(2, 5), (5, 6), (5, 6)])]
    for i, (b1, b2) in enumerate(pairs):
        yield from emit(_case(f"two-{i}", "dipole", b1, devs=two, extra=[{"kind": "dipole", "box": [list(b) for b in b2]}]))

    # 6. devices whose second material is Lorentz-dispersive or conductive: the object's set-up also reads
    #    dispersive_c1..c4 / electric_conductivity, which must be the POST-device arrays of the same call
    aux = [("dipole", ("during", "during", "during")), ("dipole", ("equals", "equals", "equals")), ("dipole", ("overlaps", "during", "during")),
           ("dipole", ("contains", "contains", "contains")), ("dipole", ("starts", "finishes", "during")), ("dipole", ("finished_by", "overlapped_by", "started_by")),
           ("dipole", ("meets", "during", "during")), ("dipole", ("before", "before", "before"))]
    if not ctx.quick:
        aux += [("dipole", rs) for rs in triples_sweep]
    for k, rs in aux:
        c = _case(f"lorentz-{k}-{rid(rs)}", k, [REP[r] for r in rs])
        c["devmat"] = "lorentz"
        yield from emit(c)
    for k, ax, rt, bgr in (("uniform", 0, "during", ("during", "during")), ("gauss", 1, "during", ("contains", "overlapped_by")),
                           ("uniform", 2, "starts", ("equals", "during"))):
        box = [REP[bgr[0]], REP[bgr[1]]]
        box.insert(ax, THIN[rt])
        rs = list(bgr)
        rs.insert(ax, rt)
        c = _case(f"lorentz-{k}{ax}-{rid(rs)}", k, box)
        c["devmat"] = "lorentz"
        yield from emit(c)
    for dm, k, box in (("lorentz", "mode", [(3, 4), (2, 5), (2, 5)]), ("lorentz", "modedet", [(2, 5), (3, 4), (2, 5)]),
                       ("cond", "modedet", [(2, 5), (3, 4), (2, 5)]), ("cond", "mode", [(3, 4), (2, 5), (2, 5)])):
        c = _case(f"{dm}-{k}-big-" + "_".join(f"{a}{b}" for a, b in box), k, box, devs=big)
        c["devmat"] = dm
        yield from emit(c)
    c = _case("cond-dipole-d-d-d", "dipole", [REP["during"]] * 3)
    c["devmat"] = "cond"
    yield from emit(c)
    c = _case("lorentz-two", "dipole", [(1, 2)] * 3, devs=two, extra=[{"kind": "dipole", "box": [[2, 6], [5, 6], [5, 6]]}])
    c["devmat"] = "lorentz"
    yield from emit(c)

    # 5. seeded random device and object boxes on an 8^3 lattice (not tied to the representatives)
    def riv(n):
        s = rng.randrange(0, n)
        return [s, rng.randrange(s + 1, n + 1)]

    def riv3(n):
        s = rng.randrange(0, n - 2)
        return [s, rng.randrange(s + 3, n + 1)]

    for i in range(16 if ctx.quick else 400):
        if rng.random() < 0.5:
            # bias towards containment: device >= 3 cells per axis, object strictly inside it on most axes
            dev = [riv3(8) for _ in range(3)]
            box = []
            for d in dev:
                s = rng.randrange(d[0] + 1, d[1] - 1)
                box.append([s, rng.randrange(s + 1, d[1])] if rng.random() < 0.6 else riv(8))
        else:
            dev = [riv(8) for _ in range(3)]
            box = [riv(8) for _ in range(3)]
        c = _case(f"rand-{i}", "dipole", box, devs=[dev])
        c["n"] = 8
        yield from emit(c)


def _fp(x):
    import numpy as np

    a = np.asarray(x)
    h = hashlib.sha1(str(a.dtype).encode() + str(a.shape).encode() + np.ascontiguousarray(a).tobytes()).digest()
    return int.from_bytes(h[:4], "big") >> 1


def _leaves(o):
    import jax

    return {jax.tree_util.keystr(p): _fp(v) for p, v in jax.tree_util.tree_leaves_with_path(o)}


def _make(kind, name, shape):
    import fdtdx

    wc = fdtdx.WaveCharacter(wavelength=1e-6)
    thin = shape.index(1) if 1 in shape else 0
    pol = [0, 0, 0]
    pol[(thin + 1) % 3] = 1
    if kind == "dipole":
        return fdtdx.PointDipoleSource(name=name, partial_grid_shape=shape, wave_character=wc, polarization=0)
    if kind == "uniform":
        return fdtdx.UniformPlaneSource(name=name, partial_grid_shape=shape, wave_character=wc, direction="+", fixed_E_polarization_vector=tuple(pol))
    if kind == "gauss":
        return fdtdx.GaussianPlaneSource(name=name, partial_grid_shape=shape, wave_character=wc, direction="-", fixed_E_polarization_vector=tuple(pol), radius=100e-9)
    if kind == "mode":
        return fdtdx.ModePlaneSource(name=name, partial_grid_shape=shape, wave_character=wc, direction="+")
    if kind == "modedet":
        return fdtdx.ModeOverlapDetector(name=name, partial_grid_shape=shape, wave_characters=(wc,), direction="+")
    if kind == "energy":
        return fdtdx.EnergyDetector(name=name, partial_grid_shape=shape)
    if kind == "poynting":
        return fdtdx.PoyntingFluxDetector(name=name, partial_grid_shape=shape, direction="+")
    if kind == "phasor":
        return fdtdx.PhasorDetector(name=name, partial_grid_shape=shape, wave_characters=(wc,))
    if kind == "field":
        return fdtdx.FieldDetector(name=name, partial_grid_shape=shape)
    raise ValueError(kind)


def _device_materials(devmat):
    import fdtdx

    a = fdtdx.Material(permittivity=2.0)
    if devmat == "lorentz":
        from fdtdx.dispersion import DispersionModel, LorentzPole

        model = DispersionModel(poles=(LorentzPole(resonance_frequency=4.0e15, damping=1e11, delta_epsilon=2.25),))
        return {"a": a, "b": fdtdx.Material(permittivity=4.0, dispersion=model)}
    if devmat == "cond":
        return {"a": a, "b": fdtdx.Material(permittivity=4.0, electric_conductivity=2.0e4)}
    return {"a": a, "b": fdtdx.Material(permittivity=4.0)}


def observe(case):
    try:
        return _observe(case)
    except Exception as e:  # noqa: BLE001
        # the ARPACK eigen-solver behind the mode objects starts from a random vector and occasionally fails to
        # converge on these tiny cross-sections; that is no observation about C29: report the scene as skipped
        if "ARPACK" in str(e) and any(o["kind"] in ("mode", "modedet") for o in case["objs"]):
            return {"id": case["id"], "n": case.get("n", N), "devmat": case.get("devmat", "plain"), "devs": case["devs"], "objs": [], "skipped": True}
        raise


def _observe(case):
    import warnings

    import jax
    import jax.numpy as jnp
    import numpy as np
    import fdtdx

    n = case.get("n", N)
    devmat = case.get("devmat", "plain")
    cfg = fdtdx.SimulationConfig(time=20e-15, grid=fdtdx.UniformGrid(spacing=50e-9), dtype=jnp.float64)
    vol = fdtdx.SimulationVolume(partial_grid_shape=(n, n, n), material=fdtdx.Material(permittivity=1.0))
    mats = _device_materials(devmat)
    objs, cons = [vol], []
    dnames, onames = [], []
    for i, d in enumerate(case["devs"]):
        dev = fdtdx.Device(
            name=f"dev{i}", partial_grid_shape=tuple(b - a for a, b in d), materials=mats,
            param_transforms=[fdtdx.ClosestIndex()], partial_voxel_grid_shape=(1, 1, 1),
        )
        objs.append(dev)
        dnames.append(dev.name)
        cons.append(dev.set_grid_coordinates(axes=(0, 1, 2), sides=("-", "-", "-"), coordinates=tuple(a for a, _ in d)))
    for i, o in enumerate(case["objs"]):
        ob = _make(o["kind"], f"obj{i}", tuple(b - a for a, b in o["box"]))
        objs.append(ob)
        onames.append(ob.name)
        cons.append(ob.set_grid_coordinates(axes=(0, 1, 2), sides=("-", "-", "-"), coordinates=tuple(a for a, _ in o["box"])))
    with warnings.catch_warnings():
        warnings.simplefilter("ignore")  # e.g. the courant-stability hint for dispersive media: no time stepping here
        oc, arrays, params, cfg2, _ = fdtdx.place_objects(objs, cfg, cons)

    def kw(arr, aux=None):
        aux = arr if aux is None else aux
        return dict(
            key=jax.random.PRNGKey(7), inv_permittivities=arr.inv_permittivities, inv_permeabilities=arr.inv_permeabilities,
            dispersive_c1=aux.dispersive_c1, dispersive_c2=aux.dispersive_c2, dispersive_c3=aux.dispersive_c3,
            dispersive_c4=aux.dispersive_c4, electric_conductivity=aux.electric_conductivity,
        )

    devs_placed = [[list(map(int, s)) for s in oc[dn].grid_slice_tuple] for dn in dnames]
    rec_objs = [
        {"kind": o["kind"], "box": [list(map(int, s)) for s in oc[on].grid_slice_tuple], "tol": NEFF_TOL, "calls": []}
        for o, on in zip(case["objs"], onames)
    ]
    # consecutive apply_params calls on what the previous call returned; parameter patterns alternate:
    # material index = (i+j+k + call-1) mod 2 of the device-local cell index
    arr_prev, oc_prev = arrays, oc
    for call in range(case.get("ncalls", 2)):
        p = {dn: jnp.asarray((np.indices(params[dn].shape).sum(0) + call) % 2, dtype=jnp.float64) for dn in dnames}
        arr_new, oc_new, _ = fdtdx.apply_params(arr_prev, oc_prev, p)
        for o, on, ro in zip(case["objs"], onames, rec_objs):
            got = oc_new[on]
            # reference set-ups start from the object as place_objects returned it (for a flagged object: never
            # applied before), so a state-dependent apply cannot make the reference follow the observed object
            fresh, pre = oc[on].apply(**kw(arr_new)), oc[on].apply(**kw(arrays))
            lo, lf, lp = _leaves(got), _leaves(fresh), _leaves(pre)
            names = sorted(set(lo) | set(lf) | set(lp))
            nums = []
            modal = o["kind"] in ("mode", "modedet")

            def neff(x):
                v = np.asarray(getattr(x, "_neff" if o["kind"] == "mode" else "_mode_neff")).reshape(-1)[0]
                return [int(round(float(v.real) * NEFF_SCALE)), int(round(float(v.imag) * NEFF_SCALE))]

            if modal:
                # the eigenmode solver is not bit-reproducible (last-ulp noise, arbitrary basis for degenerate modes):
                # compare the sampled material slices exactly and the effective index within a stated tolerance
                names = [k for k in names if k not in NOISY]
                t = [neff(got), neff(fresh), neff(pre)]
                nums = [[t[0][j], t[1][j], t[2][j]] for j in range(2)]
            leaves = [[lo.get(k, -1), lf.get(k, -2), lp.get(k, -3)] for k in names]
            q = {
                "names": names, "leaves": leaves, "nums": nums,
                "flagged": bool(any(oc_new[dn].check_overlap(got) for dn in dnames)),
                "changes": bool(any(x[1] != x[2] for x in leaves) or any(abs(x[1] - x[2]) > NEFF_TOL for x in nums)),
                "aux_dep": False, "has_snap": False, "snap": [], "snap_exact": True,
            }
            if devmat != "plain":
                # does this object's state depend on the dispersion/conductivity arrays of THIS call? (coverage only):
                # set it up against the new permittivities but the previous call's dispersion/conductivity arrays
                mixed = oc[on].apply(**kw(arr_new, aux=arr_prev))
                if modal:
                    q["aux_dep"] = bool(any(abs(x - y) > NEFF_TOL for x, y in zip(neff(mixed), neff(fresh))))
                else:
                    lm = _leaves(mixed)
                    q["aux_dep"] = bool(any(lm.get(k) != lf.get(k) for k in names))
            if o["kind"] == "dipole" and devmat != "lorentz":
                loc = got._inv_eps_local
                if isinstance(loc, jax.Array):  # Null while the object has never been applied (then the leaves differ anyway)
                    v = 4.0 * np.asarray(loc, dtype=np.float64).reshape(-1)
                    rv = np.rint(v)
                    if v.size == int(np.prod(got.grid_shape)):
                        q.update(has_snap=True, snap=[int(x) for x in rv], snap_exact=bool(np.all(rv == v)))
            ro["calls"].append(q)
        arr_prev, oc_prev = arr_new, oc_new
    return {"id": case["id"], "n": n, "devmat": devmat, "devs": devs_placed, "objs": rec_objs, "skipped": False}


def classify(record, verdict):
    if verdict.startswith("malformed:"):
        return "malformed"
    if verdict.startswith("stale:"):
        return "violation"
    return "drift"


def run(ctx):
    import sys

    from lib.worker import pmap

    model_check(ctx)
    inputs = list(gen_cases(ctx))
    recs = pmap(__name__, "observe", inputs, procs=PARALLEL, mode="thread")
    for r in recs[:2]:
        ctx.sample(r)
    # non-trivial = objects whose state really depends on the device (apply on pre- and post-device arrays differ)
    ctx.nontrivial = sum(1 for r in recs for o in r["objs"] if any(q["changes"] for q in o["calls"]))
    ctx.extra_cov["object_calls_whose_state_depends_on_this_calls_dispersion_or_conductivity_arrays"] = sum(
        1 for r in recs for o in r["objs"] for q in o["calls"] if q["aux_dep"])
    ctx.extra_cov["scenes_skipped_eigensolver_failure"] = sum(1 for r in recs if r["skipped"])
    ctx.extra_cov["scenes_by_device_material"] = {k: sum(1 for r in recs if r["devmat"] == k) for k in ("plain", "lorentz", "cond")}
    kinds = {}
    for r in recs:
        for o in r["objs"]:
            kinds[o["kind"]] = kinds.get(o["kind"], 0) + 1
    ctx.extra_cov["objects_by_kind"] = kinds
    ctx.extra_cov["objects_whose_state_depends_on_device"] = ctx.nontrivial
    ctx.validate(*TRACE, recs, {c["id"]: c for c in inputs}, classify=classify, chunk=CHUNK)
