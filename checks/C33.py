"""C33 - Electric-plane symmetry reduction is exact (outside the light cone of the discarded half's far boundary).
Spec: spec/SymReduce.tla (+SymReduceDefs, AxisPermDefs, SupercellDefs, RelNum); trace spec: spec/Trace_SymReduce.tla.

Per case: the full scene (config.symmetry = (0,0,0)) and the same scene with config.symmetry[ax] = -1 (reduced by
place_objects) are stepped with forward() from parity-consistent initial fields; the reduced fields are unfolded with
fdtdx.unfold_fields / unfold_detector_states; TLC compares on every entry the far boundary cannot have influenced."""
import random

ID = "C33"
TRACE = ("Trace_SymReduce", "Trace_SymReduce.cfg")
CHUNK = 3
PARALLEL = 3


def model_check(ctx):
    ctx.mc("SymReduce", "MC_SymReduce_q.cfg" if ctx.quick else "MC_SymReduce_t.cfg",
           label="each axis as symmetry axis, full extent 6 (thorough 8), open / PEC far boundaries, transverse materials, every parity-consistent basis state + dense state")
    ctx.mc_negative("SymReduce", "MC_SymReduce_neg.cfg")    # mirror index off by one for on-plane components
    ctx.mc_negative("SymReduce", "MC_SymReduce_neg3.cfg")   # without the light-cone guard the relation must fail
    if not ctx.quick:
        ctx.mc_negative("SymReduce", "MC_SymReduce_neg2.cfg")   # wrong H parity row
    ctx.assumptions += [
        "claimed only on entries with (coordinate along the symmetry axis) - (thickness of the full domain's min boundary) > completed steps "
        "(+1 cell for co-located detector records)",
        "materials are uniform along the symmetry axis (slab spanning the axis), no sources; initial fields: random reduced fields with the odd on-plane "
        "components zero on the plane, full-domain fields = their mirror extension (re-checked by TLC at step 0)",
        "tolerance 1e-11 of the largest value of the compared arrays",
        "detector part: spatial Field / Phasor records (all six components, and component subsets given in non-canonical order with mixed parity) on every "
        "entry outside the light cone (+1 cell); volume-reduced Field / Phasor records over a plane-straddling region outside the light cone, claimed only for "
        "components sampled half a cell off the plane (co-located detectors: z plane only; x / y planes use raw detectors and claim E normal, H tangential) - "
        "for samples ON the plane a volume-reduced full-domain record is not a function of the kept half's record (see notes/C33.md)",
    ]


# component subsets in NON-canonical order with mixed mirror parity (for every symmetry axis each tuple holds odd and even
# components): the detectors stack their output in canonical order Ex,Ey,Ez,Hx,Hy,Hz whatever the order given here
COMPONENT_SETS = [("Hz", "Ey", "Ex"), ("Ey", "Hx", "Ez", "Hy"), ("Hy", "Ex", "Ez"), ("Ez", "Hz", "Ex", "Hx"), ("Hx", "Ez", "Ey", "Hz", "Ex")]


def _case(rng, n, ax, wrap_other=True):
    half = 8
    shape = [rng.randint(3, 4) for _ in range(3)]
    shape[ax] = 2 * half
    bounds = {}
    kind_ax = rng.choice(["pec", "pmc", "pml", "pec"])
    thick = 2 if kind_ax == "pml" else 1
    for a, x in enumerate("xyz"):
        if a == ax:
            bounds[f"min_{x}"] = bounds[f"max_{x}"] = kind_ax
        else:
            k = rng.choice(["periodic", "pec", "pmc"])
            if wrap_other and ax in (0, 1) and a == 1 - ax:
                # x / y plane with the OTHER of x / y periodic: the detector co-location stencil of Hz then reads the corner
                # where the mirror halo of the symmetry axis meets the wrapped min-side halo of that axis (the full-volume
                # co-located detector `fd` touches both index-0 edges, and that line lies outside the light cone)
                k = "periodic"
            bounds[f"min_{x}"] = bounds[f"max_{x}"] = k
    lo = [rng.randrange(0, s - 1) for s in shape]
    hi = [rng.randrange(l + 1, s + 1) for l, s in zip(lo, shape)]
    lo[ax], hi[ax] = 0, shape[ax]
    slab = {"lo": lo, "hi": hi, "eps": rng.choice([2.25, [1.5, 2.5, 3.5], [2.0, 1.2, 2.8]]), "sigma": rng.choice([0.0, 0.0, 200.0])}
    T = 3
    dets = [{"kind": "field", "name": "fd", "lo": [0, 0, 0], "hi": list(shape), "exact": True, "switch": {"interval": 2}}]
    # component subsets in non-canonical order: spatial Field and Phasor records over the whole volume ...
    dets.append({"kind": "field", "name": "fdp", "lo": [0, 0, 0], "hi": list(shape), "exact": True, "components": list(rng.choice(COMPONENT_SETS))})
    dets.append({"kind": "phasor", "name": "php", "lo": [0, 0, 0], "hi": list(shape), "exact": True, "components": list(rng.choice(COMPONENT_SETS)), "wl": 300e-9})
    # ... and volume-reduced records over a region that straddles the plane symmetrically and stays outside the light cone
    # of the far boundary for the whole run: cells [half-w, half+w) with half - w - thick > T + 1
    w = half - (thick + T + 2)
    rlo, rhi = [0, 0, 0], list(shape)
    rlo[ax], rhi[ax] = half - w, half + w
    # A volume-reduced record can be recovered from the kept half only for samples that sit HALF A CELL OFF the plane (a
    # cell-symmetric region holds the node rows half-w .. half+w-1, which are not symmetric about the node row `half`).
    # Co-located samples sit at (i, j, k+1/2): off the plane only for a z plane.  For x / y planes the reduced detectors are
    # therefore raw (exact_interpolation=False) and only their off-plane components are claimed (see notes/C33.md).
    coloc = ax == 2
    dets.append({"kind": "field", "name": "fdr", "lo": rlo, "hi": rhi, "exact": coloc, "reduce": True, "components": list(rng.choice(COMPONENT_SETS))})
    dets.append({"kind": "phasor", "name": "phr", "lo": rlo, "hi": rhi, "exact": coloc, "reduce": True, "components": list(rng.choice(COMPONENT_SETS)), "wl": 300e-9})
    return {"id": f"ax{ax}-{kind_ax}-{n}", "ax": ax, "thick": thick, "T": T, "seed": rng.randrange(10**9),
            "scene": {"shape": shape, "T": T, "res": 40e-9, "cf": 0.99, "pml": 2, "bounds": bounds, "slabs": [slab], "detectors": dets}, "roff": half - w}


def gen_cases(ctx):
    rng = random.Random(ctx.seed * 15485863 + 33)
    ctx.exhaustive = False
    n = 0
    for rep in range(1 if ctx.quick else 8):
        for ax in range(3):
            n += 1
            yield _case(rng, n, ax, wrap_other=(rep % 2 == 0))


def _on_plane(ft, p, ax):
    return (p != ax) if ft == "E" else (p == ax)


def _parity(ft, p, ax):
    if ft == "E":
        return 1 if p == ax else -1
    return -1 if p == ax else 1


def _mirror_extend(r, ax, ft):
    """harness-side construction of the full initial field (TLC re-checks it with the spec's map at step 0)"""
    import numpy as np

    n = r.shape[ax + 1]
    full_shape = list(r.shape)
    full_shape[ax + 1] = 2 * n
    f = np.zeros(full_shape, dtype=r.dtype)
    for p in range(3):
        for c in range(2 * n):
            if c >= n:
                j, s = c - n, 1
            elif _on_plane(ft, p, ax):
                j, s = (n - c, _parity(ft, p, ax)) if c >= 1 else (None, 0)
            else:
                j, s = n - 1 - c, _parity(ft, p, ax)
            if j is None:
                continue
            dst = [p, slice(None), slice(None), slice(None)]
            src = [p, slice(None), slice(None), slice(None)]
            dst[ax + 1], src[ax + 1] = c, j
            f[tuple(dst)] = s * r[tuple(src)]
    return f


def observe(case):
    import jax.numpy as jnp
    import numpy as np

    import fdtdx
    from harness import rel_scene as RS

    ax, T, thick = case["ax"], case["T"], case["thick"]
    sc = case["scene"]
    fo, fa, fcfg = RS.build(sc)
    sym = [0, 0, 0]
    sym[ax] = -1
    ro, ra, rcfg = RS.build(dict(sc, symmetry=sym))
    NF = list(fa.fields.E.shape[1:])
    NR = list(ra.fields.E.shape[1:])
    assert NR[ax] * 2 == NF[ax] and all(NR[a] == NF[a] for a in range(3) if a != ax), (NF, NR)
    rng = np.random.default_rng(case["seed"])

    def red0(ft):
        r = rng.normal(size=(3, *NR))
        for p in range(3):
            if _on_plane(ft, p, ax) and _parity(ft, p, ax) == -1:
                idx = [p, slice(None), slice(None), slice(None)]
                idx[ax + 1] = 0
                r[tuple(idx)] = 0.0
        return r

    Er0, Hr0 = red0("E"), red0("H")
    ra = ra.aset("fields->E", jnp.asarray(Er0)).aset("fields->H", jnp.asarray(Hr0))
    fa = fa.aset("fields->E", jnp.asarray(_mirror_extend(Er0, ax, "E"))).aset("fields->H", jnp.asarray(_mirror_extend(Hr0, ax, "H")))
    fruns = [(0, fa)] + list(RS.step_forward(fa, fo, fcfg, T, record_detectors=True))
    rruns = [(0, ra)] + list(RS.step_forward(ra, ro, rcfg, T, record_detectors=True))
    steps = []
    for (t, f), (_, r) in zip(fruns, rruns):
        Ef, Hf, Er, Hr = (np.asarray(x) for x in (f.fields.E, f.fields.H, r.fields.E, r.fields.H))
        Eu = np.asarray(fdtdx.unfold_fields(r.fields.E, tuple(sym), "E"))
        Hu = np.asarray(fdtdx.unfold_fields(r.fields.H, tuple(sym), "H"))
        sE, sH = RS.rel_scale(Ef, Er, Eu), RS.rel_scale(Hf, Hr, Hu)
        steps.append({"t": t, "Ef": RS.enc_real(Ef, sE)[0], "Er": RS.enc_real(Er, sE)[0], "Eu": RS.enc_real(Eu, sE)[0],
                      "Hf": RS.enc_real(Hf, sH)[0], "Hr": RS.enc_real(Hr, sH)[0], "Hu": RS.enc_real(Hu, sH)[0]})
    # co-located detector records: library unfold_detector_states vs full run
    fstates = fruns[-1][1].detector_states
    ustates = fdtdx.unfold_detector_states(rruns[-1][1], ro, rcfg).detector_states
    fdets = {d.name: d for d in fo.detectors}
    dets, rdets = [], []

    def add_spatial(t, what, a, b):     # a, b: (ncomp, nx, ny, nz), components in stored (canonical) order
        sc_ = RS.rel_scale(a, b)
        dets.append({"t": t, "what": what, "N": list(a.shape[1:]), "off": 0, "a": RS.enc_real(a, sc_)[0], "b": RS.enc_real(b, sc_)[0] if a.shape == b.shape else []})

    CANON = ["Ex", "Ey", "Ez", "Hx", "Hy", "Hz"]

    def add_reduced(t, name, part, a, b):     # a, b: flat per-component values of a volume-reduced record (stored = canonical order)
        a, b = np.ravel(a), np.ravel(b)
        stored = [c for c in CANON if c in fdets[name].components]
        sc_ = RS.rel_scale(a, b, np.asarray([refscale]))
        rdets.append({"t": t, "what": f"{name}(reduce_volume){part} " + "/".join(fdets[name].components), "off": case["roff"],
                      "coloc": bool(fdets[name].exact_interpolation), "comps": [[c[0], "xyz".index(c[1])] for c in stored],
                      "a": RS.enc_real(a, sc_)[0], "b": RS.enc_real(b, sc_)[0] if a.shape == b.shape else []})

    refscale = max(float(np.max(np.abs(o))) for o in (np.asarray(fruns[-1][1].fields.E), np.asarray(fruns[-1][1].fields.H)))
    for name in ("fd", "fdp"):
        fdet, udet = np.asarray(fstates[name]["fields"]), np.asarray(ustates[name]["fields"])
        assert fdet.shape == udet.shape, (name, fdet.shape, udet.shape)
        on_steps = [t for t in range(T) if bool(fdets[name]._is_on_at_time_step_arr[t])]
        for k, t in enumerate(on_steps):
            if name == "fd":
                add_spatial(t + 1, "fd E", fdet[k, 0:3], udet[k, 0:3])
                add_spatial(t + 1, "fd H", fdet[k, 3:6], udet[k, 3:6])
            else:
                add_spatial(t + 1, "fdp " + "/".join(fdets[name].components), fdet[k], udet[k])
    fph, uph = np.asarray(fstates["php"]["phasor"])[0, 0], np.asarray(ustates["php"]["phasor"])[0, 0]   # (ncomp, nx, ny, nz), complex
    add_spatial(T, "php re " + "/".join(fdets["php"].components), fph.real, uph.real)
    add_spatial(T, "php im " + "/".join(fdets["php"].components), fph.imag, uph.imag)
    fr, ur = np.asarray(fstates["fdr"]["fields"]), np.asarray(ustates["fdr"]["fields"])      # (Ton, ncomp)
    for k in range(fr.shape[0]):
        add_reduced(k + 1, "fdr", "", fr[k], ur[k])
    fp, up = np.asarray(fstates["phr"]["phasor"]), np.asarray(ustates["phr"]["phasor"])
    add_reduced(T, "phr", " re", fp.real, up.real)
    add_reduced(T, "phr", " im", fp.imag, up.imag)
    return {"id": case["id"], "NF": NF, "ax": ax, "thick": thick, "T": T, "tol": 10, "steps": steps, "dets": dets, "rdets": rdets}


def classify(rec, verdict):
    if verdict.startswith("malformed"):
        return "malformed"
    return "drift" if verdict.startswith("drift") else "violation"
