"""C33 - Electric-plane symmetry reduction is exact (outside the light cone of the discarded half's far boundary).
Spec: spec/SymReduce.tla (+SymReduceDefs, AxisPermDefs, SupercellDefs, RelNum); trace spec: spec/Trace_SymReduce.tla.

Per case: the full scene (config.symmetry = (0,0,0)) and the same scene with config.symmetry[ax] = -1 (reduced by
place_objects) are stepped with forward() from parity-consistent initial fields; the reduced fields are unfolded with
fdtdx.unfold_fields / unfold_detector_states; TLC compares on every entry the far boundary cannot have influenced."""
import random

ID = "C33"
TRACE = ("Trace_SymReduce", "Trace_SymReduce.cfg")
CHUNK = 3
PARALLEL = 3


def model_check(ctx):
    ctx.mc("SymReduce", "MC_SymReduce_q.cfg" if ctx.quick else "MC_SymReduce_t.cfg",
           label="each axis as symmetry axis, full extent 6 (thorough 8), open / PEC far boundaries, transverse materials, every parity-consistent basis state + dense state")
    ctx.mc_negative("SymReduce", "MC_SymReduce_neg.cfg")    # mirror index off by one for on-plane components
    ctx.mc_negative("SymReduce", "MC_SymReduce_neg3.cfg")   # without the light-cone guard the relation must fail
    if not ctx.quick:
        ctx.mc_negative("SymReduce", "MC_SymReduce_neg2.cfg")   # wrong H parity row
    ctx.assumptions += [
        "claimed only on entries with (coordinate along the symmetry axis) - (thickness of the full domain's min boundary) > completed steps "
        "(+1 cell for co-located detector records)",
        "materials are uniform along the symmetry axis (slab spanning the axis), no sources; initial fields: random reduced fields with the odd on-plane "
        "components zero on the plane, full-domain fields = their mirror extension (re-checked by TLC at step 0)",
        "tolerance 1e-11 of the largest value of the compared arrays",
    ]


def _case(rng, n, ax):
    half = rng.choice([5, 6])
    shape = [rng.randint(3, 5) for _ in range(3)]
    shape[ax] = 2 * half
    bounds = {}
    kind_ax = rng.choice(["pec", "pmc", "pml", "pec"])
    thick = 2 if kind_ax == "pml" else 1
    for a, x in enumerate("xyz"):
        if a == ax:
            bounds[f"min_{x}"] = bounds[f"max_{x}"] = kind_ax
        else:
            k = rng.choice(["periodic", "pec", "pmc"])
            bounds[f"min_{x}"] = bounds[f"max_{x}"] = k
    lo = [rng.randrange(0, s - 1) for s in shape]
    hi = [rng.randrange(l + 1, s + 1) for l, s in zip(lo, shape)]
    lo[ax], hi[ax] = 0, shape[ax]
    slab = {"lo": lo, "hi": hi, "eps": rng.choice([2.25, [1.5, 2.5, 3.5], [2.0, 1.2, 2.8]]), "sigma": rng.choice([0.0, 0.0, 200.0])}
    det = {"kind": "field", "name": "fd", "lo": [0, 0, 0], "hi": list(shape), "exact": True, "switch": {"interval": 2}}
    T = half - thick - 2
    return {"id": f"ax{ax}-{kind_ax}-{n}", "ax": ax, "thick": thick, "T": T, "seed": rng.randrange(10**9),
            "scene": {"shape": shape, "T": T, "res": 40e-9, "cf": 0.99, "pml": 2, "bounds": bounds, "slabs": [slab], "detectors": [det]}}


def gen_cases(ctx):
    rng = random.Random(ctx.seed * 15485863 + 33)
    ctx.exhaustive = False
    n = 0
    for rep in range(1 if ctx.quick else 8):
        for ax in range(3):
            n += 1
            yield _case(rng, n, ax)


def _on_plane(ft, p, ax):
    return (p != ax) if ft == "E" else (p == ax)


def _parity(ft, p, ax):
    if ft == "E":
        return 1 if p == ax else -1
    return -1 if p == ax else 1


def _mirror_extend(r, ax, ft):
    """harness-side construction of the full initial field (TLC re-checks it with the spec's map at step 0)"""
    import numpy as np

    n = r.shape[ax + 1]
    full_shape = list(r.shape)
    full_shape[ax + 1] = 2 * n
    f = np.zeros(full_shape, dtype=r.dtype)
    for p in range(3):
        for c in range(2 * n):
            if c >= n:
                j, s = c - n, 1
            elif _on_plane(ft, p, ax):
                j, s = (n - c, _parity(ft, p, ax)) if c >= 1 else (None, 0)
            else:
                j, s = n - 1 - c, _parity(ft, p, ax)
            if j is None:
                continue
            dst = [p, slice(None), slice(None), slice(None)]
            src = [p, slice(None), slice(None), slice(None)]
            dst[ax + 1], src[ax + 1] = c, j
            f[tuple(dst)] = s * r[tuple(src)]
    return f


def observe(case):
    import jax.numpy as jnp
    import numpy as np

    import fdtdx
    from harness import rel_scene as RS

    ax, T, thick = case["ax"], case["T"], case["thick"]
    sc = case["scene"]
    fo, fa, fcfg = RS.build(sc)
    sym = [0, 0, 0]
    sym[ax] = -1
    ro, ra, rcfg = RS.build(dict(sc, symmetry=sym))
    NF = list(fa.fields.E.shape[1:])
    NR = list(ra.fields.E.shape[1:])
    assert NR[ax] * 2 == NF[ax] and all(NR[a] == NF[a] for a in range(3) if a != ax), (NF, NR)
    rng = np.random.default_rng(case["seed"])

    def red0(ft):
        r = rng.normal(size=(3, *NR))
        for p in range(3):
            if _on_plane(ft, p, ax) and _parity(ft, p, ax) == -1:
                idx = [p, slice(None), slice(None), slice(None)]
                idx[ax + 1] = 0
                r[tuple(idx)] = 0.0
        return r

    Er0, Hr0 = red0("E"), red0("H")
    ra = ra.aset("fields->E", jnp.asarray(Er0)).aset("fields->H", jnp.asarray(Hr0))
    fa = fa.aset("fields->E", jnp.asarray(_mirror_extend(Er0, ax, "E"))).aset("fields->H", jnp.asarray(_mirror_extend(Hr0, ax, "H")))
    fruns = [(0, fa)] + list(RS.step_forward(fa, fo, fcfg, T, record_detectors=True))
    rruns = [(0, ra)] + list(RS.step_forward(ra, ro, rcfg, T, record_detectors=True))
    steps = []
    for (t, f), (_, r) in zip(fruns, rruns):
        Ef, Hf, Er, Hr = (np.asarray(x) for x in (f.fields.E, f.fields.H, r.fields.E, r.fields.H))
        Eu = np.asarray(fdtdx.unfold_fields(r.fields.E, tuple(sym), "E"))
        Hu = np.asarray(fdtdx.unfold_fields(r.fields.H, tuple(sym), "H"))
        sE, sH = RS.rel_scale(Ef, Er, Eu), RS.rel_scale(Hf, Hr, Hu)
        steps.append({"t": t, "Ef": RS.enc_real(Ef, sE)[0], "Er": RS.enc_real(Er, sE)[0], "Eu": RS.enc_real(Eu, sE)[0],
                      "Hf": RS.enc_real(Hf, sH)[0], "Hr": RS.enc_real(Hr, sH)[0], "Hu": RS.enc_real(Hu, sH)[0]})
    # co-located detector records: library unfold vs full run
    fdet = np.asarray(fruns[-1][1].detector_states["fd"]["fields"])
    udet = np.asarray(fdtdx.unfold_detector_states(rruns[-1][1], ro, rcfg).detector_states["fd"]["fields"])
    assert fdet.shape == udet.shape, (fdet.shape, udet.shape)
    dets = []
    det = [d for d in fo.detectors if d.name == "fd"][0]
    on_steps = [t for t in range(T) if bool(det._is_on_at_time_step_arr[t])]
    for k, t in enumerate(on_steps):
        for blk, name in ((slice(0, 3), "E"), (slice(3, 6), "H")):
            a, b = fdet[k, blk], udet[k, blk]
            s = RS.rel_scale(a, b)
            dets.append({"t": t + 1, "what": name, "N": list(a.shape[1:]), "off": 0, "a": RS.enc_real(a, s)[0], "b": RS.enc_real(b, s)[0]})
    return {"id": case["id"], "NF": NF, "ax": ax, "thick": thick, "T": T, "tol": 10, "steps": steps, "dets": dets}


def classify(rec, verdict):
    if verdict.startswith("malformed"):
        return "malformed"
    return "drift" if verdict.startswith("drift") else "violation"
