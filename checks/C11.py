"""C11 - complex-valued field storage reproduces the real-valued run.
Spec: spec/Yee.tla (+YeeDefs) mode "complex"; trace spec: spec/Trace_Yee.tla; harness: harness/yee_sys.py.  DESIGN.md §5 C11."""
import copy
import random

ID = "C11"
TRACE = ("Trace_Yee", "Trace_Yee.cfg")
CHUNK = 4
PARALLEL = 4
TOL = 100  # units of 1e-13: relative 1e-11


def model_check(ctx):
    ctx.mc("Yee", "MC_Yee_C11_q.cfg" if ctx.quick else "MC_Yee_C11_t.cfg",
           label="real-storage run and complex-storage run side by side (no Bloch phase, switched E/H dipoles): imaginary part stays 0 and the real part is the real run, after every sub-step")
    ctx.mc_negative("Yee", "MC_Yee_C11_neg.cfg")  # complex storage: the injection also writes a quadrature (imaginary) part
    ctx.assumptions += [
        "scenes have no non-zero Bloch phase (periodic faces are plain periodic)",
        "exact records: one forward() step on integer real data in a float64 container and in a complex128 container (use_complex_fields=True): imaginary part exactly 0, real part bit-identical",
        "pipeline records: run_fdtd with SimulationConfig(use_complex_fields=True) versus default on scenes with absorbing/periodic/PEC/PMC faces, dipole / plane / Gaussian sources and field, phasor, energy and Poynting-flux detectors (float64 records); tolerance 1e-11 relative to the largest entry of the real run's array",
    ]


def gen_cases(ctx):
    from harness import yee_sys as Y

    rng = random.Random(ctx.seed)
    ctx.exhaustive = False
    cases = []
    sweep = [s for s in Y.sweep_configs() if not any(k in (2, 3, 4) for k in s[1])]
    pick = [s for n, s in enumerate(sweep) if n % (4 if ctx.quick else 1) == (ctx.seed % 4 if ctx.quick else 0)]
    for shape, kinds in pick:
        cases.append({"id": f"x-sweep-{'x'.join(map(str, shape))}-k{'.'.join(map(str, kinds))}", "mode": "exact", "cfg": Y.pattern_cfg(shape, kinds, mat=1, T=2), "seed": rng.randrange(10**6)})
    for n in range(5 if ctx.quick else 40):
        cfg = Y.pipeline_scene(rng)
        cases.append({"id": f"p-run{n}-{'x'.join(map(str, cfg['shape']))}-k{'.'.join(map(str, cfg['kinds']))}-pml{len(cfg['pml_faces'])}", "mode": "pipeline", "cfg": cfg, "seed": rng.randrange(10**6)})
    return cases


def _observe(case):
    import jax
    import jax.numpy as jnp
    import numpy as np

    from harness import yee_sys as Y

    cfg = case["cfg"]
    rs = np.random.RandomState(case["seed"])
    rec = {"id": case["id"], "kind": "complex", "tol": TOL, "devtol": 1000, "runs": [], "mons": [], "exact": False}
    ccfg = copy.deepcopy(cfg)
    ccfg["complex"] = True
    if case["mode"] == "exact":
        B = 10
        E0, H0 = Y.int_states(cfg, rs, n_dense=6, n_pairs=0, n_basis=4, complex_ok=False)
        B = E0.shape[0]
        outs = []
        for c in (cfg, ccfg):
            obj, arrays, config = Y.build(c)
            fwd, _, arrays, config = Y.steppers(obj, arrays, config)
            dt = Y.field_dtype(arrays)
            e, h = jax.vmap(fwd)(jnp.zeros((B,), dtype=jnp.int32), jnp.asarray(E0, dtype=dt), jnp.asarray(H0, dtype=dt))
            outs.append((np.asarray(e), np.asarray(h), np.dtype(dt)))
        rec.update(Y.spec_fields(cfg))
        rec["exact"] = True
        rec["dtypes"] = [str(outs[0][2]), str(outs[1][2])]
        if not (outs[0][2] == np.float64 and outs[1][2] == np.complex128):
            rec["mons"].append({"name": "field containers do not have the expected real / complex dtypes", "d": 2_000_000_000, "two": True})
        for b in range(B):
            S, dev = [], 0.0
            for k, (E, H) in ((0, (E0[b], H0[b])), (1, (outs[0][0][b], outs[0][1][b])), (1, (outs[1][0][b], outs[1][1][b]))):
                o, d = Y.obs_state(E, H, k)
                S.append(o)
                dev = max(dev, d)
            rec["runs"].append({"S": S, "dev": Y.ppb(dev), "t0": 0, "ab": [0, 0]})
        return rec
    Er, Hr, Dr = Y.run_pipeline(cfg)
    try:
        Ec, Hc, Dc = Y.run_pipeline(ccfg)
    except Exception as e:  # the real-valued run works, the complex-valued one does not: it does not reproduce it
        rec["mons"].append({"name": f"run with use_complex_fields=True failed ({type(e).__name__}) where the real-valued run succeeds", "d": 2_000_000_000, "two": True})
        return rec
    rec["dtypes"] = [str(Er.dtype), str(Ec.dtype)]
    if not np.iscomplexobj(Ec):
        rec["mons"].append({"name": "use_complex_fields=True did not allocate complex fields", "d": 2_000_000_000, "two": True})
    for nm, r, c in (("E", Er, Ec), ("H", Hr, Hc)):
        scale = float(np.max(np.abs(r)))
        rec["mons"].append({"name": f"real part of final {nm} differs from the real run", "d": Y.scaled(Y.rel_dev(np.real(c), r, scale)), "two": True})
        rec["mons"].append({"name": f"imaginary part of final {nm} is not zero", "d": Y.scaled(Y.rel_dev(np.imag(c), np.zeros_like(r), scale)), "two": True})
    if sorted(Dr) != sorted(Dc):
        rec["mons"].append({"name": "detector sets differ", "d": 2_000_000_000, "two": True})
    for dn in Dr:
        for k in Dr[dn]:
            r, c = Dr[dn][k], Dc.get(dn, {}).get(k)
            if c is None:
                rec["mons"].append({"name": f"record {dn}.{k} missing in the complex run", "d": 2_000_000_000, "two": True})
                continue
            scale = float(np.max(np.abs(r)))
            if "poynting" in k:
                # E x H is a difference of products: its rounding noise scales with |E||H|, not with the (possibly
                # cancelling) flux itself (observed 7.5e-11 of the flux maximum on the unchanged tree, seed 1)
                scale = max(scale, float(np.max(np.abs(Er))) * float(np.max(np.abs(Hr))))
            rec["mons"].append({"name": f"record {dn}.{k} differs between complex and real storage", "d": Y.scaled(Y.rel_dev(c, r, scale)), "two": True})
    rec["nonzero"] = bool(np.max(np.abs(Er)) > 0 and all(np.max(np.abs(Dr[dn][k])) > 0 for dn in Dr for k in Dr[dn]))
    return rec


def observe(case):
    from harness import yee_sys as Y

    return Y.safe_observe(_observe, case, "complex", TOL)


def classify(rec, verdict):
    if verdict.startswith("malformed"):
        return "malformed"
    if verdict.startswith("model:") or verdict.startswith("inexact:"):
        return "drift"
    return "violation"


def run(ctx):
    import sys

    from harness import yee_sys as Y

    Y.pipeline(sys.modules[__name__], ctx)
