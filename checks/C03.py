"""C03 - full backward pass reconstructs interior fields despite absorbing layers.
Spec: spec/Reconstruct.tla (knowledge model of restore / reverse / reset); trace spec: spec/Trace_Reconstruct.tla."""
import random

ID = "C03"
TRACE = ("Trace_Reconstruct", "Trace_Reconstruct.cfg")
PARALLEL = 3
FACES = ("min_x", "max_x", "min_y", "max_y", "min_z", "max_z")


def model_check(ctx):
    ctx.mc("Reconstruct", "MC_Reconstruct_q.cfg" if ctx.quick else "MC_Reconstruct_t.cfg", label="all face-kind combinations (pml/wall/periodic) x thickness on a 2-D lattice, 3 reverse steps")
    for n in ("neg", "neg2", "neg3"):
        ctx.mc_negative("Reconstruct", f"MC_Reconstruct_{n}.cfg")
    ctx.assumptions += ["residual = max |reconstructed - forward| over cells outside every absorbing layer, relative to the forward field's max over the run; tolerance 1e-9",
                        "lossless recording = Recorder(modules=[]) ; lossless non-dispersive media"]


def gen_cases(ctx):
    rng = random.Random(ctx.seed)
    n = 0
    # premise: coefficient tables at the inner face for both directions, all axes, thickness 1..20
    for axis in range(3):
        for side in ("min", "max"):
            for th in ([1, 2, 5, 9] if ctx.quick else range(1, 21)):
                n += 1
                yield {"id": f"grad-{axis}{side}-{th}", "kind": "grading", "axis": axis, "side": side, "th": th}
    fixed = [
        ({"min_z": "pml", "max_z": "pml"}, 3, [6, 6, 12]),
        ({f: "pml" for f in FACES}, 2, [9, 9, 9]),
        ({"min_x": "pml", "max_x": "pec", "min_y": "pmc", "max_y": "pml", "min_z": "pml", "max_z": "pml"}, 2, [8, 8, 9]),
        ({"min_y": "pml", "max_y": "pml", "min_z": "pml", "max_z": "pec"}, 4, [6, 12, 9]),
    ]
    extra = 0 if ctx.quick else 20
    for i in range(extra):
        b = {}
        for ax in "xyz":
            k = rng.choice(["periodic", "pml2", "mixed"])
            if k == "pml2":
                b[f"min_{ax}"] = b[f"max_{ax}"] = "pml"
            elif k == "mixed":
                b[f"min_{ax}"] = rng.choice(["pml", "pec", "pmc"])
                b[f"max_{ax}"] = rng.choice(["pml", "pec", "pmc"])
        if not any(v == "pml" for v in b.values()):
            b["min_z"] = "pml"
            b["max_z"] = rng.choice(["pml", "pec"])
        th = rng.randint(1, 5)
        fixed.append((b, th, [rng.randint(2 * th + 3, 2 * th + 5) for _ in range(3)]))
    for i, (b, th, shp) in enumerate(fixed):
        c = [s // 2 for s in shp]
        sc = {"shape": shp, "T": rng.randint(8, 12), "bounds": b, "pml": th,
              "sources": [{"pos": c, "pol": i % 3, "switch": [{}, {"interval": 2}, {"fixed_on_time_steps": [1, 2, 4, 5, 7]}][i % 3]},
                          {"pos": [c[0], c[1] - 1, c[2]], "pol": (i + 1) % 3, "kind": "mdipole", "switch": [{"interval": 3}, {}, {"fixed_on_time_steps": [0, 3, 4, 6]}][i % 3]}],
              "slab": {"lo": [c[0] - 1, c[1] - 1, c[2] - 1], "hi": [c[0] + 1, c[1] + 1, c[2] + 1], "eps": 2.0, "mu": 1.5 if i % 2 else 1.0}}
        yield {"id": f"run{i}", "kind": "run", "scene": sc}
    ctx.exhaustive = False


def observe(case):
    return _grading(case) if case["kind"] == "grading" else _run(case)


def _grading(case):
    import numpy as np

    from harness import scenes as S

    ax, side, th = case["axis"], case["side"], case["th"]
    face = f"{side}_{'xyz'[ax]}"
    shp = [4, 4, 4]
    shp[ax] = th + 4
    other = "max" if side == "min" else "min"
    obj, arrays, config = S.build_scene({"shape": shp, "T": 2, "bounds": {face: "pml", f"{other}_{'xyz'[ax]}": "pec"}, "pml": th})
    pml = obj.pml_objects[0]
    idx = th - 1 if side == "min" else 0   # inner face = the interface cell

    def at(a):
        return float(np.ravel(np.asarray(a))[idx])

    q = lambda v: int(round(v * 1e9))  # noqa: E731
    return {"id": case["id"], "kind": "grading", "aE": q(at(pml.pml_a_E)), "aH": q(at(pml.pml_a_H)), "ikE": q(at(pml.inv_kappa_E)), "ikH": q(at(pml.inv_kappa_H)), "one": 10**9,
            "T": 0, "events": [], "inner_plain": True, "lossless": True, "tol": 0, "fwd_peak": 1}


def _run(case):
    import jax
    import jax.numpy as jnp
    import numpy as np

    from fdtdx.fdtd.backward import backward
    from fdtdx.fdtd.forward import forward
    from harness import scenes as S
    from harness import sched as H

    sc = case["scene"]
    T = sc["T"]
    obj, arrays, config = S.build_scene(sc)
    arrays, config = S.attach_gradient(arrays, config, obj, "reversible")
    key = jax.random.PRNGKey(0)
    fstep = jax.jit(lambda s: forward(s, config, obj, key, record_detectors=False, record_boundaries=True, simulate_boundaries=True))
    bstep = jax.jit(lambda s: backward(s, config, obj, key, record_detectors=False, reset_fields=True))
    mask = H.interior_mask(obj, tuple(sc["shape"]))
    state = (jnp.asarray(0, dtype=jnp.int32), arrays.reset() if hasattr(arrays, "reset") else arrays)
    hist = [(np.asarray(state[1].fields.E), np.asarray(state[1].fields.H))]
    events = []
    for t in range(T):
        state = fstep(state)
        hist.append((np.asarray(state[1].fields.E), np.asarray(state[1].fields.H)))
        events.append({"ev": "fwd", "t": t, "rE": 0, "rH": 0})
    pE = max(float(np.max(np.abs(e))) for e, _ in hist)
    pH = max(float(np.max(np.abs(h))) for _, h in hist)
    m3 = np.broadcast_to(mask, hist[0][0].shape)
    for t in range(T - 1, -1, -1):
        state = bstep(state)
        E, Hf = np.asarray(state[1].fields.E), np.asarray(state[1].fields.H)
        fe, fh = hist[t]

        def res(a, b, p):
            d = np.abs(a - b)[m3]
            if not np.all(np.isfinite(d)):
                return 2_000_000_000
            return int(min(2e9, round(float(np.max(d)) / max(p, 1e-300) * 1e9)))

        events.append({"ev": "bwd", "t": int(state[0]), "rE": res(E, fe, pE), "rH": res(Hf, fh, pH)})
    inner_plain = all(float(np.ravel(np.asarray(p.pml_a_E))[p.thickness - 1 if p.direction == "-" else 0]) == 0.0 for p in obj.pml_objects)
    return {"id": case["id"], "kind": "run", "T": T, "events": events, "inner_plain": bool(inner_plain), "lossless": True, "tol": 1, "fwd_peak": int(pE > 0 and pH > 0),
            "aE": 0, "aH": 0, "ikE": 0, "ikH": 0, "one": 0, "n_interior": int(mask.sum()), "max_rE": max(e["rE"] for e in events), "max_rH": max(e["rH"] for e in events)}


def classify(rec, verdict):
    return "malformed" if verdict.startswith("malformed") else "violation"
