"""C19 - Discretization picks the nearest allowed material (fdtdx.ClosestIndex).
Spec: spec/ClosestIndex.tla (+ClosestIndexDefs, ParamArrays), trace spec: spec/Trace_ClosestIndex.tla.  DESIGN.md §5 C19.

Every record is ONE real call of ClosestIndex.__call__ plus one jax.vjp through it; TLC (Trace_ClosestIndex)
evaluates the property on the returned numbers.  Python only builds inputs and encodes outputs as integers."""
import itertools
import random

ID = "C19"
TRACE = ("Trace_ClosestIndex", "Trace_ClosestIndex.cfg")
CHUNK = 450
PARALLEL = 4

# the finite space of spec/ClosestIndex.tla (MC_ClosestIndex_q.cfg / _t.cfg) -----------------------------------
SHAPES2 = [(1,), (2,), (1, 1), (1, 2), (2, 1), (1, 1, 1), (1, 1, 2), (1, 2, 1), (2, 1, 1)]
SHAPES3 = [(3,), (1, 3), (3, 1), (3, 1, 1), (1, 3, 1), (1, 1, 3)]
SHAPES4 = [(2, 2), (4,), (1, 2, 2), (2, 1, 2), (2, 2, 1)]
# inverse permittivities in units of 1/240, dictionary order (as in ClosestIndex.tla MatSetsQ / MatSetsT)
MATSETS_Q = [(240, 120), (80, 240, 48), (30, 60, 120, 240), (240, 15, 60, 30, 120)]
MATSETS_T = MATSETS_Q + [(60, 240), (120, 240, 60), (480, 240), (48, 80), (15, 240, 80), (480, 120, 30), (240, 120, 80, 60, 48), (60, 15, 240, 480)]


def _eps_of_inv240(v):
    from math import gcd

    g = gcd(240, v)
    return [240 // g, v // g]  # eps = 240 / v  as [num, den]


def model_check(ctx):
    ctx.mc(
        "ClosestIndex",
        "MC_ClosestIndex_q.cfg" if ctx.quick else "MC_ClosestIndex_t.cfg",
        label="both modes x material sets (2-5) x shapes with singleton axes x ALL arrays over the quarter / sixteenth grid",
    )
    ctx.mc_negative("ClosestIndex", "MC_ClosestIndex_neg.cfg")  # pre-fix broadcasting of the inverse mode
    ctx.mc_negative("ClosestIndex", "MC_ClosestIndex_neg2.cfg")  # no straight-through estimator
    ctx.mc_negative("ClosestIndex", "MC_ClosestIndex_neg3.cfg")  # floor instead of round
    ctx.assumptions += [
        "inputs are dyadic rationals (quarters / sixteenths / 1024ths), so float64 distances are exact and a tie in TLC is a tie in JAX",
        "inverse mode is claimed (and exercised) for isotropic materials only; diagonal materials are exercised in index mode",
        "ties: any nearest allowed value is accepted; the implementation's tie rule is only monitored as drift",
    ]


def gen_cases(ctx):
    rng = random.Random(ctx.seed)
    quick = ctx.quick
    # ---- A. the space TLC enumerated (shapes x material sets x arrays over the grid).
    # thorough: every array for all shapes of <= 2 voxels.  quick: every array for the 1-voxel shapes and (material sets
    # of size 2) the 2-voxel shape (2,); for all other shapes the family of V "shifted" arrays in which every voxel
    # position sees every grid value (the transform is voxel-wise; what the other arrays add is covered by TLC).
    shapes_all = SHAPES2 if quick else SHAPES2 + SHAPES3
    shapes_big = SHAPES3 if quick else SHAPES4

    def arrays(grid, sh, n):
        cells = 1
        for d in sh:
            cells *= d
        if cells == 1 or (cells == 2 and (not quick or (n <= 2 and tuple(sh) == (2,)))):
            yield from itertools.product(grid, repeat=cells)
        else:
            V = len(grid)
            stride = max(1, V // cells) + 1
            for k in range(V):
                yield tuple(grid[(k + c * stride) % V] for c in range(cells))

    for n in range(2, 6):
        grid = list(range(-4, 4 * n + 1))
        shapes = shapes_all + (shapes_big if n <= 2 else [])
        for sh in shapes:
            kind = "diag" if (n + len(sh)) % 2 else "iso"
            for k, vals in enumerate(arrays(grid, sh, n)):
                yield {"id": f"ix-n{n}-{'x'.join(map(str, sh))}-{k}", "mode": "index", "den": 4, "n": n, "kind": kind,
                       "eps": [[i + 1, 1] for i in range(n)], "shape": list(sh), "inp": list(vals)}
    for ms in MATSETS_Q if quick else MATSETS_T:
        n = len(ms)
        lo, hi = min(ms) - 30, max(ms) + 30
        grid = [x for x in range(lo, hi + 1) if x % 15 == 0]
        shapes = shapes_all + (shapes_big if n <= 2 else [])
        for sh in shapes:
            for k, vals in enumerate(arrays(grid, sh, n)):
                yield {"id": f"inv-{'_'.join(map(str, ms))}-{'x'.join(map(str, sh))}-{k}", "mode": "inverse", "den": 240, "n": n,
                       "kind": "iso", "eps": [_eps_of_inv240(v) for v in ms], "shape": list(sh), "inp": list(vals)}
    # ---- B. seeded random: larger shapes (singleton axes anywhere), off-grid dyadic values, more material sets
    ctx.exhaustive = False
    eps_pool = [[1, 1], [2, 1], [4, 1], [8, 1], [16, 1], [3, 1], [5, 1], [3, 2], [1, 2], [9, 4], [12, 1], [6, 1], [10, 1]]
    nrand = 200 if quick else 3000
    for k in range(nrand):
        n = rng.randint(2, 5)
        rank = rng.randint(1, 3)
        sh = [rng.choice([1, 1, 2, 3, 4, 5]) for _ in range(rank)]
        if rng.random() < 0.3:
            sh[-1] = rng.choice([1, n])  # depth equal to the number of materials / depth 1
        cells = 1
        for d in sh:
            cells *= d
        if rng.random() < 0.5:
            den = 1024
            vals = [rng.randint(-1536, n * 1024 + 512) for _ in range(cells)]
            yield {"id": f"rnd-ix-{k}", "mode": "index", "den": den, "n": n, "kind": rng.choice(["iso", "diag"]),
                   "eps": [[i + 1, 1] for i in range(n)], "shape": sh, "inp": vals}
        else:
            den = 46080  # 1024 * 45: every 1/eps of the pool is an integer; inputs are multiples of 45 (k/1024)
            eps = rng.sample(eps_pool, n)
            top = max(den * e[1] // e[0] for e in eps)
            vals = [45 * rng.randint(-100, top // 45 + 100) for _ in range(cells)]
            yield {"id": f"rnd-inv-{k}", "mode": "inverse", "den": den, "n": n, "kind": "iso", "eps": eps, "shape": sh, "inp": vals}


_CFG = None


def _config():
    global _CFG
    if _CFG is None:
        import fdtdx
        from fdtdx.core.grid import UniformGrid

        _CFG = fdtdx.SimulationConfig(time=100e-15, grid=UniformGrid(spacing=500e-9), backend="cpu")
    return _CFG


def _round(a, scale=1.0):
    """integers + deviation in ppb (relative to max(1,|a|)); non-finite -> sentinel"""
    import numpy as np

    a = np.asarray(a, dtype=np.float64).ravel() * scale
    if a.size and not np.all(np.isfinite(a)):
        return [-777777] * a.size, 10**9
    r = np.rint(a)
    dev = float(np.max(np.abs(a - r) / np.maximum(1.0, np.abs(a)))) if a.size else 0.0
    if a.size and np.max(np.abs(r)) >= 2**31 - 1:
        return [-777777] * a.size, 10**9
    return [int(x) for x in r], int(min(10**9, round(dev * 1e9)))


def observe(case):
    import jax
    import jax.numpy as jnp
    import numpy as np
    from fdtdx.materials import Material
    from fdtdx.objects.device.parameters.discretization import ClosestIndex

    den, n, shape = case["den"], case["n"], tuple(case["shape"])
    mats = {}
    for i, (num, d) in enumerate(case["eps"]):
        e = num / d
        mats[f"mat{i}"] = Material(permittivity=(e, e + 0.5, e + 1.0) if case["kind"] == "diag" else e)
    t = ClosestIndex(mapping_from_inverse_permittivities=(case["mode"] == "inverse"))
    t = t.init_module(config=_config(), materials=mats, matrix_voxel_grid_shape=(1, 1, 1), single_voxel_size=(1.0, 1.0, 1.0),
                      output_shape={"params": shape})
    x = jnp.asarray(np.asarray(case["inp"], dtype=np.float64).reshape(shape) / den)
    rec = {"id": case["id"], "mode": case["mode"], "den": den, "n": n, "eps": case["eps"], "shape": list(shape), "inp": case["inp"],
           "err": "", "oshape": [], "out": [], "odev": 0, "gerr": "skipped", "gshape": [], "ct": [], "gout": [], "gdev": 0}
    f = lambda a: t({"params": a})["params"]  # noqa: E731
    # one real call: jax.vjp runs __call__ once and returns its output together with the pullback
    pull = None
    try:
        y, pull = jax.vjp(f, x)
    except Exception as ex:
        rec["gerr"] = (type(ex).__name__ + ": " + str(ex))[:160]
        try:
            y = f(x)
        except Exception as ex2:  # the property says an array comes back: an exception is an observation, not a crash
            rec["err"] = (type(ex2).__name__ + ": " + str(ex2))[:160]
            return rec
    rec["oshape"] = [int(s) for s in y.shape]
    rec["out"], rec["odev"] = _round(y)
    ct = np.arange(1, y.size + 1, dtype=np.float64).reshape(y.shape)
    rec["ct"] = [int(v) for v in ct.ravel()]
    if pull is not None:
        try:
            (g,) = pull(jnp.asarray(ct))
            rec["gerr"] = ""
            rec["gshape"] = [int(s) for s in g.shape]
            rec["gout"], rec["gdev"] = _round(g)
        except Exception as ex:
            rec["gerr"] = (type(ex).__name__ + ": " + str(ex))[:160]
    return rec


def classify(record, verdict):
    if verdict.startswith("malformed:"):
        return "malformed"
    if verdict.startswith("drift:"):
        return "drift"
    return "violation"
