"""C38 - Equivalent grid descriptions give identical simulations.
Spec: spec/GridEquiv.tla (+GridEquivDefs, RelNum); trace spec: spec/Trace_GridEquiv.tla.  DESIGN.md §5 C38.

The same random scene (all boundary kinds, tensor slab, dipoles, detectors) is built through the public pipeline under
UniformGrid(spacing), an explicit RectilinearGrid with equal spacings and QuasiUniformGrid(dx=dy=dz=spacing), stepped with
forward(); TLC compares final fields and every detector state array entry by entry (tolerance 1e-11 of the largest value)."""
import random

ID = "C38"
TRACE = ("Trace_GridEquiv", "Trace_GridEquiv.cfg")
CHUNK = 2
PARALLEL = 3

GRIDS = ("uniform", "rect", "quasi")


def model_check(ctx):
    ctx.mc("GridEquiv", "MC_GridEquiv_q.cfg" if ctx.quick else "MC_GridEquiv_t.cfg", label="1-D lattices n<=4 (6), spacing d<=3 (4) units, basis + dense states: metric scale = 1, three runs equal")
    ctx.mc_negative("GridEquiv", "MC_GridEquiv_neg.cfg")    # reference spacing without the Courant division
    ctx.mc_negative("GridEquiv", "MC_GridEquiv_neg2.cfg")   # z origin of the uniform policy from the y cell count
    ctx.mc_negative("GridEquiv", "MC_GridEquiv_neg3.cfg")   # domain-centre term added only for non-uniform grids
    ctx.assumptions += [
        "tolerance 1e-11 of the largest value of each compared array pair (the descriptions may resolve the time step / edge coordinates with different round-off)",
        "volumes have three different (even) axis lengths; slabs, sources and detectors are placed through physical coordinates on every axis "
        "(RealCoordinateConstraint, partial_real_position) in half of the scenes, through grid coordinates in the others; the resolved grid slices of every "
        "object are compared exactly, and a placement that fails under one description only is a violation",
        "each description has its own domain centre (explicit RectilinearGrid: always off the origin; policies: `center` parameter in half of the scenes): "
        "absolute coordinates (RealCoordinateConstraint) are translated with it, partial_real_position is relative to the domain centre; "
        "requested object centres are exact interval centres (no ties between candidate intervals)",
        "even cell counts on every axis (QuasiUniformGrid requires them); spacings include values that are not representable with 14 decimals",
        "scenes are stepped eagerly with fdtdx.fdtd.forward.forward (record_detectors=True)",
    ]


def _scene(rng, T, real):
    shape = rng.sample([6, 8, 10], 3)           # three different axis lengths (even: QuasiUniformGrid requires it)
    bounds = {}
    for a, ax in enumerate("xyz"):
        r = rng.random()
        if r < 0.35:
            kmin = kmax = "pml"
        elif r < 0.6:
            kmin = kmax = "periodic"
        else:
            kmin, kmax = rng.choice(["pec", "pmc"]), rng.choice(["pec", "pmc", "pml"])
        bounds[f"min_{ax}"], bounds[f"max_{ax}"] = kmin, kmax
    lo = [rng.randrange(0, n - 1) for n in shape]
    hi = [rng.randrange(l + 1, n + 1) for l, n in zip(lo, shape)]
    slab = {"lo": lo, "hi": hi, "eps": [round(rng.uniform(1.2, 4.0), 3) for _ in range(3)], "sigma": rng.choice([0.0, 150.0])}
    inner = lambda: [rng.randrange(2, n - 2) for n in shape]
    sources = [{"kind": "dipole", "pos": inner(), "pol": rng.randrange(3), "wl": 400e-9}, {"kind": "mdipole", "pos": inner(), "pol": rng.randrange(3), "wl": 500e-9}]
    pa = rng.randrange(3)
    plo, phi = [0, 0, 0], list(shape)
    plo[pa] = rng.randrange(2, shape[pa] - 2)
    phi[pa] = plo[pa] + 1
    dets = [{"kind": "field", "name": "fd", "lo": [1, 1, 1], "hi": [min(n - 1, 6) for n in shape], "exact": True, "switch": {"interval": 3}},
            {"kind": "energy", "name": "en", "lo": [1, 1, 1], "hi": [n - 1 for n in shape], "exact": True},
            {"kind": "poynting", "name": "pf", "lo": plo, "hi": phi, "axis": pa, "exact": True},
            {"kind": "phasor", "name": "ph", "lo": [2, 2, 2], "hi": [4, 4, 4], "exact": True, "wl": 400e-9}]
    res = rng.choice([25e-9, 1e-6 / 30, 1e-6 / 70, 40e-9, 1e-7 / 3])
    if real:   # physical-coordinate placement on every axis, both APIs
        slab["place"] = rng.choice(["real", "center"])
        sources[0]["place"], sources[1]["place"] = "real", "center"
        dets[0]["place"], dets[1]["place"], dets[2]["place"], dets[3]["place"] = "center", "real", "real", "center"
    # every description gets its own domain centre (the same physical scene up to a translation): the explicit
    # RectilinearGrid is never centred on the origin, the policies use their `center` parameter in half of the scenes
    def cen(zero):
        return [0.0, 0.0, 0.0] if zero else [round(rng.uniform(-40, 40), 2) * res for _ in range(3)]

    centers = {"uniform": cen(rng.random() < 0.5), "rect": cen(False), "quasi": cen(rng.random() < 0.5)}
    return {"centers": centers, "shape": shape, "T": T, "res": res, "cf": 0.99, "pml": 2, "bounds": bounds, "slabs": [slab], "sources": sources, "detectors": dets}


def gen_cases(ctx):
    rng = random.Random(ctx.seed * 32452843 + 38)
    ctx.exhaustive = False
    for n in range(4 if ctx.quick else 30):
        real = n % 2 == 0
        yield {"id": f"scene{n}-{'realcoords' if real else 'gridcoords'}", "scene": _scene(rng, 10, real)}


def _arrays_of(last, obj):
    import numpy as np

    # resolved grid slices of every placed object (x1000: any difference of one cell exceeds the tolerance by far)
    def okey(o):   # auto-generated names (Object_<counter>) differ from build to build: key those objects by role
        if hasattr(o, "axis") and hasattr(o, "direction") and o.name.startswith("Object"):
            return f"~{type(o).__name__}-{o.axis}{o.direction}"
        return "~volume" if o.name.startswith("Object") else o.name

    sl = [v for o in sorted(obj.objects, key=okey) for ax in o.grid_slice_tuple for v in ax]
    out = [("placement succeeded", np.asarray([1000.0])), ("resolved grid slices of the objects", 1000.0 * np.asarray(sl, dtype=np.float64)),
           ("E", np.asarray(last.fields.E)), ("H", np.asarray(last.fields.H))]
    for dn in sorted(last.detector_states):
        for k in sorted(last.detector_states[dn]):
            x = np.asarray(last.detector_states[dn][k])
            if np.iscomplexobj(x):
                out.append((f"detector {dn}.{k} (re)", x.real))
                out.append((f"detector {dn}.{k} (im)", x.imag))
            else:
                out.append((f"detector {dn}.{k}", x))
    return out


def pairs_of(ref, other, ra, rb):
    from harness import rel_scene as RS

    pairs = []
    for (what, a), (_, b) in zip(ref, other):
        s = 1.0 if what.startswith(("placement", "resolved")) else RS.rel_scale(a, b)
        pairs.append({"what": what, "ra": ra, "rb": rb, "a": RS.enc_real(a, s)[0], "b": RS.enc_real(b, s)[0] if a.shape == b.shape else []})
    return pairs


def observe(case):
    from harness import rel_scene as RS

    runs, dts, failed = {}, {}, {}
    for g in GRIDS:
        sc = dict(case["scene"], grid=g, center=case["scene"]["centers"][g])
        try:
            obj, arrays, config = RS.build(sc)
        except Exception as e:   # placement refused under this description (e.g. an object pushed out of the volume)
            failed[g] = f"{type(e).__name__}: {str(e)[:300]}"
            continue
        last = None
        for _, a in RS.step_forward(arrays, obj, config, sc["T"], record_detectors=True):
            last = a
        runs[g] = _arrays_of(last, obj)
        dts[g] = float(config.time_step_duration)
    if len(failed) == len(GRIDS):
        raise RuntimeError(f"scene cannot be placed under any grid description: {failed}")
    if failed:   # equivalence broken already at placement: one description places the scene, another refuses it
        ok = [g for g in GRIDS if g not in failed]
        import numpy as np

        for g in failed:
            runs[g] = [("placement succeeded", np.asarray([0.0]))] + [(w, np.zeros_like(a)) for w, a in runs[ok[0]][1:]]
            dts[g] = dts[ok[0]]
    pairs = pairs_of(runs["uniform"], runs["rect"], "UniformGrid", "RectilinearGrid") + pairs_of(runs["uniform"], runs["quasi"], "UniformGrid", "QuasiUniformGrid")
    return {"id": case["id"], "tol": 10, "pairs": pairs, "res": case["scene"]["res"], "dt_rel_rect": abs(dts["rect"] / dts["uniform"] - 1), "dt_rel_quasi": abs(dts["quasi"] / dts["uniform"] - 1),
            "placement_failed": failed, "shape": "x".join(map(str, case["scene"]["shape"]))}


def classify(rec, verdict):
    return "malformed" if verdict.startswith("malformed") else "violation"
