"""C21 - Design symmetry transforms produce symmetric designs (symmetries.py, all 2D/3D transforms and options).
Spec: spec/SymTransform.tla (+SymTransformDefs, ParamArrays), trace spec: spec/Trace_SymTransform.tla.  DESIGN.md §5 C21.

Every record = the REAL transform applied twice to one integer array; TLC (Trace_SymTransform) evaluates invariance,
identity on symmetric input, idempotence and mean preservation on the returned arrays."""
import itertools
import random

ID = "C21"
TRACE = ("Trace_SymTransform", "Trace_SymTransform.cfg")
CHUNK = 700
PARALLEL = 4

KINDS_2D = ["h2d", "v2d", "p2d", "d2d_main", "d2d_anti"]
KINDS_3D = ["h3d_x", "h3d_y", "v3d", "p3d", "d3d_xy_main", "d3d_xz_main", "d3d_yz_main", "d3d_xy_anti", "d3d_xz_anti", "d3d_yz_anti"]
_DIAG_AX = {"xy": (0, 1), "xz": (0, 2), "yz": (1, 2)}


def _img_axes(shape):
    v = list(shape).index(1)
    return [a for a in range(3) if a != v]


def applicable(kind, shape):
    """documented preconditions (SymTransformDefs!Applicable; re-checked by the trace spec as `malformed`)"""
    if kind in KINDS_2D:
        if sum(1 for s in shape if s == 1) != 1:
            return False
        if kind.startswith("d2d"):
            a, b = _img_axes(shape)
            return shape[a] == shape[b]
        return True
    if kind.startswith("d3d"):
        a, b = _DIAG_AX[kind[4:6]]
        return shape[a] == shape[b]
    return True


def model_check(ctx):
    ctx.mc(
        "SymTransform",
        "MC_SymTransform_q.cfg" if ctx.quick else "MC_SymTransform_t.cfg",
        label="15 kinds x shapes (2D images 2x2..3x3 with the singleton axis anywhere, 2x2x2, 3x3x3, ...) x all / binary / sparse integer arrays, transform applied twice",
    )
    ctx.mc_negative("SymTransform", "MC_SymTransform_neg.cfg")  # anti-diagonal mirrors one axis only (rot90)
    ctx.mc_negative("SymTransform", "MC_SymTransform_neg2.cfg")  # sum instead of mean
    ctx.assumptions += [
        "inputs are integer arrays with entries that are multiples of 8, so both halvings are exact in float64 and in TLC",
        "2D transforms are run on shapes with exactly one singleton axis, diagonal transforms on equal swapped sizes (documented preconditions)",
    ]


def _sym_input(kind, x):
    """input GENERATION only: x + (x reflected) with numpy, to obtain inputs that are symmetric under the kind
    (whether an input is symmetric is decided by TLC, not here)"""
    import numpy as np

    sh = x.shape
    if kind in KINDS_2D:
        a, b = _img_axes(sh)
        if kind == "h2d":
            y = np.flip(x, a)
        elif kind == "v2d":
            y = np.flip(x, b)
        elif kind == "p2d":
            y = np.flip(np.flip(x, a), b)
        elif kind == "d2d_main":
            y = np.swapaxes(x, a, b)
        else:
            y = np.swapaxes(np.flip(np.flip(x, a), b), a, b)
    elif kind == "h3d_x":
        y = np.flip(x, 0)
    elif kind == "h3d_y":
        y = np.flip(x, 1)
    elif kind == "v3d":
        y = np.flip(x, 2)
    elif kind == "p3d":
        y = x[::-1, ::-1, ::-1]
    else:
        a, b = _DIAG_AX[kind[4:6]]
        y = np.swapaxes(x, a, b) if kind.endswith("main") else np.swapaxes(np.flip(np.flip(x, a), b), a, b)
    return x + y


def gen_cases(ctx):
    import numpy as np

    rng = random.Random(ctx.seed)
    quick = ctx.quick
    ctx.exhaustive = False
    seen = set()

    def emit(tag, kind, shape, vals):
        key = (kind, tuple(shape), tuple(vals))
        if key in seen:
            return None
        seen.add(key)
        return {"id": f"{kind}-{'x'.join(map(str, shape))}-{tag}{len(seen)}", "kind": kind, "shape": list(shape), "inp": [int(v) for v in vals]}

    def cases_for(kind, shape, full_vals=None, nrand=0, rand_vals=(0, 8, 16), basis=False, nsym=0):
        n = shape[0] * shape[1] * shape[2]
        if full_vals is not None:
            for vals in itertools.product(full_vals, repeat=n):
                c = emit("a", kind, shape, vals)
                if c:
                    yield c
        if basis:
            for i in range(n):
                for v in (8, 16):
                    c = emit("b", kind, shape, [v if j == i else 0 for j in range(n)])
                    if c:
                        yield c
        for _ in range(nrand):
            c = emit("r", kind, shape, [rng.choice(rand_vals) for _ in range(n)])
            if c:
                yield c
        for _ in range(nsym):
            x = np.array([rng.choice((0, 8, 24, 40)) for _ in range(n)], dtype=np.int64).reshape(shape)
            c = emit("s", kind, shape, _sym_input(kind, x).ravel())
            if c:
                yield c

    all_kinds = KINDS_2D + KINDS_3D
    # ---- the model's space: 2D images with the singleton axis in every position
    for a, b in [(2, 2), (2, 3), (3, 2), (3, 3)]:
        for pos in range(3):
            shape = [a, b]
            shape.insert(pos, 1)
            for kind in all_kinds:
                if not applicable(kind, shape):
                    continue
                n = a * b
                is2d = kind in KINDS_2D
                if n == 4:
                    yield from cases_for(kind, shape, full_vals=(0, 8, 16) if (is2d or not quick) else (0, 8))
                elif n == 6:
                    if quick:
                        if is2d:
                            yield from cases_for(kind, shape, full_vals=(0, 8), nsym=6)
                        else:
                            yield from cases_for(kind, shape, basis=True, nrand=10, nsym=4)
                    else:
                        yield from cases_for(kind, shape, full_vals=(0, 8, 16), nsym=6)
                elif quick:
                    # 3x3: all binary arrays for three 2D kinds where the singleton axis is last, samples + basis elsewhere
                    if pos == 2 and kind in ("h2d", "d2d_main", "d2d_anti"):
                        yield from cases_for(kind, shape, full_vals=(0, 8), nrand=20, nsym=10)
                    else:
                        yield from cases_for(kind, shape, basis=True, nrand=40 if is2d else 20, nsym=8)
                else:
                    if pos == 2 and kind in ("h2d", "d2d_anti"):
                        yield from cases_for(kind, shape, full_vals=(0, 8, 16))
                    else:
                        yield from cases_for(kind, shape, full_vals=(0, 8), nrand=300, nsym=30)
    # ---- 3D
    for kind in KINDS_3D:
        if quick:
            if kind in ("p3d", "d3d_xy_anti", "d3d_xz_main", "d3d_yz_anti"):
                yield from cases_for(kind, [2, 2, 2], full_vals=(0, 8), nsym=6)
            else:
                yield from cases_for(kind, [2, 2, 2], basis=True, nrand=40, nsym=8)
        else:
            yield from cases_for(kind, [2, 2, 2], full_vals=(0, 8, 16) if kind in ("p3d", "d3d_xz_anti") else (0, 8), nrand=30, nsym=10)
        yield from cases_for(kind, [3, 3, 3], basis=True, nrand=40 if quick else 600, nsym=10 if quick else 100)
    shapes3 = [[2, 2, 3], [2, 3, 2], [3, 2, 2], [3, 3, 2], [3, 2, 3], [2, 3, 3], [4, 4, 4], [2, 3, 4], [4, 3, 2], [5, 5, 2], [2, 5, 5], [5, 2, 5],
               [4, 4, 1], [1, 4, 4], [4, 1, 4], [5, 2, 1], [1, 3, 5], [4, 1, 2], [6, 6, 1], [1, 1, 1], [1, 1, 4], [3, 1, 1]]
    for shape in shapes3:
        for kind in all_kinds:
            if applicable(kind, shape):
                yield from cases_for(kind, shape, basis=(shape[0] * shape[1] * shape[2] <= 12), nrand=6 if quick else 40,
                                     rand_vals=tuple(range(0, 2048, 8)), nsym=4 if quick else 20)
    yield from gen_float_cases(ctx)


def gen_float_cases(ctx):
    """generic real-valued latents: seeded random float64 / float32 arrays for EVERY kind (exactness in floating point:
    the output must equal its own mirror image bit for bit, a second application must change nothing)"""
    rng = random.Random(ctx.seed + 7)
    shapes2d = [[2, 2], [3, 3], [4, 4], [5, 5], [2, 3], [4, 3], [3, 6]]
    shapes3d = [[2, 2, 2], [3, 3, 3], [4, 4, 4], [2, 3, 4], [4, 3, 2], [5, 5, 2], [2, 5, 5], [5, 2, 5], [3, 4, 3], [6, 2, 3], [1, 4, 4], [4, 4, 1]]
    reps = 2 if ctx.quick else 12
    n = 0
    for kind in KINDS_2D + KINDS_3D:
        cand = []
        if kind in KINDS_2D:
            for a, b in shapes2d:
                for pos in range(3):
                    sh = [a, b]
                    sh.insert(pos, 1)
                    cand.append(sh)
        else:
            cand = shapes3d
        cand = [sh for sh in cand if applicable(kind, sh)]
        for dtype in ("float64", "float32"):
            for dist in ("normal", "uniform", "wide"):
                for sym in (False, True):
                    for _ in range(reps):
                        n += 1
                        yield {"id": f"{kind}-flt-{n}", "kind": kind, "shape": rng.choice(cand), "enc": "rank", "dtype": dtype, "dist": dist,
                               "sym": sym, "fseed": rng.randrange(2**31)}


_CFG = None


def _config():
    global _CFG
    if _CFG is None:
        import fdtdx
        from fdtdx.core.grid import UniformGrid

        _CFG = fdtdx.SimulationConfig(time=100e-15, grid=UniformGrid(spacing=500e-9), backend="cpu")
    return _CFG


def _make(kind):
    from fdtdx.objects.device.parameters import symmetries as S

    if kind == "h2d":
        return S.HorizontalSymmetry2D()
    if kind == "v2d":
        return S.VerticalSymmetry2D()
    if kind == "p2d":
        return S.PointSymmetry2D()
    if kind.startswith("d2d"):
        return S.DiagonalSymmetry2D(min_min_to_max_max=kind.endswith("main"))
    if kind.startswith("h3d"):
        return S.HorizontalSymmetry3D(mirror_axis=kind[-1])
    if kind == "v3d":
        return S.VerticalSymmetry3D()
    if kind == "p3d":
        return S.PointSymmetry3D()
    return S.DiagonalSymmetry3D(diagonal_plane=kind[4:6], min_min_to_max_max=kind.endswith("main"))


SCALE = 4


def _enc(a):
    import numpy as np

    a = np.asarray(a, dtype=np.float64).ravel() * SCALE
    if a.size and not np.all(np.isfinite(a)):
        return [-777777] * a.size, 10**9
    r = np.rint(a)
    if a.size and np.max(np.abs(r)) >= 2**31 - 1:
        return [-777777] * a.size, 10**9
    dev = float(np.max(np.abs(a - r) / np.maximum(1.0, np.abs(a)))) if a.size else 0.0
    return [int(v) for v in r], int(min(10**9, round(dev * 1e9)))


MEAN_UNIT = 1e-13  # mean deviation is sent in units of 1e-13 relative to max|input|
MEAN_TOL = {"float64": 10, "float32": 10**8}  # = 1e-12 / 1e-5 relative


def _float_input(case):
    import numpy as np

    g = np.random.default_rng(case["fseed"])
    shape = tuple(case["shape"])
    if case["dist"] == "normal":
        x = g.normal(size=shape)
    elif case["dist"] == "uniform":
        x = g.uniform(0.0, 1.0, size=shape)
    else:  # magnitudes over many binades, both signs
        x = g.normal(size=shape) * 10.0 ** g.integers(-6, 7, size=shape)
    x = x.astype(np.float32 if case["dtype"] == "float32" else np.float64)
    if case["sym"]:
        x = _sym_input(case["kind"], x)  # x + mirrored x: float addition commutes, so this is exactly symmetric
    return x


def _ranks(*arrays):
    """dense ranks of all values of all arrays together: integers that preserve == and < of the floats exactly"""
    import numpy as np

    flat = np.concatenate([np.asarray(a).ravel() for a in arrays])
    _, inv = np.unique(flat, return_inverse=True)
    out, k = [], 0
    for a in arrays:
        out.append([int(v) for v in inv[k:k + a.size]])
        k += a.size
    return out


def observe_float(case):
    import jax.numpy as jnp
    import numpy as np
    from fdtdx.materials import Material

    kind, shape = case["kind"], tuple(case["shape"])
    rec = dict(case)
    rec.update({"err": "", "oshape": [], "rin": [], "r1": [], "r2": [], "finite": True, "samedtype": True, "mdev": 0, "mtol": MEAN_TOL[case["dtype"]]})
    x = _float_input(case)
    try:
        t = _make(kind)
        t = t.init_module(config=_config(), materials={"a": Material(permittivity=1.0), "b": Material(permittivity=2.0)},
                          matrix_voxel_grid_shape=shape, single_voxel_size=(1.0, 1.0, 1.0), output_shape={"params": shape})
        y1 = t({"params": jnp.asarray(x)})["params"]
        rec["oshape"] = [int(v) for v in y1.shape]
        if tuple(y1.shape) == shape:
            y2 = t({"params": y1})["params"]
            a1, a2 = np.asarray(y1), np.asarray(y2)
            if tuple(a2.shape) != shape:
                rec["oshape"] = [int(v) for v in a2.shape]
                return rec
            rec["samedtype"] = bool(a1.dtype == x.dtype and a2.dtype == x.dtype)
            rec["finite"] = bool(np.all(np.isfinite(a1)) and np.all(np.isfinite(a2)))
            if rec["finite"]:
                rec["rin"], rec["r1"], rec["r2"] = _ranks(x, a1, a2)
                scale = float(np.max(np.abs(x))) or 1.0
                md = abs(float(np.mean(a1.astype(np.float64))) - float(np.mean(x.astype(np.float64)))) / scale
                rec["mdev"] = int(min(2 * 10**9, round(md / MEAN_UNIT)))
    except Exception as ex:
        rec["err"] = (type(ex).__name__ + ": " + str(ex))[:160]
    return rec


def observe(case):
    import jax.numpy as jnp
    import numpy as np
    from fdtdx.materials import Material

    if case.get("enc") == "rank":
        return observe_float(case)
    kind, shape = case["kind"], tuple(case["shape"])
    rec = {"id": case["id"], "kind": kind, "shape": list(shape), "enc": "int", "inp": case["inp"], "scale": SCALE,
           "err": "", "oshape": [], "out1": [], "out2": [], "dev": 0}
    x = jnp.asarray(np.asarray(case["inp"], dtype=np.float64).reshape(shape))
    try:
        t = _make(kind)
        t = t.init_module(config=_config(), materials={"a": Material(permittivity=1.0), "b": Material(permittivity=2.0)},
                          matrix_voxel_grid_shape=shape, single_voxel_size=(1.0, 1.0, 1.0), output_shape={"params": shape})
        y1 = t({"params": x})["params"]
        rec["oshape"] = [int(s) for s in y1.shape]
        if tuple(y1.shape) == shape:
            y2 = t({"params": y1})["params"]
            if tuple(y2.shape) != shape:
                rec["oshape"] = [int(s) for s in y2.shape]
            else:
                rec["out1"], d1 = _enc(y1)
                rec["out2"], d2 = _enc(y2)
                rec["dev"] = max(d1, d2)
    except Exception as ex:
        rec["err"] = (type(ex).__name__ + ": " + str(ex))[:160]
    return rec


def classify(record, verdict):
    if verdict.startswith("malformed:"):
        return "malformed"
    if verdict.startswith("drift:"):
        return "drift"
    return "violation"
