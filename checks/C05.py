"""C05 - forward results do not depend on the gradient strategy; slice boundaries partition the run.
Spec: spec/Schedule.tla (+ScheduleDefs); trace specs: Trace_Schedule (runs), Trace_Slices (partition)."""
import random

ID = "C05"
HOOKS = True
PARALLEL = 1


def _scene_list(ctx):
    per = {}
    pmlz = {"min_z": "pml", "max_z": "pml"}
    s1 = {"shape": [6, 6, 6], "bounds": per, "sources": [{"pos": [3, 3, 3], "pol": 0}], "slab": {"lo": [0, 0, 2], "hi": [6, 6, 4], "eps": 2.0},
          "detectors": [{"kind": "energy", "name": "en", "lo": [1, 1, 1], "hi": [5, 5, 5]}, {"kind": "field", "name": "fd", "lo": [2, 2, 2], "hi": [4, 4, 4], "switch": {"interval": 2}}]}
    s2 = {"shape": [6, 6, 10], "bounds": pmlz, "pml": 3, "sources": [{"pos": [3, 3, 5], "pol": 1}, {"pos": [2, 3, 5], "pol": 2, "kind": "mdipole"}],
          "detectors": [{"kind": "poynting", "name": "pf", "lo": [1, 1, 6], "hi": [5, 5, 7], "axis": 2}, {"kind": "phasor", "name": "ph", "lo": [2, 2, 4], "hi": [4, 4, 6]}]}
    s3 = {"shape": [7, 6, 8], "bounds": {"min_x": "pec", "max_x": "pmc", "min_z": "pml", "max_z": "pec"}, "pml": 3, "sources": [{"pos": [3, 3, 4], "pol": 1}],
          "slab": {"lo": [1, 1, 3], "hi": [5, 5, 5], "eps": 2.5, "mu": 1.5, "sigma": 500.0, "sigma_m": 2e5}, "detectors": [{"kind": "energy", "name": "en", "lo": [1, 1, 3], "hi": [5, 5, 6]}]}
    return [("periodic", s1), ("pmlz", s2), ("walls-lossy", s3)]


def gen_cases(ctx):
    rng = random.Random(ctx.seed)
    Ts = [1, 2, 5, 8] if ctx.quick else list(range(1, 13))
    scenes = _scene_list(ctx)
    for i, T in enumerate(Ts):
        names = [scenes[i % len(scenes)]] if ctx.quick else scenes
        for name, sc in names:
            strat = [("none", 0, 0), ("checkpointed", 0, 1), ("checkpointed", 0, T), ("reversible", 0, 0), ("reversible", T - 1, 0)]
            if T >= 3:
                strat += [("checkpointed", 0, 3), ("reversible", rng.randint(1, T - 2), 0)]
            if not ctx.quick and T <= 9:
                strat += [("reversible", k, 0) for k in range(1, T - 1)]
                strat = sorted(set(strat))
            yield {"id": f"{name}-T{T}", "scene": dict(sc, T=T), "strategies": strat}


def observe(case):
    import fdtdx
    from harness import scenes as S
    from harness import sched as H

    sc = case["scene"]
    T = sc["T"]
    obj, arrays, config = S.build_scene(sc)
    events = []
    for method, K, nck in case["strategies"]:
        a, c = S.attach_gradient(arrays, config, obj, None if method == "none" else method, num_checkpoints=max(nck, 1), num_checkpoints_reversible=K)
        S.take_events()
        tt, out = fdtdx.run_fdtd(a, obj, c, show_progress=False)
        evs = S.take_events()
        events.append(H.ev(ev="run_start", kind="full", method=method, K=K))
        events += [H.norm_hook(e) for e in evs]
        events.append(H.ev(ev="run_end", t=int(tt), fpE=H.field_fp(out.fields.E), fpH=H.field_fp(out.fields.H), fpD=H.det_fp(out.detector_states)))
    import jax

    jax.clear_caches()  # hundreds of distinct compiled loops otherwise exhaust memory in the thorough tier
    return H.finalize(case["id"], T, events, tol=5, cmp_fp=False, extra={"strategies": [f"{m}/{k}/{n}" for m, k, n in case["strategies"]]})


def observe_slices(case):
    from fdtdx.fdtd.fdtd import _reversible_slice_boundaries

    return {"id": case["id"], "T": case["T"], "k": case["k"], "b": [int(x) for x in _reversible_slice_boundaries(case["T"], case["k"])]}


def classify(rec, verdict):
    if verdict.startswith("malformed"):
        return "malformed"
    return "drift" if verdict.startswith("drift") else "violation"


def run(ctx):
    ctx.mc("Schedule", "MC_Schedule_q.cfg" if ctx.quick else "MC_Schedule_t.cfg", label="SlicePartition, ExecutedIsPrefix, FullRunExecutesAll for all T, K, methods")
    ctx.mc_negative("Schedule", "MC_Schedule_neg.cfg")
    maxT = 40 if ctx.quick else 90
    sl = [{"id": f"T{T}k{k}", "T": T, "k": k} for T in range(1, maxT + 1) for k in range(1, T + 1)]
    recs = [observe_slices(c) for c in sl]
    ctx.validate("Trace_Slices", "Trace_Slices.cfg", recs, {c["id"]: c for c in sl}, classify=classify, chunk=2000)
    ctx.sample(recs[len(recs) // 2])
    cases = list(gen_cases(ctx))
    runs = [observe(c) for c in cases]
    ctx.sample({k: v for k, v in runs[0].items() if k != "events"} | {"events_head": runs[0]["events"][:4]})
    ctx.validate("Trace_Schedule", "Trace_Schedule.cfg", runs, {c["id"]: c for c in cases}, classify=classify)
    ctx.nontrivial = len(sl) + sum(len(c["strategies"]) for c in cases)
    ctx.exhaustive = False
    ctx.extra_cov["slice_partition_pairs"] = len(sl)
    ctx.extra_cov["strategy_runs"] = sum(len(c["strategies"]) for c in cases)
    ctx.assumptions += ["final state compared through fixed pseudo-random linear functionals of E, H and all detector arrays, relative tolerance 5e-8 of the largest value",
                        "slice partition: exhaustive for 1 <= k <= T <= %d" % maxT]


def replay(ctx, inp):
    if "strategies" in inp:
        rec = observe(inp)
        ctx.validate("Trace_Schedule", "Trace_Schedule.cfg", [rec], {rec["id"]: inp}, classify=classify)
    else:
        rec = observe_slices(inp)
        ctx.validate("Trace_Slices", "Trace_Slices.cfg", [rec], {rec["id"]: inp}, classify=classify)
