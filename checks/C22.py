"""C22 - Gaussian smoothing preserves constants and stays within the input range.
Spec: spec/Smooth.tla (+SmoothDefs), trace spec: spec/Trace_Smooth.tla.  DESIGN.md §5 C22.

The real GaussianSmoothing2D.__call__ is run on small-integer designs (all 0/1 designs of 2x2 and 2x3 for
std 1, seeded random ones otherwise) with every combination of given / default padding vectors, all three
singleton-axis positions and std 1..3; TLC evaluates range, constants, affinity and mirror commutation on the
returned numbers (scaled by 1e8, tolerance 3e-8 absolute)."""
import itertools
import random

ID = "C22"
TRACE = ("Trace_Smooth", "Trace_Smooth.cfg")
CHUNK = 400
PARALLEL = 4
SCALE = 10**8
TOL = 3


def model_check(ctx):
    if ctx.quick:
        ctx.mc("Smooth", "MC_Smooth_q.cfg", label="abstract kernels binomial/skew/wide x all 0/1 designs on 2x2 x 81 padding combinations")
    else:
        ctx.mc("Smooth", "MC_Smooth_t.cfg", label="5 abstract kernels x all 0/1 designs on 2x2, 1x3, 3x2, 2x3 x 81 padding combinations", timeout=3 * 3600)
        ctx.mc("Smooth", "MC_Smooth_t2.cfg", label="5 abstract kernels x all {0,1,2} designs on 2x2 x 81 padding combinations")
    ctx.mc_negative("Smooth", "MC_Smooth_neg.cfg")  # zero padding instead of edge replication: constants not preserved
    ctx.assumptions += [
        "the Gaussian weights are an abstract table read from _create_gaussian_kernel; TLC asserts non-negative, unit sum (to 1e-9 per entry) and mirror symmetry",
        "designs and paddings are integers in [-8, 8]; outputs are compared in units of 1e-8 with tolerance 3 units (exact comparison is impossible with irrational weights)",
    ]


def _pads(rng, nx, ny, mask, lo, hi, const=None):
    def vec(n):
        return [const if const is not None else rng.randint(lo, hi) for _ in range(n)]

    return {"l0": vec(ny) if mask & 1 else [], "h0": vec(ny) if mask & 2 else [], "l1": vec(nx) if mask & 4 else [], "h1": vec(nx) if mask & 8 else []}


def _rev(v):
    return list(reversed(v))


def _mirror_arr(x, axis):
    return _rev(x) if axis == 0 else [_rev(r) for r in x]


def _mirror_pads(p, axis):
    if axis == 0:
        return {"l0": p["h0"], "h0": p["l0"], "l1": _rev(p["l1"]), "h1": _rev(p["h1"])}
    return {"l0": _rev(p["l0"]), "h0": _rev(p["h0"]), "l1": p["h1"], "h1": p["l1"]}


def gen_cases(ctx):
    rng = random.Random(ctx.seed)
    n = 0

    def base(kind, dm, std, sax, x, pads, model=0, **kw):
        nonlocal n
        n += 1
        c = {"id": f"{kind}-{dm[0]}x{dm[1]}-s{std}-ax{sax}-{n}", "kind": kind, "dm": list(dm), "std": std, "sax": sax, "x": x, "pads": pads, "model": model}
        c.update(kw)
        return c

    # 1. all 0/1 designs on 2x2 and 2x3, std 1, paddings: none / all given (the space Smooth.tla enumerates, real kernel)
    for dm in ((2, 2), (2, 3)):
        for k in range(2 ** (dm[0] * dm[1])):
            x = [[(k >> (i * dm[1] + j)) & 1 for j in range(dm[1])] for i in range(dm[0])]
            for mask in (0, 15, (k * 7) % 16):
                yield base("single", dm, 1, k % 3, x, _pads(rng, dm[0], dm[1], mask, 0, 2), model=1)
    ctx.exhaustive = False
    shapes = [(2, 2), (3, 4), (5, 5), (4, 7), (2, 6)] if ctx.quick else [(2, 2), (3, 4), (5, 5), (4, 7), (2, 6), (8, 8), (3, 11), (12, 5)]
    stds = (1, 2, 3)
    per = 4 if ctx.quick else 40
    for dm in shapes:
        nx, ny = dm
        for std in stds:
            for sax in range(3):
                for r in range(per):
                    mask = rng.randrange(16) if r else (0 if sax == 0 else 15)
                    # range / model
                    x = [[rng.randint(-8, 8) for _ in range(ny)] for _ in range(nx)]
                    yield base("single", dm, std, sax, x, _pads(rng, nx, ny, mask, -8, 8), model=1 if (std == 1 and nx * ny <= 25) else 0)
                    # constants: constant design, paddings default or the same constant
                    c = rng.randint(-8, 8)
                    yield base("single", dm, std, sax, [[c] * ny for _ in range(nx)], _pads(rng, nx, ny, mask, 0, 0, const=c))
                    # affine
                    x = [[rng.randint(-2, 2) for _ in range(ny)] for _ in range(nx)]
                    y = [[rng.randint(-2, 2) for _ in range(ny)] for _ in range(nx)]
                    a, b = rng.choice(((1, 1), (2, -1), (-1, 2), (1, -1), (0, 1)))
                    z = [[a * x[i][j] + b * y[i][j] for j in range(ny)] for i in range(nx)]
                    yield base("affine", dm, std, sax, x, _pads(rng, nx, ny, mask, -3, 3), y=y, a=a, b=b, z=z)
                    # mirror
                    x = [[rng.randint(-8, 8) for _ in range(ny)] for _ in range(nx)]
                    p = _pads(rng, nx, ny, mask, -8, 8)
                    axis = r % 2
                    yield base("mirror", dm, std, sax, x, p, axis=axis, mx=_mirror_arr(x, axis), mpads=_mirror_pads(p, axis))


def _smooth(std, sax, pads, x):
    """one call of the real transform; returns the float64 (nx, ny) result"""
    import jax.numpy as jnp
    import numpy as np
    from fdtdx.config import SimulationConfig
    from fdtdx.core.grid import UniformGrid
    from fdtdx.materials import Material
    from fdtdx.objects.device.parameters.continuous import GaussianSmoothing2D
    from fdtdx.typing import ParameterType

    nx, ny = len(x), len(x[0])
    shape = [nx, ny]
    shape.insert(sax, 1)
    shape = tuple(shape)

    def pv(v):
        return jnp.asarray(v, dtype=jnp.float64) if len(v) else None

    t = GaussianSmoothing2D(std_discrete=std, padding_low_axis0=pv(pads["l0"]), padding_high_axis0=pv(pads["h0"]), padding_low_axis1=pv(pads["l1"]), padding_high_axis1=pv(pads["h1"]))
    mats = {"Air": Material(permittivity=1.0), "Si": Material(permittivity=4.0)}
    cfg = SimulationConfig(time=100e-15, grid=UniformGrid(spacing=500e-9), backend="cpu")
    t = t.init_module(config=cfg, materials=mats, matrix_voxel_grid_shape=shape, single_voxel_size=(1e-6, 1e-6, 1e-6), output_shape={"params": shape})
    t = t.init_type({"params": ParameterType.CONTINUOUS})
    out = t({"params": jnp.asarray(x, dtype=jnp.float64).reshape(shape)})["params"]
    o = np.asarray(out, dtype=np.float64)
    if o.shape != shape:
        return None, t
    return o.reshape(nx, ny), t


def _scaled(o, nx, ny, scale=SCALE, clamp=10.0):
    """scaled integers; values are clamped to +-clamp (far outside every legitimate result, keeps TLC's 32-bit
    arithmetic safe); non-finite / wrongly shaped results are reported through the record's `finite` flag"""
    import numpy as np

    if o is None or not np.all(np.isfinite(o)):
        return None
    return [[int(v) for v in row] for row in np.rint(np.clip(o, -clamp, clamp) * scale)]


_KCACHE = {}


def observe(case):
    import numpy as np

    nx, ny = case["dm"]
    std, sax, pads = case["std"], case["sax"], case["pads"]
    ox, t = _smooth(std, sax, pads, case["x"])
    if std not in _KCACHE:
        k = np.asarray(t._create_gaussian_kernel(6 * std + 1, std), dtype=np.float64)
        _KCACHE[std] = ([[int(v) for v in row] for row in np.rint(k * 1e9)], [[int(v) for v in row] for row in np.rint(k * 1e4)])
    k9, k4 = _KCACHE[std]
    rec = {"id": case["id"], "kind": case["kind"], "dm": case["dm"], "std": std, "sax": sax, "x": case["x"], "pads": pads, "model": case["model"],
           "K9": k9, "K4": k4, "scale": SCALE, "tol": TOL, "ox": _scaled(ox, nx, ny), "o4": _scaled(ox, nx, ny, 10**4)}  # fmt: skip
    if case["kind"] == "affine":
        zero = [[0] * ny for _ in range(nx)]
        rec.update(y=case["y"], a=case["a"], b=case["b"], z=case["z"])
        rec["ox"] = _scaled(ox, nx, ny, clamp=7.0)
        rec["oy"] = _scaled(_smooth(std, sax, pads, case["y"])[0], nx, ny, clamp=7.0)
        rec["oz"] = _scaled(_smooth(std, sax, pads, case["z"])[0], nx, ny, clamp=7.0)
        rec["o0"] = _scaled(_smooth(std, sax, pads, zero)[0], nx, ny, clamp=7.0)
    elif case["kind"] == "mirror":
        rec.update(axis=case["axis"], mx=case["mx"], mpads=case["mpads"])
        rec["omx"] = _scaled(_smooth(std, sax, case["mpads"], case["mx"])[0], nx, ny)
    bad = [k for k in ("ox", "o4", "oy", "oz", "o0", "omx") if k in rec and rec[k] is None]
    rec["finite"] = 0 if bad else 1
    for k in bad:
        rec[k] = [[0] * ny for _ in range(nx)]
    return rec


def classify(record, verdict):
    if verdict.startswith("malformed"):
        return "malformed"
    return "drift" if verdict.startswith("drift:") else "violation"
