"""C10 - fields are linear in sources and initial state; quadratic records scale with the square of a common factor.
Spec: spec/Yee.tla (+YeeDefs) mode "linear"; trace spec: spec/Trace_Yee.tla; harness: harness/yee_sys.py.  DESIGN.md §5 C10."""
import copy
import random

ID = "C10"
TRACE = ("Trace_Yee", "Trace_Yee.cfg")
CHUNK = 4
PARALLEL = 4
TOL = 100  # units of 1e-13: relative 1e-11
COEFS = (-1, 2, 3)
LINEAR_DETECTORS = ("d_field", "d_phasor")
QUADRATIC_DETECTORS = ("d_energy", "d_poynting")


def model_check(ctx):
    ctx.mc("Yee", "MC_Yee_C10_q.cfg" if ctx.quick else "MC_Yee_C10_t.cfg",
           label="three runs A, B, alpha A + beta B (alpha, beta in {-1,2,3}) with switched E/H dipoles: the combination holds after every sub-step")
    ctx.mc_negative("Yee", "MC_Yee_C10_neg.cfg")  # amplitude factor applied twice in the E injection
    ctx.assumptions += [
        "exact records: source-free single forward() steps on integer fields: step(alpha a + beta b) = alpha step(a) + beta step(b) exactly",
        "stepped records: T forward() steps from random initial fields with sources whose static_amplitude_factor is A_k, B_k, alpha A_k + beta B_k; compared after every step",
        "pipeline records: run_fdtd on scenes with absorbing/periodic/PEC/PMC faces; field and phasor detector records superpose, energy and Poynting-flux records of a run with all factors scaled by alpha equal alpha^2 times the reference",
        "fully anisotropic 3x3 inv_eps / inv_mu (direct replacement in stepped records, Material with a 3x3 permittivity in run_fdtd records) with plane / Gaussian sources and amplitude factors != 1 are included",
        "tolerance 1e-11 relative to |alpha| max|a| + |beta| max|b| (alpha^2 max|a| for quadratic records), float64",
    ]


def gen_cases(ctx):
    from harness import yee_sys as Y

    rng = random.Random(ctx.seed)
    ctx.exhaustive = False
    cases = []
    sweep = Y.sweep_configs()
    pick = [s for n, s in enumerate(sweep) if n % (5 if ctx.quick else 1) == (ctx.seed % 5 if ctx.quick else 0)]
    for shape, kinds in pick:
        cases.append({"id": f"x-sweep-{'x'.join(map(str, shape))}-k{'.'.join(map(str, kinds))}", "mode": "exact", "cfg": Y.pattern_cfg(shape, kinds, mat=1, T=2), "seed": rng.randrange(10**6)})
    for n in range(6 if ctx.quick else 40):
        shape = [rng.randint(3, 5), rng.randint(2, 4), rng.randint(2, 3)]
        rng.shuffle(shape)
        kinds = Y.random_kinds(rng)
        nn = 3 * shape[0] * shape[1] * shape[2]
        T = 5
        cfg = {"shape": shape, "kinds": kinds, "T": T, "fie": [rng.uniform(0.2, 1.0) for _ in range(nn)], "fim": [rng.uniform(0.3, 1.0) for _ in range(nn)]}
        if n % 2 == 0:
            cfg["fsig"] = [rng.choice([0.0, rng.uniform(0.0, 2.0)]) for _ in range(nn)]
        srcs = []
        for k in range(rng.randint(1, 3)):
            kind = rng.choice(["dipole", "mdipole", "plane", "gauss"])
            s = {"kind": kind, "name": f"s{k}", "switch": rng.choice([{}, {"interval": 2}, {"fixed_on_time_steps": [0, 2, 3]}]), "profile": rng.choice(["single", "gauss"])}
            if kind in ("dipole", "mdipole"):
                s["pos"], s["pol"] = [rng.randrange(x) for x in shape], rng.randrange(3)
            else:
                ax = rng.randrange(3)
                s["axis"], s["at"], s["dir"], s["pol"] = ax, rng.randrange(shape[ax]), rng.choice(["+", "-"]), (ax + rng.choice([1, 2])) % 3
            srcs.append(s)
        cfg["sources"] = srcs
        fa = [rng.choice([1.0, 0.5, -1.5, 2.0]) for _ in srcs]
        fb = [rng.choice([1.0, -0.75, 3.0, 0.0]) for _ in srcs]
        cases.append({"id": f"s-step{n}-{'x'.join(map(str, shape))}-k{'.'.join(map(str, kinds))}", "mode": "step", "cfg": cfg, "fa": fa, "fb": fb,
                      "ab": [rng.choice(COEFS), rng.choice(COEFS)], "seed": rng.randrange(10**6)})
    # fully anisotropic (3x3) permittivity / permeability with plane sources and amplitude factors != 1
    for n in range(2 if ctx.quick else 12):
        shape = [rng.randint(3, 4), rng.randint(3, 4), rng.randint(3, 4)]
        kinds = [rng.choice([1, 9, 10, 12]) for _ in range(3)]
        srcs = []
        for k in range(rng.randint(1, 2)):
            ax = rng.randrange(3)
            srcs.append({"kind": rng.choice(["plane", "gauss"]), "name": f"s{k}", "axis": ax, "at": rng.randrange(shape[ax]), "dir": rng.choice(["+", "-"]),
                         "pol": (ax + rng.choice([1, 2])) % 3, "switch": rng.choice([{}, {"interval": 2}]), "profile": rng.choice(["single", "gauss"])})
        if n % 2 == 1:
            srcs.append({"kind": "dipole", "name": "sd", "pos": [1, 1, 1], "pol": rng.randrange(3)})
        cfg = {"shape": shape, "kinds": kinds, "T": 5, "sources": srcs, "tensor": rng.randrange(10**6)}
        fa = [rng.choice([0.5, -1.5, 2.0]) for _ in srcs]
        fb = [rng.choice([-0.75, 3.0, 1.0]) for _ in srcs]
        cases.append({"id": f"s-tensor{n}-{'x'.join(map(str, shape))}-k{'.'.join(map(str, kinds))}", "mode": "step", "cfg": cfg, "fa": fa, "fb": fb,
                      "ab": [rng.choice(COEFS), rng.choice(COEFS)], "seed": rng.randrange(10**6)})
    for n in range(1 if ctx.quick else 6):
        cfg = Y.pipeline_scene(rng)
        # tensor slab z in [c2, c2 + 2); the only plane-type source sits on the plane z = c2 - 1 in isotropic background
        # (the library refuses plane / Gaussian sources inside anisotropic material); the other sources become dipoles
        c2 = cfg["shape"][2] // 2
        cfg["slab"] = {"lo": [0, 0, c2], "hi": [cfg["shape"][0], cfg["shape"][1], c2 + 2], "eps": [[2.2, 0.3, 0.1], [0.3, 2.0, 0.2], [0.1, 0.2, 2.5]]}
        cfg["sources"][0] = {"kind": "plane", "name": "s0", "wl": 500e-9, "amp": 1.0, "switch": {}, "profile": "single", "axis": 2,
                             "at": c2 - 1, "dir": "+", "pol": rng.choice([0, 1])}
        for k in range(1, len(cfg["sources"])):
            if cfg["sources"][k]["kind"] in ("plane", "gauss"):
                old_s = cfg["sources"][k]
                cfg["sources"][k] = {"kind": rng.choice(["dipole", "mdipole"]), "name": old_s["name"], "wl": old_s["wl"], "amp": old_s["amp"], "switch": old_s["switch"],
                                     "profile": old_s["profile"], "pos": [cfg["shape"][0] // 2, cfg["shape"][1] // 2, c2 + 1], "pol": rng.randrange(3)}
        fa = [rng.choice([0.5, -1.5, 3.0]) for _ in cfg["sources"]]
        fb = [rng.choice([-0.75, 2.0]) for _ in cfg["sources"]]
        cases.append({"id": f"p-tensor{n}-{'x'.join(map(str, cfg['shape']))}-k{'.'.join(map(str, cfg['kinds']))}-pml{len(cfg['pml_faces'])}", "mode": "pipeline", "cfg": cfg,
                      "fa": fa, "fb": fb, "ab": [rng.choice(COEFS), rng.choice(COEFS)], "seed": rng.randrange(10**6)})
    for n in range(3 if ctx.quick else 24):
        cfg = Y.pipeline_scene(rng)
        fa = [rng.choice([1.0, 0.5, -1.5]) for _ in cfg["sources"]]
        fb = [rng.choice([1.0, -0.75, 2.0]) for _ in cfg["sources"]]
        cases.append({"id": f"p-run{n}-{'x'.join(map(str, cfg['shape']))}-k{'.'.join(map(str, cfg['kinds']))}-pml{len(cfg['pml_faces'])}", "mode": "pipeline", "cfg": cfg,
                      "fa": fa, "fb": fb, "ab": [rng.choice(COEFS), rng.choice(COEFS)], "seed": rng.randrange(10**6)})
    return cases


def _with_factors(cfg, f):
    c = copy.deepcopy(cfg)
    for s, x in zip(c["sources"], f):
        s["saf"] = float(x)
    return c


def _observe(case):
    import jax
    import jax.numpy as jnp
    import numpy as np

    from harness import yee_sys as Y

    cfg = case["cfg"]
    rs = np.random.RandomState(case["seed"])
    rec = {"id": case["id"], "kind": "linear", "tol": TOL, "devtol": 1000, "runs": [], "mons": [], "exact": False}
    if case["mode"] == "exact":
        obj, arrays, config = Y.build(cfg)
        fwd, _, arrays, config = Y.steppers(obj, arrays, config)
        dt = Y.field_dtype(arrays)
        vf = jax.vmap(fwd)
        B = 6
        Ea, Ha = Y.int_states(cfg, rs, n_dense=B, n_pairs=0, basis=False)
        Eb, Hb = Y.int_states(cfg, rs, n_dense=B, n_pairs=0, basis=False)
        ab = [[int(rs.choice(COEFS)), int(rs.choice(COEFS))] for _ in range(B)]
        al = np.asarray([x[0] for x in ab]).reshape(B, 1, 1, 1, 1)
        be = np.asarray([x[1] for x in ab]).reshape(B, 1, 1, 1, 1)
        Ec, Hc = al * Ea + be * Eb, al * Ha + be * Hb
        t = jnp.zeros((B,), dtype=jnp.int32)
        outs = [vf(t, jnp.asarray(E, dtype=dt), jnp.asarray(H, dtype=dt)) for E, H in ((Ea, Ha), (Eb, Hb), (Ec, Hc))]
        outs = [(np.asarray(e), np.asarray(h)) for e, h in outs]
        rec.update(Y.spec_fields(cfg))
        rec["exact"] = True
        for b in range(B):
            S, dev = [], 0.0
            for k, (E, H) in ((0, (Ea[b], Ha[b])), (0, (Eb[b], Hb[b])), (0, (Ec[b], Hc[b])), (1, (outs[0][0][b], outs[0][1][b])), (1, (outs[1][0][b], outs[1][1][b])), (1, (outs[2][0][b], outs[2][1][b]))):
                o, d = Y.obs_state(E, H, k)
                S.append(o)
                dev = max(dev, d)
            rec["runs"].append({"S": S, "dev": Y.ppb(dev), "t0": 0, "ab": ab[b]})
        return rec
    al, be = case["ab"]
    fa, fb = np.asarray(case["fa"]), np.asarray(case["fb"])
    fc = al * fa + be * fb
    if case["mode"] == "step":
        runs = []
        B = 3
        cplx = None
        for f in (fa, fb, fc):
            obj, arrays, config = Y.build(_with_factors(cfg, f))
            if cfg.get("tensor") is not None:
                arrays = Y.full_tensor(cfg, arrays, cfg["tensor"])
            fwd, _, arrays, config = Y.steppers(obj, arrays, config)
            runs.append((jax.vmap(fwd), Y.field_dtype(arrays)))
        dt = runs[0][1]
        cplx = np.issubdtype(np.dtype(dt), np.complexfloating)
        Ea, Ha = Y.float_states(cfg, rs, B, cplx)
        Eb, Hb = Y.float_states(cfg, rs, B, cplx)
        st = [(jnp.asarray(Ea, dtype=dt), jnp.asarray(Ha, dtype=dt)), (jnp.asarray(Eb, dtype=dt), jnp.asarray(Hb, dtype=dt)),
              (jnp.asarray(al * Ea + be * Eb, dtype=dt), jnp.asarray(al * Ha + be * Hb, dtype=dt))]
        for step in range(cfg["T"]):
            t = jnp.full((B,), step, dtype=jnp.int32)
            st = [runs[k][0](t, *st[k]) for k in range(3)]
            worst = 0.0
            for q in (0, 1):
                a, b, c = (np.asarray(st[k][q]) for k in range(3))
                scale = abs(al) * np.max(np.abs(a)) + abs(be) * np.max(np.abs(b))
                worst = max(worst, Y.rel_dev(c, al * a + be * b, scale))
            rec["mons"].append({"name": f"fields of the combined run differ from the combination after step {step}", "d": Y.scaled(worst), "two": True})
        return rec
    # pipeline: A, B, alpha A + beta B, and alpha A (common factor) through run_fdtd
    res = [Y.run_pipeline(_with_factors(cfg, f)) for f in (fa, fb, fc, al * fa)]
    (Ea, Ha, Da), (Eb, Hb, Db), (Ec, Hc, Dc), (Ed, Hd, Dd) = res
    for nm, a, b, c in (("E", Ea, Eb, Ec), ("H", Ha, Hb, Hc)):
        scale = abs(al) * np.max(np.abs(a)) + abs(be) * np.max(np.abs(b))
        rec["mons"].append({"name": f"final {nm} of the combined run differs from the combination", "d": Y.scaled(Y.rel_dev(c, al * a + be * b, scale)), "two": True})
    for dn in LINEAR_DETECTORS:
        for k in Da.get(dn, {}):
            a, b, c = Da[dn][k], Db[dn][k], Dc[dn][k]
            scale = abs(al) * np.max(np.abs(a)) + abs(be) * np.max(np.abs(b))
            rec["mons"].append({"name": f"record {dn}.{k} of the combined run differs from the combination", "d": Y.scaled(Y.rel_dev(c, al * a + be * b, scale)), "two": True})
    for dn in QUADRATIC_DETECTORS:
        for k in Da.get(dn, {}):
            a, d = Da[dn][k], Dd[dn][k]
            scale = al * al * np.max(np.abs(a))
            rec["mons"].append({"name": f"record {dn}.{k} does not scale with the square of the common factor", "d": Y.scaled(Y.rel_dev(d, al * al * a, scale)), "two": True})
    rec["nonzero"] = bool(np.max(np.abs(Ec)) > 0 and all(np.max(np.abs(Dc[dn][k])) > 0 for dn in Dc for k in Dc[dn]))
    rec["n_mons"] = len(rec["mons"])
    return rec


def observe(case):
    from harness import yee_sys as Y

    return Y.safe_observe(_observe, case, "linear", TOL)


def classify(rec, verdict):
    if verdict.startswith("malformed"):
        return "malformed"
    if verdict.startswith("model:") or verdict.startswith("inexact:"):
        return "drift"
    return "violation"


def run(ctx):
    import sys

    from harness import yee_sys as Y

    Y.pipeline(sys.modules[__name__], ctx)
