"""X02 (spec growth) - a BoundaryConfig becomes six boundary objects, where they sit, which axes wrap,
and extend_material_to_pml.
Spec: spec/Bounds.tla + spec/BoundsExtend.tla (+BoundsDefs), trace spec: spec/Trace_Bounds.tla.  notes/X02.md.

Scene records: a BoundaryConfig is built (constructor face by face, or from_uniform_bound with overrides), its 69
attributes and its eleven get_*_dict tables are read back, boundary_objects_from_config + the public place_objects
are run, and class / axis / direction / thickness / resolved slice / nine PML parameters / Bloch vector /
uses_wrap_padding of the six placed objects, get_wrap_padding_axes, compute_extent and get_inside_boundary_slice
are written as integers and strings.  Parameter values are k/64 with a DIFFERENT k for every (face, field) slot of a
scene, so any mix-up between faces or fields is visible.  Extend records: material arrays before and after
extend_material_to_pml, value-coded as integers.  TLC (Trace_Bounds) evaluates every rule."""
import itertools
import random
import threading

ID = "X02"
TRACE = ("Trace_Bounds", "Trace_Bounds.cfg")
CHUNK = 40
PARALLEL = 5

TYPES = ("pml", "periodic", "pec", "pmc", "bloch")
KINDS = ("min_x", "max_x", "min_y", "max_y", "min_z", "max_z")
SFX = ("minx", "maxx", "miny", "maxy", "minz", "maxz")
FIELDS = ("kappa_start", "kappa_end", "kappa_order", "alpha_start", "alpha_end", "alpha_order", "sigma_start", "sigma_end", "sigma_order")
GETTER = {"kappa_start": "get_kappa_dict", "kappa_end": "get_kappa_dict", "alpha_start": "get_alpha_dict", "alpha_end": "get_alpha_dict",
          "sigma_start": "get_sigma_dict", "sigma_end": "get_sigma_dict", "kappa_order": "get_order_dict", "alpha_order": "get_order_dict",
          "sigma_order": "get_order_dict"}
INEXACT_DEFAULT = ("alpha_start", "sigma_end")     # class defaults that are not dyadic numbers
SCALE = 64
BV_UNIT = 1024.0                                  # Bloch vector components are sent as multiples of 1024 rad/m
PAIRS = list(itertools.product(TYPES, TYPES))     # (min type, max type) of one axis: 25, of which 13 are properly paired
WRAP = ("periodic", "bloch")
LEGAL_PAIRS = [p for p in PAIRS if (p[0] in WRAP) == (p[1] in WRAP)]
_BUILD_LOCK = threading.Lock()                    # fdtdx names unnamed objects from a non-atomic global counter


def _mc_jobs(ctx):
    """(kind, module, cfg, workers, label): the TLC runs on the specifications themselves."""
    if ctx.quick:
        jobs = [("mc", "Bounds", "MC_Bounds_q.cfg", 4,
                 "direct: all 13^3 properly paired type assignments + all 6084 with exactly one one-sided axis (of 5^6), thicknesses <<1,2,2,1,1,2>>; from_uniform_bound: 3 base types (one unknown) x 3^6 overrides x thickness 1..2; volume 5x6x7"),
                ("mc", "BoundsExtend", "MC_BoundsExtend_q.cfg", 2,
                 "extend_material_to_pml: every PML subset of the six faces, thickness 1..2, EVERY processing order, 4x4x3 cells")]
    else:
        jobs = [("mc", "Bounds", "MC_Bounds_t.cfg", 8,
                 "direct: all 6^6 type assignments (5 types + an unknown one) x 2 complementary thickness vectors; from_uniform_bound: 3 base types x 6^6 overrides x thickness 1..2; volume 5x6x7"),
                ("mc", "Bounds", "MC_Bounds_t2.cfg", 4, "direct: 2^6 type assignments over {pml, periodic} x ALL 3^6 thickness vectors in 1..3; volume 7x8x9"),
                ("mc", "BoundsExtend", "MC_BoundsExtend_t.cfg", 4,
                 "extend_material_to_pml: every PML subset of the six faces, thickness 1..2, EVERY processing order, 5x5x6 cells")]
    jobs += [("neg", "Bounds", "MC_Bounds_neg.cfg", 1, "min_y table entries read min_x"),
             ("neg", "Bounds", "MC_Bounds_neg2.cfg", 1, "slab placed at the wrong end"),
             ("neg", "Bounds", "MC_Bounds_neg3.cfg", 1, "wrap padding decided from the min face only"),
             ("neg", "BoundsExtend", "MC_BoundsExtend_neg.cfg", 1, "extension copies from the wrong layer")]
    return jobs


def model_check(ctx):
    """TLC on Bounds / BoundsExtend and their negative instances.  The JVMs run concurrently (threads around
    lib.tlc.run_tlc); the bookkeeping of Ctx.mc / Ctx.mc_negative is done afterwards, sequentially."""
    import os
    from concurrent.futures import ThreadPoolExecutor

    from lib import tlc

    ctx.assumptions += [
        "thicknesses leave at least one cell outside the boundaries on every axis (min + max thickness < cells); fdtdx accepts overlapping opposite PMLs silently, which is outside these rules",
        "no mirror symmetry (config.symmetry = none): C34 covers how symmetry drops/adds boundary objects",
        "an axis with a periodic/Bloch boundary on ONE face only is accepted by fdtdx without error and gets wrap padding; the rule checked is the documented one of get_wrap_padding_axes (some boundary of the axis wraps) plus its corollary on paired axes",
        "unconfigured (None) parameters: exact class defaults are compared as 'model:' (drift) clauses; alpha_start / sigma_end defaults are only observed as finite and positive",
        "extend_material_to_pml is specified by its order-free clamp form; warnings it emits are not judged",
    ]
    if os.environ.get("VERIF_SKIP_MC") == "1":     # development knob
        return
    jobs = _mc_jobs(ctx)

    def one(job):
        kind, module, cfg, workers, _ = job
        if kind == "mc":
            return tlc.run_tlc(module, cfg, workers=workers, timeout=3600 if ctx.quick else 4 * 3600)
        return tlc.run_tlc(module, cfg, workers=workers, timeout=600, expect_violation=True)

    with ThreadPoolExecutor(max_workers=len(jobs)) as ex:
        results = list(ex.map(one, jobs))          # a MachineryError of any run propagates here
    for (kind, module, cfg, _, label), r in zip(jobs, results):
        if kind == "mc":
            ctx.states += r.distinct
            ctx.transitions += r.generated
            ctx.mc_runs.append({"module": module, "cfg": cfg, "distinct": r.distinct, "generated": r.generated, "depth": r.depth, "wall_s": round(r.wall_s, 1), "label": label})
        else:
            if r.violated is None:
                raise tlc.MachineryError(f"negative instance {module}/{cfg} was NOT rejected by TLC: invariant is vacuous")
            ctx.mc_runs.append({"module": module, "cfg": cfg, "negative_instance_rejected": r.violated, "wall_s": round(r.wall_s, 1), "label": label})


# ------------------------------------------------------------------ case generation
def _codes(rng, n):
    """n distinct integer codes k (value k/64), all >= 64 so kappa >= 1 and orders >= 1."""
    return rng.sample(range(64, 513), n)


def _direct(cid, rng, types, dims=None, th=None, none_p=0.0, bv=None):
    th = th or [rng.randint(1, 3) for _ in range(6)]
    dims = dims or [rng.randint(max(5, th[2 * a] + th[2 * a + 1] + 1), 9) for a in range(3)]
    codes = _codes(rng, 54)
    par = [[(-1 if rng.random() < none_p else codes[f * 9 + k]) for k in range(9)] for f in range(6)]
    bv = bv if bv is not None else [rng.randint(1, 40) * rng.choice((-1, 1)) for _ in range(3)]
    return {"id": cid, "kind": "scene", "mode": "direct", "dims": dims, "base": "pml", "ov": list(types), "thick": th, "par": par,
            "uth": 0, "upar": [], "bv": bv, "ov_given": True, "order": rng.sample(range(6), 6), "ctor": "explicit"}


def _uniform(cid, rng, base, ov, uth=None, none_all=False, ov_given=True, dims=None):
    uth = uth or rng.randint(1, 3)
    dims = dims or [rng.randint(2 * uth + 2, 9) for _ in range(3)]
    upar = [-1] * 9 if none_all else _codes(rng, 9)
    return {"id": cid, "kind": "scene", "mode": "uniform", "dims": dims, "base": base, "ov": list(ov), "thick": [], "par": [],
            "uth": uth, "upar": upar, "bv": [rng.randint(1, 40) for _ in range(3)], "ov_given": ov_given, "order": rng.sample(range(6), 6), "ctor": "explicit"}


def _extend(cid, rng, types, complexity):
    th = [rng.randint(1, 3) for _ in range(6)]
    dims = [rng.randint(max(5, th[2 * a] + th[2 * a + 1] + 2), 8) for a in range(3)]
    mats = []
    for i in range(rng.randint(2, 4)):
        lo = [rng.randint(0, d - 2) for d in dims]
        hi = [rng.randint(l + 1, d) for l, d in zip(lo, dims)]
        m = {"lo": lo, "hi": hi, "eps": rng.choice((2.0, 4.0, 8.0)), "mu": 1.0, "se": 0.0, "sm": 0.0}
        if complexity >= 1 and i % 2 == 1:
            m["se"] = float(rng.choice((1, 2, 3)))
        if complexity >= 2 and i % 2 == 0:
            m["mu"] = rng.choice((2.0, 4.0))
            m["sm"] = float(rng.choice((0, 1, 2)))
        if complexity >= 3 and i == 0:
            m["eps"] = [2.0, 4.0, 8.0]                 # diagonally anisotropic: three-component arrays
        mats.append(m)
    return {"id": cid, "kind": "extend", "dims": dims, "types": list(types), "thick": th, "mats": mats, "order": rng.sample(range(6), 6)}


def gen_cases(ctx):
    rng = random.Random(ctx.seed)
    ctx.exhaustive = False
    # A. direct mode, all 25 (min type, max type) pairs on EVERY axis; 54 distinct parameter values per scene
    for i in range(25):
        t = PAIRS[i] + PAIRS[(i * 7 + 3) % 25] + PAIRS[(i * 11 + 5) % 25]
        yield _direct(f"pairs-{i:02d}-" + "-".join(t), rng, t)
    # B. unconfigured (None) parameters mixed in
    for i in range(6 if ctx.quick else 30):
        t = sum((rng.choice(LEGAL_PAIRS) for _ in range(3)), ())
        if "pml" not in t:
            t = ("pml", "pec") + t[2:]
        yield _direct(f"none-{i:02d}-" + "-".join(t), rng, t, none_p=0.35)
    # C. from_uniform_bound: every face gets every override type over the ten scenes; base cycles through the types
    for k in range(10):
        ov = [TYPES[(f + k) % 5] if (f + k) % 2 == 0 else "none" for f in range(6)]
        yield _uniform(f"uniform-{k}-{TYPES[k % 5]}", rng, TYPES[k % 5], ov)
    yield _uniform("uniform-defaults", rng, "pml", ["none"] * 6, none_all=True, ov_given=False)
    yield _uniform("uniform-periodic-noov", rng, "periodic", ["none"] * 6, ov_given=False)
    yield _uniform("uniform-all-overridden", rng, "pmc", ["pml", "pec", "bloch", "periodic", "pml", "pmc"])
    # documented defaults: BoundaryConfig() and from_uniform_bound() without arguments = PML of 10 cells everywhere, nothing configured
    d = _direct("ctor-defaults", rng, ("pml",) * 6, dims=[22, 21, 23], th=[10] * 6, none_p=2.0, bv=[0, 0, 0])
    d["ctor"] = "defaults"
    yield d
    u = _uniform("uniform-ctor-defaults", rng, "pml", ["none"] * 6, uth=10, none_all=True, ov_given=False, dims=[21, 22, 21])
    u["ctor"], u["bv"] = "defaults", [0, 0, 0]
    yield u
    # D. unknown types are rejected, known ones never
    yield _direct("unknown-direct", rng, ("pml", "pec", "absorbing", "pml", "periodic", "periodic"))
    yield _direct("unknown-case", rng, ("pml", "pml", "pml", "pml", "pml", "PML"))
    yield _uniform("unknown-base", rng, "open", ["none", "pec", "none", "none", "pml", "none"])
    yield _uniform("unknown-override", rng, "pml", ["none", "none", "none", "mirror", "none", "none"])
    # E. thin volumes / thick layers / all-same types
    yield _direct("edge-thin", rng, ("pml",) * 6, dims=[3, 4, 5], th=[1, 1, 2, 1, 2, 2])
    yield _direct("edge-thick", rng, ("pml", "pec", "pmc", "pml", "pml", "pml"), dims=[12, 12, 12], th=[5, 6, 4, 7, 1, 10])
    yield _direct("edge-zero-bloch", rng, ("bloch",) * 6, bv=[0, 0, 0])
    for t in TYPES:
        yield _direct(f"all-{t}", rng, (t,) * 6)
    # all-PML scenes whose thicknesses (1 or 3) separate every ordered pair of faces: a table / inside-slice entry that
    # reads ANOTHER face's thickness is at least once too small by two cells
    for k in range(3):
        for inv in (0, 1):
            th = [3 if ((f >> k) & 1) ^ inv else 1 for f in range(1, 7)]
            yield _direct(f"thick-code-{k}{inv}", rng, ("pml",) * 6, dims=[9, 8, 7], th=th)
    # F. seeded random: legal and one-sided (unpaired) assignments
    for i in range(12 if ctx.quick else 150):
        t = tuple(rng.choice(TYPES) for _ in range(6))
        yield _direct(f"random-{i:03d}-" + "-".join(t), rng, t, none_p=rng.choice((0.0, 0.0, 0.2)))
    if not ctx.quick:
        # G. every properly paired assignment (13^3) and every one-sided pair on every axis
        for n, combo in enumerate(itertools.product(LEGAL_PAIRS, repeat=3)):
            t = combo[0] + combo[1] + combo[2]
            yield _direct(f"legal-{n:04d}-" + "-".join(t), rng, t)
        unp = [p for p in PAIRS if p not in LEGAL_PAIRS]
        for a in range(3):
            for n, p in enumerate(unp):
                others = [rng.choice(LEGAL_PAIRS), rng.choice(LEGAL_PAIRS)]
                others.insert(a, p)
                t = others[0] + others[1] + others[2]
                yield _direct(f"onesided-a{a}-{n:02d}-" + "-".join(t), rng, t)
    # H. extend_material_to_pml
    ext_types = [("pml",) * 6, ("pml", "pml", "pml", "pml", "periodic", "periodic"), ("pec", "pml", "pml", "pmc", "bloch", "bloch"),
                 ("pml", "pec", "periodic", "periodic", "pml", "pml"), ("pec", "pec", "pmc", "pmc", "periodic", "periodic"), ("pmc", "pml", "pec", "pml", "pml", "pec")]
    for i in range(10 if ctx.quick else 60):
        t = ext_types[i % len(ext_types)] if i < 2 * len(ext_types) else tuple(rng.choice(("pml", "pml", "pec", "pmc")) for _ in range(6))
        yield _extend(f"extend-{i:02d}-" + "-".join(t), rng, t, complexity=i % 4)


# ------------------------------------------------------------------ observation
def _enc(v, state):
    """float | None -> scaled integer; records the rounding deviation (ppb of one unit) in state['dev']."""
    if v is None:
        return -1
    x = float(v) * SCALE
    if x != x or abs(x) > 2**30:                      # NaN / inf / beyond TLC's integers: certainly none of the configured values
        state["dev"] = 10**9
        return -3
    r = round(x)
    state["dev"] = max(state["dev"], min(int(abs(x - r) * 1e9), 10**9))
    return int(r)


def _idx(sl, n):
    s, e, _ = sl.indices(n)
    return [int(s), int(e)]


def _build_config(case, fdtdx):
    bv = tuple(float(k) * BV_UNIT for k in case["bv"])
    if case.get("ctor") == "defaults":
        return fdtdx.BoundaryConfig() if case["mode"] == "direct" else fdtdx.BoundaryConfig.from_uniform_bound()
    if case["mode"] == "direct":
        kw = {}
        for f, sfx in enumerate(SFX):
            kw[f"boundary_type_{sfx}"] = case["ov"][f]
            kw[f"thickness_grid_{sfx}"] = case["thick"][f]
            for k, name in enumerate(FIELDS):
                code = case["par"][f][k]
                if code >= 0:
                    kw[f"{name}_{sfx}"] = code / SCALE
        return fdtdx.BoundaryConfig(bloch_vector=bv, **kw)
    kw = {name: (code / SCALE) for name, code in zip(FIELDS, case["upar"]) if code >= 0}
    ov = {KINDS[f]: t for f, t in enumerate(case["ov"]) if t != "none"}
    return fdtdx.BoundaryConfig.from_uniform_bound(thickness=case["uth"], boundary_type=case["base"], override_types=ov if case["ov_given"] else None,
                                                  bloch_vector=bv, **kw)


def _observe_scene(case):
    import jax.numpy as jnp
    import fdtdx
    from fdtdx.fdtd.update import get_wrap_padding_axes
    from fdtdx.objects.boundaries.utils import axis_direction_from_kind, compute_extent

    st = {"dev": 0}
    dims = case["dims"]
    rec = {k: case[k] for k in ("id", "kind", "mode", "dims", "base", "ov", "thick", "par", "uth", "upar", "bv")}
    rec.update(scale=SCALE, err="none", errmsg="", objs=[], nbound=0, wrap=[], inside=[], dev=0)
    bc = _build_config(case, fdtdx)
    # the config object, attribute by attribute, and its per-face tables
    rec["cfgf"] = {"types": [str(getattr(bc, f"boundary_type_{s}")) for s in SFX], "thick": [int(getattr(bc, f"thickness_grid_{s}")) for s in SFX],
                   "par": [[_enc(getattr(bc, f"{name}_{s}"), st) for name in FIELDS] for s in SFX],
                   "bv": [_enc(x / BV_UNIT / SCALE, st) for x in bc.bloch_vector]}
    tdict, ydict = bc.get_dict(), bc.get_type_dict()
    pdicts = {name: getattr(bc, GETTER[name])(name) for name in FIELDS}
    rec["tabs"] = {"types": [str(ydict[k]) for k in KINDS], "thick": [int(tdict[k]) for k in KINDS],
                   "par": [[_enc(pdicts[name][k], st) for name in FIELDS] for k in KINDS]}
    rec["dev"] = st["dev"]
    cfg = fdtdx.SimulationConfig(time=20e-15, grid=fdtdx.UniformGrid(spacing=50e-9), dtype=jnp.float64)
    try:
        with _BUILD_LOCK:
            vol = fdtdx.SimulationVolume(name="vol", partial_grid_shape=tuple(dims), material=fdtdx.Material(permittivity=1.0))
            bdict, cons = fdtdx.boundary_objects_from_config(bc, vol)
        blist = list(bdict.values())
        blist = [blist[i] for i in case.get("order", range(6))]          # the order of the object list must not matter
        oc, _arrays, _, _cfg2, _ = fdtdx.place_objects([vol] + blist, cfg, cons)
    except ValueError as e:
        msg = str(e)
        rec["err"] = "unknown_type" if "Unknown boundary type" in msg else "other"
        rec["errmsg"] = msg[:200]
        return rec
    except Exception as e:  # noqa: BLE001 - any other exception is an observation, judged by the trace spec
        rec["err"] = "other"
        rec["errmsg"] = f"{type(e).__name__}: {e}"[:200]
        return rec
    placed = {o.name: o for o in oc.objects}
    for kind, b0 in bdict.items():
        o = placed.get(b0.name)
        if o is None:
            continue
        ka, kd = axis_direction_from_kind(kind)
        ext = compute_extent(kind, int(o.thickness))
        r = {"face": KINDS.index(kind) + 1 if kind in KINDS else 0, "name": o.name, "cls": type(o).__name__, "axis": int(o.axis) + 1, "dir": str(o.direction),
             "th": int(o.thickness), "slice": [[int(s), int(e)] for s, e in o.grid_slice_tuple], "par": [], "bloch": [],
             "wrapflag": bool(o.uses_wrap_padding), "extent": [_idx(ext[a], dims[a]) for a in range(3)], "kindaxis": int(ka) + 1, "kinddir": str(kd)}
        if hasattr(o, "sigma_end"):
            f = r["face"] - 1
            for k, name in enumerate(FIELDS):
                v = getattr(o, name)
                configured = (case["upar"][k] if case["mode"] == "uniform" else case["par"][f][k]) >= 0
                if not configured and name in INEXACT_DEFAULT:
                    fv = float(v) if v is not None else float("nan")
                    r["par"].append(-2 if (fv > 0 and fv < float("inf")) else -3)
                else:
                    r["par"].append(_enc(v, st))
        if hasattr(o, "bloch_vector"):
            r["bloch"] = [_enc(x / BV_UNIT / SCALE, st) for x in o.bloch_vector]
        rec["objs"].append(r)
    rec["nbound"] = len(oc.boundary_objects)
    rec["wrap"] = [bool(x) for x in get_wrap_padding_axes(oc)]
    rec["inside"] = [_idx(s, n) for s, n in zip(bc.get_inside_boundary_slice(), dims)]
    rec["dev"] = st["dev"]
    return rec


def _code_arrays(before, after):
    import numpy as np

    b, a = np.asarray(before), np.asarray(after)
    vals = np.unique(np.concatenate([b.ravel(), a.ravel()]))          # injective value -> index code
    cb, ca = np.searchsorted(vals, b), np.searchsorted(vals, a)
    assert (vals[cb] == b).all() and (vals[ca] == a).all()
    return cb.astype(int).tolist(), ca.astype(int).tolist(), [float(v) for v in vals]


def _observe_extend(case):
    import warnings

    import jax.numpy as jnp
    import fdtdx

    dims = case["dims"]
    rec = {k: case[k] for k in ("id", "kind", "dims", "types", "thick")}
    rec.update(err="none", errmsg="", arrays=[], nwarn=0)
    kw = {}
    for f, sfx in enumerate(SFX):
        kw[f"boundary_type_{sfx}"] = case["types"][f]
        kw[f"thickness_grid_{sfx}"] = case["thick"][f]
    bc = fdtdx.BoundaryConfig(**kw)
    cfg = fdtdx.SimulationConfig(time=20e-15, grid=fdtdx.UniformGrid(spacing=50e-9), dtype=jnp.float64)
    try:
        with _BUILD_LOCK:
            vol = fdtdx.SimulationVolume(name="vol", partial_grid_shape=tuple(dims), material=fdtdx.Material(permittivity=1.0))
            bdict, cons = fdtdx.boundary_objects_from_config(bc, vol)
            blist = list(bdict.values())
            objs, cons = [vol] + [blist[i] for i in case.get("order", range(6))], list(cons)      # PML processing order = object order
            for i, m in enumerate(case["mats"]):
                eps = tuple(m["eps"]) if isinstance(m["eps"], list) else m["eps"]
                o = fdtdx.UniformMaterialObject(name=f"m{i}", partial_grid_shape=tuple(h - l for l, h in zip(m["lo"], m["hi"])),
                                                material=fdtdx.Material(permittivity=eps, permeability=m["mu"], electric_conductivity=m["se"], magnetic_conductivity=m["sm"]))
                objs.append(o)
                cons.append(o.set_grid_coordinates(axes=(0, 1, 2), sides=("-", "-", "-"), coordinates=tuple(m["lo"])))
        oc, arrays, _, _cfg2, _ = fdtdx.place_objects(objs, cfg, cons)
    except Exception as e:  # noqa: BLE001 - the scene itself could not be built: not an observation of the subject
        rec["err"] = "setup"
        rec["errmsg"] = f"{type(e).__name__}: {e}"[:200]
        return rec
    try:
        with warnings.catch_warnings(record=True) as w:
            warnings.simplefilter("always")
            out = fdtdx.extend_material_to_pml(oc, arrays)
        rec["nwarn"] = len(w)
    except Exception as e:  # noqa: BLE001
        rec["err"] = "other"
        rec["errmsg"] = f"{type(e).__name__}: {e}"[:200]
        return rec
    for name in ("inv_permittivities", "inv_permeabilities", "electric_conductivity", "magnetic_conductivity"):
        b, a = getattr(arrays, name), getattr(out, name)
        if b is None or isinstance(b, float):
            continue
        cb, ca, vals = _code_arrays(b, a)
        rec["arrays"].append({"name": name, "before": cb, "after": ca, "nvalues": len(vals)})
    return rec


def observe(case):
    return _observe_scene(case) if case["kind"] == "scene" else _observe_extend(case)


def classify(record, verdict):
    if verdict.startswith("malformed:"):
        return "malformed"
    if verdict.startswith("model:"):
        return "drift"
    return "violation"


def run(ctx):
    from lib.worker import pmap

    import threading

    box = {}

    def _mc():
        try:
            model_check(ctx)
        except BaseException as e:  # noqa: BLE001 - re-raised in the main thread below
            box["exc"] = e

    th = threading.Thread(target=_mc)              # TLC on the specifications runs while the real code is observed
    th.start()
    try:
        inputs = list(gen_cases(ctx))
        recs = pmap(__name__, "observe", inputs, procs=PARALLEL, mode="thread")
    finally:
        th.join()
    if "exc" in box:
        raise box["exc"]
    scenes = [r for r in recs if r["kind"] == "scene"]
    exts = [r for r in recs if r["kind"] == "extend"]
    for r in scenes[:2] + exts[:1]:
        ctx.sample({k: v for k, v in r.items() if k != "arrays"})
    ok = [r for r in scenes if r["err"] == "none"]
    types_seen = {(o["face"], r["cfgf"]["types"][o["face"] - 1]) for r in ok for o in r["objs"]}
    ctx.extra_cov["scenes_direct"] = sum(1 for r in scenes if r["mode"] == "direct")
    ctx.extra_cov["scenes_from_uniform_bound"] = sum(1 for r in scenes if r["mode"] == "uniform")
    ctx.extra_cov["scenes_rejected_unknown_type"] = sum(1 for r in scenes if r["err"] == "unknown_type")
    ctx.extra_cov["scenes_other_error"] = sum(1 for r in recs if r["err"] == "other")
    ctx.extra_cov["face_x_type_combinations_placed"] = len(types_seen)
    ctx.extra_cov["pml_objects_with_parameters_read_back"] = sum(1 for r in ok for o in r["objs"] if o["par"])
    ctx.extra_cov["parameter_slots_configured_and_read_back"] = sum(1 for r in ok for o in r["objs"] for v in o["par"] if v >= 0)
    ctx.extra_cov["one_sided_periodic_axes_accepted_silently"] = sum(
        1 for r in ok for a in range(3) if (r["cfgf"]["types"][2 * a] in WRAP) != (r["cfgf"]["types"][2 * a + 1] in WRAP))
    ctx.extra_cov["extend_records"] = len(exts)
    ctx.extra_cov["extend_arrays_compared"] = sum(len(r["arrays"]) for r in exts)
    ctx.extra_cov["extend_warnings_emitted"] = sum(r["nwarn"] for r in exts)
    ctx.nontrivial = len(ok) + ctx.extra_cov["scenes_rejected_unknown_type"] + sum(1 for r in exts if r["err"] == "none")
    ctx.validate(*TRACE, recs, {c["id"]: c for c in inputs}, classify=classify, chunk=CHUNK)
