"""C12 - absorbing layers absorb (trace-monitor).
Spec: spec/AbsorbDefs.tla, spec/AbsorbScenes.tla (configuration space + phase machine Pulse -> Ringdown -> Quiet over
abstract observations); trace spec: spec/Trace_Absorb.tla (same predicates on logged numbers of REAL runs).

Every scene is built through the public pipeline (place_objects -> apply_params -> run_fdtd):
  small domain  = NINT^3 free cells + `thick` cells of PerfectlyMatchedLayer on EVERY face (precondition >= 8), graded as
                  library default | kappa 1->5 | kappa 1->10 | alpha_start x5 (the statement does not restrict the grading)
  source        = magnetic dipole | electric dipole | finite plane (TFSF) source radiating towards the face under
                  test; pulse = Ricker wavelet (peak wavelength 15 cells) sampled at the time steps with the mean of its
                  samples subtracted (sums to zero exactly; relative DC content is logged and bounded by 1e-7 in the trace
                  spec = "zero-net-charge")
  observations  = library EnergyDetector(reduce_volume) over the free region at every step;
                  library FieldDetector slab (2 cells, next to the layer of the face under test) over the window
  reference     = same source / same detectors in a domain with MARGIN free cells added on every side and PEC
                  outside: by causality no reflection can reach the recorded slab inside the window.
TLC (Trace_Absorb) decides: Quiet => energy < 1e-6 * peak ; relative energy of (small - reference) < 1e-4."""
import math
import random
import re
import threading

ID = "C12"
LEVEL = "other"
TRACE = ("Trace_Absorb", "Trace_Absorb.cfg")
PARALLEL = 2
CHUNK = 200

FACES = ("min_x", "max_x", "min_y", "max_y", "min_z", "max_z")
KINDS = ("mdipole", "edipole", "plane")
THICKS = (8, 12, 20)
GRADINGS = ("default", "kappa5", "kappa10", "alpha5")


def grading_kwargs(g):
    """keyword arguments of BoundaryConfig.from_uniform_bound for a grading class (mirror of AbsorbDefs!Gradings)"""
    import math as _m

    from fdtdx.constants import c as c0
    from fdtdx.constants import eps0

    if g == "kappa5":
        return {"kappa_start": 1.0, "kappa_end": 5.0}
    if g == "kappa10":
        return {"kappa_start": 1.0, "kappa_end": 10.0}
    if g == "alpha5":
        return {"alpha_start": 5 * 0.01 * 2 * _m.pi * c0 / 1.55e-6 * eps0}      # five times the library default
    return {}
RES = 50e-9
NINT = 12          # free cells per axis
# source pulse: Ricker wavelet sampled at the time steps, (1 - x^2) exp(-x^2 / 2), x = (n - RICKER_N0) / RICKER_S, cut at
# RICKER_N0 + 6 RICKER_S and with the mean of its samples subtracted: the sampled pulse sums to zero EXACTLY (no net
# charge is deposited), peak wavelength 2 pi S courant / sqrt(2) = 15 cells.  It is short enough for the whole pulse and
# 28 steps of ring-down to lie inside the window that the reflection-free reference domain (70^3) allows.
RICKER_S = 6.0
RICKER_N0 = 30
PULSE_END = 66      # first step with a zero source sample
WINDOW = 94
CPW = 15           # nominal cells per wavelength (WaveCharacter of the sources; the sampled signal defines the pulse)
QUIET_TRANSITS = 4
QUIET_SAMPLES = 40
EXPLANATION = ("trace-monitor: TLC enumerates the configuration space (AbsorbScenes, count cross-checked with the harness) and "
               "checks that the phase machine and the stated thresholds are consistent (negative instances rejected); for every "
               "scene the REAL fdtdx run is logged as scaled integers and TLC (Trace_Absorb) evaluates the statement's inequalities "
               "on the logged numbers. TLC does not derive the thresholds 1e-6 / 1e-4; they are those of the property statement.")


def axis_of(face):
    return "xyz".index(face[-1])


def configs():
    """mirror of AbsorbDefs!Configs"""
    out = []
    for g in GRADINGS:
        for th in THICKS:
            for f in FACES:
                for k in KINDS:
                    for p in range(3):
                        if k == "plane" and p == axis_of(f):
                            continue
                        out.append((f, k, p, th, g))
    return out


def _init_count(r):
    m = re.search(r"Finished computing initial states: (\d+) (?:distinct )?states? generated", r.out)
    return int(m.group(1)) if m else -1


def model_check(ctx):
    from lib.tlc import MachineryError

    r = ctx.mc("AbsorbScenes", "MC_AbsorbScenes_q.cfg" if ctx.quick else "MC_AbsorbScenes_t.cfg",
               label="576 scenes (face x kind x polarisation x thickness class x grading) x phase machine; loss per face hit 4 (quick) / 2 (thorough) decades")
    n = _init_count(r)
    if n != len(configs()):
        raise MachineryError(f"AbsorbScenes enumerates {n} scenes, the harness {len(configs())}")
    for c in ("neg", "neg2", "neg3", "neg4"):
        ctx.mc_negative("AbsorbScenes", f"MC_AbsorbScenes_{c}.cfg")
    ctx.assumptions += [
        "thresholds 1e-6 (energy left) and 1e-4 (window difference) are taken from the statement, not derived",
        "energy = library EnergyDetector(reduce_volume=True, float64) over the free (non-layer) region; peak = its maximum over the run",
        "'after the pulse has left' = at least 4 transits of the whole domain (layers included, axis-parallel, at c) after the last non-zero source sample",
        "reference domain: PEC walls MARGIN free cells away on every side; 2*MARGIN > courant*window (+2 cells) so that no reflection reaches the recorded slab within the window (sub-luminal numerical precursors are neglected)",
        "relative energy of the difference = compute_energy(small - reference) / compute_energy(reference) summed over the slab and the window (library function, vacuum)",
        "vacuum, uniform 50 nm grid, default courant factor 0.99, 8 cells per centre wavelength, float64; layer gradings: library default, kappa graded 1 -> 5 and 1 -> 10 (cubic), alpha_start five times the default - the same grading on all six faces",
    ]


def _spos(rng, face):
    ax = axis_of(face)
    d = rng.choice([3, 4, 5])                      # distance (cells) of the source from the layer under test
    pos = [rng.randint(3, NINT - 4) for _ in range(3)]
    pos[ax] = d if face.startswith("min") else NINT - 1 - d
    return pos


def gen_cases(ctx):
    rng = random.Random(ctx.seed)
    ctx.exhaustive = False      # the configuration space is swept completely in the thorough tier, source positions are seeded
    allc = configs()
    # one source position per (face, kind, pol): the reference run is shared by the three thickness classes
    pos = {}
    for (f, k, p, th, g) in allc:
        if (f, k, p) not in pos:
            pos[(f, k, p)] = _spos(rng, f)
    if ctx.quick:
        # EVERY quick run covers all three layer axes with BOTH transverse source polarisations (the two derivative pairs that
        # step_cpml corrects on that axis) and all six faces: axis a -> one face with polarisation a+1, the opposite face with
        # polarisation a+2 (which side gets which is seeded).  Kinds: each of the three twice; thickness {8,8,8,12,12,20}.
        sel = []
        for a in range(3):
            sides = ["min", "max"]
            rng.shuffle(sides)
            for side, p in zip(sides, ((a + 1) % 3, (a + 2) % 3)):
                sel.append([f"{side}_{'xyz'[a]}", None, p, None])
        kinds = list(KINDS) * 2
        rng.shuffle(kinds)
        thicks = [8, 8, 8, 12, 12, 20]
        rng.shuffle(thicks)
        if not any(th == 8 and k != "plane" for k, th in zip(kinds, thicks)):      # all 8-cell scenes drew "plane": swap one
            j8 = thicks.index(8)
            m = next(i for i, k in enumerate(kinds) if k != "plane")
            kinds[j8], kinds[m] = kinds[m], kinds[j8]
        for row, k, th in zip(sel, kinds, thicks):
            row[1], row[3] = k, th
        # gradings: the first dipole scene with 8-cell layers is kappa-graded 1 -> 10 (thin layers + strong stretching + a near
        # dipole: the most demanding combination that the unchanged library passes), one more scene gets kappa5 or alpha5 by
        # seed, the rest use the library default.  kappa10 on 8-cell layers with a PLANE source exceeds the window bound on the
        # unchanged tree (see notes/C12.md, finding) - it is part of the thorough sweep, the quick tier does not draw it.
        grads = ["default"] * 6
        i10 = next(i for i, (f, k, p, th) in enumerate(sel) if th == 8 and k != "plane")
        grads[i10] = "kappa10"
        grads[rng.choice([i for i in range(6) if i != i10])] = rng.choice(["kappa5", "alpha5"])
        chosen = [(f, k, p, th, g) for (f, k, p, th), g in zip(sel, grads)]
        ctx.exhaustive = False
    else:
        # group-major: the 12 thickness/grading variants of one (face, kind, pol) run back to back and share the reference run
        chosen = sorted(allc, key=lambda c: (FACES.index(c[0]), KINDS.index(c[1]), c[2]))
    for (f, k, p, th, g) in chosen:
        yield {"id": f"{f}-{k}-p{p}-t{th}-{g}", "face": f, "kind": k, "pol": p, "thick": th, "grading": g, "spos": pos[(f, k, p)]}


# ------------------------------------------------------------------ scene construction (public pipeline)
def _base():
    import jax.numpy as jnp

    import fdtdx

    cfg0 = fdtdx.SimulationConfig(time=1e-15, grid=fdtdx.UniformGrid(spacing=RES), backend="cpu", dtype=jnp.float64)
    return cfg0.time_step_duration, cfg0.courant_number


def _profile():
    import fdtdx
    from fdtdx.constants import c as c0

    import jax.numpy as jnp
    import numpy as np

    del c0
    dt, _ = _base()
    n = np.arange(PULSE_END + 2, dtype=np.float64)
    x = (n - RICKER_N0) / RICKER_S
    sig = (1.0 - x ** 2) * np.exp(-0.5 * x ** 2)
    sig[PULSE_END:] = 0.0
    sig[:PULSE_END] -= sig[:PULSE_END].mean()
    wc = fdtdx.WaveCharacter(wavelength=CPW * RES)
    tp = fdtdx.CustomTimeSignalProfile(signal=jnp.asarray(sig, dtype=jnp.float64), time_step_duration=dt)
    return wc, tp


def _build(case, T, margin=None):
    """margin=None: the small domain with layers; margin=M: the reference domain (M free cells more on every side, PEC)."""
    import jax
    import jax.numpy as jnp

    import fdtdx

    dt, _ = _base()
    th, face, kind, pol, spos = case["thick"], case["face"], case["kind"], case["pol"], case["spos"]
    ax, side = axis_of(face), face[:3]
    config = fdtdx.SimulationConfig(time=(T + 0.25) * dt, grid=fdtdx.UniformGrid(spacing=RES), backend="cpu", dtype=jnp.float64, gradient_config=None)
    assert config.time_steps_total == T, (config.time_steps_total, T)
    if margin is None:
        off, n = th, NINT + 2 * th
        bcfg = fdtdx.BoundaryConfig.from_uniform_bound(thickness=th, **grading_kwargs(case.get("grading", "default")))
    else:
        off, n = margin, NINT + 2 * margin
        bcfg = fdtdx.BoundaryConfig.from_uniform_bound(thickness=8, override_types={f: "pec" for f in FACES})
    vol = fdtdx.SimulationVolume(partial_grid_shape=(n, n, n))
    bd, cl = fdtdx.boundary_objects_from_config(bcfg, vol)
    objs, cons = [vol] + list(bd.values()), list(cl)
    wc, tp = _profile()

    def place(o, lo):
        cons.append(o.set_grid_coordinates(axes=(0, 1, 2), sides=("-", "-", "-"), coordinates=tuple(int(off + lo[a]) for a in range(3))))
        objs.append(o)

    if kind in ("mdipole", "edipole"):
        src = fdtdx.PointDipoleSource(name="src", partial_grid_shape=(1, 1, 1), wave_character=wc, temporal_profile=tp, polarization=pol,
                                      source_type="magnetic" if kind == "mdipole" else "electric")
        place(src, spos)
    else:
        # finite aperture (2 cells away from the layers), radiating towards the face under test
        shp = [NINT - 4] * 3
        shp[ax] = 1
        lo = [2, 2, 2]
        lo[ax] = spos[ax]
        ev = [0.0, 0.0, 0.0]
        ev[pol] = 1.0
        src = fdtdx.UniformPlaneSource(name="src", partial_grid_shape=tuple(shp), wave_character=wc, temporal_profile=tp,
                                       direction="+" if side == "max" else "-", fixed_E_polarization_vector=tuple(ev))
        place(src, lo)
    en = fdtdx.EnergyDetector(name="en", partial_grid_shape=(NINT,) * 3, reduce_volume=True, dtype=jnp.float64, plot=False)
    place(en, (0, 0, 0))
    # the whole free region is recorded (raw Yee components); the slab next to the layer under test is a sub-block of it
    rec = fdtdx.FieldDetector(name="rec", partial_grid_shape=(NINT,) * 3, dtype=jnp.float64, plot=False, exact_interpolation=False)
    place(rec, (0, 0, 0))
    key = jax.random.PRNGKey(0)
    obj, arrays, params, config, _ = fdtdx.place_objects(object_list=objs, config=config, constraints=cons, key=key)
    arrays, obj, _ = fdtdx.apply_params(arrays, obj, params, key)
    return obj, arrays, config


def _slices(obj):
    return {o.name: tuple(tuple(int(v) for v in s) for s in o.grid_slice_tuple) for o in obj.objects if o.name in ("src", "en", "rec")}


def _run(obj, arrays, config):
    import numpy as np

    import fdtdx

    _, out = fdtdx.run_fdtd(arrays, obj, config, show_progress=False)
    en = np.asarray(out.detector_states["en"]["energy"], dtype=np.float64)[:, 0]
    rec = np.asarray(out.detector_states["rec"]["fields"], dtype=np.float64)
    return en, rec


_ref_cache = {}
_ref_lock = threading.Lock()


def _reference(case, Tw, margin):
    """field of the same source in the large reference domain (cached per face/kind/pol/position: it does not depend on
    the thickness class of the small domain)"""
    key = (case["face"], case["kind"], case["pol"], tuple(case["spos"]), Tw, margin)
    with _ref_lock:
        ent = _ref_cache.setdefault(key, {"lock": threading.Lock()})
        for k_old in list(_ref_cache)[:-6]:        # keep the six most recent references (7.8 MB each)
            if k_old != key:
                del _ref_cache[k_old]
    with ent["lock"]:
        if "rec" not in ent:
            obj, arrays, config = _build(case, Tw, margin=margin)
            _, rec = _run(obj, arrays, config)
            ent["rec"], ent["sl"] = rec[:Tw], _slices(obj)
    return ent["rec"], ent["sl"]


def timing(thick):
    dt, cn = _base()
    t_off = PULSE_END + 1                                   # plane sources sample the pulse up to one step later (Yee offsets)
    transit = int(math.ceil((NINT + 2 * thick) / cn))
    t_quiet = t_off + QUIET_TRANSITS * transit
    T = t_quiet + QUIET_SAMPLES
    Tw = WINDOW                                             # window: the whole pulse and 28 steps of ring-down
    margin = int(math.ceil(cn * Tw / 2)) + 2
    return {"tOff": t_off, "transit": transit, "tQuiet": t_quiet, "T": T, "winSteps": Tw, "margin": margin, "courantMilli": int(math.ceil(cn * 1000))}


def _units(x, scale, cap=2_000_000_000):
    import numpy as np

    v = x * scale
    if not np.isfinite(v):
        return cap
    return int(min(cap, math.floor(v)))


def observe(case):
    import jax.numpy as jnp
    import numpy as np

    from fdtdx.core.physics.metrics import compute_energy

    tm = timing(case["thick"])
    T, Tw, margin = tm["T"], tm["winSteps"], tm["margin"]
    dt, _ = _base()
    # premise "zero net charge": DC content of the pulse exactly as the sources sample it (integer steps)
    wc, tp = _profile()
    s = np.asarray(tp.get_amplitude(jnp.arange(T, dtype=jnp.float64) * dt, wc.get_period(), wc.phase_shift), dtype=np.float64)
    dc_ppb = _units(abs(float(s.sum())) / float(np.abs(s).sum()), 1e9)

    obj, arrays, config = _build(case, T)
    sl = _slices(obj)
    by_face = {p.descriptive_name: int(p.thickness) for p in obj.pml_objects}
    thick_faces = [by_face.get(f, 0) for f in FACES]
    kap = {p.descriptive_name: int(round(1000 * float(p.kappa_end))) for p in obj.pml_objects}
    kappa_faces = [kap.get(f, 0) for f in FACES]
    en, rec = _run(obj, arrays, config)
    fin = np.isfinite(en)
    peak = float(np.max(en[fin])) if fin.any() else 0.0
    ipk = int(np.argmax(np.where(fin, en, -1.0)))
    ts = sorted(set(range(0, tm["tQuiet"], 8)) | {ipk} | set(range(tm["tQuiet"], T)))
    events = [{"t": int(t), "e": (_units(float(en[t]) / peak, 1e9) if peak > 0 else 0)} for t in ts]

    ref, sl_ref = _reference(case, Tw, margin)
    # alignment is derived from the placed objects: all three objects must be shifted by the same vector
    shift = [sl_ref["src"][a][0] - sl["src"][a][0] for a in range(3)]
    for nm in ("src", "en", "rec"):
        for a in range(3):
            assert sl_ref[nm][a][0] - sl[nm][a][0] == shift[a] and sl_ref[nm][a][1] - sl[nm][a][1] == shift[a], (nm, sl, sl_ref)
    a_, b_ = rec[:Tw], ref[:Tw]
    assert a_.shape == b_.shape, (a_.shape, b_.shape)

    def energy(f):  # f: (Tw, 6, nx, ny, nz) -> total field energy over slab and window (library definition, vacuum)
        tw, _, nx, ny, nz = f.shape
        E = jnp.asarray(np.moveaxis(f[:, :3], 1, 0).reshape(3, tw * nx, ny, nz))
        H = jnp.asarray(np.moveaxis(f[:, 3:], 1, 0).reshape(3, tw * nx, ny, nz))
        return float(jnp.sum(compute_energy(E, H, 1.0, 1.0)))

    e_ref = energy(b_)
    e_dif = energy(a_ - b_)
    # diagnostic (not the statement's clause): the same ratio restricted to the 2-cell slab next to the layer under test
    ax = axis_of(case["face"])
    lo_s = 1 if case["face"].startswith("min") else NINT - 3
    idx = [slice(None)] * 5
    idx[2 + ax] = slice(lo_s, lo_s + 2)
    es_ref = energy(b_[tuple(idx)])
    es_dif = energy((a_ - b_)[tuple(idx)])
    rec_out = {"id": case["id"], "face": case["face"], "kind": case["kind"], "pol": case["pol"], "thick": case["thick"], "grading": case.get("grading", "default"),
               "thickFaces": thick_faces, "kappaEndFaces": kappa_faces, "dcPpb": dc_ppb, **tm, "events": events,
               "winDiffPpb": _units(e_dif / e_ref, 1e9) if e_ref > 0 and np.isfinite(e_ref) else 2_000_000_000,
               "winRefPos": bool(e_ref > 0), "peakStep": ipk,
               "slabDiffPpb": _units(es_dif / es_ref, 1e9) if es_ref > 0 and np.isfinite(es_ref) else 2_000_000_000,
               "maxQuiet": max(ev["e"] for ev in events if ev["t"] >= tm["tQuiet"]), "cells": int((NINT + 2 * case["thick"]) ** 3), "refCells": int((NINT + 2 * margin) ** 3)}
    return rec_out


def classify(rec, verdict):
    if verdict.startswith("malformed"):
        return "malformed"
    return "drift" if verdict.startswith(("layers:", "slab:")) else "violation"


def run(ctx):
    import json

    from lib.worker import pmap

    model_check(ctx)
    inputs = list(gen_cases(ctx))
    # thickness-major order: the reference runs are computed during the first third and reused afterwards
    # every scene compiles its own run_fdtd: hundreds of cached executables exhaust memory in the thorough sweep
    # (SIGSEGV / SIGABRT observed), so scenes are run in batches and the jit caches are dropped in between
    import gc

    import jax

    recs = []
    for b in range(0, len(inputs), 24):
        recs += pmap(__name__, "observe", inputs[b:b + 24], procs=PARALLEL, mode="thread")
        jax.clear_caches()
        gc.collect()
    for r in recs[:2]:
        ctx.sample({k: v for k, v in r.items() if k != "events"} | {"events_head": r["events"][:4]})
    ctx.nontrivial = len({json.dumps(c, sort_keys=True) for c in inputs})
    ctx.validate(*TRACE, recs, {c["id"]: c for c in inputs}, classify=classify, chunk=CHUNK)
    ctx.notes += [EXPLANATION,
                  f"scenes run: {len(recs)} of {len(configs())} enumerated ({'all six faces, both transverse polarisations per axis, all kinds, one 8-cell dipole scene kappa-graded 1->10' if ctx.quick else 'all'})",
                  f"observed: max interior energy in Quiet = {max(r['maxQuiet'] for r in recs)}e-9 of peak (bound 1000e-9); max window difference = {max(r['winDiffPpb'] for r in recs)} ppb (bound 100000 ppb); max relative DC of the pulse = {max(r['dcPpb'] for r in recs)} ppb (premise < 100)"]
    ctx.extra_cov["explanation"] = EXPLANATION
    ctx.extra_cov["observed_margins"] = {"max_quiet_energy_1e-9_of_peak": max(r["maxQuiet"] for r in recs), "quiet_bound": 1000,
                                         "max_window_diff_ppb": max(r["winDiffPpb"] for r in recs), "window_bound_ppb": 100000,
                                         "max_slab_diff_ppb_diagnostic": max(r["slabDiffPpb"] for r in recs)}
    ctx.extra_cov["scenes"] = [r["id"] for r in recs]
