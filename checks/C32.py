"""C32 - Symmetry unfolding is consistent.
Spec: spec/Unfold.tla (+UnfoldDefs), trace spec: spec/Trace_Unfold.tla.  DESIGN.md §5 C32.

Conformance: integer arrays go through the REAL fdtdx.fdtd.symmetry.unfold_fields /
unfold_detector_states (hand-built ObjectContainer/ArrayContainer holding really placed detectors) and
core.physics.symmetry.restrict_to_kept_half; TLC evaluates the clauses of the property on what came back."""
import itertools
import random

ID = "C32"
TRACE = ("Trace_Unfold", "Trace_Unfold.cfg")
CHUNK = 120
PARALLEL = 4

ALL6 = ["Ex", "Ey", "Ez", "Hx", "Hy", "Hz"]


def model_check(ctx):
    ctx.mc(
        "Unfold",
        "MC_Unfold_q.cfg" if ctx.quick else "MC_Unfold_t.cfg",
        label=("all 26 symmetry tuples x kept shapes (1..%d)^3 x {unfold_fields E/H, Field/Phasor detector component subsets, energy, Poynting all/single} x exact on/off; labelled arrays" % (2 if ctx.quick else 3)),
    )
    ctx.mc_negative("Unfold", "MC_Unfold_neg.cfg")  # plain flip used for on-plane samples: ClosedForm/MirrorParity must fail
    ctx.mc_negative("Unfold", "MC_Unfold_neg2.cfg")  # reduce-commutes asserted without its precondition must fail
    ctx.assumptions += [
        "labelled (injective, non-zero) arrays decide the index map and signs for all arrays because unfolding acts per sample and is linear",
        "conformance inputs are integer arrays in float64/complex128: unfolding only copies, negates and scales by 0, 1, 2, 4, 8, so results are exact integers (dev must be 0)",
        "the documented index map is taken from fdtd/symmetry.py: electric plane on the reduced min edge (on-plane samples pair m+-j, outermost sample repeats its neighbour), magnetic plane mirrors every sample one-to-one; whether that map reproduces a full-domain simulation is property C33's business, not C32's",
        "reduce-commutes is checked against the real code with uniform cell weights (the unfold helpers never see weights); mirror-symmetric non-uniform weights are covered by TLC in Unfold.tla",
        "DiffractiveDetector (documented NotImplementedError), ModeOverlapDetector and the closed-surface detectors are not exercised",
    ]


def _det_cfgs(rng, full):
    """Detector configurations exercised for one (symmetry, shape)."""
    out = []
    subsets = [ALL6]
    pool = [list(c) for r in range(1, 6) for c in itertools.combinations(ALL6, r)]
    subsets += pool if full else rng.sample(pool, 2)
    for comps in subsets:
        cs = list(comps)
        rng.shuffle(cs)  # user order must not matter: the stored order is canonical
        for exact in (True, False):
            if full or rng.random() < 0.6:
                out.append({"dk": "FieldDetector", "components": cs, "exact": exact})
            if full or rng.random() < 0.4:
                out.append({"dk": "PhasorDetector", "components": cs, "exact": exact})
    for exact in (True, False):
        out.append({"dk": "EnergyDetector", "exact": exact})
        for pl in range(3):
            if full or rng.random() < 0.5:
                out.append({"dk": "EnergySlices", "exact": exact, "plane": pl})
        for keep_all in (True, False):
            for prop in range(3):
                if full or keep_all is False or rng.random() < 0.4:
                    out.append({"dk": "PoyntingFluxDetector", "exact": exact, "keep_all": keep_all, "prop": prop, "direction": rng.choice("+-")})
    return out


def gen_cases(ctx):
    rng = random.Random(ctx.seed)
    syms = [s for s in itertools.product((-1, 0, 1), repeat=3) if s != (0, 0, 0)]
    shapes = list(itertools.product((1, 2, 3), repeat=3))
    # quick tier: every symmetry tuple, two kept shapes each from a small pool in which every axis takes the sizes 1, 2, 3
    # (few distinct shapes keep the number of XLA compilations of the eager unfold primitives low)
    pool = [(1, 2, 3), (2, 3, 1), (3, 1, 2), (2, 2, 2), (3, 3, 2), (1, 1, 1)]
    k = 0
    for si, sym in enumerate(syms):
        if ctx.quick:
            ctx.exhaustive = False
            chosen = [pool[si % 6], pool[(si // 6 + si + 1) % 6]]
            if chosen[0] == chosen[1]:
                chosen[1] = pool[(si + 2) % 6]
        else:
            chosen = shapes
        for n in chosen:
            for ft in ("E", "H"):
                k += 1
                yield {"id": f"c{k}-field{ft}-s{sym}-n{n}".replace(" ", ""), "dk": "field" + ft, "sym": list(sym), "n": list(n), "mask": [1, 1, 1], "seed": rng.randrange(1 << 30)}
            cfgs = _det_cfgs(rng, full=False)
            if ctx.quick:
                cfgs = rng.sample(cfgs, 7)
            for dc in cfgs:
                k += 1
                # which symmetric axes the detector straddles (was clipped on); all of them most of the time
                mask = [1, 1, 1] if rng.random() < 0.7 else [rng.randint(0, 1) for _ in range(3)]
                c = {"id": f"c{k}-{dc['dk']}-s{sym}-n{n}".replace(" ", ""), "sym": list(sym), "n": list(n), "mask": mask, "seed": rng.randrange(1 << 30)}
                c.update(dc)
                yield c


def _ints(a):
    import numpy as np

    a = np.asarray(a, dtype=np.float64)
    r = np.rint(a)
    dev = float(np.max(np.abs(a - r))) if a.size else 0.0
    return r.astype(np.int64).tolist(), int(min(10**9, round(dev * 1e9)))


_CFG_CACHE = {}


def _config(sym):
    import jax.numpy as jnp
    import fdtdx

    key = tuple(sym)
    if key not in _CFG_CACHE:
        _CFG_CACHE[key] = fdtdx.SimulationConfig(
            time=1e-8, grid=fdtdx.UniformGrid(spacing=1.0), backend="cpu", dtype=jnp.float64, symmetry=key, courant_factor=0.5 * 3**0.5
        )
    return _CFG_CACHE[key]


def observe(case):
    import jax
    import jax.numpy as jnp
    import numpy as np
    import fdtdx
    from fdtdx.core.physics.symmetry import restrict_to_kept_half
    from fdtdx.fdtd.container import ArrayContainer, ObjectContainer
    from fdtdx.fdtd.symmetry import unfold_detector_states, unfold_fields

    rng = np.random.default_rng(case["seed"])
    sym, n, dk = tuple(case["sym"]), tuple(case["n"]), case["dk"]
    ncell = n[0] * n[1] * n[2]
    touched = [sym[a] if case["mask"][a] else 0 for a in range(3)]
    rec = {
        "id": case["id"], "dk": dk, "kind": "det", "ck": "EH", "components": ALL6, "keep_all": False, "prop": 0, "exact": bool(case.get("exact", False)),
        "touched": touched, "plane": [0, 1, 2], "n": list(n), "x": [], "y": [], "ydims": [0, 0, 0], "has_u": False, "u": [], "raised": False,
        "red": "none", "r": [], "r2": [], "dev": 0,
        # facts for known-finding matching / triage: an on-plane axis with a single kept sample
        "n1_on_plane": False,
    }

    def draw(shape):
        v = rng.integers(1, 50, size=shape) * rng.choice([-1, 1], size=shape)
        return (v * ncell).astype(np.float64)

    if dk in ("fieldE", "fieldH"):
        ft = dk[-1]
        rec.update({"kind": "field", "components": [ft + "x", ft + "y", ft + "z"], "touched": list(sym)})
        rec["n1_on_plane"] = any(sym[a] == -1 and n[a] == 1 for a in range(3))
        x = draw((3, *n))
        rec["x"] = [_ints(x)[0]]
        try:
            y = unfold_fields(jnp.asarray(x), sym, ft)
        except (TypeError, ValueError, IndexError) as e:  # shape errors inside the helper
            rec["raised"] = True
            rec["err"] = f"{type(e).__name__}: {str(e)[:160]}"
            return rec
        yi, dev = _ints(y)
        axes = tuple(a for a in range(3) if sym[a] != 0)
        u = restrict_to_kept_half(y, axes)
        rec.update({"y": [yi], "ydims": list(y.shape[-3:]), "has_u": True, "u": [_ints(u)[0]], "dev": dev})
        return rec

    cfg = _config(sym)
    key = jax.random.PRNGKey(0)
    exact = bool(case["exact"])
    rec["n1_on_plane"] = exact and any(touched[a] == -1 and n[a] == 1 for a in (0, 1))
    common = {"exact_interpolation": exact}
    cplx = False
    if dk in ("FieldDetector", "PhasorDetector"):
        comps = tuple(case["components"])
        rec["components"] = list(comps)
        nc = len(comps)
        if dk == "FieldDetector":
            mk = lambda name, red: fdtdx.FieldDetector(name=name, dtype=jnp.float64, components=comps, reduce_volume=red, **common)
            skey, lead, red_kind = "fields", (1, nc), "mean"
        else:
            cplx = True
            wc = (fdtdx.WaveCharacter(wavelength=1.0),)
            mk = lambda name, red: fdtdx.PhasorDetector(name=name, dtype=jnp.complex128, components=comps, reduce_volume=red, wave_characters=wc, **common)
            skey, lead, red_kind = "phasor", (1, 1, nc), "mean"
    elif dk == "EnergyDetector":
        rec["ck"] = "W"
        mk = lambda name, red: fdtdx.EnergyDetector(name=name, dtype=jnp.float64, reduce_volume=red, **common)
        skey, lead, red_kind = "energy", (1,), "sum"
    elif dk == "EnergySlices":
        rec["ck"] = "W"
        mk = lambda name, red: fdtdx.EnergyDetector(name=name, dtype=jnp.float64, as_slices=True, **common)
        skey, lead, red_kind = None, (1,), "none"
    elif dk == "PoyntingFluxDetector":
        rec.update({"ck": "S", "keep_all": bool(case["keep_all"]), "prop": int(case["prop"])})
        mk = lambda name, red: fdtdx.PoyntingFluxDetector(
            name=name, dtype=jnp.float64, direction=case["direction"], reduce_volume=red, keep_all_components=bool(case["keep_all"]),
            fixed_propagation_axis=int(case["prop"]), **common)
        skey, lead, red_kind = "poynting_flux", ((1, 3) if case["keep_all"] else (1,)), "sum"
    else:
        raise ValueError(dk)

    gs = tuple((0, n[a]) for a in range(3))
    un = tuple((-n[a], n[a]) if touched[a] != 0 else (0, n[a]) for a in range(3))
    dets, states = [], {}

    def place(d):
        d = d.place_on_grid(gs, cfg, key)
        return d.aset("_unreduced_grid_slice_tuple", un)

    def mkarr(shape):
        if cplx:
            return draw(shape) + 1j * draw(shape)
        return draw(shape)

    d_sp = place(mk("sp", False))
    dets.append(d_sp)
    if dk == "EnergySlices":
        pl = int(case["plane"])
        names = ["XY Plane", "XZ Plane", "YZ Plane"]
        phys = [(0, 1), (0, 2), (1, 2)]
        st = {nm: mkarr((1, n[p[0]], n[p[1]])) for nm, p in zip(names, phys)}
        states["sp"] = {k_: jnp.asarray(v) for k_, v in st.items()}
    else:
        xs = mkarr((*lead, *n))
        states["sp"] = {skey: jnp.asarray(xs)}
        if red_kind != "none":
            d_red = place(mk("red", True))
            dets.append(d_red)
            if red_kind == "mean":
                r = xs.mean(axis=(-3, -2, -1))
            else:
                r = xs.sum(axis=(-3, -2, -1))
            if dk in ("EnergyDetector",) or (dk == "PoyntingFluxDetector" and not case["keep_all"]):
                r = r.reshape((1, 1))
            states["red"] = {skey: jnp.asarray(r)}

    arrays = ArrayContainer(fields=None, inv_permittivities=None, inv_permeabilities=1.0, detector_states=states, recording_state=None)
    objects = ObjectContainer(object_list=dets, volume_idx=0)
    try:
        out = unfold_detector_states(arrays, objects, cfg).detector_states
    except (TypeError, ValueError, IndexError) as e:
        rec["raised"] = True
        rec["err"] = f"{type(e).__name__}: {str(e)[:160]}"
        return rec

    ncomp = {"EH": len(rec["components"]), "W": 1, "S": 3 if rec["keep_all"] else 1}[rec["ck"]]

    def enc(a, shape):
        """implementation array (all leading dims of size one) -> list over parts (re[, im]) of nested int lists of `shape`"""
        a = np.asarray(a)
        parts = [a.real, a.imag] if cplx else [a]
        res, dev = [], 0
        for p in parts:
            li, dv = _ints(p.reshape(shape))
            res.append(li)
            dev = max(dev, dv)
        return res, dev

    if dk == "EnergySlices":
        nm, p = names[pl], phys[pl]
        ya = np.asarray(out["sp"][nm])
        collapsed = ({0, 1, 2} - set(p)).pop()
        nn = list(n)
        nn[collapsed] = 1
        ydims = [1, 1, 1]
        ydims[p[0]], ydims[p[1]] = int(ya.shape[1]), int(ya.shape[2])
        rec.update({"plane": list(p), "n": nn, "ydims": ydims})
        rec["x"], _ = enc(st[nm], (1, *nn))
        rec["y"], rec["dev"] = enc(ya, (1, *ydims))
        return rec

    ya = np.asarray(out["sp"][skey])
    ydims = [int(v) for v in ya.shape[-3:]]
    rec["ydims"] = ydims
    rec["x"], _ = enc(xs, (ncomp, *n))
    rec["y"], rec["dev"] = enc(ya, (ncomp, *ydims))
    axes = tuple(a for a in range(3) if touched[a] != 0)
    if axes:
        ua = np.asarray(restrict_to_kept_half(out["sp"][skey], axes))
        rec["has_u"] = True
        rec["u"], _ = enc(ua, (ncomp, *ua.shape[-3:]))
    if red_kind != "none":
        rec["red"] = red_kind
        rec["r"], _ = enc(r, (ncomp,))
        rec["r2"], dv = enc(out["red"][skey], (ncomp,))
        rec["dev"] = max(rec["dev"], dv)
    return rec


def classify(record, verdict):
    if verdict.startswith("malformed:"):
        return "malformed"
    if verdict.startswith("factor:"):
        # the prod(1+parity) factor rule for records WITH on-plane samples is a code-level docstring, not the property
        return "drift"
    return "violation"
