"""C06 - simulation state depends only on the steps executed, not on how the run is split; reset/reuse.
Spec: spec/Schedule.tla (PartialStart/PartialReturn/Reset, ExecutedIsPrefix); trace spec: Trace_Schedule."""
import random

ID = "C06"
HOOKS = True
PARALLEL = 1
TRACE = ("Trace_Schedule", "Trace_Schedule.cfg")


def model_check(ctx):
    ctx.mc("Schedule", "MC_Schedule_q.cfg" if ctx.quick else "MC_Schedule_t.cfg", label="all sequences of full runs / consecutive partial runs / resets: ExecutedIsPrefix")
    ctx.mc_negative("Schedule", "MC_Schedule_neg.cfg")
    ctx.assumptions += ["states compared through fixed pseudo-random linear functionals of E, H and all detector arrays (relative 5e-8)"]


def _scenes():
    s1 = {"shape": [6, 6, 6], "bounds": {}, "sources": [{"pos": [3, 3, 3], "pol": 0}, {"pos": [2, 2, 3], "pol": 1, "switch": {"interval": 3}}],
          "slab": {"lo": [0, 0, 2], "hi": [6, 6, 4], "eps": 2.0, "sigma": 300.0},
          "detectors": [{"kind": "energy", "name": "en", "lo": [1, 1, 1], "hi": [5, 5, 5]},
                        {"kind": "field", "name": "fd", "lo": [2, 2, 2], "hi": [4, 4, 4], "switch": {"interval": 2}},
                        {"kind": "phasor", "name": "ph", "lo": [2, 2, 2], "hi": [4, 4, 4]}]}
    s2 = {"shape": [6, 6, 10], "bounds": {"min_z": "pml", "max_z": "pml", "min_x": "pec", "max_x": "pec"}, "pml": 3,
          "sources": [{"pos": [3, 3, 5], "pol": 1}],
          "detectors": [{"kind": "poynting", "name": "pf", "lo": [1, 1, 6], "hi": [5, 5, 7], "axis": 2, "switch": {"fixed_on_time_steps": [1, 2, 5]}},
                        {"kind": "field", "name": "fd", "lo": [2, 2, 4], "hi": [4, 4, 6], "reduce": True}]}
    # dispersive slab: the ADE polarisation (current AND previous) is time-dependent state that reset must clear
    s3 = {"shape": [6, 6, 6], "bounds": {"min_z": "pec", "max_z": "pmc"}, "sources": [{"pos": [3, 3, 3], "pol": 2}],
          "slab": {"lo": [0, 0, 2], "hi": [6, 6, 5], "eps": 2.0, "lorentz": {"f": 2e15, "g": 1e13, "de": 1.5}},
          "detectors": [{"kind": "energy", "name": "en", "lo": [1, 1, 1], "hi": [5, 5, 5], "switch": {"interval": 2}},
                        {"kind": "field", "name": "fd", "lo": [2, 2, 2], "hi": [4, 4, 4]}]}
    s4 = {"shape": [6, 6, 6], "bounds": {"min_x": "pec", "max_x": "pmc"}, "sources": [{"pos": [3, 3, 3], "pol": 1}], "method": "reversible",
          "slab": {"lo": [1, 0, 2], "hi": [5, 6, 4], "eps": 2.0, "mu": 1.5, "sigma": 400.0, "sigma_m": 2e5},
          "detectors": [{"kind": "energy", "name": "en", "lo": [1, 1, 1], "hi": [5, 5, 5]}, {"kind": "field", "name": "fd", "lo": [2, 2, 2], "hi": [4, 4, 4], "switch": {"interval": 3}}]}
    return [("periodic-lossy", s1), ("pml-pec", s2), ("dispersive", s3), ("reversible-lossy-magnetic", s4)]


def gen_cases(ctx):
    rng = random.Random(ctx.seed)
    n = 4 if ctx.quick else 16
    sc = _scenes()
    for i in range(n):
        name, s = sc[i % len(sc)]
        T = rng.randint(6, 10)
        splits = []
        for _ in range(2 if ctx.quick else 4):
            k = rng.randint(1, 3)
            cuts = sorted(rng.sample(range(0, T + 1), k)) if k <= T else [T // 2]
            splits.append([0] + cuts + [T] if cuts[0] != 0 and cuts[-1] != T else sorted(set([0] + cuts + [T])))
        ctx.exhaustive = False
        yield {"id": f"{name}-T{T}-{i}", "scene": dict(s, T=T), "splits": splits}


def observe(case):
    import fdtdx
    from fdtdx.fdtd.fdtd import custom_fdtd_forward
    from harness import scenes as S
    from harness import sched as H
    import jax

    sc = case["scene"]
    T = sc["T"]
    method = sc.get("method", "none")
    obj, arrays, config = S.build_scene({k: v for k, v in sc.items() if k != "method"})
    if method != "none":
        arrays, config = S.attach_gradient(arrays, config, obj, method, num_checkpoints_reversible=1)
    key = jax.random.PRNGKey(0)
    events = []

    def end(tt, out):
        return H.ev(ev="run_end", t=int(tt), fpE=H.field_fp(out.fields.E), fpH=H.field_fp(out.fields.H), fpD=H.det_fp(out.detector_states))

    def full(a):
        S.take_events()
        tt, out = fdtdx.run_fdtd(a, obj, config, show_progress=False)
        events.append(H.ev(ev="run_start", kind="full", method=method, K=1 if method == "reversible" else 0))
        events.extend(H.norm_hook(e) for e in S.take_events())
        events.append(end(tt, out))
        return out

    # 1. full run, 2. full run again from the returned arrays (reset inside), 3. splits, 4. full run after the splits
    out = full(arrays)
    out = full(out)
    for sp in case["splits"]:
        cur = out  # reuse a dirty container: the first partial run resets it
        for j in range(len(sp) - 1):
            a_, b_ = sp[j], sp[j + 1]
            S.take_events()
            tt, cur = custom_fdtd_forward(cur, obj, config, key, reset_container=(j == 0), record_detectors=True, start_time=a_, end_time=b_, show_progress=False)
            events.append(H.ev(ev="run_start", kind="partial", method="none", K=0, a=a_, b=b_, rs=(j == 0)))
            events.extend(H.norm_hook(e) for e in S.take_events())
            events.append(end(tt, cur))
        out = cur
    out = full(out)
    # reset() on a used container gives the initial dynamic state with materials kept
    import numpy as np

    r = out.reset()
    zero = all(float(np.max(np.abs(np.asarray(x)))) == 0.0 for x in (r.fields.E, r.fields.H))
    zero = zero and all(float(np.max(np.abs(np.asarray(v)))) == 0.0 for d in r.detector_states.values() for v in d.values())
    same_mat = bool(np.array_equal(np.asarray(r.inv_permittivities), np.asarray(arrays.inv_permittivities)))
    jax.clear_caches()
    rec = H.finalize(case["id"], T, events, tol=5, cmp_fp=False, extra={"splits": case["splits"], "reset_zero": bool(zero), "reset_keeps_materials": same_mat})
    return rec


def classify(rec, verdict):
    return "malformed" if verdict.startswith("malformed") else "violation"


def run(ctx):
    model_check(ctx)
    cases = list(gen_cases(ctx))
    recs = [observe(c) for c in cases]
    ctx.sample({k: v for k, v in recs[0].items() if k != "events"} | {"events_head": recs[0]["events"][:3]})
    ctx.validate(*TRACE, recs, {c["id"]: c for c in cases}, classify=classify)
    for r in recs:
        if not (r["reset_zero"] and r["reset_keeps_materials"]):
            ctx.direct_violation(r["id"] + "-reset", "reset: container reset does not zero time-dependent state or changes materials", {"id": r["id"], "input": next(c for c in cases if c["id"] == r["id"])})
    ctx.nontrivial = sum(len(c["splits"]) + 3 for c in cases)


def replay(ctx, inp):
    rec = observe(inp)
    ctx.validate(*TRACE, [rec], {rec["id"]: inp}, classify=classify)
