"""C18 - Device parameters map to materials exactly as documented.
Spec: spec/ApplyParams.tla (+ApplyParamsDefs), trace spec: spec/Trace_ApplyParams.tla.  DESIGN.md §5 C18.

1-D scenes (N x 1 x 1 cells: volume, optional slab, one device) are built through the public pipeline
place_objects -> apply_params; parameter histories of length 1..3 with values in {0, 1/2, 1} (material indices
for discrete devices) are applied one after the other, and once more only the last set to the freshly placed
arrays.  TLC checks every event: device cells = inverse of the documented blend / selected material, other
cells untouched, history independence."""
import itertools
import json
import random
import threading

ID = "C18"
TRACE = ("Trace_ApplyParams", "Trace_ApplyParams.cfg")
CHUNK = 300
PARALLEL = 4
S = 10**8
TOL = 16

FULL_A = [2, 1, 0, 1, 2, 0, 0, 0, 4]
FULL_B = [4, 0, 1, 0, 4, 0, 1, 0, 2]


def model_check(ctx):
    ctx.mc("ApplyParams", "MC_ApplyParams_q.cfg" if ctx.quick else "MC_ApplyParams_t.cfg", label="4 cells, 4 placements, continuous/etched/discrete devices with materials from {1,2,4}, all parameter histories of length <= 3")
    ctx.mc_negative("ApplyParams", "MC_ApplyParams_neg.cfg")  # etched device without the backup of the placed arrays
    ctx.assumptions += [
        "1-D scenes N x 1 x 1; permittivity tensors with small integer entries; parameters in {0, 1/2, 1}",
        "inverse permittivities are sent in units of 1e-8; 'inverse of the blend' is checked as inv*blend = identity within 16 units (1.6e-7 on a product of 2); exact (tolerance 0) for discrete devices with isotropic / diagonal materials",
        "the order of a device's materials (ascending first permittivity component) is taken as documented in materials.compute_ordered_material_name_tuples; dispersive coefficient tables are read from compute_allowed_dispersive_coefficients",
        "etched devices are continuous with one material (the only kind the code accepts)",
    ]


def _tensor(m):
    """material description -> 9 integers.  m: int (isotropic) | [a,b,c] (diagonal) | 9-list (full)"""
    if isinstance(m, int):
        return [m, 0, 0, 0, m, 0, 0, 0, m]
    if len(m) == 3:
        return [m[0], 0, 0, 0, m[1], 0, 0, 0, m[2]]
    return list(m)


def gen_cases(ctx):
    rng = random.Random(ctx.seed)
    n = 0
    scenes = []
    iso_pairs = [(1, 2), (1, 4), (2, 4)]
    placements = [(4, 1, 3, 1), (4, 0, 4, 2), (4, 1, 3, 2), (4, 0, 2, 1), (6, 1, 5, 2), (6, 2, 5, 1), (6, 0, 6, 3)]
    slabs = [None, (0, 2, 4), (1, 4, 2), (2, 6, 4)]
    for N, lo, hi, vox in placements:
        for slab in slabs:
            if slab and slab[1] > N:
                continue
            vol = 1 if slab else rng.choice((1, 2))
            for kind in ("continuous", "etched", "discrete"):
                if kind == "continuous":
                    matsets = [list(p) for p in iso_pairs]
                elif kind == "etched":
                    matsets = [[1], [2], [4]]
                else:
                    matsets = [list(p) for p in iso_pairs] + [[1, 2, 4]]
                if ctx.quick:
                    matsets = rng.sample(matsets, 2)
                for ms in matsets:
                    scenes.append({"N": N, "lo": lo, "hi": hi, "vox": vox, "slab": slab, "vol": vol, "kind": kind, "mats": ms, "disp": 0})
    # anisotropic scenes: diagonal and full tensors (in the device and / or around it)
    for N, lo, hi, vox in ((4, 1, 3, 1), (6, 1, 5, 2)):
        for kind in ("continuous", "etched", "discrete"):
            for ms in ([[1, 2, 4], 4], [[2, 4, 4], [4, 2, 1]], [FULL_A, 4], [FULL_A, FULL_B], [1, FULL_B]):
                mats = ms[:1] if kind == "etched" else ms
                for slab in (None, (0, 2, [1, 2, 2]), (1, N, FULL_B)):
                    if ctx.quick and rng.random() < 0.5:
                        continue
                    scenes.append({"N": N, "lo": lo, "hi": hi, "vox": vox, "slab": slab, "vol": 1, "kind": kind, "mats": mats, "disp": 0})
    # dispersive material inside a discrete device (and a dispersive slab next to it)
    for N, lo, hi, vox in ((4, 1, 3, 1), (6, 2, 6, 2)):
        for ms in ([1, 4], [1, 2, 4]):
            for slab in (None, (0, 2, 2)):
                scenes.append({"N": N, "lo": lo, "hi": hi, "vox": vox, "slab": slab, "vol": 1, "kind": "discrete", "mats": ms, "disp": 1})
    ctx.exhaustive = False
    if ctx.quick:  # keep every anisotropic / dispersive scene family, thin the isotropic ones
        iso = [sc for sc in scenes if not sc["disp"] and all(isinstance(m, int) for m in sc["mats"]) and not (sc["slab"] and not isinstance(sc["slab"][2], int))]
        rest = [sc for sc in scenes if sc not in iso]
        scenes = rng.sample(iso, 36) + rng.sample(rest, min(len(rest), 30))
    for sc in scenes:
        nv = (sc["hi"] - sc["lo"]) // sc["vox"]
        levels = [0, 1, 2] if sc["kind"] != "discrete" else list(range(len(sc["mats"])))
        allp = list(itertools.product(levels, repeat=nv))
        hists = [[list(p)] for p in (allp if len(allp) <= 9 else rng.sample(allp, 9))]
        for hl in (2, 3, 3) if ctx.quick else (2, 2, 3, 3, 3, 3):
            hists.append([list(rng.choice(allp)) for _ in range(hl)])
        if ctx.quick:
            hists = rng.sample(hists[:9], min(2, len(hists[:9]))) + hists[9:]
        for h in hists:
            n += 1
            yield {"id": f"{sc['kind']}-N{sc['N']}-{sc['lo']}-{sc['hi']}-v{sc['vox']}-{n}", "scene": sc, "hist": h}


_SCENES = {}
_LOCK = threading.Lock()


def _place(sc):
    key = json.dumps(sc, sort_keys=True)
    with _LOCK:
        if key in _SCENES:
            return _SCENES[key]
    import jax
    import jax.numpy as jnp

    import fdtdx
    from fdtdx.dispersion import DispersionModel, LorentzPole

    def mat(m, dispersive=False):
        t = _tensor(m)
        if isinstance(m, int):
            perm = float(m)
        elif len(m) == 3:
            perm = tuple(float(v) for v in m)
        else:
            perm = tuple(tuple(float(v) for v in t[3 * i : 3 * i + 3]) for i in range(3))
        if dispersive:
            return fdtdx.Material(permittivity=perm, dispersion=DispersionModel(poles=(LorentzPole(resonance_frequency=2.0e15, damping=1.0e13, delta_epsilon=1.5),)))
        return fdtdx.Material(permittivity=perm)

    N = sc["N"]
    cfg = fdtdx.SimulationConfig(time=10e-15, grid=fdtdx.UniformGrid(spacing=100e-9), dtype=jnp.float64, backend="cpu")
    vol = fdtdx.SimulationVolume(partial_grid_shape=(N, 1, 1), material=mat(sc["vol"]))
    objs, cons = [vol], []
    base = [_tensor(sc["vol"]) for _ in range(N)]
    if sc["slab"]:
        a, b, m = sc["slab"]
        slab = fdtdx.UniformMaterialObject(name="slab", partial_grid_shape=(b - a, 1, 1), material=mat(m, dispersive=bool(sc["disp"])))
        objs.append(slab)
        cons.append(slab.set_grid_coordinates(axes=(0, 1, 2), sides=("-", "-", "-"), coordinates=(a, 0, 0)))
        for c in range(a, b):
            base[c] = _tensor(m)
    # material names deliberately NOT in permittivity order
    names = ["zeta", "alpha", "mid"]
    mats = {names[i]: mat(m, dispersive=bool(sc["disp"]) and i == len(sc["mats"]) - 1) for i, m in enumerate(sc["mats"])}
    if len(mats) > 1:
        mats = dict(reversed(list(mats.items())))
    tr = [fdtdx.ClosestIndex()] if sc["kind"] == "discrete" else []
    dev = fdtdx.Device(name="dev", partial_grid_shape=(sc["hi"] - sc["lo"], 1, 1), materials=mats, param_transforms=tr, partial_voxel_grid_shape=(sc["vox"], 1, 1), use_etching=sc["kind"] == "etched")
    objs.append(dev)
    cons.append(dev.set_grid_coordinates(axes=(0, 1, 2), sides=("-", "-", "-"), coordinates=(sc["lo"], 0, 0)))
    objects, arrays, params, cfg, _ = fdtdx.place_objects(object_list=objs, config=cfg, constraints=cons, key=jax.random.PRNGKey(0))
    res = (objects, arrays, params, base)
    with _LOCK:
        _SCENES[key] = res
    return res


def _enc(arrays, N, state):
    """inverse permittivities as 9 integers per cell (units 1/S) and dispersive coefficients per cell"""
    import numpy as np

    a = np.asarray(arrays.inv_permittivities, dtype=np.float64)[:, :, 0, 0]  # (comps, N)
    comps = a.shape[0]
    a = np.clip(np.nan_to_num(a, nan=1.2, posinf=1.2, neginf=-1.2), -1.2, 1.2) * S
    r = np.rint(a)
    state["rdev"] = max(state["rdev"], int(round(float(np.max(np.abs(a - r))) * 1000)))
    inv = []
    for c in range(N):
        v = [int(x) for x in r[:, c]]
        inv.append([v[0], 0, 0, 0, v[0], 0, 0, 0, v[0]] if comps == 1 else [v[0], 0, 0, 0, v[1], 0, 0, 0, v[2]] if comps == 3 else v)
    out = {"inv": inv}
    if arrays.dispersive_c1 is not None:
        cs = [np.asarray(x, dtype=np.float64)[:, :, :, 0, 0] for x in (arrays.dispersive_c1, arrays.dispersive_c2, arrays.dispersive_c3)]
        out["dc"] = [[int(v) for x in cs for v in np.rint(np.clip(x[:, :, c], -20, 20).reshape(-1) * S)] for c in range(N)]
    return out, comps


def observe(case):
    import jax
    import jax.numpy as jnp
    import numpy as np

    import fdtdx
    from fdtdx.materials import compute_allowed_dispersive_coefficients

    sc = case["scene"]
    objects, arrays0, params0, base = _place(sc)
    N = sc["N"]
    nv = (sc["hi"] - sc["lo"]) // sc["vox"]
    dev = objects["dev"]
    st = {"rdev": 0}
    e0, comps = _enc(arrays0, N, st)
    events = [dict(e0, p=[])]
    key = jax.random.PRNGKey(1)

    def pset(h):
        vals = [float(v) if sc["kind"] == "discrete" else v / 2.0 for v in h]
        return {"dev": jnp.asarray(vals, dtype=jnp.float64).reshape(nv, 1, 1)}

    def chain(p):
        o = np.asarray(dev(p["dev"], expand_to_sim_grid=False), dtype=np.float64).reshape(-1)
        o2 = o if sc["kind"] == "discrete" else 2.0 * o
        r = np.rint(o2)
        if not np.all(np.isfinite(o2)) or float(np.max(np.abs(o2 - r))) != 0.0 or o.size != nv:
            return [-1] * nv
        return [int(v) for v in r]

    arrays, objs = arrays0, objects
    for h in case["hist"]:
        p = pset(h)
        arrays, objs, _ = fdtdx.apply_params(arrays, objs, p, key)
        e, _ = _enc(arrays, N, st)
        events.append(dict(e, p=chain(p)))
    fa, _, _ = fdtdx.apply_params(arrays0, objects, pset(case["hist"][-1]), key)
    fresh, _ = _enc(fa, N, st)
    ordered = sorted((_tensor(m) for m in sc["mats"]), key=lambda t: t[0])
    rec = {"id": case["id"], "N": N, "comps": comps, "S": S, "tol": TOL, "base": base, "kind": sc["kind"],
           "dev": {"lo": sc["lo"], "hi": sc["hi"], "vox": sc["vox"], "kind": sc["kind"], "mats": ordered},
           "events": events, "fresh": fresh, "rdev": st["rdev"], "disp": 0, "hlen": len(case["hist"])}  # fmt: skip
    if sc["disp"] and arrays0.dispersive_c1 is not None:
        npoles, nc = arrays0.dispersive_c1.shape[0], arrays0.dispersive_c1.shape[1]
        ncc = arrays0.dispersive_c3.shape[1]
        t = compute_allowed_dispersive_coefficients(dev.materials, dt=dev._config.time_step_duration, max_num_poles=npoles, num_components=nc, coupling_components=ncc)
        tabs = [np.asarray(x, dtype=arrays0.dispersive_c1.dtype).astype(np.float64) for x in t[:3]]
        rec["dtable"] = [[int(v) for x in tabs for v in np.rint(np.clip(x[m], -20, 20).reshape(-1) * S)] for m in range(len(sc["mats"]))]
        rec["disp"] = 1
    return rec


def classify(record, verdict):
    return "malformed" if verdict.startswith("malformed") else "violation"
