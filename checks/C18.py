"""C18 - Device parameters map to materials exactly as documented.
Spec: spec/ApplyParams.tla (+ApplyParamsDefs), trace spec: spec/Trace_ApplyParams.tla.  DESIGN.md §5 C18.

1-D scenes (N x 1 x 1 cells: volume, optional slab, one device or an etched + a plain device) are built through the public pipeline
place_objects -> apply_params; parameter histories of length 1..3 with values in {0, 1/2, 1} (material indices
for discrete devices) are applied one after the other, and once more only the last set to the freshly placed
arrays.  TLC checks every event: device cells = inverse of the documented blend / selected material, other
cells untouched, history independence."""
import itertools
import json
import random
import threading

ID = "C18"
TRACE = ("Trace_ApplyParams", "Trace_ApplyParams.cfg")
CHUNK = 300
PARALLEL = 4
S = 10**8
TOL = 16

FULL_A = [2, 1, 0, 1, 2, 0, 0, 0, 4]
FULL_B = [4, 0, 1, 0, 4, 0, 1, 0, 2]


def model_check(ctx):
    if ctx.quick:
        ctx.mc("ApplyParams", "MC_ApplyParams_q.cfg", label="one device: 4 cells, 4 placements, continuous/etched/discrete, materials from {1,2,4}, all histories <= 3")
        ctx.mc("ApplyParams", "MC_ApplyParams_q2.cfg", label="etched + plain device, both list orders, disjoint / overlapping, all histories <= 3")
        ctx.mc("ApplyParams", "MC_ApplyParams_q4.cfg", label="two plain devices with different material sets (continuous / discrete), both list orders, histories <= 2")
        ctx.mc("ApplyParams", "MC_ApplyParams_q3.cfg", label="dispersive simulations: plain / dispersive device materials on plain / dispersive cells, histories <= 2")
    else:
        ctx.mc("ApplyParams", "MC_ApplyParams_t.cfg", label="one and two devices, placed scenes over {1,2,4}^4, all histories <= 3", timeout=3 * 3600)
    ctx.mc_negative("ApplyParams", "MC_ApplyParams_neg.cfg")  # no backup of the placed arrays at all
    ctx.mc_negative("ApplyParams", "MC_ApplyParams_neg4.cfg")  # material table of the first device reused for every device
    ctx.mc_negative("ApplyParams", "MC_ApplyParams_neg3.cfg")  # only devices with a dispersive material write the coefficients
    ctx.mc_negative("ApplyParams", "MC_ApplyParams_neg2.cfg")  # backup only if ALL devices etch (etched + plain scene)
    ctx.assumptions += [
        "1-D scenes N x 1 x 1; permittivity tensors with small integer entries; parameters in {0, 1/2, 1}",
        "inverse permittivities are sent in units of 1e-8; 'inverse of the blend' is checked as inv*blend = identity within 16 units (1.6e-7 on a product of 2); exact (tolerance 0) for discrete devices with isotropic / diagonal materials",
        "the order of a device's materials (ascending first permittivity component) is taken as documented in materials.compute_ordered_material_name_tuples; dispersive coefficient tables are read from compute_allowed_dispersive_coefficients",
        "etched devices are continuous with one material (the only kind the code accepts)",
    ]


def _tensor(m):
    """material description -> 9 integers.  m: int (isotropic) | [a,b,c] (diagonal) | 9-list (full)"""
    if isinstance(m, int):
        return [m, 0, 0, 0, m, 0, 0, 0, m]
    if len(m) == 3:
        return [m[0], 0, 0, 0, m[1], 0, 0, 0, m[2]]
    return list(m)


def gen_cases(ctx):
    rng = random.Random(ctx.seed)
    n = 0
    scenes = []
    iso_pairs = [(1, 2), (1, 4), (2, 4)]
    placements = [(4, 1, 3, 1), (4, 0, 4, 2), (4, 1, 3, 2), (4, 0, 2, 1), (6, 1, 5, 2), (6, 2, 5, 1), (6, 0, 6, 3)]
    slabs = [None, (0, 2, 4), (1, 4, 2), (2, 6, 4)]
    for N, lo, hi, vox in placements:
        for slab in slabs:
            if slab and slab[1] > N:
                continue
            vol = 1 if slab else rng.choice((1, 2))
            for kind in ("continuous", "etched", "discrete"):
                if kind == "continuous":
                    matsets = [list(p) for p in iso_pairs]
                elif kind == "etched":
                    matsets = [[1], [2], [4]]
                else:
                    matsets = [list(p) for p in iso_pairs] + [[1, 2, 4]]
                if ctx.quick:
                    matsets = rng.sample(matsets, 2)
                for ms in matsets:
                    scenes.append({"N": N, "slab": slab, "vol": vol, "disp": 0, "devs": [{"lo": lo, "hi": hi, "vox": vox, "kind": kind, "mats": ms}]})
    # anisotropic scenes: diagonal and full tensors (in the device and / or around it)
    for N, lo, hi, vox in ((4, 1, 3, 1), (6, 1, 5, 2)):
        for kind in ("continuous", "etched", "discrete"):
            for ms in ([[1, 2, 4], 4], [[2, 4, 4], [4, 2, 1]], [FULL_A, 4], [FULL_A, FULL_B], [1, FULL_B]):
                mats = ms[:1] if kind == "etched" else ms
                for slab in (None, (0, 2, [1, 2, 2]), (1, N, FULL_B)):
                    if ctx.quick and rng.random() < 0.5:
                        continue
                    scenes.append({"N": N, "slab": slab, "vol": 1, "disp": 0, "devs": [{"lo": lo, "hi": hi, "vox": vox, "kind": kind, "mats": mats}]})
    # dispersive material inside a discrete device (and a dispersive slab next to it)
    for N, lo, hi, vox in ((4, 1, 3, 1), (6, 2, 6, 2)):
        for ms in ([1, 4], [1, 2, 4]):
            for slab in (None, (0, 2, 2)):
                scenes.append({"N": N, "slab": slab, "vol": 1, "disp": 1, "devs": [{"lo": lo, "hi": hi, "vox": vox, "kind": "discrete", "mats": ms}]})
    # plain (non-dispersive) devices, discrete and continuous, on top of a Lorentz-dispersive slab / volume: every cell of
    # the device must get the coefficients of the selected material, i.e. zeros (and the blend of zeros)
    for N, lo, hi, vox in ((4, 1, 3, 1), (6, 1, 5, 2), (6, 0, 6, 3)):
        for kind, ms in (("discrete", [1, 4]), ("discrete", [1, 2, 4]), ("continuous", [1, 4]), ("continuous", [2, 4])):
            for slab, dvol in (((0, N, 2), 0), ((0, 2, 2), 0), ((2, N, 4), 0), (None, 1), ((0, 2, 4), 1)):
                for dmat in (0, 1):
                    if dmat and kind == "continuous" and slab != (0, N, 2):
                        continue
                    scenes.append({"N": N, "slab": slab, "vol": 1, "disp": 1, "dslab": 0 if dvol and slab else 1, "dvol": dvol,
                                   "devs": [{"lo": lo, "hi": hi, "vox": vox, "kind": kind, "mats": ms, "dmat": dmat}]})
    # two devices: one etched, one plain (continuous or discrete), both orders in the object list; disjoint,
    # touching and overlapping placements; an anisotropic variant.  (An etched device that follows an overlapping
    # plain one blends with that device's output: the plain device then only gets parameters 0 / 1 so that the
    # doubled integer arithmetic of the spec stays exact.)
    pairs = []
    for N, e_pl, p_pl in ((6, (0, 2, 1), (3, 5, 1)), (6, (1, 3, 2), (3, 6, 3)), (4, (0, 2, 2), (2, 4, 2)), (6, (0, 4, 2), (2, 6, 2)), (6, (2, 5, 1), (0, 3, 1))):
        for slab in (None, (0, 3, 4), (1, N, 2)):
            for e_m, p_kind, p_m in (([1], "continuous", [2, 4]), ([4], "continuous", [1, 2]), ([2], "discrete", [1, 4]), ([1], "discrete", [1, 2, 4])):
                for order in (0, 1):
                    e = {"lo": e_pl[0], "hi": e_pl[1], "vox": e_pl[2], "kind": "etched", "mats": e_m}
                    q = {"lo": p_pl[0], "hi": p_pl[1], "vox": p_pl[2], "kind": p_kind, "mats": p_m}
                    pairs.append({"N": N, "slab": slab, "vol": 1 if slab else 2, "disp": 0, "devs": [e, q] if order == 0 else [q, e]})
    for order in (0, 1):
        e = {"lo": 0, "hi": 2, "vox": 1, "kind": "etched", "mats": [[1, 2, 4]]}
        q = {"lo": 3, "hi": 5, "vox": 2, "kind": "continuous", "mats": [FULL_A, 4]}
        pairs.append({"N": 6, "slab": (1, 4, FULL_B), "vol": 1, "disp": 0, "devs": [e, q] if order == 0 else [q, e]})
    # twins: two PLAIN devices whose material dicts have the same keys (names) but different permittivities; both list
    # orders; disjoint, touching and overlapping placements
    twins = []
    for N, pl1, pl2 in ((6, (0, 2, 1), (3, 6, 3)), (4, (0, 2, 2), (2, 4, 1)), (6, (0, 4, 2), (2, 6, 2))):
        for k1, k2, m1, m2 in (("continuous", "continuous", [1, 2], [2, 4]), ("continuous", "continuous", [1, 4], [1, 2]), ("discrete", "discrete", [2, 4], [1, 4]),
                               ("discrete", "discrete", [1, 2, 4], [2, 4, 8]), ("continuous", "discrete", [1, 2], [4, 8]), ("discrete", "continuous", [1, 4], [2, 4])):
            for slab in (None, (1, N, 2)):
                for order in (0, 1):
                    a = {"lo": pl1[0], "hi": pl1[1], "vox": pl1[2], "kind": k1, "mats": m1}
                    b = {"lo": pl2[0], "hi": pl2[1], "vox": pl2[2], "kind": k2, "mats": m2}
                    twins.append({"N": N, "slab": slab, "vol": 1, "disp": 0, "devs": [a, b] if order == 0 else [b, a]})
    ctx.exhaustive = False
    if ctx.quick:  # keep every anisotropic / dispersive scene family, thin the isotropic ones
        def is_iso(sc):
            return not sc["disp"] and all(isinstance(m, int) for d in sc["devs"] for m in d["mats"]) and not (sc["slab"] and not isinstance(sc["slab"][2], int))

        iso = [sc for sc in scenes if is_iso(sc)]
        rest = [sc for sc in scenes if not is_iso(sc)]
        plain_on_disp = [sc for sc in rest if sc["disp"] and "dvol" in sc]
        rest = [sc for sc in rest if sc not in plain_on_disp]
        scenes = rng.sample(iso, 16) + rng.sample(rest, min(len(rest), 14)) + rng.sample(plain_on_disp, 14)
        pairs = rng.sample(pairs[:-2], 16) + pairs[-2:]
        twins = rng.sample(twins, 16)
    for sc in scenes + pairs + twins:
        devs = sc["devs"]
        allp = []
        for i, d in enumerate(devs):
            nv = (d["hi"] - d["lo"]) // d["vox"]
            later_etch_overlap = any(x["kind"] == "etched" and x["lo"] < d["hi"] and d["lo"] < x["hi"] for x in devs[i + 1 :])
            levels = list(range(len(d["mats"]))) if d["kind"] == "discrete" else ([0, 2] if later_etch_overlap else [0, 1, 2])
            allp.append(list(itertools.product(levels, repeat=nv)))

        def pick():
            return [list(rng.choice(a)) for a in allp]

        if len(devs) == 1:
            singles = [[[list(p)]] for p in (allp[0] if len(allp[0]) <= 9 else rng.sample(allp[0], 9))]
            if ctx.quick:
                singles = rng.sample(singles, min(2, len(singles)))
            hists = singles + [[pick() for _ in range(hl)] for hl in ((2, 3, 3) if ctx.quick else (2, 2, 3, 3, 3, 3))]
        else:  # histories of 2-3 parameter sets (plus one single application)
            hists = [[pick()]] + [[pick() for _ in range(hl)] for hl in ((2, 3, 3) if ctx.quick else (2, 2, 2, 3, 3, 3, 3, 3))]
        for h in hists:
            n += 1
            tag = "+".join(f"{d['kind'][:4]}{d['lo']}-{d['hi']}v{d['vox']}" for d in devs)
            yield {"id": f"N{sc['N']}-{tag}-{n}", "scene": sc, "hist": h}


_SCENES = {}
_LOCK = threading.Lock()


def _place(sc):
    key = json.dumps(sc, sort_keys=True)
    with _LOCK:
        if key in _SCENES:
            return _SCENES[key]
    import jax
    import jax.numpy as jnp

    import fdtdx
    from fdtdx.dispersion import DispersionModel, LorentzPole

    def mat(m, dispersive=False):
        t = _tensor(m)
        if isinstance(m, int):
            perm = float(m)
        elif len(m) == 3:
            perm = tuple(float(v) for v in m)
        else:
            perm = tuple(tuple(float(v) for v in t[3 * i : 3 * i + 3]) for i in range(3))
        if dispersive:
            return fdtdx.Material(permittivity=perm, dispersion=DispersionModel(poles=(LorentzPole(resonance_frequency=2.0e15, damping=1.0e13, delta_epsilon=1.5),)))
        return fdtdx.Material(permittivity=perm)

    N = sc["N"]
    cfg = fdtdx.SimulationConfig(time=10e-15, grid=fdtdx.UniformGrid(spacing=100e-9), dtype=jnp.float64, backend="cpu")
    dslab = bool(sc["disp"]) and bool(sc.get("dslab", 1))
    vol = fdtdx.SimulationVolume(partial_grid_shape=(N, 1, 1), material=mat(sc["vol"], dispersive=bool(sc.get("dvol", 0))))
    objs, cons = [vol], []
    base = [_tensor(sc["vol"]) for _ in range(N)]
    if sc["slab"]:
        a, b, m = sc["slab"]
        slab = fdtdx.UniformMaterialObject(name="slab", partial_grid_shape=(b - a, 1, 1), material=mat(m, dispersive=dslab))
        objs.append(slab)
        cons.append(slab.set_grid_coordinates(axes=(0, 1, 2), sides=("-", "-", "-"), coordinates=(a, 0, 0)))
        for c in range(a, b):
            base[c] = _tensor(m)
    # material names deliberately NOT in permittivity order
    names = ["zeta", "alpha", "mid"]
    for i, d in enumerate(sc["devs"]):
        mats = {names[j]: mat(m, dispersive=bool(sc["disp"]) and bool(d.get("dmat", 1)) and j == len(d["mats"]) - 1) for j, m in enumerate(d["mats"])}
        if len(mats) > 1:
            mats = dict(reversed(list(mats.items())))
        tr = [fdtdx.ClosestIndex()] if d["kind"] == "discrete" else []
        dev = fdtdx.Device(name=f"dev{i}", partial_grid_shape=(d["hi"] - d["lo"], 1, 1), materials=mats, param_transforms=tr, partial_voxel_grid_shape=(d["vox"], 1, 1), use_etching=d["kind"] == "etched")
        objs.append(dev)
        cons.append(dev.set_grid_coordinates(axes=(0, 1, 2), sides=("-", "-", "-"), coordinates=(d["lo"], 0, 0)))
    objects, arrays, params, cfg, _ = fdtdx.place_objects(object_list=objs, config=cfg, constraints=cons, key=jax.random.PRNGKey(0))
    res = (objects, arrays, params, base)
    with _LOCK:
        _SCENES[key] = res
    return res


def _enc(arrays, N, state):
    """inverse permittivities as 9 integers per cell (units 1/S) and dispersive coefficients per cell"""
    import numpy as np

    a = np.asarray(arrays.inv_permittivities, dtype=np.float64)[:, :, 0, 0]  # (comps, N)
    comps = a.shape[0]
    a = np.clip(np.nan_to_num(a, nan=1.2, posinf=1.2, neginf=-1.2), -1.2, 1.2) * S
    r = np.rint(a)
    state["rdev"] = max(state["rdev"], int(round(float(np.max(np.abs(a - r))) * 1000)))
    rd = [int(round(float(np.max(np.abs(a[:, c] - r[:, c]))) * 1000)) for c in range(N)]  # per cell, 1/1000 unit
    inv = []
    for c in range(N):
        v = [int(x) for x in r[:, c]]
        inv.append([v[0], 0, 0, 0, v[0], 0, 0, 0, v[0]] if comps == 1 else [v[0], 0, 0, 0, v[1], 0, 0, 0, v[2]] if comps == 3 else v)
    out = {"inv": inv, "rd": rd}
    if arrays.dispersive_c1 is not None:
        cs = [np.asarray(x, dtype=np.float64)[:, :, :, 0, 0] for x in (arrays.dispersive_c1, arrays.dispersive_c2, arrays.dispersive_c3, arrays.dispersive_c4) if x is not None]
        out["dc"] = [[int(v) for x in cs for v in np.rint(np.clip(np.nan_to_num(x[:, :, c], nan=5.0), -5, 5).reshape(-1) * S)] for c in range(N)]
    return out, comps


def observe(case):
    import jax
    import jax.numpy as jnp
    import numpy as np

    import fdtdx
    from fdtdx.materials import compute_allowed_dispersive_coefficients

    sc = case["scene"]
    objects, arrays0, params0, base = _place(sc)
    N = sc["N"]
    # the devices in the order apply_params visits them
    order = [int(d.name[3:]) for d in objects.devices]
    sdevs = [sc["devs"][i] for i in order]
    st = {"rdev": 0}
    e0, comps = _enc(arrays0, N, st)
    events = [dict(e0, p=[])]
    key = jax.random.PRNGKey(1)

    def pset(h):  # h: one parameter vector per device of the scene description (object-list order)
        out = {}
        for i, d in enumerate(sc["devs"]):
            nv = (d["hi"] - d["lo"]) // d["vox"]
            vals = [float(v) if d["kind"] == "discrete" else v / 2.0 for v in h[i]]
            out[f"dev{i}"] = jnp.asarray(vals, dtype=jnp.float64).reshape(nv, 1, 1)
        return out

    def chain(p):  # what each device's transform chain produced, in apply order
        res = []
        for i in order:
            d = sc["devs"][i]
            nv = (d["hi"] - d["lo"]) // d["vox"]
            o = np.asarray(objects[f"dev{i}"](p[f"dev{i}"], expand_to_sim_grid=False), dtype=np.float64).reshape(-1)
            o2 = o if d["kind"] == "discrete" else 2.0 * o
            r = np.rint(o2)
            if not np.all(np.isfinite(o2)) or float(np.max(np.abs(o2 - r))) != 0.0 or o.size != nv:
                res.append([-1] * nv)
            else:
                res.append([int(v) for v in r])
        return res

    arrays, objs = arrays0, objects
    for h in case["hist"]:
        p = pset(h)
        arrays, objs, _ = fdtdx.apply_params(arrays, objs, p, key)
        e, _ = _enc(arrays, N, st)
        events.append(dict(e, p=chain(p)))
    fa, _, _ = fdtdx.apply_params(arrays0, objects, pset(case["hist"][-1]), key)
    fresh, _ = _enc(fa, N, st)
    tdevs = [{"lo": d["lo"], "hi": d["hi"], "vox": d["vox"], "kind": d["kind"], "mats": sorted((_tensor(m) for m in d["mats"]), key=lambda t: t[0])} for d in sdevs]
    rec = {"id": case["id"], "N": N, "comps": comps, "S": S, "tol": TOL, "base": base, "ndev": len(tdevs),
           "devs": tdevs, "events": events, "fresh": fresh, "rdev": st["rdev"], "disp": 0, "hlen": len(case["hist"])}  # fmt: skip
    if sc["disp"] and arrays0.dispersive_c1 is not None:
        npoles, nc = arrays0.dispersive_c1.shape[0], arrays0.dispersive_c1.shape[1]
        ncc = arrays0.dispersive_c3.shape[1]
        nk = 3 if arrays0.dispersive_c4 is None else 4
        rec["dtables"] = []
        for i in order:  # per device (apply order): coefficient tuple of each of its materials, from the implementation
            dv = objects[f"dev{i}"]
            t = compute_allowed_dispersive_coefficients(dv.materials, dt=dv._config.time_step_duration, max_num_poles=npoles, num_components=nc, coupling_components=ncc)
            tabs = [np.asarray(x, dtype=arrays0.dispersive_c1.dtype).astype(np.float64) for x in t[:nk]]
            rec["dtables"].append([[int(v) for x in tabs for v in np.rint(np.clip(x[m], -5, 5).reshape(-1) * S)] for m in range(len(sc["devs"][i]["mats"]))])
        rec["disp"] = 1
    return rec


def classify(record, verdict):
    if verdict.startswith("malformed"):
        return "malformed"
    return "drift" if verdict.startswith("drift:") else "violation"
