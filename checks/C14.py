"""C14 - on/off schedules decide exactly when sources inject and detectors record.
Spec: spec/SwitchDefs.tla, spec/Switch.tla (MC_Switch); trace spec: spec/Trace_Switch.tla."""
import itertools
import random

ID = "C14"
NONE = -999
TRACE = ("Trace_Switch", "Trace_Switch.cfg")
PARALLEL = 4
CHUNK = 1500


def model_check(ctx):
    ctx.mc("MC_Switch", "MC_Switch_q.cfg" if ctx.quick else "MC_Switch_t.cfg", label="all schedule parameter combinations in the bound x all steps")
    ctx.mc_negative("MC_Switch", "MC_Switch_neg.cfg")
    ctx.assumptions += ["time unit 1/4 step; schedule times are half-step multiples, periods even ticks, so all comparisons are exact in float64",
                        "run-level cases avoid window edges that are only reachable through inexact float sums (edges on half steps)"]


def _p(off=False, fixed=None, st=NONE, sap=NONE, et=NONE, eap=NONE, oft=NONE, ofp=NONE, period=NONE, interval=1):
    return {"off": off, "fixed": [NONE] if fixed is None else list(fixed), "st": st, "sap": sap, "et": et, "eap": eap, "oft": oft, "ofp": ofp, "period": period, "interval": interval}


def gen_cases(ctx):
    rng = random.Random(ctx.seed)
    if ctx.quick:
        Ts, times, durs, hps, pers, ivs = [5], [NONE, 0, 4, 6, 16], [NONE, 0, 6], [NONE, 0, 1, 2], [NONE, 4, 6], [1, 2]
    else:
        Ts, times, durs, hps, pers, ivs = [1, 3, 6, 8], [NONE, 0, 2, 4, 6, 12, 20, 28], [NONE, 0, 2, 4, 8], [NONE, 0, 1, 2, 3], [NONE, 4, 6], [1, 2, 3]
    n = 0
    for T in Ts:
        for st, et, oft, sap, eap, ofp, per, iv in itertools.product(times, times, durs, hps, hps, hps, pers, ivs):
            # thin the huge product deterministically (keep everything with at most 3 given parameters)
            given = sum(x != NONE for x in (st, et, oft, sap, eap, ofp))
            if given > 3 or (given == 3 and rng.random() > (0.5 if ctx.quick else 0.8)):
                continue
            n += 1
            yield {"id": f"L{n}", "kind": "list", "T": T, "p": _p(st=st, et=et, oft=oft, sap=sap, eap=eap, ofp=ofp, period=per, interval=iv)}
        for k in range(0, 4):
            for fl in itertools.permutations(range(T), k):
                if k == 3 and rng.random() > 0.2:
                    continue
                n += 1
                yield {"id": f"L{n}", "kind": "list", "T": T, "p": _p(fixed=fl)}
        n += 1
        yield {"id": f"L{n}", "kind": "list", "T": T, "p": _p(off=True)}
    ctx.exhaustive = False
    # run-level cases
    runs = [
        _p(), _p(off=True), _p(interval=2), _p(interval=3, st=4), _p(fixed=[1, 4, 2]), _p(fixed=[]), _p(st=6, et=18), _p(st=8, et=16), _p(et=10),
        _p(st=4, oft=10), _p(sap=1, period=12, eap=3), _p(oft=14), _p(st=8, interval=2), _p(et=12, oft=6),
    ]
    if not ctx.quick:
        for _ in range(20):
            k = rng.choice(["fixed", "win", "iv"])
            if k == "fixed":
                runs.append(_p(fixed=rng.sample(range(8), rng.randint(0, 4))))
            elif k == "win":
                a = rng.choice([0, 2, 4, 6, 10])
                runs.append(_p(st=a, et=a + rng.choice([2, 6, 8, 12, 14]), interval=rng.choice([1, 2])))
            else:
                runs.append(_p(interval=rng.choice([2, 3, 4]), st=rng.choice([NONE, 4, 6])))
    for i, p in enumerate(runs):
        yield {"id": f"R{i}", "kind": "run", "T": 8, "p": p, "gated_kind": ("dipole", "mdipole", "plane")[i % 3]}


def _switch(p, dt):
    import fdtdx

    def tm(x):
        return None if x == NONE else (x / 4.0) * dt

    def hp(x):
        return None if x == NONE else x / 2.0

    return fdtdx.OnOffSwitch(
        start_time=tm(p["st"]), end_time=tm(p["et"]), on_for_time=tm(p["oft"]), start_after_periods=hp(p["sap"]), end_after_periods=hp(p["eap"]),
        on_for_periods=hp(p["ofp"]), period=tm(p["period"]), fixed_on_time_steps=None if p["fixed"] == [NONE] else list(p["fixed"]),
        is_always_off=p["off"], interval=p["interval"],
    )


def _sw_kwargs(p, dt):
    sw = _switch(p, dt)
    return {k: getattr(sw, k) for k in ("start_time", "end_time", "on_for_time", "start_after_periods", "end_after_periods", "on_for_periods", "period", "fixed_on_time_steps", "is_always_off", "interval")}


def observe(case):
    if case["kind"] == "list":
        return _observe_list(case)
    return _observe_run(case)


def _observe_list(case):
    T, p = case["T"], case["p"]
    sw = _switch(p, 1.0)
    rec = {"id": case["id"], "kind": "list", "T": T, "p": p, "raised": False, "on": [], "idx": []}
    try:
        on = sw.calculate_on_list(num_total_time_steps=T, time_step_duration=1.0)
        idx = sw.calculate_time_step_to_on_arr_idx(num_total_time_steps=T, time_step_duration=1.0)
        rec["on"] = [bool(x) for x in on]
        rec["idx"] = [int(x) for x in idx]
    except Exception:
        rec["raised"] = True
    return rec


def _observe_run(case):
    import jax
    import jax.numpy as jnp
    import numpy as np

    import fdtdx
    from fdtdx.fdtd.forward import forward
    from harness import scenes as S

    T, p = case["T"], case["p"]
    base = {"shape": [6, 6, 6], "T": T, "bounds": {}, "slab": {"lo": [0, 0, 2], "hi": [6, 6, 4], "eps": 2.0}}
    _, _, cfg0 = S.build_scene(dict(base))
    dt = cfg0.time_step_duration
    swk = _sw_kwargs(p, dt)
    dets = [{"kind": "field", "name": "all", "lo": [2, 2, 2], "hi": [4, 4, 4]}, {"kind": "field", "name": "sw", "lo": [2, 2, 2], "hi": [4, 4, 4], "switch": swk},
            {"kind": "energy", "name": "en_all", "lo": [1, 1, 1], "hi": [5, 5, 5]}, {"kind": "energy", "name": "en_sw", "lo": [1, 1, 1], "hi": [5, 5, 5], "switch": swk}]
    drive = {"pos": [3, 3, 3], "pol": 0, "name": "drive"}
    # the gated source cycles through the injection paths: electric dipole (E), magnetic dipole (H), plane source (E and H faces)
    gk = case.get("gated_kind", "dipole")
    gated = {"pos": [2, 3, 2], "pol": 1, "name": "gated", "switch": swk, "wl": 500e-9, "kind": gk, "axis": 2}
    obj_w, arr_w, config = S.build_scene(dict(base, sources=[drive, gated], detectors=dets))
    obj_n, arr_n, _ = S.build_scene(dict(base, sources=[drive], detectors=dets))
    # detector part: a real run
    tt, out = fdtdx.run_fdtd(arr_w, obj_w, config, show_progress=False)
    ds = out.detector_states

    def fps(x):
        x = np.asarray(x, dtype=np.float64)
        x = x.reshape(x.shape[0], -1) if x.shape[0] > 0 else np.zeros((0, 1))
        w = np.sin(np.arange(x.shape[1]) * 0.37 + 0.2)
        v = x @ w if x.shape[0] > 0 else np.zeros((0,))
        m = float(np.max(np.abs(v))) if v.size else 0.0
        return v, m

    va, ma = fps(ds["all"]["fields"])
    vs, _ = fps(ds["sw"]["fields"])
    ea, mea = fps(ds["en_all"]["energy"])
    es, _ = fps(ds["en_sw"]["energy"])
    sc = lambda v, m: [int(round(1e9 * float(x) / m)) if m > 0 else 0 for x in v]  # noqa: E731
    all_fp = [a + b // 2 for a, b in zip(sc(va, ma), sc(ea, mea))]
    det_fp = [a + b // 2 for a, b in zip(sc(vs, ma), sc(es, mea))]
    n_sw = int(np.asarray(ds["sw"]["fields"]).shape[0])
    if int(np.asarray(ds["en_sw"]["energy"]).shape[0]) != n_sw:
        n_sw = -1
    # source part: step by hand; at every step compare with the same step taken without the gated source
    key = jax.random.PRNGKey(0)
    step_w = jax.jit(lambda s: forward(s, config, obj_w, key, record_detectors=False, record_boundaries=False, simulate_boundaries=True))
    step_n = jax.jit(lambda s: forward(s, config, obj_n, key, record_detectors=False, record_boundaries=False, simulate_boundaries=True))
    src = [s for s in obj_w.sources if s.name == "gated"][0]
    state = (jnp.asarray(0, dtype=jnp.int32), arr_w.reset())
    delta, would = [], []
    for t in range(T):
        nw = step_w(state)
        nn = step_n((state[0], state[1]))
        d = bool(np.any(np.asarray(nw[1].fields.E) != np.asarray(nn[1].fields.E)) or np.any(np.asarray(nw[1].fields.H) != np.asarray(nn[1].fields.H)))
        delta.append(d)
        ts = jnp.asarray(t, dtype=jnp.int32)
        adj = src.adjust_time_step_by_on_off(ts)
        z = jnp.zeros_like(arr_w.fields.E)
        e1 = src.update_E(z, inv_permittivities=arr_w.inv_permittivities, inv_permeabilities=arr_w.inv_permeabilities, time_step=adj, inverse=False)
        h1 = src.update_H(z, inv_permittivities=arr_w.inv_permittivities, inv_permeabilities=arr_w.inv_permeabilities, time_step=adj + 0.5, inverse=False)
        would.append(bool(np.any(np.asarray(e1) != 0) or np.any(np.asarray(h1) != 0)))
        state = nw
    return {"id": case["id"], "kind": "run", "T": T, "p": p, "det_n": n_sw, "det_fp": det_fp, "all_fp": all_fp, "src_delta": delta, "src_would": would,
            "raised": False, "on": [], "idx": []}


def classify(rec, verdict):
    if verdict.startswith("malformed"):
        return "malformed"
    return "drift" if verdict.startswith("drift") else "violation"
