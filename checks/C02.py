"""C02 - one backward step exactly undoes one forward step.
Spec: spec/Yee.tla (+YeeDefs) mode "reverse"; trace spec: spec/Trace_Yee.tla; harness: harness/yee_sys.py.  DESIGN.md §5 C02."""
import random

ID = "C02"
TRACE = ("Trace_Yee", "Trace_Yee.cfg")
CHUNK = 3
PARALLEL = 4
TOL = 100  # monitors are in units of 1e-13: relative 1e-11


def model_check(ctx):
    if ctx.quick:
        ctx.mc("Yee", "MC_Yee_C02_q.cfg", label="Backward(Forward(s)) = s: 4 boundary configs x switched E/H dipole set x every t < 3 x zero + all admissible unit states")
        ctx.mc("Yee", "MC_Yee_C02_q2.cfg", label="same with conductive entries / non-uniform cell widths and other source sets")
    else:
        ctx.mc("Yee", "MC_Yee_C02_t.cfg", label="per-axis sweep of all 13 boundary kinds x 3 shapes x 7 (material, loss, width, source-set) combinations x every t")
        ctx.mc("Yee", "MC_Yee_C02_t2.cfg", label="mixed boundary combinations")
    ctx.mc_negative("Yee", "MC_Yee_C02_neg.cfg")   # reverse injection uses the raw time step instead of the on-index
    ctx.mc_negative("Yee", "MC_Yee_C02_neg2.cfg")  # lossy reverse branch without the division by (1 - s)
    ctx.assumptions += [
        "states satisfy the wall conditions (tangential E = 0 on PEC face cells, tangential H = 0 on PMC face cells)",
        "exact records: source-free, lossless, uniform grid, dyadic materials, integer fields: backward(forward(s)) must equal s bit for bit",
        "tolerance records (conductivity, sources, non-uniform grids, random float data, full anisotropic tensors): max |backward(forward(s)) - s| <= 1e-11 * max(|s|, |forward(s)|), at every time step index of the run",
        "conductivity bounded so that c*sigma*eta0*inv_eps/2 <= 0.6 (the reverse update divides by 1 - that number)",
        "backward() is called with an empty Recorder (no absorbing layers) and reset_fields=False",
        "material arrays with different component counts (1/3-component inv_eps, inv_mu, electric and magnetic conductivity in all mixtures) by direct replacement and through Material(scalar, tuple) objects; H-injecting sources with gapped switches are stepped at every step incl. the final one",
    ]


def _sources(rng, shape, T):
    out = []
    for n in range(rng.randint(1, 3)):
        kind = rng.choice(["dipole", "dipole", "mdipole", "plane", "gauss"])
        sw = rng.choice([{}, {"interval": 2}, {"start_after_periods": 0.4, "period": 2e-16}, {"fixed_on_time_steps": sorted(rng.sample(range(T), max(1, T // 2)))}, {"is_always_off": True}])
        s = {"kind": kind, "switch": sw, "saf": rng.choice([1.0, 0.5, -2.0]), "amp": rng.choice([1.0, 3.0]), "wl": rng.choice([400e-9, 800e-9]), "name": f"s{n}"}
        prof = rng.choice(["single", "gauss", "custom"])
        if prof == "gauss":
            s["profile"] = "gauss"
        elif prof == "custom":
            s["profile"] = [rng.uniform(-1, 1) for _ in range(T + 3)]
        if kind in ("dipole", "mdipole"):
            s["pos"] = [rng.randrange(x) for x in shape]
            s["pol"] = rng.randrange(3)
            if rng.random() < 0.3:
                s["az"], s["el"] = rng.choice([0.0, 20.0]), rng.choice([10.0, -15.0])
        else:
            ax = rng.randrange(3)
            s["axis"], s["at"], s["dir"] = ax, rng.randrange(shape[ax]), rng.choice(["+", "-"])
            s["pol"] = (ax + rng.choice([1, 2])) % 3
        out.append(s)
    return out


def gen_cases(ctx):
    from harness import yee_sys as Y

    rng = random.Random(ctx.seed)
    ctx.exhaustive = False
    cases = []
    sweep = Y.sweep_configs()
    if ctx.quick:
        sweep = [s for n, s in enumerate(sweep) if n % 3 == (ctx.seed % 3)] + [sweep[1], sweep[16], sweep[29]]
    seen = set()
    for shape, kinds in sweep:
        cid = f"x-sweep-{'x'.join(map(str, shape))}-k{'.'.join(map(str, kinds))}"
        if cid in seen:
            continue
        seen.add(cid)
        cases.append({"id": cid, "mode": "exact", "cfg": Y.pattern_cfg(shape, kinds, mat=1, T=3), "seed": rng.randrange(10**6), "nb": 8 if ctx.quick else None})
    for n in range(3 if ctx.quick else 40):
        shape = rng.choice([[3, 2, 2], [2, 3, 2], [2, 2, 3], [3, 3, 2], [2, 3, 3]])
        kinds = Y.random_kinds(rng)
        cfg = Y.pattern_cfg(shape, kinds, mat=1, T=3)
        cfg["ie2"] = [rng.choice([1, 2, 4]) for _ in cfg["ie2"]]
        cfg["im2"] = [rng.choice([1, 2, 4]) for _ in cfg["im2"]]
        cases.append({"id": f"x-rand{n}-{'x'.join(map(str, shape))}-k{'.'.join(map(str, kinds))}", "mode": "exact", "cfg": cfg, "seed": rng.randrange(10**6), "nb": 8 if ctx.quick else None})
    flavours = ["lossy", "sources", "nonuniform", "lossy+sources", "magnetic-loss", "all", "tensor", "sources"]
    for n in range(16 if ctx.quick else 120):
        shape = [rng.randint(3, 5), rng.randint(2, 4), rng.randint(2, 3)]
        rng.shuffle(shape)
        flavour = flavours[n % len(flavours)]
        kinds = Y.random_kinds(rng, allow_bloch=flavour not in ("tensor",))
        nn = 3 * shape[0] * shape[1] * shape[2]
        T = 5
        cfg = {"shape": shape, "kinds": kinds, "T": T}
        cfg["fie"] = [rng.uniform(0.2, 1.0) for _ in range(nn)]
        cfg["fim"] = [rng.uniform(0.3, 1.0) for _ in range(nn)]
        if flavour in ("lossy", "lossy+sources", "all"):
            # s = c * sigma*eta0 * inv_eps / 2 <= 0.6  with c = 1/2 (uniform) and inv_eps <= 1
            cfg["fsig"] = [rng.choice([0.0, rng.uniform(0.0, 2.4)]) for _ in range(nn)]
        if flavour in ("magnetic-loss", "all"):
            cfg["fsigm"] = [rng.choice([0.0, rng.uniform(0.0, 2.4)]) for _ in range(nn)]
        if flavour in ("nonuniform", "all"):
            cfg["w"] = [[rng.choice([1, 2]) if rng.random() < 0.5 else rng.uniform(1.0, 2.5) for _ in range(s)] for s in shape]
            for a in range(3):
                cfg["w"][a][rng.randrange(shape[a])] = 1
        if flavour in ("sources", "lossy+sources"):  # index-space placement of sources is not supported on non-uniform grids
            cfg["sources"] = _sources(rng, shape, T)
        if flavour == "tensor":
            cfg["tensor"] = rng.randrange(10**6)
        cases.append({"id": f"t-{flavour}{n}-{'x'.join(map(str, shape))}-k{'.'.join(map(str, kinds))}", "mode": "tol", "cfg": cfg, "seed": rng.randrange(10**6)})
    # H-injecting sources (magnetic dipole, TFSF plane) with non-default switches, stepped forward/backward at EVERY step
    # of the run: steps whose successor is off, isolated on-steps, and the final step of the run
    hs = [("mdipole", {"fixed_on_time_steps": [1, 2, 3, 6, 7]}), ("plane", {"interval": 2}), ("mdipole", {"start_after_periods": 0.4, "period": 2e-16}),
          ("gauss", {"fixed_on_time_steps": [0, 3, 4, 7]}), ("mdipole", {"interval": 3}), ("plane", {"fixed_on_time_steps": [2, 5, 7]})]
    for n, (kind, sw) in enumerate(hs if not ctx.quick else hs[:3]):
        shape = [[4, 3, 3], [3, 3, 4], [3, 4, 2]][n % 3]
        nn = 3 * shape[0] * shape[1] * shape[2]
        src = {"kind": kind, "switch": sw, "saf": 1.5, "amp": 2.0, "wl": 400e-9, "name": "h0", "profile": ["single", "gauss"][n % 2]}
        if kind == "mdipole":
            src["pos"], src["pol"] = [1, 1, 1], n % 3
        else:
            src["axis"], src["at"], src["dir"], src["pol"] = 2, 1, "+", 0
        cfg = {"shape": shape, "kinds": [1, 1, [1, 9, 12][n % 3]], "T": 8, "sources": [src],
               "fie": [rng.uniform(0.3, 1.0) for _ in range(nn)], "fim": [rng.uniform(0.3, 1.0) for _ in range(nn)]}
        cases.append({"id": f"t-hsource{n}-{kind}-{'x'.join(map(str, shape))}", "mode": "tol", "cfg": cfg, "seed": rng.randrange(10**6)})
    # material arrays with different component counts (isotropic eps / mu with diagonal conductivities and vice versa)
    combos = [(1, 3, 1, 3), (3, 1, 3, 1), (1, 3, 3, 1), (3, 1, 1, 3), (1, 1, 1, 3), (1, 3, 1, 1)]
    for n in range(4 if ctx.quick else 3 * len(combos)):
        ie_n, sig_n, im_n, sigm_n = combos[n % len(combos)]
        shape = [rng.randint(3, 4), rng.randint(2, 4), rng.randint(2, 3)]
        rng.shuffle(shape)
        kinds = [1, 1, 1] if n % 2 == 0 else Y.random_kinds(rng)
        cells = shape[0] * shape[1] * shape[2]
        small = n % 3

        def sig():
            out = []
            for comp in range(3):
                out += [rng.uniform(0.0, 0.05) if comp == small else rng.uniform(0.0, 2.4) for _ in range(cells)]
            return out

        cfg = {"shape": shape, "kinds": kinds, "T": 5, "comp": {"ie": ie_n, "sig": sig_n, "im": im_n, "sigm": sigm_n},
               "fie": [rng.uniform(0.25, 1.0) for _ in range(3 * cells)], "fim": [rng.uniform(0.3, 1.0) for _ in range(3 * cells)], "fsig": sig(), "fsigm": sig()}
        cases.append({"id": f"t-counts{n}-eps{ie_n}sig{sig_n}mu{im_n}sigm{sigm_n}-{'x'.join(map(str, shape))}-k{'.'.join(map(str, kinds))}", "mode": "tol", "cfg": cfg, "seed": rng.randrange(10**6)})
    slabs = [{"eps": 2.0, "sigma": [2e3, 1.0e5, 1.5e5]}, {"eps": [2.0, 3.0, 4.0], "sigma": 1.0e5}, {"eps": 2.0, "mu": [1.0, 2.0, 1.5], "sigma": [1e5, 4e3, 1e5], "sigma_m": 1.0e10}]
    for n, sl in enumerate(slabs if not ctx.quick else slabs[:2]):
        shape = [rng.randint(3, 4), rng.randint(3, 4), rng.randint(2, 3)]
        cfg = {"shape": shape, "kinds": [1, 1, 1] if n % 2 == 0 else Y.random_kinds(rng), "T": 5, "slab": dict(lo=[0, 0, 0], hi=list(shape), **sl)}
        cases.append({"id": f"t-pipeline-material{n}-{'x'.join(map(str, shape))}", "mode": "tol", "cfg": cfg, "seed": rng.randrange(10**6)})
    return cases


def _observe(case):
    import jax
    import jax.numpy as jnp
    import numpy as np

    from harness import yee_sys as Y

    cfg = case["cfg"]
    rs = np.random.RandomState(case["seed"])
    obj, arrays, config = Y.build(cfg)
    if cfg.get("tensor") is not None:
        arrays = Y.full_tensor(cfg, arrays, cfg["tensor"])
    fwd, bwd, arrays, config = Y.steppers(obj, arrays, config, with_backward=True)
    dt = Y.field_dtype(arrays)
    vf, vb = jax.vmap(fwd), jax.vmap(bwd)
    rec = {"id": case["id"], "kind": "reverse", "tol": TOL, "devtol": 1000, "runs": [], "mons": []}
    if case["mode"] == "exact":
        E0, H0 = Y.int_states(cfg, rs, n_dense=6, n_pairs=2, n_basis=case.get("nb"))
        B = E0.shape[0]
        t0 = rs.randint(0, cfg["T"], size=B).astype(np.int32)
        t = jnp.asarray(t0)
        E1, H1 = vf(t, jnp.asarray(E0, dtype=dt), jnp.asarray(H0, dtype=dt))
        Eb, Hb = vb(t + 1, E1, H1)
        E1, H1, Eb, Hb = (np.asarray(x) for x in (E1, H1, Eb, Hb))
        rec.update(Y.spec_fields(cfg))
        rec["exact"] = True
        worst = 0.0
        for b in range(B):
            S, dev = [], 0.0
            for k, (E, H) in ((0, (E0[b], H0[b])), (1, (E1[b], H1[b])), (0, (Eb[b], Hb[b]))):
                o, d = Y.obs_state(E, H, k)
                S.append(o)
                dev = max(dev, d)
            rec["runs"].append({"S": S, "dev": Y.ppb(dev), "t0": int(t0[b]), "ab": [0, 0]})
            sc = max(np.max(np.abs(E0[b])), np.max(np.abs(H0[b])), np.max(np.abs(E1[b])), np.max(np.abs(H1[b])))
            worst = max(worst, float(max(np.max(np.abs(Eb[b] - E0[b])), np.max(np.abs(Hb[b] - H0[b]))) / sc))
        rec["mons"].append({"name": "backward(forward(s)) differs from s (float64 evaluation of the exact runs)", "d": Y.scaled(worst), "two": True})
        rec["nstates"] = int(B)
    else:
        rec["exact"] = False
        cplx = np.issubdtype(np.dtype(dt), np.complexfloating)
        B = 4
        E0, H0 = Y.float_states(cfg, rs, B, cplx)
        E, H = jnp.asarray(E0, dtype=dt), jnp.asarray(H0, dtype=dt)
        for step in range(cfg["T"]):
            t = jnp.full((B,), step, dtype=jnp.int32)
            E1, H1 = vf(t, E, H)
            Eb, Hb = vb(t + 1, E1, H1)
            a0, a1, ab = (np.asarray(E), np.asarray(H)), (np.asarray(E1), np.asarray(H1)), (np.asarray(Eb), np.asarray(Hb))
            worst = 0.0
            for b in range(B):
                sc = max(np.max(np.abs(a0[0][b])), np.max(np.abs(a0[1][b])), np.max(np.abs(a1[0][b])), np.max(np.abs(a1[1][b])))
                err = max(np.max(np.abs(ab[0][b] - a0[0][b])), np.max(np.abs(ab[1][b] - a0[1][b])))
                worst = max(worst, float(err / sc) if np.isfinite(err) else float("inf"))
            rec["mons"].append({"name": f"backward(forward(s)) differs from s at time step {step}", "d": Y.scaled(worst), "two": True})
            E, H = E1, H1   # continue the run from the forward state
        rec["n_sources"] = len(cfg.get("sources", []))
        rec["component_counts"] = Y.component_counts(arrays)
    return rec


def observe(case):
    from harness import yee_sys as Y

    return Y.safe_observe(_observe, case, "reverse", TOL)


def classify(rec, verdict):
    if verdict.startswith("malformed"):
        return "malformed"
    if verdict.startswith("model:") or verdict.startswith("inexact:"):
        return "drift"
    return "violation"


def run(ctx):
    import sys

    from harness import yee_sys as Y

    Y.pipeline(sys.modules[__name__], ctx)
