"""C41 - Wave descriptions and temporal profiles are self-consistent
(fdtdx/core/wavelength.py, fdtdx/objects/sources/profile.py, fdtdx/core/window.py).
Spec: spec/Wave.tla (+WaveDefs), trace spec: spec/Trace_Wave.tla.  DESIGN.md §5 C41.

Conformance: the real WaveCharacter getters, CustomTimeSignalProfile, SingleFrequencyProfile and GaussianPulseProfile
are run; results are encoded as integers (binary mantissa/exponent, exact rational residuals, values on a dyadic grid,
scaled envelope tables) and TLC evaluates the predicates of WaveDefs on them.  The two envelope clauses are
trace-monitor level."""
import math
import random
from fractions import Fraction

ID = "C41"
TRACE = ("Trace_Wave", "Trace_Wave.cfg")
CHUNK = 400
PARALLEL = 4
C0 = 299792458
SCALE = 10**9


def model_check(ctx):
    ctx.mc("Wave", "MC_Wave_q.cfg" if ctx.quick else "MC_Wave_t.cfg", workers=4,
           label="12 rational wave descriptions x 3 kinds; every signal of 2..3 (quick) / 2..4 (thorough) samples over 5 values, every quarter point of the clock incl. before/after the window; ideal ramp")
    ctx.mc_negative("Wave", "MC_Wave_neg.cfg", workers=2)    # interpolation weights exchanged
    ctx.mc_negative("Wave", "MC_Wave_neg2.cfg", workers=2)   # wavelength from frequency computed as c * f
    ctx.mc_negative("Wave", "MC_Wave_neg4.cfg", workers=2)   # result cast back to an integer sample type (truncated between samples)
    if not ctx.quick:
        ctx.mc_negative("Wave", "MC_Wave_neg3.cfg", workers=2)  # ramp without the clip
    ctx.assumptions += [
        "exact wave cases use powers of two (and c * 2^-k for wavelengths), for which the correctly rounded float results are the exact values",
        "random wave cases: residuals evaluated exactly with rationals by the harness, bound 1e-12 checked by TLC",
        "signal cases: samples are multiples of 1/4 (integers for the integer dtypes), times are quarter points of a dyadic sample grid (exact in float32 too where float32 times are used), so the interpolation is exact",
        "samples are handed over as float64/float32/int16/int32/int64 arrays, Python int / float / mixed / bool / complex lists; the claim is the same for all",
        "continuous-wave and Gaussian-pulse clauses are trace-monitored on a finite time grid (scaled integers, scale 1e9)",
        "only linear interpolation is claimed; outside value and the hold of the last sample are compared with the model as drift",
    ]


# ------------------------------------------------------------------ cases
def gen_cases(ctx):
    rng = random.Random(ctx.seed)
    n = 0
    # exact family: every power of two in a wide range, each of the three kinds
    ks = range(-60, 61, 3) if ctx.quick else range(-90, 91)
    for k in ks:
        for given in ("period", "frequency", "wavelength"):
            yield {"id": f"wx-{given}-{k}", "kind": "wave_exact", "given": given, "k": k}
    for n in range(300 if ctx.quick else 5000):
        given = rng.choice(("period", "frequency", "wavelength"))
        x = {"period": rng.uniform(1e-16, 1e-12), "frequency": rng.uniform(1e12, 1e16), "wavelength": rng.uniform(1e-8, 1e-4)}[given]
        if rng.random() < 0.2:
            x = rng.choice((1.0, 1e-15, 3e14, 1.55e-6, 2.5, 1e100, 1e-100))
        yield {"id": f"wt{n}", "kind": "wave_tol", "given": given, "x": x, "phase": rng.choice((0.0, 0.5, -1.25))}
    # sampled signals
    vals = [-8, -4, 0, 4, 12]
    if ctx.quick:
        sigs = [[vals[i] for i in idx] for L in (2, 3) for idx in _product(range(5), L)]
        sigs = sigs[:25] + rng.sample(sigs[25:], 60)
        ctx.exhaustive = False
    else:
        sigs = [[vals[i] for i in idx] for L in (2, 3, 4) for idx in _product(range(5), L)]
    for i, y4 in enumerate(sigs):
        yield {"id": f"sgA{i}", "kind": "signal", "y4": y4, "dt": [3, -52], "start": [0, 0], "outside4": 0, "given": "f64", "tdtype": "f64"}
    for i in range(150 if ctx.quick else 3000):
        L = rng.randint(2, 9)
        y4 = [rng.randint(-40, 40) for _ in range(L)]
        yield {"id": f"sgB{i}", "kind": "signal", "y4": y4, "dt": [rng.choice((1, 3, 5, 7)), rng.randint(-60, -40)],
               "start": [rng.choice((0, 1, 5, -3)), rng.randint(-50, -44)], "outside4": rng.choice((0, 0, 4, -6)), "given": "f64", "tdtype": "f64"}
    # the same claim for every legal way of handing the samples over (the stored dtype differs: int32/int64, float32, float64,
    # complex128, bool) and for float32 as well as float64 time arrays.  Integer formats need integer samples (y4 = 4 * int).
    givens = ("pyint", "np_int32", "np_int64", "np_int16", "jnp_int32", "mixed", "pyfloat", "np_f32", "complex", "complex_int", "bool")
    base = [[0, 4, 4, -8, 12, 0, 0], [0, 4], [4, 0], [-4, 8, -12], [12, 0, 0, 4]]
    n = 0
    for g in givens:
        for y in base:
            for td in ("f64", "f32"):
                yield _sig_case(f"sgC{n}", rng, g, list(y), td, 0)
                n += 1
    for i in range(330 if ctx.quick else 5000):
        g = givens[i % len(givens)]
        L = rng.randint(2, 8)
        y = [4 * rng.randint(-9, 9) for _ in range(L)]
        yield _sig_case(f"sgD{i}", rng, g, y, rng.choice(("f64", "f32")), rng.choice((0, 0, 4, -8)))
    # continuous wave
    for i in range(60 if ctx.quick else 600):
        yield {"id": f"cw{i}", "kind": "cw", "periods": rng.choice((1, 2, 4, 4, 7)), "grid": rng.choice((16, 32, 48)),
               "period": rng.choice((2.0**-48, 1e-15, 5.17e-15, rng.uniform(1e-16, 1e-13))),
               "phase_self": rng.choice((math.pi, math.pi, 0.0, 0.3)), "phase": rng.choice((0.0, 0.0, 1.1, -math.pi / 2))}
    # Gaussian pulse
    for i in range(60 if ctx.quick else 600):
        fc = rng.uniform(1e14, 6e14)
        yield {"id": f"gp{i}", "kind": "pulse", "fc": fc, "fw": fc * rng.uniform(0.02, 0.6), "grid": rng.choice((200, 400)),
               "phase_center": rng.choice((0.0, 0.7)), "width_via": rng.choice(("frequency", "period", "wavelength"))}


def _sig_case(cid, rng, given, y, tdtype, outside4):
    """y: samples * 4, all multiples of 4 (integer samples)"""
    c = {"id": cid, "kind": "signal", "given": given, "tdtype": tdtype, "outside4": outside4,
         "dt": [rng.choice((1, 3, 5)), rng.randint(-40, -2)], "start_steps": rng.choice((0, 0, 2, 5, -1))}
    if given == "bool":
        y = [4 if v else 0 for v in y]
    if given == "mixed":      # ints and quarter-multiple floats in one list
        y = [v if k % 2 == 0 else v + rng.choice((1, 2, 3, -1)) for k, v in enumerate(y)]
    if given == "pyfloat":
        y = [v + rng.choice((0, 1, 2, 3)) for v in y]
    c["y4"] = y
    if given in ("complex", "complex_int"):
        c["y4i"] = [4 * rng.randint(-5, 5) + (rng.choice((0, 1, 2)) if given == "complex" else 0) for _ in y]
    return c


def _product(r, L):
    import itertools

    return itertools.product(r, repeat=L)


# ------------------------------------------------------------------ encodings
def _dyadic(x):
    """float -> (m, e) with x = m * 2^e, m odd (or 0); None if |m| >= 2^31"""
    if x == 0:
        return [0, 0]
    n, d = Fraction(x).as_integer_ratio()
    e = -(d.bit_length() - 1)
    while n % 2 == 0:
        n //= 2
        e += 1
    return [n, e] if abs(n) < 2**31 else None


def _bits(x):
    """sign, two mantissa limbs, exponent of a float64 (all < 2^31)"""
    m, e = math.frexp(x)
    M = int(abs(m) * 2**53)
    return [int(math.copysign(1, x)), M >> 27, M & (2**27 - 1), e]


def _units(fr, unit=10**15, cap=2 * 10**9):
    return int(min(cap, math.ceil(abs(fr) * unit)))


# ------------------------------------------------------------------ observation of the real code
def _observe_wave(case):
    import fdtdx

    given = case["given"]
    if case["kind"] == "wave_exact":
        k = case["k"]
        x = math.ldexp(1.0, k) if given != "wavelength" else math.ldexp(float(C0), k)
    else:
        x = case["x"]
    wc = fdtdx.WaveCharacter(**{given: x}, **({"phase_shift": case["phase"]} if case.get("phase") else {}))
    P, F, L = float(wc.get_period()), float(wc.get_frequency()), float(wc.get_wavelength())
    back = {"period": P, "frequency": F, "wavelength": L}[given]
    if case["kind"] == "wave_exact":
        d = {"x": _dyadic(x), "P": _dyadic(P), "F": _dyadic(F), "L": _dyadic(L)}
        rep = all(v is not None for v in d.values())
        d = {k2: (v if v is not None else [0, 0]) for k2, v in d.items()}
        return {"id": case["id"], "kind": "wave_exact", "given": given, "representable": rep, **d}
    fP, fF, fL = Fraction(P), Fraction(F), Fraction(L)
    return {"id": case["id"], "kind": "wave_tol", "given": given, "tol": 1000,
            "res_pf": _units(fP * fF - 1), "res_l": _units((fL - C0 * fP) / fL),
            "bits_in": _bits(x), "bits_out": _bits(back)}


def _samples(case):
    """the sample array exactly as a user would hand it over"""
    import jax.numpy as jnp
    import numpy as np

    y4, g = case["y4"], case["given"]
    yi = case.get("y4i") or [0] * len(y4)
    ints = [v // 4 for v in y4]
    if g == "f64":
        return jnp.asarray([v / 4.0 for v in y4], dtype=jnp.float64)
    if g == "pyint":
        return list(ints)
    if g in ("np_int32", "np_int64", "np_int16"):
        return np.asarray(ints, dtype={"np_int32": np.int32, "np_int64": np.int64, "np_int16": np.int16}[g])
    if g == "jnp_int32":
        return jnp.asarray(ints, dtype=jnp.int32)
    if g == "mixed":
        return [v // 4 if v % 4 == 0 else v / 4.0 for v in y4]
    if g == "pyfloat":
        return [v / 4.0 for v in y4]
    if g == "np_f32":
        return np.asarray([v / 4.0 for v in y4], dtype=np.float32)
    if g == "complex":
        return [complex(a / 4.0, b / 4.0) for a, b in zip(y4, yi)]
    if g == "complex_int":
        return [a // 4 + (b // 4) * 1j for a, b in zip(y4, yi)]
    if g == "bool":
        return [bool(v) for v in y4]
    raise ValueError(g)


def _grid16(values):
    v16, ongrid = [], []
    for v in values:
        w = float(v) * 16.0
        ok = math.isfinite(w) and w == round(w) and abs(w) < 2**30
        ongrid.append(bool(ok))
        v16.append(int(round(w)) if ok else 0)
    return v16, ongrid


def _observe_signal(case):
    import jax.numpy as jnp
    import numpy as np
    from fdtdx.objects.sources.profile import CustomTimeSignalProfile

    y4 = case["y4"]
    y4i = case.get("y4i") or [0] * len(y4)
    dt = math.ldexp(case["dt"][0], case["dt"][1])
    # start is either an independent dyadic number (float64 times) or a whole number of steps (so that every time point
    # is a small integer times dt/4 and therefore exact in float32 too)
    start = math.ldexp(case["start"][0], case["start"][1]) if "start" in case else case["start_steps"] * dt
    outside = case["outside4"] / 4.0
    js = list(range(-4, (len(y4) + 1) * 4 + 1))
    times = np.asarray([start + j * (dt / 4.0) for j in js], dtype=np.float64)
    tdt = jnp.float32 if case.get("tdtype") == "f32" else jnp.float64
    exact_times = bool(np.all(np.asarray(times.astype(np.float32 if tdt == jnp.float32 else np.float64), dtype=np.float64) == times))
    built, out = True, np.zeros(len(js), dtype=np.complex128)
    try:
        prof = CustomTimeSignalProfile(signal=_samples(case), time_step_duration=dt, start_time=start, outside_value=outside)
        out = np.asarray(prof.get_amplitude(jnp.asarray(times, dtype=tdt), period=1.0)).astype(np.complex128)
    except Exception:
        built = False
    v16, ongrid = _grid16(out.real)
    v16i, ongridi = _grid16(out.imag)
    return {"id": case["id"], "kind": "signal", "sub": 4, "given": case.get("given", "f64"), "tdtype": case.get("tdtype", "f64"), "built": built,
            "exact_times": exact_times, "y4": y4, "y4i": y4i, "outside4": case["outside4"], "js": js,
            "v16": v16, "ongrid": ongrid, "v16i": v16i, "ongridi": ongridi}


def _ints(arr):
    return [int(round(float(v) * SCALE)) for v in arr]


def _observe_cw(case):
    import jax.numpy as jnp
    import numpy as np
    from fdtdx.core.window import linear_rampup
    from fdtdx.objects.sources.profile import SingleFrequencyProfile

    T, n, K = case["period"], case["periods"], case["grid"]
    prof = SingleFrequencyProfile(phase_shift=case["phase_self"], num_startup_periods=n)
    time = jnp.asarray([k * (T / K) for k in range((n + 3) * K + 1)], dtype=jnp.float64)
    amp = np.asarray(prof.get_amplitude(time, period=T, phase_shift=case["phase"]), dtype=np.float64)
    ramp = np.asarray(linear_rampup(time, n * T), dtype=np.float64)
    # with the default carrier phases the grid contains the carrier peaks, so unit amplitude is reached exactly
    on_peaks = case["phase_self"] in (0.0, math.pi) and case["phase"] == 0.0
    return {"id": case["id"], "kind": "cw", "scale": SCALE, "tol": 2, "reach_tol": 2 if on_peaks else SCALE // 50,
            "amp": _ints(amp), "ramp": _ints(ramp), "k_full": n * K + 2, "any_above_one": bool(np.any(np.abs(amp) > 1.0) or np.any(ramp > 1.0))}


def _observe_pulse(case):
    import jax.numpy as jnp
    import numpy as np
    import fdtdx
    from fdtdx.core.window import gaussian_envelope
    from fdtdx.objects.sources.profile import GaussianPulseProfile

    fc, fw = case["fc"], case["fw"]
    via = case["width_via"]
    width = fdtdx.WaveCharacter(**{via: {"frequency": fw, "period": 1.0 / fw, "wavelength": C0 / fw}[via]})
    prof = GaussianPulseProfile(spectral_width=width, center_wave=fdtdx.WaveCharacter(frequency=fc, phase_shift=case["phase_center"]))
    sigma = 1.0 / (2 * math.pi * width.get_frequency())
    K = case["grid"]
    time = jnp.asarray([k * (12 * sigma / K) for k in range(K + 1)], dtype=jnp.float64)
    a0 = np.asarray(prof.get_amplitude(time, period=1.0 / fc, phase_shift=0.0), dtype=np.float64)
    a90 = np.asarray(prof.get_amplitude(time, period=1.0 / fc, phase_shift=math.pi / 2), dtype=np.float64)
    env2 = a0 * a0 + a90 * a90                       # envelope^2, from the real profile output only
    env = np.asarray(gaussian_envelope(time, 6 * sigma, sigma), dtype=np.float64)   # the envelope function of window.py
    above = bool(np.any(np.abs(a0) > 1.0) or np.any(np.abs(a90) > 1.0) or np.any(env > 1.0) or np.any(env2 > 1.0 + 1e-12))
    return {"id": case["id"], "kind": "pulse", "scale": SCALE, "tol": 4, "amp": _ints(a0), "env2": _ints(env2), "env": _ints(env), "any_above_one": above}


def observe(case):
    k = case["kind"]
    if k.startswith("wave"):
        return _observe_wave(case)
    return {"signal": _observe_signal, "cw": _observe_cw, "pulse": _observe_pulse}[k](case)


def classify(record, verdict):
    if verdict.startswith("malformed:"):
        return "malformed"
    if verdict.startswith(("model:", "shape:")):
        return "drift"
    return "violation"
