"""C43 - Shapes are rasterised by cell-centre inclusion.
Spec: spec/Shapes.tla (+ShapesDefs), trace spec: spec/Trace_Shapes.tla.  DESIGN.md §5 C43.

Real Sphere / Cylinder / ExtrudedPolygon objects are placed
  U  through fdtdx.place_objects on a UniformGrid (lower corner pinned by grid coordinates),
  R  through fdtdx.place_objects on a RectilinearGrid with integer cell widths in {1,2,3} (position by a real
     margin to the volume's lower face; fdtdx snaps position and size),
  DL / DR  with the placement primitive SimulationObject.place_on_grid on an unresolved UniformGrid config (the
     legacy scalar-spacing branch of the mask code) / on a RectilinearGrid config, where box and radius are
     independent - this is where centres exactly on the surface occur,
and the mask of the PLACED object (get_voxel_mask_for_shape()) is sent to TLC together with the integer edges
of the placed box (read back from the object's own config grid and slice), the radii in quarter units and the
polygon vertices.  TLC (Trace_Shapes) decides inclusion per cell with exact integer arithmetic.

Length unit D = 2^-24 m: all edges, centres, radii (multiples of D/4) and vertices are exact in float64."""
import random
from fractions import Fraction

ID = "C43"
TRACE = ("Trace_Shapes", "Trace_Shapes.cfg")
CHUNK = 40
PARALLEL = 4

D = 2.0 ** -24
# polygon catalogue of spec/Shapes.tla (quarter units, relative to the middle of the box) + a few more
POLYS = [
    [[-4, -4], [4, -4], [4, 4], [-4, 4]],
    [[-6, -4], [6, -4], [0, 6]],
    [[-6, -6], [6, -6], [6, 6], [0, 0], [-6, 6]],
    [[0, -6], [6, 0], [0, 6], [-6, 0]],
    [[-6, -6], [6, -6], [6, 6], [2, 6], [2, -2], [-2, -2], [-2, 6], [-6, 6]],
    [[-6, -4], [6, 4], [6, -4], [-6, 4]],
    [[-5, -3], [-5, 3], [5, 3], [5, -3], [-5, -3]],
    [[-6, -2], [2, -6], [6, 3], [-3, 5]],
    [[-10, -8], [10, -8], [10, 8], [4, 8], [4, -2], [-4, -2], [-4, 8], [-10, 8]],
    [[-12, -2], [0, -10], [12, -2], [6, 10], [0, 2], [-6, 10]],
]


def model_check(ctx):
    W = 4
    ctx.mc("Shapes", "MC_Shapes_q.cfg" if ctx.quick else "MC_Shapes_t.cfg", workers=W,
           label="lattices with widths {1,2,3} (quick: 5 x 2 x 1 width triples, thorough: 30 x 3 x 1), sub-boxes on x, ellipsoids (default radius x every subset of per-axis radii given/omitted) and cylinders with radii 1..3 on the quarter grid, "
                 "8 polygons x 3 axes, shape centre on / a quarter unit off the box middle; Rasterise, Grow (monotone), Mirror (equivariant)")
    ctx.mc_negative("Shapes", "MC_Shapes_neg.cfg", workers=W)
    ctx.mc_negative("Shapes", "MC_Shapes_neg2.cfg", workers=W)
    ctx.mc_negative("Shapes", "MC_Shapes_neg3.cfg", workers=W)
    ctx.assumptions += [
        "the analytic shape is the one the object defines: radii / vertices as passed to the constructor, centred in the middle of the object's PLACED box (how constraints snap that box to the grid is C26/C27/C37, not C43)",
        "lengths are integer multiples of D/4 with D = 2^-24 m, cell widths are D, 2D or 3D, so cell centres, shape centres, radii and vertices are exact in float64 and every non-boundary centre is separated from the surface by >= 1e-9 relative",
        "a centre EXACTLY on an ellipsoid/cylinder surface must be unmarked when every d/r is a dyadic rational (float64 evaluates the sum exactly, so only the comparison operator decides); "
        "for other radii (e.g. r = 2.5 D, d = (1.5, 2) D) the float64 sum of squares may round to either side of 1 - such cells are counted in the evidence but not judged",
        "polygon centres exactly on an edge or vertex are don't-care (even-odd rule decided by matplotlib.path.Path.contains_points)",
        "DL/DR records call the public placement primitive place_on_grid directly (as fdtdx's own unit tests do) to decouple box and radius; U/R records go through place_objects",
    ]


# ---------------------------------------------------------------- inputs
def _rand_poly(rng):
    while True:
        n = rng.choice((3, 4, 5, 6))
        pts = [[rng.randrange(-12, 13), rng.randrange(-10, 11)] for _ in range(n)]
        hs = [p[0] for p in pts]
        vs = [p[1] for p in pts]
        if max(hs) - min(hs) >= 8 and max(vs) - min(vs) >= 8 and len({tuple(p) for p in pts}) == n:
            return pts


def _ell(rad, given):
    """Sphere(radius=rad, radius_x/_y/_z=given[a] or omitted when 0); q = the radii by the documented rule (harness-side use
    only: evidence statistics; TLC recomputes them from rad/given)."""
    return {"kind": "ell", "rad": rad, "given": list(given), "q": [g or rad for g in given], "axis": 0, "poly": [], "len": 0}


def _ell_q(q):
    return _ell(q[0], [0, 0, 0]) if q[0] == q[1] == q[2] else _ell(q[0], [0, q[1], q[2]])


SUBSETS = [(a, b, c) for a in (0, 1) for b in (0, 1) for c in (0, 1)]      # which of radius_x, radius_y, radius_z are given


def _ell_subsets(rad, vals):
    return [_ell(rad, [v if on else 0 for v, on in zip(vals, sub)]) for sub in SUBSETS]


def _rand_obj(rng, kinds=("ell", "cyl", "poly")):
    k = rng.choice(kinds)
    if k == "ell":
        rad = rng.choice((4, 5, 6, 8, 10, 12))
        sub = rng.choice(SUBSETS)
        return _ell(rad, [rng.choice([v for v in (4, 5, 6, 7, 8, 10, 12, 14) if v != rad]) if on else 0 for on in sub])
    if k == "cyl":
        return {"kind": "cyl", "q": [rng.choice((4, 5, 6, 7, 8, 9, 10, 12, 14))] * 3, "axis": rng.randrange(3), "poly": [], "len": rng.choice((1, 2, 3))}
    p = rng.choice(POLYS) if rng.random() < 0.5 else _rand_poly(rng)
    if rng.random() < 0.3:
        p = list(reversed(p))
    return {"kind": "poly", "q": [4, 4, 4], "axis": rng.randrange(3), "poly": p, "len": rng.choice((1, 2, 3))}


def _widths(rng, n):
    return [rng.choice((1, 1, 2, 2, 3)) for _ in range(n)]


def gen_cases(ctx):
    rng = random.Random(ctx.seed)
    ctx.exhaustive = False
    nU, nR, nD = (3, 4, 60) if ctx.quick else (25, 30, 600)
    # U: uniform grid through place_objects; first scene = the catalogue polygons on all axes + round spheres
    objs = [{"kind": "poly", "q": [4, 4, 4], "axis": i % 3, "poly": p, "len": 1 + i % 2, "at": [i % 3, (i * 2) % 4, i % 2]} for i, p in enumerate(POLYS)]
    objs += [{**_ell(q, [0, 0, 0]), "at": [1, 0, 1]} for q in (4, 5, 6, 8, 10, 12)]
    yield {"id": "U-cat", "fam": "U", "n": [12, 12, 10], "objs": objs}
    # every subset of {radius_x, radius_y, radius_z} given / omitted, the given values all different from `radius`
    opt = _ell_subsets(8, (12, 4, 6)) + _ell_subsets(6, (4, 10, 12))
    yield {"id": "U-opt", "fam": "U", "n": [12, 12, 10], "objs": [{**o, "at": [i % 3, (i // 3) % 3, i % 2]} for i, o in enumerate(opt)]}
    yield {"id": "R-opt", "fam": "R", "widths": [[1, 2, 1, 1, 3, 1, 2, 1, 1], [2, 1, 1, 2, 1, 1, 3, 1, 1], [1, 1, 2, 1, 2, 1, 1, 3, 1]],
           "objs": [{**o, "at": [i % 3, (i // 3) % 3, i % 2]} for i, o in enumerate(opt)]}
    for s in range(nU - 1):
        objs = []
        for _ in range(9):
            o = _rand_obj(rng)
            o["at"] = [rng.randrange(0, 4) for _ in range(3)]
            objs.append(o)
        yield {"id": f"U-{s}", "fam": "U", "n": [12, 12, 10], "objs": objs}
    # R: rectilinear grid through place_objects.  First scene: crafted so that a sphere r = 2D lands on cells of
    # width 2 (centres exactly on the surface along each axis) and a cylinder r = 1D on two cells of width 2.
    tie_w = [[1, 1, 2, 2, 2, 1, 1, 2]] * 3
    objs = [{**_ell_q([8, 8, 8]), "at": [2, 2, 2]},
            {**_ell_q([8, 4, 8]), "at": [2, 2, 2]},
            {"kind": "cyl", "q": [8, 8, 8], "axis": 1, "poly": [], "len": 2, "at": [2, 1, 2]},
            {"kind": "cyl", "q": [8, 8, 8], "axis": 2, "poly": [], "len": 1, "at": [2, 2, 0]},
            {"kind": "poly", "q": [4, 4, 4], "axis": 2, "poly": POLYS[2], "len": 2, "at": [2, 4, 0]}]
    yield {"id": "R-tie", "fam": "R", "widths": tie_w, "objs": objs}
    for s in range(nR - 1):
        widths = [_widths(rng, 9), _widths(rng, 9), _widths(rng, 9)]
        objs = []
        for _ in range(9):
            o = _rand_obj(rng)
            o["at"] = [rng.randrange(0, 3) for _ in range(3)]
            objs.append(o)
        yield {"id": f"R-{s}", "fam": "R", "widths": widths, "objs": objs}
    # D: place_on_grid directly, box independent of the radius.  Crafted boundary ties first.
    ties = [
        ("DL", None, {"kind": "ell", "q": [8, 8, 8], "slice": [[0, 5], [1, 6], [2, 7]]}),          # |d| = 2 = r along each axis
        ("DL", None, {"kind": "ell", "q": [4, 8, 16], "slice": [[0, 3], [0, 5], [0, 9]]}),
        ("DL", None, {"kind": "cyl", "q": [8, 8, 8], "axis": 2, "slice": [[0, 5], [0, 5], [0, 2]]}),
        ("DL", None, {"kind": "cyl", "q": [4, 4, 4], "axis": 0, "slice": [[0, 1], [0, 3], [0, 3]]}),
        ("DL", None, {"kind": "cyl", "q": [10, 10, 10], "axis": 2, "slice": [[0, 6], [0, 5], [0, 1]]}),   # (1.5, 2) / 2.5: inexact tie
        ("DL", None, {"kind": "ell", "q": [14, 14, 14], "slice": [[0, 7], [0, 8], [0, 7]]}),       # (1, 1.5, 3) / 3.5: inexact tie
        ("DR", [[2, 2, 2], [2, 2, 2], [2, 2, 2]], {"kind": "ell", "q": [8, 8, 8], "slice": [[0, 3], [0, 3], [0, 3]]}),
        ("DR", [[2, 2], [1, 2, 1], [1, 2, 1]], {"kind": "ell", "q": [4, 4, 4], "slice": [[0, 2], [0, 3], [0, 3]]}),
        ("DR", [[1, 2, 2, 1], [2, 2, 2], [2, 2, 2]], {"kind": "ell", "q": [12, 12, 12], "slice": [[0, 4], [0, 3], [0, 3]]}),  # (1,2,2)/3
        ("DR", [[2, 2], [1, 2, 1], [3]], {"kind": "cyl", "q": [4, 4, 4], "axis": 2, "slice": [[0, 2], [0, 3], [0, 1]]}),
        ("DR", [[1, 2, 1, 3], [2, 2, 2, 1], [1, 1]], {"kind": "cyl", "q": [8, 8, 8], "axis": 2, "slice": [[0, 3], [0, 3], [0, 2]]}),
        ("DR", [[2, 1, 2], [1, 1, 1, 1, 1], [1]], {"kind": "cyl", "q": [10, 10, 10], "axis": 2, "slice": [[0, 3], [0, 5], [0, 1]]}),   # (1.5, 2) / 2.5
    ]
    for i, sub in enumerate(_ell_subsets(8, (12, 4, 6))):
        ties.append(("DL", None, {**sub, "slice": [[0, 6 if sub["q"][0] == 12 else 4], [1, 5], [0, 5]]}))
        ties.append(("DR", [[1, 2, 1, 1, 2], [2, 1, 1, 2], [1, 1, 2, 1, 1]], {**sub, "slice": [[0, 5], [0, 4], [0, 5]]}))
    for i, (fam, widths, o) in enumerate(ties):
        if o["kind"] == "ell" and "rad" not in o:
            o = {**_ell_q(o["q"]), "slice": o["slice"]}
        o = {"axis": 0, "poly": [], "len": 0, **o}
        c = {"id": f"{fam}-tie{i}", "fam": fam, "objs": [o]}
        if widths:
            c["widths"] = widths
        yield c
    for s in range(nD):
        fam = "DL" if s % 2 == 0 else "DR"
        o = _rand_obj(rng)
        c = {"id": f"{fam}-{s}", "fam": fam, "objs": [o]}
        if fam == "DR":
            c["widths"] = [_widths(rng, 7), _widths(rng, 7), _widths(rng, 5)]
            nmax = [7, 7, 5]
        else:
            nmax = [9, 9, 6]
        sl = []
        for a in range(3):
            n = rng.randrange(1 if (o["kind"] != "ell" and a == o["axis"]) else 2, nmax[a] + 1)
            lo = rng.randrange(0, nmax[a] - n + 1)
            sl.append([lo, lo + n])
        o["slice"] = sl
        yield c


# ---------------------------------------------------------------- the real code
def _build(o, name, fam):
    import numpy as np
    import fdtdx

    mats = {"a": fdtdx.Material(permittivity=2.0), "b": fdtdx.Material(permittivity=3.0)}
    kw = dict(name=name, materials=mats, material_name="a")
    ax = o["axis"]
    if o["kind"] == "ell":
        per_axis = {f"radius_{n}": g * D / 4 for n, g in zip("xyz", o["given"]) if g}           # omitted ones fall back to radius
        return fdtdx.Sphere(radius=o["rad"] * D / 4, **per_axis, **kw)
    ext = {}
    if fam in ("U", "R"):
        pg, pr = [None] * 3, [None] * 3
        if fam == "U":
            pg[ax] = o["len"]
            ext = {"partial_grid_shape": tuple(pg)}
        else:
            pr[ax] = o["len"] * D
            ext = {"partial_real_shape": tuple(pr)}
    if o["kind"] == "cyl":
        return fdtdx.Cylinder(radius=o["q"][0] * D / 4, axis=ax, **ext, **kw)
    verts = np.asarray(o["poly"], dtype=np.float64) * (D / 4)
    return fdtdx.ExtrudedPolygon(vertices=verts, axis=ax, **ext, **kw)


def _int_edges(arr, what):
    import numpy as np

    a = np.asarray(arr, dtype=np.float64) / D
    r = np.rint(a)
    if not np.array_equal(a, r):
        raise RuntimeError(f"{what}: grid edges are not integer multiples of D: {a}")
    return [int(v) for v in r]


def _record(rid, fam, o, placed):
    import numpy as np

    sl = placed.grid_slice_tuple
    grid = placed._config.resolved_grid
    edges = []
    for a in range(3):
        lo, hi = sl[a]
        if grid is None:
            if placed._config.uniform_spacing() != D:
                raise RuntimeError("unexpected spacing")
            edges.append(list(range(int(lo), int(hi) + 1)))
        else:
            edges.append(_int_edges(np.asarray(grid.edges(a))[lo: hi + 1], rid))
    m = np.asarray(placed.get_voxel_mask_for_shape())
    mshape = [int(x) for x in m.shape] if m.ndim == 3 else [int(x) for x in m.shape] + [0] * (3 - m.ndim)
    box = tuple(hi - lo for lo, hi in sl)
    try:
        full = np.broadcast_to(m.astype(bool), box)
        mask = [int(v) for v in full.reshape(-1)]
    except ValueError:
        mshape = [-1, -1, -1]                      # judged by the trace spec ("shape" clause)
        mask = [0] * (box[0] * box[1] * box[2])
    rec = {"id": rid, "fam": fam, "kind": o["kind"], "rad": int(o["rad"] if o["kind"] == "ell" else o["q"][0]),
           "given": [int(g) for g in (o["given"] if o["kind"] == "ell" else (0, 0, 0))], "axis": int(o["axis"]) + 1,
           "poly": [[int(h), int(v)] for h, v in o["poly"]], "edges": edges, "mshape": mshape, "mask": mask,
           "slice": [[int(lo), int(hi)] for lo, hi in sl]}
    rec.update(_stats(rec))
    return rec


def _stats(rec):
    """Evidence only (not part of the verdict): marked cells, centres exactly on an ellipsoid/cylinder surface."""
    n = [len(e) - 1 for e in rec["edges"]]
    q = [g or rec["rad"] for g in rec["given"]]
    marked = sum(rec["mask"])
    on = on_marked = 0
    if rec["kind"] in ("ell", "cyl"):
        axes = [0, 1, 2] if rec["kind"] == "ell" else [a for a in range(3) if a != rec["axis"] - 1]
        x = 0
        for i in range(n[0]):
            for j in range(n[1]):
                for k in range(n[2]):
                    idx = (i, j, k)
                    s = Fraction(0)
                    for a in axes:
                        e = rec["edges"][a]
                        d4 = 2 * (e[idx[a]] + e[idx[a] + 1]) - 2 * (e[0] + e[-1])
                        s += Fraction(d4, q[a]) ** 2
                    if s == 1:
                        on += 1
                        on_marked += rec["mask"][x]
                    x += 1
    return {"n_marked": marked, "n_cells": n[0] * n[1] * n[2], "n_on_surface": on, "n_on_surface_marked": on_marked}


def observe_scene(case):
    """Runs one scene, returns one record per object."""
    import jax
    import jax.numpy as jnp
    import numpy as np
    import fdtdx
    from loguru import logger

    logger.disable("fdtdx")
    fam = case["fam"]
    ids = [f"{case['id']}/{k}-{o['kind']}" for k, o in enumerate(case["objs"])]
    if fam in ("DL", "DR"):
        if fam == "DL":
            grid = fdtdx.UniformGrid(spacing=D)
        else:
            e = [jnp.asarray(np.concatenate([[0.0], np.cumsum(w)]) * D) for w in case["widths"]]
            grid = fdtdx.RectilinearGrid(x_edges=e[0], y_edges=e[1], z_edges=e[2])
        cfg = fdtdx.SimulationConfig(time=20e-15, grid=grid, dtype=jnp.float64)
        out = []
        for rid, o in zip(ids, case["objs"]):
            ob = _build(o, "o", fam)
            placed = ob.place_on_grid(tuple((int(a), int(b)) for a, b in o["slice"]), cfg, jax.random.PRNGKey(0))
            out.append(_record(rid, fam, o, placed))
        return out
    if fam == "U":
        grid = fdtdx.UniformGrid(spacing=D)
        shape = tuple(case["n"])
    else:
        e = [np.concatenate([[0.0], np.cumsum(w)]) * D for w in case["widths"]]
        grid = fdtdx.RectilinearGrid(x_edges=jnp.asarray(e[0]), y_edges=jnp.asarray(e[1]), z_edges=jnp.asarray(e[2]))
        shape = tuple(len(w) for w in case["widths"])
    cfg = fdtdx.SimulationConfig(time=20e-15, grid=grid, dtype=jnp.float64)
    vol = fdtdx.SimulationVolume(name="vol", partial_grid_shape=shape, material=fdtdx.Material(permittivity=1.0))
    objs, cons = [vol], []
    for k, o in enumerate(case["objs"]):
        ob = _build(o, f"o{k}", fam)
        objs.append(ob)
        if fam == "U":
            cons.append(ob.set_grid_coordinates(axes=(0, 1, 2), sides=("-", "-", "-"), coordinates=tuple(o["at"])))
        else:
            marg = tuple(float(e[a][o["at"][a]]) for a in range(3))
            cons.append(ob.place_relative_to(vol, axes=(0, 1, 2), own_positions=(-1, -1, -1), other_positions=(-1, -1, -1), margins=marg))
    try:
        oc, _, _, _, _ = fdtdx.place_objects(objs, cfg, cons)
    except Exception as ex:  # noqa: BLE001 - whether a box can be placed is not C43's business: the scene yields no record
        return [{"id": rid, "skipped": f"{type(ex).__name__}: {ex}"[:300]} for rid in ids]
    by = {o.name: o for o in oc.objects}
    return [_record(rid, fam, o, by[f"o{k}"]) if f"o{k}" in by else {"id": rid, "skipped": "object absent after placement"}
            for k, (rid, o) in enumerate(zip(ids, case["objs"]))]


def observe(case):
    """Replay entry: {"scene": <scene>, "obj": k} -> the record of object k."""
    return observe_scene(case["scene"])[case["obj"]]


def classify(record, verdict):
    return "malformed" if verdict.startswith("malformed:") else "violation"


def run(ctx):
    from lib.worker import pmap

    model_check(ctx)
    scenes = list(gen_cases(ctx))
    recs, inputs, skipped = [], {}, []
    for sc, rs in zip(scenes, pmap(__name__, "observe_scene", scenes, procs=PARALLEL, mode="thread")):
        for k, r in enumerate(rs):
            if "skipped" in r:
                skipped.append(r)
                continue
            recs.append(r)
            inputs[r["id"]] = {"scene": sc, "obj": k}
    ctx.extra_cov["objects_without_record_because_placement_failed"] = [f"{r['id']}: {r['skipped']}" for r in skipped][:10]
    if len(skipped) > len(recs) // 4:
        from lib.tlc import MachineryError
        raise MachineryError(f"{len(skipped)} objects could not be placed, first: {skipped[0]}")
    for r in recs[:1] + [r for r in recs if r["n_on_surface"]][:1]:
        ctx.sample({k: v for k, v in r.items() if k != "mask"})
    ctx.nontrivial = sum(1 for r in recs if 0 < r["n_marked"] < r["n_cells"])
    fams = sorted({r["fam"] for r in recs})
    ctx.extra_cov["records_by_family_and_kind"] = {f: {k: sum(1 for r in recs if r["fam"] == f and r["kind"] == k) for k in ("ell", "cyl", "poly")} for f in fams}
    ctx.extra_cov["masks_neither_empty_nor_full"] = ctx.nontrivial
    ctx.extra_cov["sphere_records_by_given_per_axis_radii_xyz"] = {"".join("xyz"[a] if r["given"][a] else "-" for a in range(3)): sum(
        1 for r2 in recs if r2["kind"] == "ell" and [bool(g) for g in r2["given"]] == [bool(g) for g in r["given"]]) for r in recs if r["kind"] == "ell"}
    ctx.extra_cov["cells_judged"] = sum(r["n_cells"] for r in recs)
    ctx.extra_cov["centres_exactly_on_an_ellipsoid_or_cylinder_surface"] = sum(r["n_on_surface"] for r in recs)
    ctx.extra_cov["of_which_marked_by_fdtdx"] = sum(r["n_on_surface_marked"] for r in recs)
    ctx.validate(*TRACE, recs, inputs, classify=classify, chunk=CHUNK)
