"""C35 - Dispersion coefficients encode the declared pole model (fdtdx/dispersion.py, fdtdx/materials.py).
Spec: spec/Disp.tla (+DispDefs), trace spec: spec/Trace_Disp.tla.  DESIGN.md §5 C35.

Conformance: LorentzPole / DrudePole / CCPRPole(.from_critical_point) objects are built from RATIONAL parameters (in
units of the time step), discretised by the real compute_pole_coefficients{,_per_axis,_tensor} /
materials.compute_allowed_dispersive_coefficients, and evaluated by the real susceptibility_from_coefficients at
rational omega*dt.  Every observed float is sent as round(v*1e12) in three limbs; TLC evaluates the declared pole
formula, the Jury inequalities and the documented coefficient map in exact rationals (DispDefs) and compares
cross-multiplied.  Python-side rational arithmetic below is used ONLY to pick inputs / saturate observations so that
TLC's 32-bit integers cannot overflow - never for a verdict.  Clause (d) (second-order approach) is trace-monitor."""
import math
import os
import random
from fractions import Fraction as F

ID = "C35"
TRACE = ("Trace_Disp", "Trace_Disp.cfg")
CHUNK = 60
PARALLEL = 4
SCALE = 10**12
TOL, REL, JTOL = 4, 1000, 4          # units of 1e-12 (absolute) / 1e-12 per unit of numerator (=1e-9 relative)
ASYM_SCALE, ASYM_THR, ASYM_FLOOR = 10**10, 5 * 10**8, 2000


def model_check(ctx):
    if os.environ.get("VERIF_SKIP_MC") == "1":   # development only (mutation self-tests of the conformance part)
        ctx.notes.append("model checking of Disp.tla skipped (VERIF_SKIP_MC=1)")
        return
    ctx.mc("Disp", "MC_Disp_q.cfg" if ctx.quick else "MC_Disp_t.cfg", workers=4,
           label="every Lorentz / Drude / critical-point pole of the rational grid (+ Lorentz+Drude pairs), padded to 3 slots, every test frequency")
    ctx.mc_negative("Disp", "MC_Disp_neg.cfg", workers=2)    # c2 with the wrong sign
    ctx.mc_negative("Disp", "MC_Disp_neg2.cfg", workers=2)   # gamma*dt/2 -> gamma*dt in D
    ctx.mc_negative("Disp", "MC_Disp_neg4.cfg", workers=2)   # acceptance guard: axis_active with `and` instead of `or`
    if not ctx.quick:
        ctx.mc_negative("Disp", "MC_Disp_neg3.cfg", workers=2)  # c3 = (a + b)/D
    ctx.assumptions += [
        "pole parameters are rationals in units of dt (dt a power of two, so the scaling is exact); non-dyadic parameters reach the code rounded to float64",
        "observed floats are compared as round(v*1e12): absolute 4e-12 on coefficients, 1e-9 relative on the cross-multiplied susceptibility identity",
        "test frequencies avoid exact zeros of a pole's denominator (undamped resonance, omega = 0 for Drude)",
        "clause (d) (relative error O((omega*dt)^2)) is trace-monitored at omega*dt = 2^-2..2^-8 with the pole and omega fixed and dt halved",
    ]


# ------------------------------------------------------------------ python mirror (input selection / saturation only)
def _unified(ptype, v):
    if ptype == "lorentz":
        w, g, de = v
        return w * w, g, de * w * w, F(0)
    if ptype == "drude":
        wp, g = v
        return F(0), g, wp * wp, F(0)
    if ptype == "cp":
        A, om, ga, cs, sn = v
        qr, qi, rr, ri = -ga, -om, -A * om * sn, A * om * cs
    else:
        qr, qi, rr, ri = v
    return qr * qr + qi * qi, -2 * qr, -2 * (rr * qr + ri * qi), 2 * rr


def _coef(u):
    w2, g, a, b = u
    D = 1 + g / 2
    return (2 - w2) / D, -(1 - g / 2) / D, (a - b) / D, b / D


def _cmul(p, q):
    return (p[0] * q[0] - p[1] * q[1], p[0] * q[1] + p[1] * q[0])


def _num_den(ptype, v, x):
    if ptype == "lorentz":
        w, g, de = v
        return (de * w * w, F(0)), (w * w - x * x, -g * x)
    if ptype == "drude":
        wp, g = v
        return (-wp * wp, F(0)), (x * x, g * x)
    if ptype == "cp":
        A, om, ga, cs, sn = v
        e, d1, d2 = (cs, sn), (om - x, -ga), (om + x, ga)
        s = _cmul(e, d2)
        t = _cmul((cs, -sn), d1)
        return (A * om * (s[0] + t[0]), A * om * (s[1] + t[1])), _cmul(d1, d2)
    qr, qi, rr, ri = v
    d1, d2 = (-qr, -x - qi), (-qr, -x + qi)
    s, t = _cmul((rr, ri), d2), _cmul((rr, -ri), d1)
    return (s[0] + t[0], s[1] + t[1]), _cmul(d1, d2)


def _ints(num, den):
    m = 1
    for q in (*num, *den):
        m = m * q.denominator // math.gcd(m, q.denominator)
    return [int(q * m) for q in num], [int(q * m) for q in den]


def _fac(p, i, j):
    if p["form"] == "oriented":
        return F(*p["u"][i]) * F(*p["u"][j])
    return F(1) if i == j else F(0)


def _entry_budget(p, i, j, x):
    """(l2 cap, |chi| expected) for entry (i,j) at x, or None if the entry cannot be sent safely"""
    v = [F(*q) for q in p["ax"][i]]
    num, den = _num_den(p["ptype"], v, x)
    f = _fac(p, i, j)
    if den[0] == 0 and den[1] == 0:
        return None
    if f == 0 or (num[0] == 0 and num[1] == 0):
        return 19_000_000, 0.0
    N, Dn = _ints((num[0] * f, num[1] * f), den)
    sN, sD = abs(N[0]) + abs(N[1]), abs(Dn[0]) + abs(Dn[1])
    if max(abs(N[0]), abs(N[1])) * 10**4 > 4 * 10**8 or REL * sN + 2 * sD > 9 * 10**8 or sD > 10**5:
        return None
    cap = min(19_000_000, (15 * 10**8 - max(abs(N[0]), abs(N[1])) * 10**4) // max(1, sD))
    mag = math.hypot(float(num[0] * f), float(num[1] * f)) / math.hypot(float(den[0]), float(den[1]))
    if (2 * mag + 1) * 10**4 > cap:
        return None
    return cap, mag


def _coef_budget(r):
    """l2 cap for NearRat against the rational r, or None"""
    n, d = r.numerator, r.denominator
    if abs(n) * 10**4 > 4 * 10**8 or d > 10**5 or TOL * d > 9 * 10**8:
        return None
    cap = min(19_000_000, (15 * 10**8 - abs(n) * 10**4) // d)
    return cap if (2 * abs(float(r)) + 2) * 10**4 <= cap else None


def _rc(ncc, e):
    return (e // 3, e % 3) if ncc == 9 else (e, e)


def _case_ok(case):
    """every number of the record stays inside TLC's integer range (exact rational check of the declared side)"""
    ncr, ncc = _shape(case)
    for p in case["poles"]:
        for i in range(3):
            v = [F(*q) for q in p["ax"][i]]
            u = _unified(p["ptype"], v)
            if 1 + u[1] / 2 == 0:
                return False
            co = _coef(u)
            if any(_coef_budget(c) is None for c in co[:2]):
                return False
        for e in range(ncc):
            i, j = _rc(ncc, e)
            co = _coef(_unified(p["ptype"], [F(*q) for q in p["ax"][i]]))
            if any(_coef_budget(c * _fac(p, i, j)) is None for c in co[2:]):
                return False
            for x in case["xs"]:
                if _entry_budget(p, i, j, F(*x)) is None:
                    return False
    return True


def _shape(case):
    api = case["api"]
    if api == "scalar":
        return 1, 1
    if api == "per_axis":
        return 3, 3
    if api == "tensor":
        return 3, 9
    return case["ncr"], case["ncc"]


# ------------------------------------------------------------------ cases
QW, QG, QDE, QWP = [(1, 4), (1, 1), (7, 4)], [(0, 1), (1, 4), (3, 1)], [(0, 1), (2, 1), (5, 4)], [(1, 2), (3, 1)]
QA, QOM, QGA = [(1, 2)], [(1, 2), (3, 2)], [(0, 1), (1, 4), (1, 1)]
QPH = [((1, 1), (0, 1)), ((3, 5), (4, 5)), ((0, 1), (-1, 1))]
QX = [(1, 4), (1, 1), (5, 2)]
TW = [(1, 8), (1, 4), (1, 2), (1, 1), (3, 2), (7, 4), (15, 8)]
TG = [(0, 1), (1, 100), (1, 4), (1, 1), (2, 1), (3, 1), (8, 1)]
TDE = [(0, 1), (1, 2), (2, 1), (5, 4), (-1, 2), (10, 1)]
TWP = [(1, 8), (1, 2), (1, 1), (3, 1), (5, 1)]
TA, TOM, TGA = [(1, 2), (2, 1)], [(1, 4), (1, 2), (1, 1), (3, 2)], [(0, 1), (1, 4), (1, 2), (1, 1)]
TPH = QPH + [((4, 5), (-3, 5)), ((-5, 13), (12, 13))]
TX = [(1, 8), (1, 4), (1, 1), (3, 2), (5, 2), (3, 1)]
UNITS = [((3, 5), (4, 5), (0, 1)), ((1, 3), (2, 3), (2, 3)), ((2, 7), (3, 7), (-6, 7)), ((0, 1), (0, 1), (1, 1)), ((-4, 5), (0, 1), (3, 5)), ((2, 3), (-1, 3), (2, 3))]
U0 = [[0, 1], [0, 1], [0, 1]]


def _pole(ptype, v, form="iso", u=None, axes=None):
    ax = [[list(q) for q in a] for a in axes] if axes else [[list(q) for q in v]] * 3
    return {"ptype": ptype, "form": form, "ax": ax, "u": [list(q) for q in u] if u else U0}


def _grid_poles(quick):
    W, G, DE, WP = (QW, QG, QDE, QWP) if quick else (TW, TG, TDE, TWP)
    A, OM, GA, PH = (QA, QOM, QGA, QPH) if quick else (TA, TOM, TGA, TPH)
    out = [_pole("lorentz", (w, g, de)) for w in W for g in G for de in DE]
    out += [_pole("drude", (wp, g)) for wp in WP for g in G]
    for a in A:
        for om in OM:
            for ga in GA:
                if F(*om) ** 2 + F(*ga) ** 2 < 4:
                    out += [_pole("cp", (a, om, ga, ph[0], ph[1])) for ph in PH]
    return out


def _rand_rat(rng, lo, hi, dens=(1, 2, 3, 4, 5, 8, 10)):
    d = rng.choice(dens)
    return (rng.randint(math.ceil(lo * d), math.floor(hi * d)), d)


def _rand_scalar(rng, ptype):
    if ptype == "lorentz":
        return (_rand_rat(rng, 0.1, 1.9), _rand_rat(rng, 0, 3), _rand_rat(rng, -1, 6))
    if ptype == "drude":
        return (_rand_rat(rng, 0.1, 4), _rand_rat(rng, 0, 3))
    if ptype == "cp":
        while True:
            om, ga = _rand_rat(rng, 0.1, 1.8, (1, 2, 4, 5)), _rand_rat(rng, 0, 1.2, (1, 2, 4, 5))
            if F(*om) ** 2 + F(*ga) ** 2 < 4:
                ph = rng.choice(TPH)
                return (_rand_rat(rng, 0.2, 3, (1, 2, 4)), om, ga, ph[0], ph[1])
    while True:  # ccpr: Re q <= 0 (damping >= 0), |q| < 2
        qr, qi = _rand_rat(rng, -1.2, 0, (1, 2, 4, 5)), _rand_rat(rng, -1.8, 1.8, (1, 2, 4, 5))
        if 0 < F(*qr) ** 2 + F(*qi) ** 2 < 4:
            return (qr, qi, _rand_rat(rng, -2, 2, (1, 2, 4)), _rand_rat(rng, -2, 2, (1, 2, 4)))


def _rand_pole(rng, form):
    if form == "oriented":
        ptype = rng.choice(["lorentz", "lorentz", "drude", "cp"])
        v = _rand_scalar(rng, ptype)
        if ptype == "lorentz" and F(*v[2]) < 0:
            v = (v[0], v[1], (-v[2][0], v[2][1]))           # oriented poles require K >= 0
        if ptype == "cp":
            v = (v[0], v[1], v[2], (1, 1), (0, 1))          # no dE/dt coupling for oriented poles
        return _pole(ptype, v, "oriented", rng.choice(UNITS))
    ptype = rng.choice(["lorentz", "drude", "ccpr", "cp"] if form == "iso" else ["lorentz", "drude", "ccpr"])
    if form == "iso":
        return _pole(ptype, _rand_scalar(rng, ptype))
    axes = [_rand_scalar(rng, ptype) for _ in range(3)]
    if ptype == "lorentz" and rng.random() < 0.4:   # the documented way to switch an axis off; its w0 may then be anything
        k = rng.randrange(3)
        axes[k] = (rng.choice([axes[k][0], (5, 2), (3, 1)]), axes[k][1], (0, 1))
    if ptype == "drude" and rng.random() < 0.4:
        k = rng.randrange(3)
        axes[k] = ((0, 1), axes[k][1])
    return _pole(ptype, None, "axes", axes=axes)


def gen_cases(ctx):
    rng = random.Random(ctx.seed)
    quick = ctx.quick
    xs_all = QX if quick else TX
    n = 0
    skipped = 0
    apis = ["scalar", "per_axis", "tensor", "material"]
    # (1) the grid TLC enumerated, isotropic, cycling through the four code paths
    for k, p in enumerate(_grid_poles(quick)):
        api = apis[k % 4]
        xs = [x for x in xs_all if _entry_budget(p, 0, 0, F(*x)) is not None]
        case = {"id": f"g{k}-{p['ptype']}-{api}", "kind": "mat", "api": api, "dt_exp": (-50, 0, -47)[k % 3], "poles": [p], "extra": k % 3,
                "xs": [list(x) for x in xs], "c4none": p["ptype"] in ("lorentz", "drude") and k % 2 == 0, "ncr": 1, "ncc": 1}
        if _case_ok(case):
            n += 1
            yield case
        else:
            skipped += 1
    # (2) seeded random materials: 1-3 poles, isotropic / per-axis / oriented, all code paths
    nrand = 220 if quick else 4000
    made = 0
    while made < nrand:
        kind = rng.choice(["iso", "axes", "axes", "oriented", "oriented", "mixed"])
        npoles = rng.choice([1, 1, 2, 3])
        if kind == "mixed":
            poles = [_rand_pole(rng, rng.choice(["iso", "axes", "oriented"])) for _ in range(npoles)]
        else:
            poles = [_rand_pole(rng, kind) for _ in range(npoles)]
        has_or = any(p["form"] == "oriented" for p in poles)
        has_ax = any(p["form"] == "axes" for p in poles)
        if has_or:
            api, ncr, ncc = rng.choice(["tensor", "material"]), 3, 9
        elif has_ax:
            api = rng.choice(["per_axis", "tensor", "material", "material"])
            ncr, ncc = 3, rng.choice([3, 9])
        else:
            api = rng.choice(apis)
            ncr, ncc = rng.choice([(1, 1), (3, 3), (3, 9), (1, 3)])
        xs = sorted({_rand_rat(rng, 0.05, 3.1, (1, 2, 4, 8)) for _ in range(2)})
        lor_dr = all(p["ptype"] in ("lorentz", "drude") for p in poles)
        case = {"id": f"r{made}-{kind}-{api}", "kind": "mat", "api": api, "dt_exp": rng.choice([-50, 0, -47, 3]), "poles": poles,
                "extra": rng.choice([0, 1, 2]), "xs": [list(x) for x in xs], "c4none": lor_dr and rng.random() < 0.3, "ncr": ncr, "ncc": ncc}
        if _case_ok(case):
            made += 1
            yield case
    # (3) materials without any pole (all slots padded)
    for k in range(3):
        yield {"id": f"empty{k}", "kind": "mat", "api": "material", "dt_exp": -50, "poles": [], "extra": k + 1, "xs": [[1, 4], [3, 2]],
               "c4none": False, "ncr": (1, 3, 3)[k], "ncc": (1, 3, 9)[k]}
    # (4) trace-monitor: second-order approach (pole and omega fixed, dt halved)
    rat = [(1, 2), (2, 1), (3, 1), (3, 2), (5, 1), (1, 4), (7, 1)]            # omega_0 / omega (Lorentz), omega_p / omega (Drude)
    gam = [(0, 1), (1, 4), (1, 1), (2, 1), (4, 1)]                            # gamma / omega
    m = 0
    for pt in ("lorentz", "drude"):
        for r in rat:
            for g in gam:
                if pt == "drude" and g == (0, 1) and r != (2, 1):
                    continue
                if not quick or rng.random() < 0.5:
                    m += 1
                    yield {"id": f"asym{m}-{pt}", "kind": "asym", "ptype": pt, "ratio": list(r), "gam": list(g), "de": rng.choice([1, 2, 5]), "api": apis[m % 3]}
    ctx.exhaustive = False
    ctx.extra_cov["grid_cases_skipped_for_integer_range"] = skipped


# ------------------------------------------------------------------ observation of the real code
def _l3(v, cap=19_000_000):
    if not math.isfinite(v):
        return [0, 0, 0], False
    n = round(F(v) * SCALE)
    s = -1 if n < 0 else 1
    m = abs(n)
    l2 = m // 10**8
    if l2 > cap:
        return [s * cap, 0, 0], True
    return [s * l2, s * ((m // 10**4) % 10**4), s * (m % 10**4)], True


def _fl(q):
    return q[0] / q[1]


def _build_pole(p, dt):
    from fdtdx.dispersion import CCPRPole, DrudePole, LorentzPole

    pt, form = p["ptype"], p["form"]
    ori = tuple(_fl(q) for q in p["u"]) if form == "oriented" else None

    def par(k, scale):
        vals = tuple(_fl(p["ax"][i][k]) * scale for i in range(3))
        return vals if form == "axes" else vals[0]

    if pt == "lorentz":
        return LorentzPole(resonance_frequency=par(0, 1 / dt), damping=par(1, 1 / dt), delta_epsilon=par(2, 1.0), orientation=ori)
    if pt == "drude":
        return DrudePole(plasma_frequency=par(0, 1 / dt), damping=par(1, 1 / dt), orientation=ori)
    if pt == "cp":
        v = p["ax"][0]
        cp = CCPRPole.from_critical_point(amplitude=_fl(v[0]), phase=math.atan2(_fl(v[4]), _fl(v[3])), resonance_frequency=_fl(v[1]) / dt, damping=_fl(v[2]) / dt)
        return cp if ori is None else CCPRPole(pole=cp.pole, residue=cp.residue, orientation=ori)
    q = tuple(complex(_fl(p["ax"][i][0]), _fl(p["ax"][i][1])) / dt for i in range(3))
    r = tuple(complex(_fl(p["ax"][i][2]), _fl(p["ax"][i][3])) / dt for i in range(3))
    return CCPRPole(pole=q if form == "axes" else q[0], residue=r if form == "axes" else r[0], orientation=ori)


def _coeff_arrays(case, poles, dt):
    """the real code's arrays as (P, ncr) / (P, ncc) float arrays"""
    import numpy as np

    from fdtdx import dispersion as dsp

    api = case["api"]
    ncr, ncc = _shape(case)
    if api == "scalar":
        c = dsp.compute_pole_coefficients(tuple(poles), dt)
        c = [np.asarray(a).reshape(len(poles), 1) for a in c]
    elif api == "per_axis":
        c = [np.asarray(a) for a in dsp.compute_pole_coefficients_per_axis(tuple(poles), dt)]
    elif api == "tensor":
        c = [np.asarray(a) for a in dsp.compute_pole_coefficients_tensor(tuple(poles), dt)]
    else:
        from fdtdx.materials import Material, compute_allowed_dispersive_coefficients, compute_ordered_names

        other = (dsp.LorentzPole(resonance_frequency=0.5 / dt, damping=0.125 / dt, delta_epsilon=1.5),) * (len(poles) + case["extra"])
        mats = {"m": Material(permittivity=2.25, dispersion=dsp.DispersionModel(poles=tuple(poles)) if poles else None),
                "o": Material(permittivity=4.0, dispersion=dsp.DispersionModel(poles=other) if other else None),
                "v": Material(permittivity=1.0)}
        P = max(len(other), 1)
        c = compute_allowed_dispersive_coefficients(mats, dt, P, ncr, ncc)
        idx = compute_ordered_names(mats).index("m")
        return [np.asarray(a)[idx] for a in c], P
    n = len(poles)
    P = n + case["extra"]
    out = []
    for a in c:  # hand-padded slots for the plain coefficient functions (they do not pad themselves)
        z = np.zeros((P, a.shape[1]), dtype=np.float64)
        z[:n] = a
        out.append(z)
    return out, P


_JIT = {}


def _sfc(with_c4):
    """jitted real susceptibility_from_coefficients (omega, dt traced; one compilation per array shape)"""
    if with_c4 not in _JIT:
        import jax

        from fdtdx.dispersion import susceptibility_from_coefficients as sfc

        if with_c4:
            _JIT[with_c4] = jax.jit(lambda c1, c2, c3, c4, om, dt: sfc(c1, c2, c3, om, dt, c4))
        else:
            _JIT[with_c4] = jax.jit(lambda c1, c2, c3, c4, om, dt: sfc(c1, c2, c3, om, dt, None))
    return _JIT[with_c4]


def _observe_mat(case):
    import numpy as np

    dt = math.ldexp(1.0, case["dt_exp"])
    poles = [_build_pole(p, dt) for p in case["poles"]]
    (c1, c2, c3, c4), P = _coeff_arrays(case, poles, dt)
    ncr, ncc = c1.shape[1], c3.shape[1]
    n = len(poles)
    scalar_api = case["api"] == "scalar"
    finite = True
    f = _sfc(not case["c4none"])

    def chi_total(hi, x):
        """chi of slots 0..hi-1 together -> (ncc,)"""
        a = [k[:hi, 0] for k in (c1, c2, c3, c4)] if scalar_api else [k[:hi] for k in (c1, c2, c3, c4)]
        return np.asarray(f(*a, _fl(x) / dt, dt)).reshape(-1)

    def chi_slots(x):
        """chi of every slot on its own: the slot index is moved to a trailing ('spatial') axis -> (P, ncc)"""
        if scalar_api:
            a = [k[:, 0][None, :] for k in (c1, c2, c3, c4)]                # (1 pole, P)
            return np.asarray(f(*a, _fl(x) / dt, dt)).reshape(P, 1)
        a = [np.ascontiguousarray(k.T)[None] for k in (c1, c2, c3, c4)]     # (1 pole, nc, P)
        return np.asarray(f(*a, _fl(x) / dt, dt)).T

    per_x = [chi_slots(x) for x in case["xs"]]
    slots = []
    for s in range(P):
        p = case["poles"][s] if s < n else None
        ent = {"zero": bool(all(np.all(a[s] == 0.0) for a in (c1, c2, c3, c4)))}
        for name, arr, nc in (("c1", c1, ncr), ("c2", c2, ncr), ("c3", c3, ncc), ("c4", c4, ncc)):
            row = []
            for e in range(nc):
                cap = 19_000_000
                if p is not None:
                    i, j = (e, e) if name in ("c1", "c2") else _rc(ncc, e)
                    co = _coef(_unified(p["ptype"], [F(*q) for q in p["ax"][i]]))
                    r = {"c1": co[0], "c2": co[1], "c3": co[2] * _fac(p, i, j), "c4": co[3] * _fac(p, i, j)}[name]
                    cap = _coef_budget(r) or 0
                lim, ok = _l3(float(arr[s, e]), cap)
                finite &= ok
                row.append(lim)
            ent[name] = row
        chis, allzero = [], True
        for t, x in enumerate(case["xs"]):
            val = per_x[t][s]
            allzero &= bool(np.all(val == 0))
            row = []
            for e in range(ncc):
                cap = 19_000_000
                if p is not None:
                    b = _entry_budget(p, *_rc(ncc, e), F(*x))
                    cap = b[0] if b else 0
                lr, ok1 = _l3(float(val[e].real), cap)
                li, ok2 = _l3(float(val[e].imag), cap)
                finite &= ok1 and ok2
                row.append([lr, li])
            chis.append(row)
        ent["chi"] = chis
        ent["chi_zero"] = allzero
        slots.append(ent)
    tot, same = [], True
    for x in case["xs"]:
        full = chi_total(P, x)
        part = chi_total(n, x) if 0 < n < P else (full if n == P else np.zeros(ncc, dtype=complex))
        same &= bool(np.array_equal(full, part))
        row = []
        for e in range(ncc):
            lr, ok1 = _l3(float(full[e].real))
            li, ok2 = _l3(float(full[e].imag))
            finite &= ok1 and ok2
            row.append([lr, li])
        tot.append(row)
    return {"id": case["id"], "kind": "mat", "api": case["api"], "ncr": ncr, "ncc": ncc, "nslots": P, "poles": case["poles"], "xs": case["xs"],
            "slots": slots, "tot": tot, "pad_same": same, "finite": bool(finite), "tol": TOL, "rel": REL, "jtol": JTOL,
            "npoles": n, "forms": "+".join(p["form"] for p in case["poles"]) or "none"}


def _observe_asym(case):
    import numpy as np

    from fdtdx import dispersion as dsp

    omega = 2.0**40
    r, g = _fl(case["ratio"]), _fl(case["gam"])
    if case["ptype"] == "lorentz":
        pole = dsp.LorentzPole(resonance_frequency=r * omega, damping=g * omega, delta_epsilon=float(case["de"]))
    else:
        pole = dsp.DrudePole(plasma_frequency=r * omega, damping=g * omega)
    model = dsp.DispersionModel(poles=(pole,))
    chi_m = complex(model.susceptibility(omega))
    errs = []
    for k in range(2, 9):
        dt = 2.0**-k / omega
        if case["api"] == "scalar":
            c = dsp.compute_pole_coefficients((pole,), dt)
            c1, c2, c3, c4 = (float(a[0]) for a in c)
        elif case["api"] == "per_axis":
            c = dsp.compute_pole_coefficients_per_axis((pole,), dt)
            c1, c2, c3, c4 = (float(a[0, 1]) for a in c)
        else:
            c = dsp.compute_pole_coefficients_tensor((pole,), dt)
            c1, c2, c3, c4 = float(c[0][0, 2]), float(c[1][0, 2]), float(c[2][0, 8]), float(c[3][0, 8])
        # the recurrence's own response: p^{n+1} = c1 p^n + c2 p^{n-1} + c3 E^n + c4 E^{n+1} driven by E^n = exp(-i omega n dt)
        z = np.exp(-1j * omega * dt)
        chi_d = (c3 + c4 * z) / (z - c1 - c2 / z)
        e = abs(chi_d - chi_m) / abs(chi_m)
        errs.append(int(min(2 * 10**9, round(e * ASYM_SCALE))) if math.isfinite(e) else 2 * 10**9)
    return {"id": case["id"], "kind": "asym", "ptype": case["ptype"], "errs": errs, "scale": ASYM_SCALE, "thr": ASYM_THR, "floor": ASYM_FLOOR,
            "ratio": case["ratio"], "gam": case["gam"]}


def observe(case):
    return _observe_mat(case) if case["kind"] == "mat" else _observe_asym(case)


def classify(rec, verdict):
    if verdict.startswith("malformed"):
        return "malformed"
    return "drift" if verdict.startswith("model:") else "violation"
