"""C37 - Grid geometry helpers are exact.
Spec: spec/Grid.tla (+GridDefs), trace spec: spec/Trace_Grid.tla.  DESIGN.md §5 C37.

Every grid is given by integer edges in QUARTER units of a dyadic real unit (unit = 2**unitexp metres), so all
float64 results of the real helpers are exact and are sent back to TLC as integers (rounding deviation `dev`
must be 0).  Query coordinates lie on the quarter grid from 1.5 units below the first edge to 1.5 units above
the last one."""
import itertools
import random

ID = "C37"
TRACE = ("Trace_Grid", "Trace_Grid.cfg")
CHUNK = 40
PARALLEL = 1     # the helpers are microsecond numpy calls: threads only add GIL contention (measured 16 s vs 48 s)
PAD = 6  # quarter units
RAISED = -99
WS = (1, 2, 3)


def model_check(ctx):
    ctx.mc("Grid", "MC_Grid_q.cfg" if ctx.quick else "MC_Grid_t.cfg",
           label="all grids: line n<=4 cells widths {1,2,3} x all quarter-grid coordinates/sizes/anchor positions; boxes n<=2 per axis x all slices/symmetries")
    ctx.mc_negative("Grid", "MC_Grid_neg.cfg")    # 'previous edge' computed with a strict comparison
    ctx.mc_negative("Grid", "MC_Grid_neg2.cfg")   # time step from the first x spacing on a non-uniform grid
    ctx.assumptions += [
        "edges are integers in quarter units of a dyadic unit (2^0, 2^-23 .. 2^-30 m): float64 arithmetic of the helpers is exact, results compared without tolerance",
        "CFL: (c*dt/cf)^2 is computed by the harness in float64 from the returned dt and compared by TLC with the exact rational bound, tolerance 1e-12 relative",
        "'lower'/'upper' snapping is only claimed where a previous/next edge exists; uniform detection only for exactly uniform grids, float grids built by the uniform constructor, and width variation >= 1e-3 (the documented threshold is 1e-4)",
        "interval choice ties: any minimiser is accepted (first-minimum differences are reported as drift)",
    ]


# ----------------------------------------------------------------------------------------------------------
def _wseqs(nmax, ws=WS):
    for n in range(1, nmax + 1):
        yield from itertools.product(ws, repeat=n)


def _edges_q(o, w):
    e = [o]
    for x in w:
        e.append(e[-1] + 4 * x)
    return e


def gen_cases(ctx):
    cases = list(_gen_cases(ctx))
    random.Random(ctx.seed + 1).shuffle(cases)  # balances the TLC validation chunks (line records are the heavy ones)
    return cases


def _gen_cases(ctx):
    rng = random.Random(ctx.seed)
    n = 0
    # (1) line grids: every width sequence with <= 4 cells; long axis position, origin and unit vary
    for w in _wseqs(4):
        variants = [(0, 0)]
        if not ctx.quick or rng.random() < 0.34:
            variants.append((rng.choice([-6, -10, 8, -2 * sum(w)]), rng.choice([-26, -20, -23])))
        for o, ue in variants:
            p = (sum(w) + len(w) + n) % 3
            n += 1
            e = [[0, 4], [0, 4], [0, 4]]
            e[p] = _edges_q(o, w)
            yield {"id": f"line-{''.join(map(str, w))}-o{o}-u{ue}-p{p}", "kind": "line", "unitexp": ue, "e": e, "la": p}
    # (2) box grids: all triples with <= 2 cells per axis
    wsb = (1, 2) if ctx.quick else (1, 2, 3)
    seqs = list(_wseqs(2, wsb))
    for wx, wy, wz in itertools.product(seqs, repeat=3):
        ue = 0 if rng.random() < 0.8 else rng.choice([-26, -20])
        yield {"id": f"box-{''.join(map(str, wx))}-{''.join(map(str, wy))}-{''.join(map(str, wz))}-u{ue}", "kind": "box", "unitexp": ue,
               "e": [_edges_q(0, wx), _edges_q(-2 * sum(wy), wy), _edges_q(-8, wz)], "cf": rng.choice([1.0, 0.5, 0.99])}
    # (3) symmetric-reduction on 4-cell axes (even, symmetric and asymmetric) combined with other axes
    for w in itertools.product(WS, repeat=4):
        if ctx.quick and rng.random() < 0.5 and not (w[0] == w[3] and w[1] == w[2]):
            continue
        p = sum(w) % 3
        e = [_edges_q(0, (2, 2)), _edges_q(-4, (1, 3)), _edges_q(0, (1,))]
        e[p] = _edges_q(-2 * sum(w), w)
        yield {"id": f"red-{''.join(map(str, w))}-p{p}", "kind": "reduce", "unitexp": 0, "e": e}
    # (4) time step at physical scales: dyadic units from 0.1 um down to 1 nm, uniform and stretched, each grid class
    for ue in (-23, -24, -25, -26, -27, -28, -29, -30):
        for wx, wy, wz in [((1, 1), (1, 1), (1, 1)), ((2, 2), (2,), (2, 2)), ((3,), (3, 3), (3,)), ((1, 2), (2, 2), (3,)), ((2, 3), (1, 1), (2,))]:
            for cf in (1.0, 0.99):
                yield {"id": f"cflphys-u{ue}-{''.join(map(str, wx))}-{''.join(map(str, wy))}-{''.join(map(str, wz))}-cf{cf}", "kind": "cfl", "unitexp": ue,
                       "e": [_edges_q(0, wx), _edges_q(0, wy), _edges_q(0, wz)], "cf": cf}
    # (5) policy grids (UniformGrid / QuasiUniformGrid) through SimulationConfig.time_step_duration
    for ue in (0, -26):
        for d in [(1, 1, 1), (2, 2, 2), (3, 3, 3), (1, 2, 3), (2, 2, 1), (3, 1, 3)]:
            yield {"id": f"policy-u{ue}-{''.join(map(str, d))}", "kind": "policy", "unitexp": ue, "d": list(d), "cf": 0.5,
                   "e": [_edges_q(0, (d[0], d[0])), _edges_q(0, (d[1], d[1])), _edges_q(0, (d[2], d[2]))]}
    # (6) float-valued grids: uniform constructor at arbitrary spacings, and perturbed widths
    nf = 40 if ctx.quick else 400
    for i in range(nf):
        yield {"id": f"float-{i}", "kind": "float", "seed": rng.randrange(1 << 30)}
    ctx.exhaustive = False  # families (4)-(6) and the unit/origin variants are sampled


# ----------------------------------------------------------------------------------------------------------
def _mk(case):
    import numpy as np
    from fdtdx.core.grid import RectilinearGrid

    unit = 2.0 ** case["unitexp"]
    arrs = [np.asarray(e, dtype=np.float64) * (unit / 4.0) for e in case["e"]]
    return RectilinearGrid(x_edges=arrs[0], y_edges=arrs[1], z_edges=arrs[2]), unit, arrs


class _Q:
    """real -> integer in `scale` units, remembering the worst rounding deviation (ppb of one scale unit)"""

    def __init__(self):
        self.dev = 0.0

    def __call__(self, x, scale):
        import numpy as np

        v = np.asarray(x, dtype=np.float64) / scale
        if not np.all(np.isfinite(v)) or np.any(np.abs(v) > 2e9):
            self.dev = 1.0
            return [-777777] * int(np.size(v)) if np.ndim(v) else -777777
        r = np.rint(v)
        if np.size(v):
            self.dev = max(self.dev, float(np.max(np.abs(v - r))))
        return [int(t) for t in r.ravel()] if np.ndim(v) else int(r)

    def ppb(self):
        d = int(min(10**9, round(self.dev * 1e9)))
        self.dev = 0.0
        return d


def _cfl_event(dt, cf, unit, g_edges):
    from fdtdx import constants

    X = (constants.c * dt / cf) ** 2 / unit**2
    X = min(max(X, 0.0), 3.9)  # the bound is at most 3 (uniform width 3): clipping keeps an excess an excess
    t = int(round(X * 1e12))
    return {"op": "cfl", "xh": t // 10**6, "xl": t % 10**6, "g": g_edges}


def observe(case):
    import numpy as np

    kind = case["kind"]
    if kind == "float":
        return _observe_float(case)
    g, unit, arrs = _mk(case)
    q = unit / 4.0
    Q = _Q()
    ev = []
    E = case["e"]
    rec = {"id": case["id"], "kind": kind, "unitexp": case["unitexp"], "e": E, "tolppt": 1, "ev": ev}

    def one_d(a):
        e = E[a]
        n = len(e) - 1
        cs = list(range(e[0] - PAD, e[-1] + PAD + 1))
        for mode in ("nearest", "lower", "upper"):
            ev.append({"op": "snap", "a": a, "mode": mode, "cs": cs, "out": [int(g.coord_to_index(a, c * q, snap=mode)) for c in cs]})
        for size in range(0, n + 2):
            lo, hi = [], []
            for c in cs:
                try:
                    l, u = g.bounds_for_center(a, c * q, size)
                    lo.append(int(l)), hi.append(int(u))
                except ValueError:
                    lo.append(RAISED), hi.append(RAISED)
            ev.append({"op": "centre", "a": a, "size": size, "cs": cs, "lo": lo, "hi": hi})
            for k in range(5):
                lo, hi = [], []
                for c in cs:
                    try:
                        l, u = g.bounds_for_anchor(a, size, c * q, k / 2.0 - 1.0)
                        lo.append(int(l)), hi.append(int(u))
                    except ValueError:
                        lo.append(RAISED), hi.append(RAISED)
                ev.append({"op": "anchor", "a": a, "size": size, "k": k, "cs": cs, "lo": lo, "hi": hi})
        pairs = [(l, u) for l in range(n + 1) for u in range(l, n + 1)]
        for k in range(5):
            out = [Q(g.anchor_coordinate(a, (l, u), k / 2.0 - 1.0), q) for l, u in pairs]
            ev.append({"op": "anchor_coord", "a": a, "k": k, "ls": [p[0] for p in pairs], "us": [p[1] for p in pairs], "out": out, "dev": Q.ppb()})

    def axis_basic(a):
        e = E[a]
        n = len(e) - 1
        pairs = [(l, u) for l in range(n + 1) for u in range(l, n + 1)]
        out = [Q(g.axis_extent(a, (l, u)), q) for l, u in pairs]
        ev.append({"op": "extent", "a": a, "ls": [p[0] for p in pairs], "us": [p[1] for p in pairs], "out": out, "dev": Q.ppb()})
        ev.append({"op": "axis_arrays", "a": a, "widths": Q(np.asarray(g.cell_widths(a)), q), "centres2": Q(np.asarray(g.centers(a)), q / 2.0),
                   "edges": Q(np.asarray(g.edges(a)), q), "dev": Q.ppb()})

    def shape_ev():
        ev.append({"op": "shape", "shape": [int(s) for s in g.shape], "mins": Q(np.asarray(g.min_spacings), q), "minall": Q(g.min_spacing, q), "dev": Q.ppb()})

    def uniform_ev():
        out = bool(g.is_uniform)
        raised, sp = False, -1
        try:
            s = g.uniform_spacing
            if case["unitexp"] == 0:  # at physical scales the code rounds the spacing to 14 decimals: value not claimed
                sp = Q(s, q)
                if Q.ppb() != 0:
                    sp = -2
        except ValueError:
            raised = True
        ev.append({"op": "uniform", "out": out, "spacing": sp, "spacing_raised": raised})

    def cfl_evs(cf):
        from fdtdx.config import SimulationConfig

        ev.append(_cfl_event(g.cfl_time_step(cf), cf, unit, E))
        cfg = SimulationConfig(time=1e-12, grid=g, backend="cpu", courant_factor=cf)
        ev.append(_cfl_event(cfg.time_step_duration, cf, unit, E))

    def reduce_ev(sym):
        try:
            r = g.reduce_symmetric(tuple(sym))
            re = [Q(np.asarray(r.edges(a)), q) for a in range(3)]
            ev.append({"op": "reduce", "sym": list(sym), "raised": False, "e": re, "dev": Q.ppb()})
        except ValueError:
            ev.append({"op": "reduce", "sym": list(sym), "raised": True, "e": [], "dev": 0})

    def slices():
        per = []
        for a in range(3):
            n = len(E[a]) - 1
            per.append([(l, u) for l in range(n + 1) for u in range(l + 1, n + 1)])
        return [list(map(list, s)) for s in itertools.product(*per)]

    def area_vol_evs(limit=None):
        sls = slices()
        if limit is not None and len(sls) > limit:  # line grids: the full box and a few sub-boxes (boxes enumerate all slices)
            full = [[0, len(E[a]) - 1] for a in range(3)]
            sls = [full] + [s_ for s_ in (sls[0], sls[-1], sls[len(sls) // 2]) if s_ != full][: limit - 1]
        for sl in sls:
            st = tuple(tuple(p) for p in sl)
            for a in range(3):
                arr = np.asarray(g.face_area(a, st))
                ev.append({"op": "area", "a": a, "sl": sl, "shape": [int(s) for s in arr.shape], "out": Q(arr, q * q), "dev": Q.ppb()})
            arr = np.asarray(g.cell_volume(st))
            ev.append({"op": "volume", "sl": sl, "shape": [int(s) for s in arr.shape], "out": Q(arr, q * q * q), "dev": Q.ppb()})
            ev.append({"op": "slice_extent", "sl": sl, "out": [Q(x, q) for x in g.slice_extent(st)], "dev": Q.ppb()})

    if kind == "line":
        one_d(case["la"])
        for a in range(3):
            axis_basic(a)
        shape_ev()
        uniform_ev()
        area_vol_evs(limit=3)
    elif kind == "box":
        for a in range(3):
            axis_basic(a)
        shape_ev()
        uniform_ev()
        if case["unitexp"] == 0:  # the time step at physical scales is family (4), kept apart from the other helpers
            cfl_evs(case["cf"])
        area_vol_evs()
        for sym in itertools.product((-1, 0, 1), repeat=3):
            if sum(1 for s in sym if s) <= 1 or sym in ((1, -1, 1), (-1, -1, 0), (1, 1, -1), (0, 1, 1), (-1, 0, 1)):
                reduce_ev(sym)
    elif kind == "reduce":
        for sym in itertools.product((0, 1), repeat=3):
            reduce_ev(sym)
        reduce_ev((-1, -1, -1))
        uniform_ev()
    elif kind == "cfl":
        import numpy as _np

        cfl_evs(case["cf"])
        wx = float(arrs[0][1] - arrs[0][0])
        rec["uniform"] = bool(g.is_uniform)
        rec["round14_up"] = bool(g.is_uniform and float(_np.round(wx, decimals=14)) > wx)
    elif kind == "policy":
        from fdtdx.config import SimulationConfig
        from fdtdx.core.grid import QuasiUniformGrid, UniformGrid

        d, cf = case["d"], case["cf"]
        if d[0] == d[1] == d[2]:
            cfg = SimulationConfig(time=1e-12, grid=UniformGrid(spacing=d[0] * unit), backend="cpu", courant_factor=cf)
            ev.append(_cfl_event(cfg.time_step_duration, cf, unit, E))
            rg = cfg.resolve_grid((2, 2, 2))
            ev.append(_cfl_event(rg.cfl_time_step(cf), cf, unit, E))
        cfg = SimulationConfig(time=1e-12, grid=QuasiUniformGrid(dx=d[0] * unit, dy=d[1] * unit, dz=d[2] * unit), backend="cpu", courant_factor=cf)
        ev.append(_cfl_event(cfg.time_step_duration, cf, unit, E))
        rg = cfg.resolve_grid((2, 2, 2))
        ev.append(_cfl_event(rg.cfl_time_step(cf), cf, unit, E))
    else:
        raise ValueError(kind)
    return rec


def _observe_float(case):
    """Grids with non-dyadic float edges: uniform detection away from the documented 1e-4 threshold, and the CFL bound
    evaluated in float64 from the harness's own edge arrays."""
    import math

    import numpy as np
    from fdtdx import constants
    from fdtdx.core.grid import RectilinearGrid

    rng = random.Random(case["seed"])
    spacing = rng.choice([1.0, 1e-3, 1e-6, 1e-8, 2.5e-8]) * rng.uniform(0.5, 2.0)
    sizes = (1, 2, 7, 16, 40)  # few distinct sizes: every new array shape costs an XLA compilation
    shape = (rng.choice(sizes), rng.choice(sizes), rng.choice(sizes))
    mode = rng.choice(["ctor", "ctor", "perturbed", "stretched"])
    cf = rng.choice([1.0, 0.99, 0.7])
    if mode == "ctor":
        g = RectilinearGrid.uniform(shape=shape, spacing=spacing, center=(rng.uniform(-1, 1) * spacing * 50, 0.0, 0.0))
        arrs = [np.asarray(g.edges(a), dtype=np.float64) for a in range(3)]
    else:
        arrs = []
        for a in range(3):
            amp = rng.choice([2e-3, 1e-2, 0.3]) if mode == "perturbed" else 0.0
            w = np.full(shape[a], spacing) * (1.0 + amp * np.asarray([rng.uniform(0, 1) for _ in range(shape[a])]))
            if mode == "stretched":
                w = w * np.asarray([rng.choice([1.0, 1.5, 2.0, 0.5]) for _ in range(shape[a])])
            arrs.append(np.concatenate([[0.0], np.cumsum(w)]) - rng.uniform(0, 1) * spacing * shape[a])
        g = RectilinearGrid(x_edges=arrs[0], y_edges=arrs[1], z_edges=arrs[2])
    widths = [np.diff(a) for a in arrs]
    w0 = float(widths[0][0])
    relvar = max(float(np.max(np.abs(w - w0))) for w in widths) / w0
    S = sum(1.0 / float(np.min(w)) ** 2 for w in widths)
    dt = g.cfl_time_step(cf)
    excess = constants.c * dt * math.sqrt(S) / cf - 1.0
    ev = [
        {"op": "uniformf", "relvar_ppm": int(min(10**9, round(relvar * 1e6))), "out": bool(g.is_uniform)},
        {"op": "cflf", "excess_ppt": int(max(-(10**9), min(10**9, round(excess * 1e12))))},
    ]
    return {"id": case["id"], "kind": "float", "mode": mode, "tolppt": 1, "uniform": bool(g.is_uniform),
            "round14_up": bool(g.is_uniform and float(np.round(w0, decimals=14)) > w0), "ev": ev}


def classify(record, verdict):
    if verdict.startswith("malformed:"):
        return "malformed"
    if verdict.startswith("drift:"):
        return "drift"
    return "violation"
