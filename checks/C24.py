"""C24 - Binary median filter and pillar discretization match their definitions.
Specs: spec/Median.tla (+MedianDefs), spec/Pillar.tla (+PillarDefs), ParamArrays; trace specs Trace_Median / Trace_Pillar.
DESIGN.md §5 C24.

Every record is ONE real call (BinaryMedianFilterModule.__call__ or PillarDiscretization.init_module + __call__);
TLC evaluates the definitional predicate on the returned array."""
import itertools
import random

ID = "C24"
PARALLEL = 4
CHUNK_MEDIAN = 500
CHUNK_PILLAR = 500

# padding configurations of spec/Median.tla (Cfgs), in PaddingConfig form (values None -> [])
MEDIAN_CFGS = [
    {"widths": [1], "modes": ["edge"], "values": []},
    {"widths": [2], "modes": ["constant"], "values": [1]},
    {"widths": [1], "modes": ["constant"], "values": []},
    {"widths": [2], "modes": ["edge", "edge", "edge", "edge", "constant", "edge"], "values": [1]},
    {"widths": [1], "modes": ["constant"] * 6, "values": [1, 0, 1, 1, 1, 0]},
    {"widths": [1, 2, 1, 1, 2, 1], "modes": ["reflect", "symmetric", "edge", "constant", "symmetric", "reflect"], "values": [0, 0, 0, 1, 0, 0]},
    {"widths": [1], "modes": ["symmetric"], "values": []},
    {"widths": [1], "modes": ["reflect"], "values": []},
    {"widths": [1, 1, 2, 1, 1, 2], "modes": ["constant", "edge", "constant", "constant", "edge", "constant"], "values": [1, 0, 0, 1, 0, 1]},
]
MEDIAN_SHAPES_Q = [(3, 2, 1), (2, 2, 2), (1, 1, 3)]
MEDIAN_SHAPES_T = MEDIAN_SHAPES_Q + [(2, 1, 3), (3, 3, 1), (1, 4, 1), (1, 3, 3), (3, 1, 3), (4, 1, 1), (1, 1, 1)]
MEDIAN_KERNELS_Q = [(3, 3, 1), (3, 3, 3), (1, 1, 3)]
MEDIAN_KERNELS_T = [k for k in itertools.product((1, 3), repeat=3)] + [(5, 1, 1), (1, 5, 3), (3, 1, 5)]


def _exp6(s, dflt):
    return [dflt] * 6 if len(s) == 0 else (list(s) * 6 if len(s) == 1 else list(s))


def median_valid(cfg, shape, ks):
    """preconditions of MedianDefs (ValidCfg, Sufficient); the trace spec re-checks them (-> malformed)"""
    w, m = _exp6(cfg["widths"], 0), _exp6(cfg["modes"], "constant")
    for e in range(6):
        k = e // 2
        if w[e] < (ks[k] - 1) // 2:
            return False
        if m[e] == "reflect" and w[e] > shape[k] - 1:
            return False
        if m[e] == "symmetric" and w[e] > shape[k]:
            return False
    return True


def model_check(ctx):
    ctx.mc("Median", "MC_Median_q.cfg" if ctx.quick else "MC_Median_t.cfg",
           label="all binary arrays x shapes x odd kernels x 9 padding configurations; edge-by-edge padding vs closed form; majority")
    ctx.mc_negative("Median", "MC_Median_neg.cfg")  # original slice taken without the low-side offset
    ctx.mc_negative("Median", "MC_Median_neg2.cfg")  # corners of per-edge constant padding resolved in the wrong axis order
    ctx.mc("Pillar", "MC_Pillar_q.cfg" if ctx.quick else "MC_Pillar_t.cfg",
           label="material sets x background x single-column option x metric x axis x all input arrays over a value grid")
    ctx.mc_negative("Pillar", "MC_Pillar_neg.cfg")  # background allowed anywhere (holes)
    ctx.mc_negative("Pillar", "MC_Pillar_neg2.cfg")  # metric option ignored
    ctx.assumptions += [
        "median: odd kernels, padding widths >= half kernel on every edge, modes constant/edge/reflect/symmetric with single reflections "
        "(width <= size-1 / size); 'wrap' is not claimed (edge-by-edge wrap padding is not periodic, see notes/C24.md)",
        "pillar: isotropic materials with pairwise distinct permittivities; inputs dyadic; ties accept any minimiser",
    ]


# ------------------------------------------------------------------------------------------------ cases
def gen_median(ctx):
    rng = random.Random(ctx.seed + 1)
    quick = ctx.quick
    shapes = MEDIAN_SHAPES_Q if quick else MEDIAN_SHAPES_T
    kernels = MEDIAN_KERNELS_Q if quick else MEDIAN_KERNELS_T
    n = 0
    for sh in shapes:
        cells = sh[0] * sh[1] * sh[2]
        for ks in kernels:
            for ci, cfg in enumerate(MEDIAN_CFGS):
                if not median_valid(cfg, sh, ks):
                    continue
                arrays = list(itertools.product((0, 1), repeat=cells))
                # quick: all arrays up to 3 voxels, 32 sampled ones beyond; thorough: all up to 5 voxels, 40 sampled beyond
                cap = 32 if quick else 40
                if len(arrays) > cap:
                    arrays = rng.sample(arrays, cap)
                for vals in arrays:
                    n += 1
                    yield {"id": f"med-{'x'.join(map(str, sh))}-k{''.join(map(str, ks))}-c{ci}-{n}", "what": "median", "shape": list(sh),
                           "inp": list(vals), "ks": list(ks), "repeats": 1, **cfg}
    # seeded random: larger volumes, kernels up to 5, repeats, library default configurations with their real widths
    lib_cfgs = [
        {"widths": [20], "modes": ["edge", "edge", "edge", "edge", "constant", "edge"], "values": [1]},
        {"widths": [10], "modes": ["constant"] * 6, "values": [1, 0, 1, 1, 1, 0]},
    ]
    for k in range(40 if quick else 600):
        sh = [rng.choice([1, 2, 3, 4, 5]) for _ in range(3)]
        ks = [rng.choice([1, 3, 3, 5]) for _ in range(3)]
        if rng.random() < 0.3:
            cfg = rng.choice(lib_cfgs)
        else:
            modes = [rng.choice(["constant", "edge", "reflect", "symmetric"]) for _ in range(6)]
            widths = [(ks[e // 2] - 1) // 2 + rng.choice([0, 0, 1]) for e in range(6)]
            cfg = {"widths": widths, "modes": modes, "values": [rng.choice([0, 1]) for _ in range(6)]}
        if not median_valid(cfg, sh, ks):
            continue
        cells = sh[0] * sh[1] * sh[2]
        p = rng.choice([0.2, 0.5, 0.8])
        yield {"id": f"med-rnd-{k}", "what": "median", "shape": sh, "inp": [1 if rng.random() < p else 0 for _ in range(cells)],
               "ks": ks, "repeats": rng.choice([1, 1, 2]), **cfg}


PILLAR_EPS_Q = [[[1, 1], [2, 1]], [[2, 1], [1, 1], [4, 1]]]  # dictionary order deliberately unsorted
PILLAR_EPS_T = PILLAR_EPS_Q + [[[8, 1], [1, 1], [4, 1]], [[2, 1], [8, 1]], [[4, 1], [1, 1], [8, 1], [2, 1]]]
PILLAR_AXSHAPES_Q = [(3, (1, 1, 3)), (1, (2, 1, 1)), (2, (1, 2, 1)), (3, (2, 1, 2))]
PILLAR_AXSHAPES_T = PILLAR_AXSHAPES_Q + [(1, (3, 1, 1)), (1, (1, 1, 1)), (2, (1, 1, 2)), (2, (1, 3, 1)), (1, (2, 2, 1)), (3, (1, 1, 4)),
                                         (3, (1, 1, 2))]
METRICS = ["euclidean", "permittivity_differences_plus_average_permittivity"]


def gen_pillar(ctx):
    rng = random.Random(ctx.seed + 2)
    quick = ctx.quick
    grid3 = [1, 3, 4, 6, 8] if quick else [0, 1, 2, 3, 4, 6, 8, 9]
    grid4 = [1, 5, 8] if quick else [0, 2, 4, 8, 9]
    n = 0
    for eps in PILLAR_EPS_Q if quick else PILLAR_EPS_T:
        for bg in range(0, len(eps) + 1):  # 0 = None, else dictionary position of the named background
            for single in (False, True):
                for metric in METRICS:
                    for ax, sh in PILLAR_AXSHAPES_Q if quick else PILLAR_AXSHAPES_T:
                        cells = sh[0] * sh[1] * sh[2]
                        arrays = list(itertools.product(grid3 if cells <= 3 else grid4, repeat=cells))
                        cap = 20 if quick else 24
                        if len(arrays) > cap:
                            arrays = rng.sample(arrays, cap)
                        for vals in arrays:
                            n += 1
                            yield {"id": f"pil-{n}", "what": "pillar", "den": 8, "eps": eps, "bg": bg, "single": single, "metric": metric,
                                   "axis": ax, "shape": list(sh), "inp": list(vals)}
    # seeded random: more columns, taller columns, non-dyadic inverse permittivities (1/3, 1/5), 1/64 input grid
    pool = [[1, 1], [2, 1], [4, 1], [8, 1], [3, 1], [5, 1], [3, 2], [16, 1]]
    den = 64 * 15
    for k in range(40 if quick else 600):
        nm = rng.randint(2, 3) if quick else rng.randint(2, 4)
        eps = rng.sample(pool, nm)
        ax = rng.randint(1, 3)
        sh = [rng.choice([1, 2, 3]) for _ in range(3)]
        sh[ax - 1] = rng.choice([1, 2, 3, 4]) if nm <= 3 else rng.choice([1, 2, 3])
        cells = sh[0] * sh[1] * sh[2]
        yield {"id": f"pil-rnd-{k}", "what": "pillar", "den": den, "eps": eps, "bg": rng.randint(0, nm), "single": rng.random() < 0.5,
               "metric": rng.choice(METRICS), "axis": ax, "shape": sh, "inp": [15 * rng.randint(0, 70) for _ in range(cells)]}


def gen_cases(ctx):
    ctx.exhaustive = False
    yield from gen_median(ctx)
    yield from gen_pillar(ctx)


# ------------------------------------------------------------------------------------------------ observation
_CFG = None
_PILLARS = {}


def _config():
    global _CFG
    if _CFG is None:
        import fdtdx
        from fdtdx.core.grid import UniformGrid

        _CFG = fdtdx.SimulationConfig(time=100e-15, grid=UniformGrid(spacing=500e-9), backend="cpu")
    return _CFG


def _enc(a):
    import numpy as np

    a = np.asarray(a, dtype=np.float64).ravel()
    if a.size and not np.all(np.isfinite(a)):
        return [-777777] * a.size, 10**9
    r = np.rint(a)
    if a.size and np.max(np.abs(r)) >= 2**31 - 1:
        return [-777777] * a.size, 10**9
    dev = float(np.max(np.abs(a - r))) if a.size else 0.0
    return [int(v) for v in r], int(min(10**9, round(dev * 1e9)))


def observe(case):
    import json

    import jax.numpy as jnp
    import numpy as np
    from fdtdx.materials import Material

    from loguru import logger

    logger.disable("fdtdx")  # PillarDiscretization.init_module logs the whole table of allowed columns
    shape = tuple(case["shape"])
    rec = dict(case)
    rec.update({"err": "", "oshape": [], "out": [], "dev": 0})
    two = {"a": Material(permittivity=1.0), "b": Material(permittivity=2.0)}
    try:
        if case["what"] == "median":
            from fdtdx.core.misc import PaddingConfig
            from fdtdx.objects.device.parameters.discrete import BinaryMedianFilterModule

            pc = PaddingConfig(widths=tuple(case["widths"]), modes=tuple(case["modes"]),
                               values=tuple(float(v) for v in case["values"]) if case["values"] else None)
            t = BinaryMedianFilterModule(padding_cfg=pc, kernel_sizes=tuple(case["ks"]), num_repeats=case["repeats"])
            t = t.init_module(config=_config(), materials=two, matrix_voxel_grid_shape=shape, single_voxel_size=(1.0, 1.0, 1.0),
                              output_shape={"params": shape})
            x = jnp.asarray(np.asarray(case["inp"], dtype=np.float64).reshape(shape))
        else:
            from fdtdx.objects.device.parameters.discretization import PillarDiscretization

            # the initialised module (real init_module: compute_allowed_indices) is reused for equal configurations
            key = json.dumps([case["eps"], case["bg"], case["single"], case["metric"], case["axis"], case["shape"]])
            t = _PILLARS.get(key)
            if t is None:
                mats = {f"mat{i}": Material(permittivity=num / d) for i, (num, d) in enumerate(case["eps"])}
                t = PillarDiscretization(axis=case["axis"] - 1, single_polymer_columns=case["single"], distance_metric=case["metric"],
                                         background_material=None if case["bg"] == 0 else f"mat{case['bg'] - 1}")
                t = t.init_module(config=_config(), materials=mats, matrix_voxel_grid_shape=shape, single_voxel_size=(1.0, 1.0, 1.0),
                                  output_shape={"params": shape})
                _PILLARS[key] = t
            x = jnp.asarray(np.asarray(case["inp"], dtype=np.float64).reshape(shape) / case["den"])
        y = t({"params": x})["params"]
        rec["oshape"] = [int(s) for s in y.shape]
        rec["out"], rec["dev"] = _enc(y)
    except Exception as ex:
        rec["err"] = (type(ex).__name__ + ": " + str(ex))[:160]
    return rec


def classify(record, verdict):
    return "malformed" if verdict.startswith("malformed:") else "violation"


def run(ctx):
    import json

    from lib.worker import pmap

    model_check(ctx)
    inputs = list(gen_cases(ctx))
    recs = pmap(__name__, "observe", inputs, procs=PARALLEL, mode="thread")
    by_id = {c["id"]: c for c in inputs}
    med = [r for r in recs if r["what"] == "median"]
    pil = [r for r in recs if r["what"] == "pillar"]
    for r in (med[:2] + pil[:2]):
        ctx.sample(r)
    ctx.nontrivial = len({json.dumps(c, sort_keys=True) for c in inputs})
    ctx.extra_cov["median_records"] = len(med)
    ctx.extra_cov["pillar_records"] = len(pil)
    ctx.validate("Trace_Median", "Trace_Median.cfg", med, by_id, classify=classify, chunk=CHUNK_MEDIAN)
    ctx.validate("Trace_Pillar", "Trace_Pillar.cfg", pil, by_id, classify=classify, chunk=CHUNK_PILLAR)


def replay(ctx, inp):
    rec = observe(inp)
    if inp["what"] == "median":
        ctx.validate("Trace_Median", "Trace_Median.cfg", [rec], {rec["id"]: inp}, classify=classify)
    else:
        ctx.validate("Trace_Pillar", "Trace_Pillar.cfg", [rec], {rec["id"]: inp}, classify=classify)
