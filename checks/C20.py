"""C20 - Projection filters are bounded, monotone and well-behaved at the extremes (projection.py).
Spec: spec/Projection.tla (+ProjectionDefs, ParamArrays): exact machine for beta = 0 / infinity; trace monitor
spec/Trace_Projection.tla for every beta.  DESIGN.md §5 C20 (general beta is 'trace-monitor' level).

Every record is one real TanhProjection / SubpixelSmoothedProjection call plus one jax.grad through it; outputs are sent as
integers in units of 2^-29, gradient finiteness as 0/1 flags; TLC evaluates every clause of the property."""
import random

ID = "C20"
TRACE = ("Trace_Projection", "Trace_Projection.cfg")
CHUNK = 120
PARALLEL = 4

S = 2**29
TOL = 2  # units of 2^-29 (about 2e-9 absolute): rounding of the logged outputs + float64 round-off of tanh
# beta as (inf?, num, den)
BETAS_Q = [(False, 0, 1), (False, 1, 1000000), (False, 1, 4), (False, 1, 1), (False, 2, 1), (False, 8, 1), (False, 64, 1), (False, 1024, 1),
           (False, 1048576, 1), (True, 0, 1)]
BETAS_T = BETAS_Q + [(False, 1, 1000000000), (False, 1, 64), (False, 3, 2), (False, 5, 1), (False, 16, 1), (False, 300, 1), (False, 65536, 1),
                     (False, 2000000000, 1)]
VOXELS = [1e-6, 5e-8, 2e-5]


def model_check(ctx):
    ctx.mc("Projection", "MC_Projection_q.cfg" if ctx.quick else "MC_Projection_t.cfg",
           label="beta in {0, infinity} x all thresholds k/16 in [0,1] x input table -8/32..40/32: range, monotone, fixed points, clip, step")
    ctx.mc_negative("Projection", "MC_Projection_neg.cfg")  # beta = 0 without clipping
    ctx.mc_negative("Projection", "MC_Projection_neg2.cfg")  # inverted step
    ctx.assumptions += [
        "general beta is trace-monitor level: tanh is not computable in TLC; the monitor asserts range / monotonicity / fixed points / "
        "finite gradients on logged tables with an absolute tolerance of 2 * 2^-29 (3.7e-9)",
        "fixed points are claimed for thresholds strictly inside (0,1); the step at beta = infinity away from the threshold itself",
        "cells 'without an interface' = |eta - rho|^2 > 0.31 |grad rho|^2 (central differences) or zero gradient: the code's own test is 0.3025",
    ]


def _beta_fields(b):
    return {"binf": b[0], "bnum": b[1], "bden": b[2]}


def gen_cases(ctx):
    rng = random.Random(ctx.seed)
    quick = ctx.quick
    ctx.exhaustive = False
    betas = BETAS_Q if quick else BETAS_T
    table = list(range(-8, 41))
    n = 0
    for b in betas:
        for en in range(0, 17):
            n += 1
            yield {"id": f"tanh-{n}", "kind": "tanh", **_beta_fields(b), "en": en, "eden": 16, "xden": 32, "xs": table}
    for k in range(40 if quick else 300):
        b = rng.choice(betas)
        xs = sorted(rng.randint(-256, 1280) for _ in range(rng.randint(2, 40))) + [0, 1024]
        yield {"id": f"tanh-rnd-{k}", "kind": "tanh", **_beta_fields(b), "en": rng.randint(0, 64), "eden": 64, "xden": 1024, "xs": sorted(xs)}
    # smoothed projection: fields on the 1/16 grid
    fields = []
    for nx, ny in [(2, 2), (3, 4), (5, 5), (6, 3)]:
        fields.append((nx, ny, "const", [8] * (nx * ny)))
        fields.append((nx, ny, "rampx", [min(16, (16 * i) // max(1, nx - 1)) for i in range(nx) for j in range(ny)]))
        fields.append((nx, ny, "rampy", [min(16, 2 * j + 3) for i in range(nx) for j in range(ny)]))
        fields.append((nx, ny, "blob", [max(0, 16 - 3 * (abs(2 * i - nx + 1) + abs(2 * j - ny + 1))) for i in range(nx) for j in range(ny)]))
        for r in range(2 if quick else 5):
            fields.append((nx, ny, f"rnd{r}", [rng.randint(0, 16) for _ in range(nx * ny)]))
    m = 0
    for nx, ny, name, rho in fields:
        for b in ([betas[i] for i in (0, 1, 3, 5, 7, 9, 12, 17)] if not quick else [betas[0], betas[3], betas[5], betas[7], betas[9]]):
            for en in ([0, 5, 8, 16] if quick else [0, 1, 5, 8, 12, 16]):
                m += 1
                yield {"id": f"smooth-{name}-{nx}x{ny}-{m}", "kind": "smooth", **_beta_fields(b), "en": en, "rden": 16, "shape": [nx, ny], "rho": rho,
                       "vax": m % 3, "voxel": VOXELS[m % 3]}
    yield from gen_sgrad_cases(ctx)


def gen_sgrad_cases(ctx):
    """finite-gradient clause on smooth (filtered-looking) designs in FLOAT32 (and float64): Gaussian blobs and exponentially
    decaying fields whose tails have a tiny but non-zero slope (down to 1e-20 .. 1e-38), where masked-out branches of the
    smoothed projection overflow unless they are guarded.  Parameters are integers; the field is built in observe()."""
    rng = random.Random(ctx.seed + 11)
    quick = ctx.quick
    betas = [(False, 0, 1), (False, 1, 1), (False, 8, 1), (False, 64, 1), (False, 1024, 1), (False, 1048576, 1), (True, 0, 1)]
    etas = [0, 5, 8, 16]  # /16
    fields = []
    for n in ((24,) if quick else (12, 24, 32)):
        fields += [("gauss", n, 75, 90, 90), ("gauss", n, 10 * n // 2, 10 * n // 3, 40), ("gauss", n, 30, 10 * n - 40, 160),
                   ("expx", n, 0, 0, 10), ("expx", n, 0, 0, 25), ("expy", n, 0, 0, 40), ("expxy", n, 0, 0, 15)]
        for _ in range(1 if quick else 4):
            fields.append(("gauss", n, rng.randint(0, 10 * n), rng.randint(0, 10 * n), rng.choice([20, 40, 90, 250])))
    m = 0
    for fld, n, cx, cy, w in fields:
        for dtype in ("float32", "float64"):
            for b in betas:
                for en in (etas if not quick else [etas[(m + k) % 4] for k in (0, 2)]):
                    m += 1
                    yield {"id": f"sgrad-{fld}-{n}-{m}", "kind": "sgrad", **_beta_fields(b), "en": en, "eden": 16, "field": fld, "n": n,
                           "cx10": cx, "cy10": cy, "w10": w, "dtype": dtype, "weighted": bool(m % 2), "vax": m % 3, "voxel": [5e-8, 1e-6][m % 2]}


def _sgrad_field(case):
    import numpy as np

    n = case["n"]
    i = np.arange(n, dtype=np.float64)
    X, Y = np.meshgrid(i, i, indexing="ij")
    w = case["w10"] / 10.0
    if case["field"] == "gauss":
        rho = np.exp(-(((X - case["cx10"] / 10.0) ** 2 + (Y - case["cy10"] / 10.0) ** 2) / w))
    elif case["field"] == "expx":
        rho = np.exp(-w * X)
    elif case["field"] == "expy":
        rho = 0.9 * np.exp(-w * Y)
    else:
        rho = np.exp(-w * (X + 0.5 * Y))
    return rho.astype(np.float32 if case["dtype"] == "float32" else np.float64), X


_CFG = None


def _config():
    global _CFG
    if _CFG is None:
        import fdtdx
        from fdtdx.core.grid import UniformGrid

        _CFG = fdtdx.SimulationConfig(time=100e-15, grid=UniformGrid(spacing=500e-9), backend="cpu")
    return _CFG


def _enc(a):
    """outputs in units of 1/S, saturated at +-(2^30 - 1) (= |out| >= 2) so that differences cannot overflow TLC's 32-bit
    integers; a non-finite output is encoded as the negative bound and therefore fails the range / agreement clauses"""
    import numpy as np

    lim = 2**30 - 1
    a = np.asarray(a, dtype=np.float64).ravel() * S
    a = np.where(np.isfinite(a), a, -float(lim))
    return [int(v) for v in np.rint(np.clip(a, -lim, lim))]


def observe(case):
    import jax
    import jax.numpy as jnp
    import numpy as np
    from fdtdx.materials import Material
    from fdtdx.objects.device.parameters.projection import SubpixelSmoothedProjection, TanhProjection

    beta = float("inf") if case["binf"] else case["bnum"] / case["bden"]
    two = {"a": Material(permittivity=1.0), "b": Material(permittivity=2.0)}
    rec = dict(case)
    rec.update({"scale": S, "tol": TOL, "err": "", "gerr": "", "gfin": []})
    if "voxel" in rec:
        rec["voxel"] = repr(rec["voxel"])  # floats cannot go through the Json module
    if case["kind"] == "sgrad":
        eta = case["en"] / case["eden"]
        rho, X = _sgrad_field(case)
        n = case["n"]
        shape3 = [n, n]
        shape3.insert(case["vax"], 1)
        shape3 = tuple(shape3)
        x = jnp.asarray(rho.reshape(shape3))  # keeps float32 although x64 is enabled
        wgt = jnp.asarray((1.0 + 0.1 * X).astype(rho.dtype).reshape(shape3)) if case["weighted"] else None
        vs = (case["voxel"],) * 3
        t = SubpixelSmoothedProjection(projection_midpoint=eta)
        t = t.init_module(config=_config(), materials=two, matrix_voxel_grid_shape=shape3, single_voxel_size=vs, output_shape={"params": shape3})
        f = lambda a: t({"params": a}, beta=beta)["params"]  # noqa: E731
        rec.update({"vfin": [], "nbad": 0, "xdtype": str(x.dtype)})
        try:
            val, g = jax.value_and_grad(lambda a: (f(a) * wgt).sum() if wgt is not None else f(a).sum())(x)
            y = np.asarray(f(x))
            rec["vfin"] = [int(v) for v in np.isfinite(y).ravel()]
            gf = np.isfinite(np.asarray(g)).ravel()
            rec["gfin"] = [int(v) for v in gf]
            rec["nbad"] = int(np.sum(~gf))
        except Exception as ex:
            rec["gerr"] = (type(ex).__name__ + ": " + str(ex))[:160]
        return rec
    if case["kind"] == "tanh":
        eta = case["en"] / case["eden"]
        x = jnp.asarray(np.asarray(case["xs"], dtype=np.float64) / case["xden"]).reshape(-1, 1, 1)
        shape = tuple(x.shape)
        t = TanhProjection(projection_midpoint=eta)
        t = t.init_module(config=_config(), materials=two, matrix_voxel_grid_shape=shape, single_voxel_size=(1e-6, 1e-6, 1e-6),
                          output_shape={"params": shape})
        f = lambda a: t({"params": a}, beta=beta)["params"]  # noqa: E731
        rec["out"] = []
        try:
            rec["out"] = _enc(f(x))
        except Exception as ex:
            rec["err"] = (type(ex).__name__ + ": " + str(ex))[:160]
            return rec
    else:
        eta = case["en"] / case["rden"]
        nx, ny = case["shape"]
        shape3 = [nx, ny]
        shape3.insert(case["vax"], 1)
        shape3 = tuple(shape3)
        x = jnp.asarray((np.asarray(case["rho"], dtype=np.float64) / case["rden"]).reshape(nx, ny)).reshape(shape3)
        vs = (case["voxel"],) * 3
        t = SubpixelSmoothedProjection(projection_midpoint=eta)
        t = t.init_module(config=_config(), materials=two, matrix_voxel_grid_shape=shape3, single_voxel_size=vs, output_shape={"params": shape3})
        tp = TanhProjection(projection_midpoint=eta)
        tp = tp.init_module(config=_config(), materials=two, matrix_voxel_grid_shape=shape3, single_voxel_size=vs, output_shape={"params": shape3})
        f = lambda a: t({"params": a}, beta=beta)["params"]  # noqa: E731
        rec["plain"], rec["smooth"] = [], []
        try:
            rec["smooth"] = _enc(f(x))
            rec["plain"] = _enc(tp({"params": x}, beta=beta)["params"])
        except Exception as ex:
            rec["err"] = (type(ex).__name__ + ": " + str(ex))[:160]
            return rec
    try:
        g = jax.grad(lambda a: f(a).sum())(x)
        rec["gfin"] = [int(v) for v in np.isfinite(np.asarray(g)).ravel()]
    except Exception as ex:
        rec["gerr"] = (type(ex).__name__ + ": " + str(ex))[:160]
    return rec


def classify(record, verdict):
    return "malformed" if verdict.startswith("malformed:") else "violation"
