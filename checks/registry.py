"""Registry of claimed properties -> MANIFEST.json (tools/gen_manifest.py). One entry per claimed property."""

ENGINES = [
    {"name": "sched", "path": "spec/", "kind_free_text": "TLA+ specs Recorder, Switch, SliceBounds, StopCond, Schedule + trace specs; TLC model checking + batch trace validation of real-code executions"},
]

CLAIMS = {
    "C30": {
        "engine": "sched",
        "level": "model_checking",
        "text": "Recorder.tla states the save-every-k/start/final-step rule and the decompression rule as a state machine; TLC checks DecompressCorrect, SlotsComplete, SlotsBijective, WriteOnce exhaustively for all (T,k,start) up to 14/6 (quick) or 40/8 (thorough) and all basis + quadratic value histories, and rejects the pre-fix lookup as a negative instance. The real Recorder (jitted compress/decompress from /repo/src) is run on the same triples with 840-multiple integer histories and dtype stages; every compress/decompress event is validated by TLC in Trace_Recorder (slot written, value = interpolation of the recorded history), exact up to a 3e-7 relative float tolerance.",
        "note": "Trusted: TLC, JsonDeserialize, the harness's slot observation (diff of state.data) and integer rounding of decompressed values (deviation is logged and bounded in the trace spec). Narrowing dtype conversions are outside the property.",
        "technique": "TLA+ spec + TLC exhaustive (T,k,start) + TLC trace validation of real Recorder executions",
        "design_ref": "§5 C30",
    },
}
CLAIMS["C04"] = {
    "engine": "sched",
    "level": "model_checking",
    "text": "Schedule.tla models the run-level machine (reset, segmented primal loop with checkpoint capture, reverse loop = checkpoint select / backward / VJP-forward, partial runs). TLC checks NoNegativeTime, VjpOnceDescending, CheckpointsAtBoundaries, DriftBounded, SlicePartition for every T, checkpoint count and method in the bound and rejects the pre-fix loop condition (>= 0) as a negative instance. Real jax.vjp(run_fdtd) executions (reversible with K checkpoints and checkpointed autodiff) on scenes with periodic/PEC/PMC/PML faces, lossy slabs with K=T-1, random detector cotangents are observed through the step hooks; TLC validates every forward/backward/checkpoint-select event against the Schedule actions (Trace_Schedule) and asserts the measured gradient difference outside the absorbing layers <= 1e-6 relative.",
    "note": "Gradient oracle = JAX autodiff through the checkpointed loop (trusted). Gradient difference is computed by the harness (numpy) and bounded by the trace spec. Scenes are seeded samples, not exhaustive.",
    "technique": "TLA+ schedule spec + TLC; trace validation of hook events from real reversible/checkpointed VJP runs; gradient cross-check",
    "design_ref": "§5 C04",
}
CLAIMS["C05"] = {
    "engine": "sched",
    "level": "model_checking",
    "text": "ScheduleDefs.tla defines the slice boundaries (round-half-even) and IsPartition; Schedule.tla shows for every T<=6/14, K, method that a returned full run executed exactly steps 0..T-1 (ExecutedIsPrefix, FullRunExecutesAll) and SlicePartition. The real _reversible_slice_boundaries is checked by TLC (Trace_Slices) exhaustively for 1<=k<=T<=40 (quick) / 90 (thorough). Real run_fdtd executions of the same scene under no gradient config, checkpointed (1,3,T checkpoints) and reversible (0..T-1 checkpoints) are validated event by event against Schedule (Trace_Schedule), and their final step count, field and detector fingerprints must agree (clause 'state differs from another run that executed the same steps').",
    "note": "Final states are compared through fixed pseudo-random linear functionals of E, H and all detector arrays (relative 5e-8), not element-wise. Scenes and T values are a fixed small family.",
    "technique": "TLA+ schedule spec + TLC; exhaustive slice-partition conformance; trace validation of real runs under every gradient strategy",
    "design_ref": "§5 C05",
}
CLAIMS["C06"] = {
    "engine": "sched",
    "level": "model_checking",
    "text": "Schedule.tla has Reset, FwdStep, PartialStart(a,b,reset), PartialReturn; TLC checks for all T<=6/14 and all sequences of full runs, consecutive partial runs and resets that a returned run has executed exactly steps 0..t-1 (ExecutedIsPrefix): the abstract state is a function of the executed steps. Real executions (run_fdtd twice on a reused container, custom_fdtd_forward over random split points starting from a dirty container with reset, then run_fdtd again; detectors of four kinds with switches, lossy slab, PML/PEC) are observed through the step hooks and validated by TLC against these actions; runs that executed the same steps must return the same (t, E, H, detector) fingerprints; ArrayContainer.reset() must zero fields/detector states and keep materials.",
    "note": "State equality through fixed pseudo-random linear functionals (relative 5e-8). Split points are seeded samples.",
    "technique": "TLA+ schedule spec + TLC; trace validation of hook events from split / repeated real runs",
    "design_ref": "§5 C06",
}
CLAIMS["C14"] = {
    "engine": "sched",
    "level": "model_checking",
    "text": "SwitchDefs.tla states the time-window rule (start/end/duration inference incl. period forms, inclusive ends, interval, fixed lists, always-off) in exact quarter-step integer time; Switch.tla runs a switched component over a run (one record per active step, slot = rank, inject only when on). TLC checks RecordsAreActiveSteps, SlotIsRank, InjectOnlyWhenOn, WindowContiguous, EndStepInclusive for all parameter combinations in the bound and rejects an exclusive-end rule. The real OnOffSwitch.calculate_on_list / calculate_time_step_to_on_arr_idx are evaluated on ~3k (quick) schedule combinations and real runs with a switched FieldDetector+EnergyDetector (vs always-on twins) and a switched dipole (step with vs without the source from the same state) are checked by TLC in Trace_Switch against the rule.",
    "note": "Ambiguous specifications that the code rejects by raising are checked as 'drift' only. Run-level schedules avoid window edges reachable only through inexact float sums.",
    "technique": "TLA+ window-rule spec + TLC; exhaustive function conformance + trace validation of switched detector/source runs",
    "design_ref": "§5 C14",
}
CLAIMS["C07"] = {
    "engine": "sched",
    "level": "model_checking",
    "text": "StopCondDefs.tla states the documented continue-predicates of TimeStepCondition, EnergyThresholdCondition and DetectorConvergenceCondition and the halting step of the bounded run loop; StopCond.tla is the Check/Step loop. TLC checks HaltsAtFirstStop, NeverLate (<= min(max_steps, T)), NeverEarly (>= min(min_steps, T)), NoStepAfterStop for every kind, T<=4/6, min<=max and every boolean convergence trace, and rejects the pre-fix rule that ignores max_steps. The real condition objects are called on hand-built states for every (t, min, max, converged) in a bound (zero/large fields, constant/random detector readings) and real run_fdtd(stopping_condition=...) runs (pulsed lossy scene, no-source and CW scenes) are checked by TLC in Trace_StopCond: halt step = first stop given the per-step convergence flags measured on a plain run, executed forward steps = returned step count, state equals the plain run of the same number of steps.",
    "note": "Run in float32 (the detector condition cannot be traced under x64). Convergence flags of the run cases come from the library's compute_energy and a numpy re-implementation of the documented spectral criterion (trusted). min_steps <= max_steps throughout.",
    "technique": "TLA+ stop-condition spec + TLC over all convergence traces; conformance of real condition calls and real stopped runs",
    "design_ref": "§5 C07",
}
CLAIMS["C03"] = {
    "engine": "sched",
    "level": "model_checking",
    "text": "Reconstruct.tla is a knowledge (taint) model of one reverse step as coded in backward(): Restore (inner layer of every absorbing layer := recorded values), RevH, RevE with their stencil dependencies, ResetPml; a reverse update is exact only in plain cells (outside the layers, or the inner layer under the default-grading premise a=0, kappa=1). TLC checks InteriorReconstructed for every combination of face kinds (pml/wall/periodic) and thickness on a 2-D lattice over 3 reverse steps and rejects three negative instances (lossy inner layer, wrong record index, restore after the reverse updates). Real scenes (PML on face subsets incl. all six faces and corners, mixed with PEC/PMC/periodic, electric+magnetic dipoles, magnetic slab) are stepped forward with lossless interface recording and then backward step by step; TLC checks in Trace_Reconstruct the sweep order and that the measured interior residual of E and H is <= 1e-9 of the forward peak at every reverse step; the premise (a=0, 1/kappa=1 at the inner face) is checked on real PerfectlyMatchedLayer objects for every axis, side and thickness 1..20.",
    "note": "The 2-D knowledge model over-approximates the 3-D stencil dependencies per axis; residuals are computed by the harness (numpy) and bounded by the trace spec. Scenes are a fixed family plus seeded random ones in the thorough tier.",
    "technique": "TLA+ knowledge model of restore/reverse/reset + TLC; monitored residuals of real forward/backward sweeps",
    "design_ref": "§5 C03",
}
NOT_APPLICABLE = {}

# claim files (checks/Cxx.claim.json) written by builders are merged only after review by the coordinator
ACCEPTED = ["C19", "C21", "C23", "C29", "C32", "C34", "C37", "C39", "C40", "C41", "C16", "C17", "C28", "C26", "C27", "C25", "C22", "C18", "C43", "C12", "C13", "C15", "C09", "C08", "C33", "C38", "C42", "C35", "C36", "C01", "C02", "C10", "C11", "C31", "C24", "C20"]
