"""Registry of claimed properties -> MANIFEST.json (tools/gen_manifest.py). One entry per claimed property."""

ENGINES = [
    {"name": "sched", "path": "spec/", "kind_free_text": "TLA+ specs Recorder, Switch, SliceBounds, StopCond, Schedule + trace specs; TLC model checking + batch trace validation of real-code executions"},
]

CLAIMS = {
    "C30": {
        "engine": "sched",
        "level": "model_checking",
        "text": "Recorder.tla states the save-every-k/start/final-step rule and the decompression rule as a state machine; TLC checks DecompressCorrect, SlotsComplete, SlotsBijective, WriteOnce exhaustively for all (T,k,start) up to 14/6 (quick) or 40/8 (thorough) and all basis + quadratic value histories, and rejects the pre-fix lookup as a negative instance. The real Recorder (jitted compress/decompress from /repo/src) is run on the same triples with 840-multiple integer histories and dtype stages; every compress/decompress event is validated by TLC in Trace_Recorder (slot written, value = interpolation of the recorded history), exact up to a 3e-7 relative float tolerance.",
        "note": "Trusted: TLC, JsonDeserialize, the harness's slot observation (diff of state.data) and integer rounding of decompressed values (deviation is logged and bounded in the trace spec). Narrowing dtype conversions are outside the property.",
        "technique": "TLA+ spec + TLC exhaustive (T,k,start) + TLC trace validation of real Recorder executions",
        "design_ref": "§5 C30",
    },
}
NOT_APPLICABLE = {}
