"""C07 - stopping conditions stop exactly where documented.
Spec: spec/StopCondDefs.tla, spec/StopCond.tla; trace spec: spec/Trace_StopCond.tla."""
import random

ID = "C07"
HOOKS = True
X64 = False  # DetectorConvergenceCondition mixes int32/int64 slice indices under x64 (library limitation, not the property)
PARALLEL = 1
TRACE = ("Trace_StopCond", "Trace_StopCond.cfg")


def model_check(ctx):
    ctx.mc("StopCond", "MC_StopCond_q.cfg" if ctx.quick else "MC_StopCond_t.cfg", label="all kinds, T, min<=max, all boolean convergence traces")
    ctx.mc_negative("StopCond", "MC_StopCond_neg.cfg")
    ctx.assumptions += ["min_steps > max_steps is enumerated too: the hard cut-off at max_steps wins",
                        "run-level convergence flags are measured on a plain run with the library's compute_energy / a numpy re-implementation of the documented spectral criterion"]


BASE = {"shape": [4, 4, 4], "bounds": {}, "slab": {"lo": [0, 0, 1], "hi": [4, 4, 3], "eps": 2.0, "sigma": 3e4},
        "detectors": [{"kind": "energy", "name": "en", "lo": [0, 0, 0], "hi": [4, 4, 4], "reduce": True}]}


def gen_cases(ctx):
    rng = random.Random(ctx.seed)
    T = 8
    n = 0
    for cond in ("energy", "detector"):
        lo = 0 if cond == "energy" else 4
        for mn in range(lo, T + 2):
            for mx in range(max(0, mn - 3), T + 3):   # includes min_steps > max_steps (the hard cut-off wins)
                if ctx.quick and rng.random() > 0.6:
                    continue
                for t in range(0, T + 2):
                    for conv in (False, True):
                        n += 1
                        yield {"id": f"call{n}", "kind": "call", "cond": cond, "T": T, "mn": mn, "mx": mx, "t": t, "conv": conv}
    for t in range(0, T + 2):
        n += 1
        yield {"id": f"call{n}", "kind": "call", "cond": "time", "T": T, "mn": 0, "mx": T, "t": t, "conv": False}
    runs = [("energy", 12, 0, 12, 0.5), ("energy", 12, 3, 12, 0.9), ("energy", 12, 8, 12, 0.9), ("energy", 12, 0, 5, 1e-9), ("energy", 12, 2, 9, 0.2), ("energy", 12, 0, 20, 1e-9), ("energy", 12, 1, 12, 0.6), ("energy", 12, 1, 12, 0.35), ("energy", 12, 1, 6, 0.3), ("energy", 12, 4, 12, 0.45),
            ("energy", 12, 6, 3, 1e-9), ("energy", 12, 9, 5, 0.3), ("detector", 14, 8, 6, -1.0), ("detector", 14, 4, 14, 0.0), ("detector", 14, 6, 9, 0.0), ("detector", 14, 4, 7, -1.0), ("detector", 14, 5, 14, -1.0), ("time", 9, 0, 9, 0.0)]
    if not ctx.quick:
        for _ in range(20):
            c = rng.choice(["energy", "detector"])
            T2 = rng.randint(10, 16)
            mn = rng.randint(4 if c == "detector" else 0, T2 - 2)
            mx = rng.randint(max(1, mn - 4), T2 + 3)
            runs.append((c, T2, mn, mx, rng.choice([0.05, 0.3, 0.8, 1e-9]) if c == "energy" else rng.choice([0.0, -1.0])))
    ctx.exhaustive = False
    for i, (cond, T2, mn, mx, frac) in enumerate(runs):
        yield {"id": f"run{i}", "kind": "run", "cond": cond, "T": T2, "mn": mn, "mx": mx, "frac": frac}


_cache = {}


def _scene(T, src):
    from harness import scenes as S

    k = (T, src)
    if k not in _cache:
        sc = dict(BASE, T=T)
        if src == "pulse":
            sc["sources"] = [{"pos": [2, 2, 2], "pol": 0, "switch": {"fixed_on_time_steps": [0, 1, 2]}}]
        elif src == "cw":
            sc["sources"] = [{"pos": [2, 2, 2], "pol": 0, "wl": 300e-9}]
        _cache[k] = S.build_scene(sc)
    return _cache[k]


def _wave(config):
    import fdtdx

    return fdtdx.WaveCharacter(period=2.0 * config.time_step_duration)  # spp = 2


def _make_cond(case, config, threshold):
    from fdtdx.fdtd.stop_conditions import DetectorConvergenceCondition, EnergyThresholdCondition, TimeStepCondition

    if case["cond"] == "energy":
        return EnergyThresholdCondition(threshold=threshold, min_steps=case["mn"], max_steps=case["mx"])
    if case["cond"] == "detector":
        return DetectorConvergenceCondition(detector_name="en", wave_character=_wave(config), prev_periods=1, threshold=threshold, min_steps=case["mn"], max_steps=case["mx"])
    return TimeStepCondition()


def observe(case):
    return _call(case) if case["kind"] == "call" else _run(case)


def _call(case):
    import jax.numpy as jnp
    import numpy as np

    obj, arrays, config = _scene(case["T"], "none")
    a = arrays.reset()
    conv, t = case["conv"], case["t"]
    if case["cond"] == "energy":
        if not conv:
            a = a.aset("fields->E", jnp.ones_like(a.fields.E))
        thr = 1e-30
    else:
        rd = np.zeros((case["T"], 1)) if conv else np.random.RandomState(t + 1).standard_normal((case["T"], 1))
        a = a.aset("detector_states", {"en": {"energy": jnp.asarray(rd)}})
        thr = 1e-6
    state = (jnp.asarray(t, dtype=jnp.int32), a)
    cond = _make_cond(case, config, thr).setup(state, config, obj)
    tt = min(t, case["T"] - 1) if case["cond"] == "detector" else t
    del tt
    cont = bool(cond(state, config, obj))
    rec = dict(case)
    rec.update({"cont": cont})
    return rec


def _np_converged(readings, t, spp, prev, thr, T):
    import numpy as np

    s_ref = int(np.clip(t - (prev + 1) * spp, 0, T - prev * spp))
    s_last = int(np.clip(t - spp, 0, T - spp))
    ref = readings[s_ref:s_ref + prev * spp].reshape(prev, spp).mean(axis=0)
    last = readings[s_last:s_last + spp]
    d = np.linalg.norm(np.abs(np.fft.rfft(ref, n=spp)) - np.abs(np.fft.rfft(last, n=spp)))
    return bool(d < thr)


def _run(case):
    import jax
    import jax.numpy as jnp
    import numpy as np

    import fdtdx
    from fdtdx.core.physics.metrics import compute_energy
    from fdtdx.fdtd.forward import forward
    from harness import scenes as S
    from harness import sched as H

    T, cond_kind = case["T"], case["cond"]
    src = "pulse" if cond_kind != "detector" else ("none" if case["frac"] == 0.0 else "cw")
    obj, arrays, config = _scene(T, src)
    key = jax.random.PRNGKey(0)
    step = jax.jit(lambda s: forward(s, config, obj, key, record_detectors=True, record_boundaries=False, simulate_boundaries=True))
    os_hooks = S.take_events()
    del os_hooks
    # plain stepped run: energies / readings and state fingerprints at every t
    import os

    os.environ["FDTDX_VERIF"] = "0"
    state = (jnp.asarray(0, dtype=jnp.int32), arrays.reset())
    en, fps = [], []
    for t in range(T + 1):
        a = state[1]
        en.append(float(jnp.sum(compute_energy(a.fields.E, a.fields.H, a.inv_permittivities, a.inv_permeabilities))))
        fps.append((H.field_fp(a.fields.E), H.field_fp(a.fields.H), H.det_fp(a.detector_states), np.asarray(a.detector_states["en"]["energy"])[:, 0].copy()))
        if t < T:
            state = step(state)
    os.environ["FDTDX_VERIF"] = "1"
    if cond_kind == "energy":
        thr = max(en) * case["frac"]
        conv = [bool(e < thr) for e in en]
    elif cond_kind == "detector":
        # frac == 0: no source, all readings 0 -> converged as soon as it is evaluated; frac < 0: threshold 0 -> never converged
        thr = 1e-6 if case["frac"] == 0.0 else 0.0
        conv = [(_np_converged(fps[t][3], t, 2, 1, thr, T) if t >= 4 else False) for t in range(T + 1)]
    else:
        thr, conv = 0.0, [False] * (T + 1)
    cond = _make_cond(case, config, thr)
    S.take_events()
    tt, out = fdtdx.run_fdtd(arrays, obj, config, stopping_condition=cond, show_progress=False)
    ev = S.take_events()
    halt = int(tt)
    nf = sum(1 for e in ev if e["ev"] == "fwd")
    h = min(max(halt, 0), T)
    vals = [H.field_fp(out.fields.E), fps[h][0], H.field_fp(out.fields.H), fps[h][1], H.det_fp(out.detector_states), fps[h][2]]
    # scale = sum |x||w| (rounding-noise scale of the functional), float32 run: tolerance 2e-5 of that scale
    mE, mH, mD = H.field_scale(out.fields.E), H.field_scale(out.fields.H), H.det_scale(out.detector_states)
    sc = lambda v, m: int(round(1e8 * v / m)) if m > 0 else 0  # noqa: E731
    rec = dict(case)
    rec.pop("frac")
    rec.update({"conv": conv, "halt": halt, "nfwd": nf, "fpE": sc(vals[0], mE), "pfpE": sc(vals[1], mE), "fpH": sc(vals[2], mH), "pfpH": sc(vals[3], mH),
                "fpD": sc(vals[4], mD), "pfpD": sc(vals[5], mD), "tol": 2000, "n_conv_true": sum(conv)})
    return rec


def classify(rec, verdict):
    return "malformed" if verdict.startswith("malformed") else "violation"
