"""C08 - The solver is equivariant under cyclic permutation of the axes.
Spec: spec/AxisPerm.tla (+AxisPermDefs, SupercellDefs, RelNum); trace spec: spec/Trace_AxisPerm.tla.  DESIGN.md §5 C08.

One random scene (volume shape, slab with diagonal tensor material, boundary kind per face incl. PML, electric and
magnetic dipoles, a plane source with polarisation, raw FieldDetector / Poynting detector without co-location) is built
through the public pipeline in its three cyclic orientations; TLC checks b[pi(i)] = a[i] on the final fields and the raw
detector records of consecutive orientations."""
import math
import random

ID = "C08"
TRACE = ("Trace_AxisPerm", "Trace_AxisPerm.cfg")
CHUNK = 2
PARALLEL = 4
RES = 25e-9


def model_check(ctx):
    ctx.mc("AxisPerm", "MC_AxisPerm_q.cfg" if ctx.quick else "MC_AxisPerm_t.cfg",
           label="3x2x1 (thorough: 3x2x2, 4x3x2, 2x3x1) lattices, every boundary kind per axis, per-face absorbing-layer parameters on every open axis, 3 (thorough: all) source entries + dense state, diagonal and full symmetric 3x3 coefficient tensors")
    ctx.mc_negative("AxisPerm", "MC_AxisPerm_neg.cfg")    # layer-loop branch of axis y returns the wrong derivative pair
    ctx.mc_negative("AxisPerm", "MC_AxisPerm_neg6.cfg")   # per-face parameter table: the min_y entry reads min_x
    if not ctx.quick:
        ctx.mc_negative("AxisPerm", "MC_AxisPerm_neg4.cfg")   # tensor relabelling that permutes only the diagonal
        ctx.mc_negative("AxisPerm", "MC_AxisPerm_neg5.cfg")   # yz coupling averaged at the wrong location
        ctx.mc_negative("AxisPerm", "MC_AxisPerm_neg2.cfg")   # curl_y operand order
        ctx.mc_negative("AxisPerm", "MC_AxisPerm_neg3.cfg")   # PEC tangential table of the y faces
    ctx.assumptions += [
        "model: the CPML recursion is replaced by a memoryless correction kappa*derivative with the same per-axis index plumbing",
        "conformance: tolerance 1e-11 of the largest value of each compared array pair; detectors use exact_interpolation=False (co-location is excluded by the property)",
        "scenes are stepped eagerly with fdtdx.fdtd.forward.forward (record_detectors=True), the same step function run_fdtd iterates",
    ]


def pv(v):
    return [v[2], v[0], v[1]]


def pt(eps):
    """relabel a material entry: scalar, diagonal [ex,ey,ez] or full 3x3 tensor (pi acts on both indices)"""
    if not isinstance(eps, list):
        return eps
    if isinstance(eps[0], list):
        out = [[0.0] * 3 for _ in range(3)]
        for r in range(3):
            for c in range(3):
                out[(r + 1) % 3][(c + 1) % 3] = eps[r][c]
        return out
    return pv(eps)


def perm_scene(sc):
    """relabel x->y->z->x"""
    face = {"x": "y", "y": "z", "z": "x"}
    out = dict(sc)
    out["shape"] = pv(sc["shape"])
    out["bounds"] = {f[:4] + face[f[4]]: k for f, k in sc["bounds"].items()}
    out["faces"] = {f[:4] + face[f[4]]: dict(v) for f, v in sc.get("faces", {}).items()}     # per-face PML parameters travel with the face
    out["slabs"] = [dict(s, lo=pv(s["lo"]), hi=pv(s["hi"]), eps=pt(s["eps"]),
                         sigma=pv(s["sigma"]) if isinstance(s.get("sigma"), list) else s.get("sigma", 0.0)) for s in sc.get("slabs", [])]
    srcs = []
    for s in sc.get("sources", []):
        s = dict(s)
        if s["kind"] == "plane":
            s["axis"] = (s["axis"] + 1) % 3
            s["epol"] = pv(s["epol"])
        else:
            s["pos"] = pv(s["pos"])
            s["pol"] = (s["pol"] + 1) % 3
        srcs.append(s)
    out["sources"] = srcs
    dets = []
    for d in sc.get("detectors", []):
        d = dict(d, lo=pv(d["lo"]), hi=pv(d["hi"]))
        if "axis" in d:
            d["axis"] = (d["axis"] + 1) % 3
        dets.append(d)
    out["detectors"] = dets
    return out


def _full_tensor(rng):
    """full symmetric positive-definite permittivity tensor, all three couplings non-zero and distinct"""
    d = [round(rng.uniform(2.0, 3.5), 3) for _ in range(3)]
    xy, xz, yz = rng.sample([0.1, 0.2, 0.3, 0.15, 0.25, 0.35], 3)
    sg = [rng.choice([1, -1]) for _ in range(3)]
    xy, xz, yz = sg[0] * xy, sg[1] * xz, sg[2] * yz
    return [[d[0], xy, xz], [xy, d[1], yz], [xz, yz, d[2]]]


def _scene(rng, T, full=False, plane=None):
    """plane = (propagation axis of the base scene, polarisation mode, direction) or None (random, source optional).
    Polarisation modes: "p1" / "p2" = E along axis+1 / axis+2, "oblique" = both transverse components (random angle)."""
    shape = [rng.randint(5, 7) for _ in range(3)]
    bounds = {}
    plane_axis = rng.randrange(3) if plane is None else plane[0]
    for a, ax in enumerate("xyz"):
        r = rng.random()
        if a == plane_axis or r < 0.3:
            kmin = kmax = "pml"
            shape[a] = max(shape[a], 8)
            if a != plane_axis and rng.random() < 0.5:
                kmax = rng.choice(["pec", "pmc"])
        elif r < 0.55:
            kmin = kmax = "periodic"
        else:
            kmin, kmax = rng.choice(["pec", "pmc"]), rng.choice(["pec", "pmc", "pml"])
        bounds[f"min_{ax}"], bounds[f"max_{ax}"] = kmin, kmax
    # every absorbing layer gets its OWN parameters: thickness, sigma_end (around the library default for that
    # thickness), kappa_end, alpha_start - all different from face to face
    faces = {}
    for f, k in bounds.items():
        if k == "pml":
            th = rng.choice([2, 3])
            sig_default = 4.0 * math.log(1e6) / (2.0 * 376.730313668 * th * RES)
            faces[f] = {"thickness": th, "sigma_end": sig_default * rng.uniform(0.4, 1.6), "kappa_end": round(rng.uniform(1.0, 2.5), 3),
                        "alpha_start": 10 ** rng.uniform(-4, -1.5)}
    lo = [rng.randrange(0, n - 1) for n in shape]
    lo[plane_axis] = rng.randrange(4, shape[plane_axis] - 1)   # plane sources inside anisotropic materials are unsupported
    hi = [rng.randrange(l + 1, n + 1) for l, n in zip(lo, shape)]
    if full:   # at least 3 cells per axis so that the off-diagonal four-point averages act inside the medium
        lo = [min(l, n - 3) for l, n in zip(lo, shape)]
        hi = [max(h, l + 3) for h, l in zip(hi, lo)]
    if full:   # full 3x3 tensor (lossless): update_E takes the full anisotropic branch with off-diagonal averages
        slab = {"lo": lo, "hi": hi, "eps": _full_tensor(rng), "sigma": 0.0}
    else:
        slab = {"lo": lo, "hi": hi, "eps": [round(rng.uniform(1.2, 4.0), 3) for _ in range(3)], "sigma": rng.choice([0.0, 0.0, [50.0, 120.0, 300.0]])}
    inner = lambda: [rng.randrange(2, n - 2) for n in shape]
    epos = inner()
    if full:   # electric dipole inside the tensor medium
        epos = [min(max((l + h) // 2, 2), n - 3) for l, h, n in zip(lo, hi, shape)]
    sources = [{"kind": "dipole", "pos": epos, "pol": rng.randrange(3), "wl": 400e-9},
               {"kind": "mdipole", "pos": inner(), "pol": rng.randrange(3), "wl": 500e-9, "amp": 0.7}]
    if plane is not None or rng.random() < 0.7:
        mode, direction = (rng.choice(["p1", "p2", "oblique"]), rng.choice(["+", "-"])) if plane is None else plane[1:]
        epol = [0.0, 0.0, 0.0]
        if mode == "oblique":   # both transverse E (hence both transverse H) components in every orientation
            th = math.radians(rng.choice([1, -1]) * rng.uniform(20.0, 70.0))
            epol[(plane_axis + 1) % 3], epol[(plane_axis + 2) % 3] = round(math.cos(th), 6), round(math.sin(th), 6)
        else:
            epol[(plane_axis + (1 if mode == "p1" else 2)) % 3] = 1.0
        sources.append({"kind": "plane", "axis": plane_axis, "pos": 3, "dir": direction, "epol": epol, "wl": 450e-9})
    dlo = [rng.randrange(0, n - 2) for n in shape]
    dhi = [rng.randrange(l + 1, n + 1) for l, n in zip(dlo, shape)]
    pa = rng.randrange(3)
    plo, phi = [0, 0, 0], list(shape)
    plo[pa] = rng.randrange(1, shape[pa] - 1)
    phi[pa] = plo[pa] + 1
    dets = [{"kind": "field", "name": "fd", "lo": dlo, "hi": dhi, "exact": False, "switch": {"interval": 3}},
            {"kind": "poynting", "name": "pf", "lo": plo, "hi": phi, "axis": pa, "exact": False}]
    return {"shape": shape, "T": T, "res": RES, "cf": 0.99, "pml": 2, "bounds": bounds, "faces": faces, "slabs": [slab], "sources": sources, "detectors": dets}


def gen_cases(ctx):
    rng = random.Random(ctx.seed * 104729 + 8)
    ctx.exhaustive = False
    # Every scene has a plane source.  Over each block of four scenes the base propagation axis cycles through x, y, z,
    # the polarisation is oblique (both transverse components) twice and along axis+1 / axis+2 once each, and the
    # direction alternates (the phase of all three cycles moves with the seed): since the three orientations of a scene
    # turn (axis, polarisation) into every cyclic image, every row of the per-component Yee offset / timing tables
    # (E_p and H_p for x-, y- and z-propagation, both directions over the seeds) is exercised in some orientation.
    modes = ["oblique", "p2", "oblique", "p1"]
    for n in range(4 if ctx.quick else 30):
        full = n % 2 == 1     # every second scene carries a full symmetric 3x3 permittivity tensor
        plane = ((n + ctx.seed) % 3, modes[(n + ctx.seed) % 4], "+" if (n + ctx.seed // 2) % 2 == 0 else "-")
        yield {"id": f"scene{n}-{'full3x3' if full else 'diag'}-{'xyz'[plane[0]]}{plane[2]}{plane[1]}", "scene": _scene(rng, 8, full, plane)}


def observe(case):
    import numpy as np

    from harness import rel_scene as RS

    runs = []
    sc = case["scene"]
    for r in range(3):
        obj, arrays, config = RS.build(sc)
        last = None
        for _, a in RS.step_forward(arrays, obj, config, sc["T"], record_detectors=True):
            last = a
        fd = np.asarray(last.detector_states["fd"]["fields"])   # (Ton, 6, *region)
        pf = np.asarray(last.detector_states["pf"]["poynting_flux"]).reshape(-1)
        runs.append((list(sc["shape"]), np.asarray(last.fields.E), np.asarray(last.fields.H), fd, pf))
        sc = perm_scene(sc)
    pairs = []

    def add(kind, N, a, b):
        s = RS.rel_scale(a, b)
        ea, _ = RS.enc_real(a, s)
        eb, _ = RS.enc_real(b, s)
        pairs.append({"kind": kind, "N": [int(x) for x in N], "a": ea, "b": eb})

    for r in (0, 1):
        (N, E, H, fd, pf), (_, E2, H2, fd2, pf2) = runs[r], runs[r + 1]
        add("E", N, E, E2)
        add("H", N, H, H2)
        reg = fd.shape[2:]
        for k in (0, fd.shape[0] - 1):
            add("detector record (E)", reg, fd[k, 0:3], fd2[k, 0:3])
            add("detector record (H)", reg, fd[k, 3:6], fd2[k, 3:6])
        s = RS.rel_scale(pf, pf2)
        pairs.append({"kind": "scalar", "N": [1, 1, 1], "a": RS.enc_real(pf, s)[0], "b": RS.enc_real(pf2, s)[0]})
    return {"id": case["id"], "tol": 10, "pairs": pairs, "shape": "x".join(map(str, runs[0][0])),
            "bounds": ",".join(f"{k}={v}" for k, v in sorted(case["scene"]["bounds"].items()))}


def classify(rec, verdict):
    return "malformed" if verdict.startswith("malformed") else "violation"
