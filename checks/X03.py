"""X03 - Array export paths keep the documented layout (spec growth beyond the 43 listed properties).
Spec: spec/Export.tla, spec/ExportProgress.tla (+ExportDefs), trace spec: spec/Trace_Export.tla.  notes/X03.md.

Rules a user relies on:
  (1) vti   export_vti / export_vtr write each array x-fastest with interleaved components (position
            c + nc*(i + nx*(j + ny*k))), block headers / offsets / extents / spacing are consistent, a VTK reader
            gets the array back, and the block is anchored at the physical coordinate of its first cell;
  (2) stl   export_stl meshes exactly the exposed voxel faces: two tiling triangles per exposed face, no internal
            faces, vertices on the scaled voxel lattice, normals outward, closed + consistently oriented, and
            watertight whenever no two voxels touch along an edge only;
  (3) prog  the time-loop progress reporter issues one report per executed step on the 1-2-5 interval grid with
            positions relative to the segment start (step_offset), then the closing report (total, total).

Conformance: the REAL exporters write files under /tmp/gx3, a small reader in this module decodes the bytes
(XML header + appended zlib blocks; binary STL) WITHOUT reordering anything, and TLC evaluates every rule on the
integers (Trace_Export.tla)."""
import itertools
import os
import random
import shutil
import struct
import zlib

ID = "X03"
TRACE = ("Trace_Export", "Trace_Export.cfg")
CHUNK = 110
PARALLEL = 4
SCRATCH = "/tmp/gx3"

DTYPES = ["int8", "uint8", "int16", "uint16", "int32", "uint32", "int64", "uint64", "float32", "float64"]
VTK2NP = {"Int8": "i1", "UInt8": "u1", "Int16": "<i2", "UInt16": "<u2", "Int32": "<i4", "UInt32": "<u4", "Int64": "<i8", "UInt64": "<u8",
          "Float32": "<f4", "Float64": "<f8"}
Q = 1024  # header floats are sent in units of 2^-10


def model_check(ctx):
    if os.environ.get("VERIF_SKIP_MC") == "1":  # development knob
        return
    q = ctx.quick
    from concurrent.futures import ThreadPoolExecutor

    jobs = [
        lambda: ctx.mc("Export", "MC_Export_q.cfg" if q else "MC_Export_t.cfg", workers=6 if q else "auto",
                       label=("vti: every shape (1..3)^3 x {plain 3-D array, 1, 2, 3 components}, labelled arrays, Flatten then Parse;  "
                              "stl: every boolean mask on every shape (1..2)^3 plus all masks with <= %s filled or <= %s empty voxels on %s, voxel size %s, "
                              "Triangulate then Parse") % ((2, 2, "3x3x2", "(2,3,4)") if q else (3, 3, "3x3x2, 3x2x2, 2x3x3, 3x1x3, 1x3x2, 3x3x3", "(1,1,1) and (2,3,4)"))),
        lambda: ctx.mc("ExportProgress", "MC_ExportProgress_q.cfg" if q else "MC_ExportProgress_t.cfg", workers=4 if q else "auto",
                       label="progress reporter: every segment start in 0..%d x length 0..%d, one Step per executed time step then Close" % ((25, 45) if q else (120, 230))),
    ]
    # negative instances (each must be rejected by TLC):
    #   neg  z-fastest (C order) flattening        neg2 internal faces emitted          neg3 one triangle per face
    #   neg4 "face-connected => watertight" asserted (NOT a theorem: pinched edges)     neg5 winding flipped on one side
    #   neg6 components stored plane by plane instead of interleaved
    for cfg in ("MC_Export_neg.cfg", "MC_Export_neg2.cfg", "MC_Export_neg3.cfg", "MC_Export_neg4.cfg", "MC_Export_neg5.cfg", "MC_Export_neg6.cfg"):
        jobs.append(lambda cfg=cfg: ctx.mc_negative("Export", cfg, workers=2))
    #   neg  step_offset not subtracted            neg2 no closing report
    for cfg in ("MC_ExportProgress_neg.cfg", "MC_ExportProgress_neg2.cfg"):
        jobs.append(lambda cfg=cfg: ctx.mc_negative("ExportProgress", cfg, workers=2))
    if q:       # ten short TLC runs: JVM start-up dominates, run them side by side
        with ThreadPoolExecutor(max_workers=5) as ex:
            for f in [ex.submit(j) for j in jobs]:
                f.result()
    else:
        for j in jobs:
            j()
    ctx.assumptions += [
        "VTK semantics are taken from the VTK XML file format: cells x-fastest, components of a tuple interleaved, appended blocks "
        "[#blocks, block size, last block size, compressed size][zlib data] with header_type UInt32, point i of an ImageData at Origin + i*Spacing with i running over the extent",
        "the harness's reader decodes bytes in file order and never reorders; the unflattening is done by TLC (ExportDefs!VtkCell)",
        "values are small distinct integers (exactly representable in all ten supported dtypes); header floats are dyadic so that the printed decimal strings are exact",
        "stl: masks are numpy bool arrays (documented input); voxel sizes are positive integers; the surface rules are evaluated on the returned trimesh mesh AND on the binary STL file read back",
        "watertightness is claimed exactly for solids without two voxels touching along an edge only; TLC shows that face-connectedness alone is not sufficient",
        "progress: the tqdm bar itself is not observed (show_progress=False with a progress_callback); io_callback ordering is JAX's",
    ]


# ---------------------------------------------------------------- inputs
def _vti_case(k, s, arrays, seed, **kw):
    c = {"id": k, "kind": "vti", "fmt": "vti", "s": list(s), "arrays": arrays, "seed": seed, "level": -1, "res": 1.0, "via": "plain",
         "off": [0, 0, 0], "e0": [0.0, 0.0, 0.0], "path": "str"}
    c.update(kw)
    return c


def gen_cases(ctx):
    rng = random.Random(ctx.seed)
    full = not ctx.quick
    n = 0
    # ---- vti: every shape (1..3)^3 x {plain, 1, 2, 3 components}
    libs = ("np", "jax", "np_f", "np_view")
    for s in itertools.product((1, 2, 3), repeat=3):
        for nc in (0, 1, 2, 3):
            n += 1
            yield _vti_case(f"vti-{n}-s{s}-nc{nc}".replace(" ", ""), s, [{"name": "a", "nc": nc, "dtype": DTYPES[n % 10], "lib": libs[(n // 3) % 4]}],
                            rng.randrange(1 << 30), level=(-1, 0, 9)[n % 3], res=(1.0, 0.5, 0.25, 2.0)[n % 4], path=("str", "Path")[n % 2])
    # ---- several arrays in one file, mixed dtypes / component counts; larger seeded shapes
    for i in range(8 if not full else 40):
        s = [rng.randint(1, 5) for _ in range(3)]
        arrs = [{"name": f"f{j}", "nc": rng.choice((0, 0, 1, 3, 4, 6)), "dtype": rng.choice(DTYPES), "lib": rng.choice(libs)} for j in range(rng.choice((2, 3, 4)))]
        while max(a["nc"] or 1 for a in arrs) * s[0] * s[1] * s[2] > 126:      # labels must fit int8
            s[rng.randrange(3)] = 1
        yield _vti_case(f"vti-multi-{i}", s, arrs, rng.randrange(1 << 30), level=rng.choice((-1, 0, 9)), res=rng.choice((1.0, 0.125, 4.0)))
    # ---- the snapshot convenience wrapper (permittivity = 1/inv, E, H, optional permeability / conductivities)
    for i in range(2 if not full else 6):
        yield _vti_case(f"vti-snapshot-{i}", [rng.randint(1, 3) for _ in range(3)], [], rng.randrange(1 << 30), via="snapshot", res=0.5, mu=bool(i % 2), sigma=bool((i // 2 + i) % 2))
    # ---- grid given, offset 0: Origin must be the coordinate of grid edge 0, Spacing the grid's spacing
    for i in range(3 if not full else 8):
        s = [rng.randint(1, 3) for _ in range(3)]
        yield _vti_case(f"vti-grid0-{i}", s, [{"name": "a", "nc": rng.choice((0, 3)), "dtype": "float32", "lib": "np"}], rng.randrange(1 << 30), via="grid",
                        res=rng.choice((0.5, 0.25)), e0=[rng.choice((-1.5, 0.0, 2.0)) for _ in range(3)], gextra=[rng.randint(0, 2) for _ in range(3)])
    # ---- blocks placed inside a larger grid: offset=, grid_slice=, grid= (+ offset / slice)
    k = 0
    for via in ("offset", "slice", "grid_offset", "grid_slice"):
        for i in range(2 if not full else 5):
            k += 1
            s = [rng.randint(1, 3) for _ in range(3)]
            off = [rng.randint(0, 3) for _ in range(3)]
            if i == 0:
                off[rng.randrange(3)] = rng.randint(1, 3)
            yield _vti_case(f"vti-anchor-{k}-{via}", s, [{"name": "a", "nc": rng.choice((0, 2)), "dtype": rng.choice(("float64", "int32")), "lib": "jax"}],
                            rng.randrange(1 << 30), via=via, off=off, res=rng.choice((0.5, 1.0, 2.0)),
                            e0=[rng.choice((-1.0, 0.0, 0.5)) for _ in range(3)] if via.startswith("grid") else [0.0, 0.0, 0.0], gextra=[rng.randint(0, 2) for _ in range(3)])
    # ---- vtr (rectilinear): same block encoding, explicit coordinates
    for i in range(4 if not full else 12):
        s = [rng.randint(1, 3) for _ in range(3)]
        off = [rng.randint(0, 2) for _ in range(3)] if i % 2 else [0, 0, 0]
        edges = []
        for a in range(3):
            x, e = rng.choice((-2.0, 0.0, 0.25)), []
            for _ in range(off[a] + s[a] + rng.randint(0, 2) + 1):
                e.append(x)
                x += rng.choice((0.25, 0.5, 1.0, 1.5))
            edges.append(e)
        yield _vti_case(f"vtr-{i}", s, [{"name": "a", "nc": rng.choice((0, 3)), "dtype": rng.choice(DTYPES), "lib": rng.choice(libs)},
                                         {"name": "b", "nc": 0, "dtype": "float32", "lib": "jax"}][: 1 + i % 2],
                        rng.randrange(1 << 30), fmt="vtr", via="slice" if i % 2 else "plain", off=off, edges=edges)

    # ---- stl: every mask on every shape (1..2)^3
    n = 0
    for s in itertools.product((1, 2), repeat=3):
        cells = list(itertools.product(*(range(v) for v in s)))
        for bits in range(1 << len(cells)):
            n += 1
            filled = [list(c) for j, c in enumerate(cells) if bits >> j & 1]
            yield {"id": f"stl-{n}-s{s}-m{bits}".replace(" ", ""), "kind": "stl", "s": list(s), "filled": filled, "scale": [(1, 1, 1), (2, 3, 4), (3, 1, 2)][n % 3],
                   "file": n % 2 == 0 or len(filled) == 0, "path": ("str", "Path")[n % 2], "lib": ("np", "jax", "np_f")[n % 5 % 3]}
    # ---- 3x3x2: all masks with <= 2 filled or <= 2 empty voxels (quick: a seeded third of them), thorough also <= 3
    cells = list(itertools.product(range(3), range(3), range(2)))
    K = 2 if not full else 3
    small = [c for r in range(K + 1) for c in itertools.combinations(cells, r)]
    fam = [("few", list(c)) for c in small] + [("holes", [x for x in cells if x not in c]) for c in small]
    if not full:
        ctx.exhaustive = False
        fam = rng.sample(fam, len(fam) // 3)
    for kind, filled in fam:
        n += 1
        yield {"id": f"stl-{n}-332-{kind}", "kind": "stl", "s": [3, 3, 2], "filled": [list(c) for c in filled], "scale": [(1, 1, 1), (2, 3, 4), (1, 5, 2)][n % 3],
               "file": n % 4 == 0, "path": "str", "lib": ("np", "np_f", "jax")[n % 7 % 3]}
    # ---- seeded random masks on larger shapes
    for i in range(16 if not full else 120):
        s = [rng.randint(1, 4) for _ in range(3)]
        p = rng.choice((0.2, 0.5, 0.8))
        filled = [list(c) for c in itertools.product(*(range(v) for v in s)) if rng.random() < p]
        yield {"id": f"stl-rand-{i}", "kind": "stl", "s": s, "filled": filled, "scale": [rng.randint(1, 4) for _ in range(3)], "file": i % 2 == 0, "path": "Path", "lib": ("jax", "np", "np_f")[i % 3]}

    # ---- progress: the real helpers around a lax.while_loop
    totals = (0, 1, 2, 5, 19, 20, 21, 40, 41, 57, 100, 101, 250) if not full else tuple(range(0, 45)) + (57, 99, 100, 101, 199, 200, 201, 250, 399, 400, 401, 1000, 1001)
    starts = (0, 3, 7, 20, 33) if not full else (0, 1, 3, 7, 10, 20, 33, 50, 99, 100)
    i = 0
    for t in totals:
        for st in (starts if full else rng.sample(starts, 2) + [0]):
            i += 1
            yield {"id": f"prog-{i}-t{t}-s{st}", "kind": "prog", "via": "helpers", "start": st, "end": st + t, "cb": i % 7 != 3, "show": False}
    for i, (st, en) in enumerate(((0, 6), (4, 9), (3, 30)) if not full else ((0, 6), (4, 9), (3, 30), (7, 7), (10, 35), (0, 41))):
        yield {"id": f"prog-fdtd-{i}", "kind": "prog", "via": "custom_fdtd_forward", "start": st, "end": en, "cb": True, "show": False}
    yield {"id": "prog-run_fdtd", "kind": "prog", "via": "run_fdtd", "start": 0, "end": 23, "cb": True, "show": False}
    # ---- the interval rule itself
    tl = sorted(set(list(range(0, 260)) + [10**k * m + d for k in range(1, 7) for m in (1, 2, 4, 5, 10, 20) for d in (-1, 0, 1)] + [rng.randrange(1, 10**7) for _ in range(200)]))
    for i in range(0, len(tl), 200):
        yield {"id": f"nice-{i // 200}", "kind": "nice", "totals": tl[i:i + 200]}


# ---------------------------------------------------------------- observation
def _ints(a):
    import numpy as np

    a = np.asarray(a, dtype=np.float64)
    r = np.rint(a)
    dev = float(np.max(np.abs(a - r))) if a.size else 0.0
    return r.astype(np.int64).tolist(), int(min(10**9, round(dev * 1e9)))


def _q(vals):
    """floats -> ints in units of 2^-10, and whether that was exact"""
    out, exact = [], True
    for v in vals:
        x = float(v) * Q
        r = round(x)
        exact = exact and (x == r) and abs(r) < 2**30
        out.append(int(r) if abs(r) < 2**30 else 0)
    return out, exact


def _tmp(name):
    os.makedirs(SCRATCH, exist_ok=True)
    return os.path.join(SCRATCH, f"x03_{os.getpid()}_{name}")


def _make_array(spec, s, rng):
    """distinct small integers; returns (array handed to the exporter, nested list [c][i][j][k])"""
    import numpy as np

    nc = spec["nc"]
    shape = tuple(s) if nc == 0 else (nc, *s)
    n = int(np.prod(shape))
    vals = rng.permutation(n) + 1
    if spec["dtype"][0] in "if":
        vals = vals * rng.choice([-1, 1], size=n)
    base = vals.reshape(shape).astype(spec["dtype"])
    lib = spec["lib"]
    if lib == "jax":
        import jax.numpy as jnp

        arr = jnp.asarray(base)
    elif lib == "np_f":
        arr = np.asfortranarray(base)
    elif lib == "np_view":      # non-contiguous view into a larger buffer
        big = np.zeros(tuple(2 * d for d in shape), dtype=base.dtype)
        view = big[tuple(slice(None, None, 2) for _ in shape)]
        view[...] = base
        arr = view
    else:
        arr = base
    x = base.reshape((1, *s) if nc == 0 else shape).astype(np.int64).tolist()
    return arr, x


def _read_vtk(path, fmt):
    """Minimal reader of the VTK XML appended-raw layout: attributes + blocks, bytes in file order."""
    import xml.etree.ElementTree as ET

    import numpy as np

    raw = open(path, "rb").read()
    i = raw.index(b"<AppendedData")
    j = raw.index(b"_", raw.index(b">", i)) + 1
    root = ET.fromstring(raw[:i] + b"</VTKFile>")
    footer = b"\n</AppendedData>\n</VTKFile>"
    data = raw[j:]
    tag = "ImageData" if fmt == "vti" else "RectilinearGrid"
    g = root.find(tag)
    out = {"ftype": root.get("type", ""), "byte_order": root.get("byte_order", ""), "header_type": root.get("header_type", ""), "compressor": root.get("compressor", ""),
           "has_grid": g is not None}
    if g is None:
        g = root[0]
    pieces = g.findall("Piece")
    out["npieces"] = len(pieces)
    out["whole"] = [int(v) for v in g.get("WholeExtent", "").split()]
    out["piece"] = [int(v) for v in pieces[0].get("Extent", "").split()]
    exact = True
    if fmt == "vti":
        out["spacing_q"], e1 = _q(g.get("Spacing").split())
        out["origin_q"], e2 = _q(g.get("Origin").split())
        exact = e1 and e2
    else:
        cq = []
        for da in pieces[0].find("Coordinates").findall("DataArray"):
            v, e = _q((da.text or "").split())
            cq.append(v)
            exact = exact and e and da.get("format") == "ascii"
        out["coords_q"] = cq
    out["exact"] = exact
    arrs = []
    das = pieces[0].find("CellData").findall("DataArray")
    for n, da in enumerate(das):
        off = int(da.get("offset"))
        chunk = data[off:]
        hdr = list(struct.unpack("<4I", chunk[:16])) if len(chunk) >= 16 else [0, 0, 0, 0]
        d = zlib.decompressobj()
        try:
            body = d.decompress(chunk[16:]) + d.flush()
            consumed = len(chunk) - 16 - len(d.unused_data)
        except zlib.error:
            body, consumed = b"", -1
        npd = VTK2NP.get(da.get("type", ""))
        if npd is not None and len(body) % np.dtype(npd).itemsize == 0:
            flat, dev = _ints(np.frombuffer(body, dtype=npd))
        else:
            flat, dev = [], 0
        a = {"name_attr": da.get("Name", ""), "ncomp_attr": int(da.get("NumberOfComponents", "-1")), "type_attr": da.get("type", ""), "format": da.get("format", ""),
             "off_attr": off, "hdr": [int(h) if h < 2**31 else -1 for h in hdr], "consumed": consumed, "nbytes": len(body), "flat": flat, "dev": dev}
        if n == len(das) - 1:
            out["tail_ok"] = consumed >= 0 and data[off + 16 + consumed:] == footer
        arrs.append(a)
    out["arrays"] = arrs
    return out


def _observe_vti(case):
    import pathlib
    import types

    import numpy as np

    from fdtdx.conversion.vti import export_arrays_snapshot_to_vti, export_vti, export_vtr
    from fdtdx.core.grid import RectilinearGrid

    rng = np.random.default_rng(case["seed"])
    s, off, fmt, via = case["s"], case["off"], case["fmt"], case["via"]
    rec = {"id": case["id"], "kind": "vti", "fmt": fmt, "via": via, "s": s, "off": off, "raised": False, "err": "", "anchor_case": any(off)}
    path = _tmp(case["id"] + "." + fmt)
    fn = pathlib.Path(path) if case["path"] == "Path" else path
    metas, cell = [], {}
    if via == "snapshot":
        k = int(rng.integers(1, 4))
        E, xE = _make_array({"nc": 3, "dtype": "float32", "lib": "jax"}, s, rng)
        H, xH = _make_array({"nc": 3, "dtype": "float32", "lib": "jax"}, s, rng)
        import jax.numpy as jnp

        inv = jnp.full((3, *s), 2.0 ** -k, dtype=jnp.float32)
        ns = types.SimpleNamespace(inv_permittivities=inv, fields=types.SimpleNamespace(E=E, H=H), inv_permeabilities=1.0, electric_conductivity=None, magnetic_conductivity=None)
        const = lambda v: np.full((3, *s), v, dtype=np.int64).tolist()
        metas = [{"name": "permittivity", "nc": 3, "dtype": "float32", "x": const(2 ** k)}, {"name": "E", "nc": 3, "dtype": "float32", "x": xE}, {"name": "H", "nc": 3, "dtype": "float32", "x": xH}]
        if case.get("mu"):
            ns.inv_permeabilities = jnp.full((3, *s), 0.5, dtype=jnp.float32)
            metas.append({"name": "permeabilities", "nc": 3, "dtype": "float32", "x": const(2)})
        if case.get("sigma"):
            se, xse = _make_array({"nc": 3, "dtype": "float32", "lib": "jax"}, s, rng)
            sm, xsm = _make_array({"nc": 3, "dtype": "float32", "lib": "jax"}, s, rng)
            ns.electric_conductivity, ns.magnetic_conductivity = se, sm
            metas += [{"name": "electric_conductivity", "nc": 3, "dtype": "float32", "x": xse}, {"name": "magnetic_conductivity", "nc": 3, "dtype": "float32", "x": xsm}]
    else:
        for sp in case["arrays"]:
            arr, x = _make_array(sp, s, rng)
            cell[sp["name"]] = arr
            metas.append({"name": sp["name"], "nc": sp["nc"], "dtype": sp["dtype"], "x": x})
    res = float(case["res"])
    try:
        if fmt == "vtr":
            import jax.numpy as jnp

            grid = RectilinearGrid(x_edges=jnp.asarray(case["edges"][0]), y_edges=jnp.asarray(case["edges"][1]), z_edges=jnp.asarray(case["edges"][2]))
            sl = tuple(slice(o, o + n) for o, n in zip(off, s)) if via == "slice" else None
            export_vtr(cell, fn, grid, grid_slice=sl, compression_level=case["level"])
            rec["edges_q"] = [_q(e)[0] for e in case["edges"]]
        elif via == "snapshot":
            export_arrays_snapshot_to_vti(ns, fn, res)
        else:
            kw = {"compression_level": case["level"]}
            passed = res
            if via in ("offset", "grid_offset"):
                kw["offset"] = tuple(off)
            if via in ("slice", "grid_slice"):
                kw["grid_slice"] = tuple(slice(o, o + n) for o, n in zip(off, s))
            if via.startswith("grid"):
                gshape = tuple(o + n + e for o, n, e in zip(off, s, case["gextra"]))
                kw["grid"] = RectilinearGrid.uniform(shape=gshape, spacing=res, origin=tuple(case["e0"]))
                passed = 3.0        # must be overridden by the grid's spacing
            export_vti(cell, fn, passed, **kw)
    except Exception as ex:  # noqa: BLE001 - judged by the trace spec
        rec.update(raised=True, err=f"{type(ex).__name__}: {str(ex)[:160]}")
        if os.path.exists(path):
            os.remove(path)
        return rec
    try:
        got = _read_vtk(path, fmt)
    finally:
        os.remove(path)
    arrs = got.pop("arrays")
    if len(arrs) != len(metas):
        rec.update(raised=True, err=f"{len(arrs)} DataArrays for {len(metas)} exported arrays")
        return rec
    rec.update(got)
    rec["arrays"] = [dict(m, **a) for m, a in zip(metas, arrs)]
    if fmt == "vti":
        rec["res_q"] = _q([res])[0][0]
        rec["e0_q"] = _q(case["e0"])[0]
    return rec


def _observe_stl(case):
    import pathlib

    import numpy as np

    from fdtdx.conversion.stl import export_stl

    s = case["s"]
    m = np.zeros(tuple(s), dtype=bool)
    for p in case["filled"]:
        m[tuple(p)] = True
    mask01 = m.astype(int).tolist()
    lib = case.get("lib", "np")
    if lib == "jax":        # utils/logger.py hands `np.round(indices) == idx` of a jax array to export_stl
        import jax.numpy as jnp

        m = jnp.asarray(m)
    elif lib == "np_f":
        m = np.asfortranarray(m)
    rec = {"id": case["id"], "kind": "stl", "s": s, "m": mask01, "lib": lib, "scale": list(case["scale"]), "raised": False, "err": "", "tris": [], "has_file": bool(case["file"]),
           "ftris": [], "fnormals": [], "fcount": 0, "fsize_ok": True, "dev": 0, "n_filled": len(case["filled"])}
    path = _tmp(case["id"] + ".stl")
    try:
        if case["file"]:
            mesh = export_stl(m, pathlib.Path(path) if case["path"] == "Path" else path, tuple(case["scale"]))
        else:
            mesh = export_stl(m, voxel_grid_size=tuple(case["scale"]))
        v, f = np.asarray(mesh.vertices), np.asarray(mesh.faces)
        tri = v[f] if len(f) else np.zeros((0, 3, 3))
        rec["tris"], rec["dev"] = _ints(tri)
        if case["file"]:
            raw = open(path, "rb").read()
            cnt = struct.unpack("<I", raw[80:84])[0]
            rec["fcount"] = int(cnt)
            rec["fsize_ok"] = len(raw) == 84 + 50 * cnt
            nrec = (len(raw) - 84) // 50
            body = np.frombuffer(raw[84:84 + 50 * nrec], dtype=np.dtype([("n", "<f4", 3), ("v", "<f4", (3, 3)), ("a", "<u2")]))
            rec["ftris"], d2 = _ints(body["v"])
            rec["fnormals"], d3 = _ints(body["n"])
            rec["dev"] = max(rec["dev"], d2, d3)
    except Exception as ex:  # noqa: BLE001 - judged by the trace spec
        rec.update(raised=True, err=f"{type(ex).__name__}: {str(ex)[:160]}")
    finally:
        if os.path.exists(path):
            os.remove(path)
    return rec


_SCENE = {}


def _observe_prog(case):
    import jax
    import jax.numpy as jnp

    start, end = case["start"], case["end"]
    calls = []

    def pcb(a, b):
        calls.append([int(a), int(b)])

    cb = pcb if case["cb"] else None
    rec = {"id": case["id"], "kind": "prog", "via": case["via"], "start": start, "end": end, "total": end - start, "show": bool(case["show"]), "cb": bool(case["cb"]),
           "made": False, "interval": 0, "calls": [], "steps": 0, "raised": False, "err": ""}
    try:
        if case["via"] == "helpers":
            from fdtdx.core.progress import _make_pbar, _wrap_body_with_progress

            pbar = _make_pbar(show_progress=case["show"], total_steps=end - start, desc="x03", step_offset=start, progress_callback=cb)
            rec["made"] = pbar is not None
            rec["interval"] = int(pbar.update_interval) if pbar is not None else 0
            wrapped, close = _wrap_body_with_progress(lambda st: (st[0] + 1, st[1] + 1), pbar)

            def run():
                st = jax.lax.while_loop(lambda st: end > st[0], wrapped, (jnp.asarray(start, dtype=jnp.int32), jnp.asarray(0, dtype=jnp.int32)))
                close()
                return st

            st = jax.jit(run)()
            jax.block_until_ready(st)
            jax.effects_barrier()
            rec["steps"] = int(st[1])
        else:
            import fdtdx.core.progress as P
            from fdtdx.fdtd.fdtd import custom_fdtd_forward
            from harness.scenes import build_scene
            from loguru import logger

            logger.disable("fdtdx")
            if "s" not in _SCENE:
                _SCENE["s"] = build_scene({"shape": [3, 3, 3], "T": 45, "sources": [{"pos": [1, 1, 1]}]})
            obj, arrays, config = _SCENE["s"]
            made = []
            orig = P.SimulationProgressBar.__init__

            def spy(self, *a, **k):
                orig(self, *a, **k)
                made.append(self)

            P.SimulationProgressBar.__init__ = spy          # observe which reporter the entry point built (interval)
            try:
                if case["via"] == "custom_fdtd_forward":
                    st = custom_fdtd_forward(arrays, obj, config, jax.random.PRNGKey(0), reset_container=True, record_detectors=False, start_time=start, end_time=end,
                                             show_progress=case["show"], progress_callback=cb)
                    steps = int(st[0]) - start
                else:
                    import fdtdx

                    rec["end"], rec["total"] = int(config.time_steps_total), int(config.time_steps_total)
                    st = fdtdx.run_fdtd(arrays, obj, config, jax.random.PRNGKey(0), show_progress=case["show"], progress_callback=cb)
                    steps = int(st[0])
                jax.block_until_ready(st)
                jax.effects_barrier()
            finally:
                P.SimulationProgressBar.__init__ = orig
            rec["steps"] = steps
            rec["made"] = len(made) > 0
            rec["interval"] = int(made[-1].update_interval) if made else 0
    except Exception as ex:  # noqa: BLE001
        rec.update(raised=True, err=f"{type(ex).__name__}: {str(ex)[:200]}")
    rec["calls"] = calls
    return rec


def observe(case):
    k = case["kind"]
    if k == "vti":
        return _observe_vti(case)
    if k == "stl":
        return _observe_stl(case)
    if k == "prog":
        return _observe_prog(case)
    from fdtdx.core.progress import _auto_update_interval

    return {"id": case["id"], "kind": "nice", "totals": case["totals"], "got": [int(_auto_update_interval(t)) for t in case["totals"]]}


def classify(record, verdict):
    if verdict.startswith("malformed:"):
        return "malformed"
    if verdict.startswith("model:"):
        return "drift"
    return "violation"


def run(ctx):
    from lib.worker import pmap

    import threading

    # TLC on the specifications runs side by side with the observation of the real code
    mc_err = []

    def _mc():
        try:
            model_check(ctx)
        except BaseException as ex:  # noqa: BLE001 - re-raised below
            mc_err.append(ex)

    th = threading.Thread(target=_mc)
    th.start()
    inputs = list(gen_cases(ctx))
    # the FDTD-driven progress cases patch a class attribute while they run: keep them out of the thread pool
    par = [c for c in inputs if not (c["kind"] == "prog" and c["via"] != "helpers")]
    seq = [c for c in inputs if c["kind"] == "prog" and c["via"] != "helpers"]
    recs = pmap(__name__, "observe", par, procs=PARALLEL, mode="thread") + [observe(c) for c in seq]
    for kind in ("vti", "stl", "prog"):
        for r in [r for r in recs if r["kind"] == kind][:1]:
            ctx.sample({k: v for k, v in r.items() if k not in ("m", "tris", "ftris", "fnormals")} if kind != "vti" else
                       {k: (v if k != "arrays" else [{kk: vv for kk, vv in a.items() if kk not in ("x",)} for a in v]) for k, v in r.items()})
    th.join()
    if mc_err:
        raise mc_err[0]
    ctx.nontrivial = len(recs)
    ctx.extra_cov["cases_by_kind"] = {k: sum(1 for r in recs if r["kind"] == k) for k in ("vti", "stl", "prog", "nice")}
    ctx.extra_cov["stl_triangles_checked"] = sum(len(r["tris"]) + len(r["ftris"]) for r in recs if r["kind"] == "stl")
    ctx.extra_cov["vti_values_checked"] = sum(len(a["flat"]) for r in recs if r["kind"] == "vti" and not r["raised"] for a in r["arrays"])
    ctx.extra_cov["progress_reports_checked"] = sum(len(r["calls"]) for r in recs if r["kind"] == "prog")
    ctx.extra_cov["vti_cases_with_nonzero_offset"] = sum(1 for r in recs if r["kind"] == "vti" and r.get("anchor_case"))
    try:
        ctx.validate(*TRACE, recs, {c["id"]: c for c in inputs}, classify=classify, chunk=CHUNK)
    finally:
        for f in os.listdir(SCRATCH) if os.path.isdir(SCRATCH) else []:
            if f.startswith(f"x03_{os.getpid()}_"):
                shutil.rmtree(os.path.join(SCRATCH, f), ignore_errors=True) if os.path.isdir(os.path.join(SCRATCH, f)) else os.remove(os.path.join(SCRATCH, f))
