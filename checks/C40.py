"""C40 - Functional updates never mutate their input (TreeClass.aset, fdtdx/core/jax/pytrees.py).
Spec: spec/Heap.tla (+HeapDefs), trace spec: spec/Trace_Heap.tla.  DESIGN.md §5 C40.

Conformance: for every shape of initial object that Heap.tla enumerates (same recursive definition, the number of
shapes is cross-checked against TLC's number of initial states) a REAL TreeClass object graph is built, aset is
called, and the Python object graph (structure + id() of every node) is snapshotted before and after the call.
Both snapshots go to TLC (Trace_Heap), which evaluates OrigUnchanged / OnlyPathChanged / SameType on them."""
import random
import re

ID = "C40"
TRACE = ("Trace_Heap", "Trace_Heap.cfg")
CHUNK = 300
BATCH = 4000

# ------------------------------------------------------------------ shapes (mirror of Heap.tla Shapes(d))
LEAF = ("leaf",)


def shapes(d, rich):
    if d == 0:
        return [LEAF]
    S = shapes(d - 1, rich)
    out = [LEAF]
    out += [("obj", "Outer", (("a", x), ("b", y))) for x in S for y in S]
    out += [("list", (x, y)) for x in S for y in S]
    out += [("dict", (("x", x),)) for x in S]
    if rich:
        out += [("obj", "Inner", (("p", x),)) for x in S]
        out += [("dict", (("x", x), ("y", y))) for x in S for y in S]
    return out


def roots(d, rich):
    """mirror of Heap.tla RootShapes: the receiver of aset is an object"""
    return [s for s in shapes(d, rich) if s[0] == "obj"]


def kids_of(s):
    """[(label, subshape)] of a shape; label = [ltype, name, idx] as in HeapDefs.tla"""
    k = s[0]
    if k == "obj" or k == "frz":
        return [(["attr", n, 0], c) for n, c in s[2]]
    if k == "list":
        return [(["idx", "", i], c) for i, c in enumerate(s[1])]
    if k in ("dict", "odict"):
        return [(["key", n, 0], c) for n, c in s[1]]
    return []  # leaves and tuples cannot be stepped through by aset


def paths_of(s):
    out = []
    for lab, c in kids_of(s):
        out.append([lab])
        out += [[lab] + p for p in paths_of(c)]
    return out


def child(s, lab):
    for l2, c in kids_of(s):
        if l2 == lab:
            return c
    raise KeyError(lab)


def neg_path(s, path):
    out = []
    for lab in path:
        if lab[0] == "idx":
            out.append(["idx", "", lab[2] - len(s[1])])
        else:
            out.append(lab)
        s = child(s, lab)
    return out


def subst_shape(s, path, v):
    """shape-level s[path := v]; a missing attribute / dict key at the last step is created (create_new_ok)"""
    if not path:
        return v
    lab = path[0]
    k = s[0]
    if k in ("obj", "frz"):
        kids = tuple((n, subst_shape(c, path[1:], v) if n == lab[1] else c) for n, c in s[2])
        if len(path) == 1 and all(n != lab[1] for n, _ in s[2]):
            kids += ((lab[1], v),)
        return (k, s[1], kids)
    if k == "list":
        return (k, tuple(subst_shape(c, path[1:], v) if i == lab[2] else c for i, c in enumerate(s[1])))
    kids = tuple((n, subst_shape(c, path[1:], v) if n == lab[1] else c) for n, c in s[1])
    if len(path) == 1 and all(n != lab[1] for n, _ in s[1]):
        kids += ((lab[1], v),)
    return (k, kids)


def node_at(s, path):
    for lab in path:
        s = child(s, lab)
    return s


def new_slot_paths(s):
    """mirror of Heap.tla NewSlotPaths: a new attribute of every object / a new key of every dict on the way (root included)"""
    out = []
    for p in [[]] + paths_of(s):
        k = node_at(s, p)[0]
        if k in ("obj", "frz"):
            out.append(p + [["attr", "_new", 0]])
        elif k in ("dict", "odict"):
            out.append(p + [["key", "new", 0]])
    return out


VAL_LEAF = ("leaf9",)
VAL_LIST = ("list", (("leaf9",),))
VALUES = [VAL_LEAF, VAL_LIST]


def to_json(s):
    return [to_json(x) if isinstance(x, tuple) else x for x in s]


def from_json(s):
    return tuple(from_json(x) if isinstance(x, list) else x for x in s)


def path_str(path):
    parts = []
    for lt, name, idx in path:
        parts.append(name if lt == "attr" else f"[{idx}]" if lt == "idx" else f"['{name}']")
    return "->".join(parts)


# ------------------------------------------------------------------ model checking
def _init_count(r):
    m = re.search(r"Finished computing initial states: (\d+) (?:distinct )?states generated", r.out)
    return int(m.group(1)) if m else -1


def model_check(ctx):
    from lib.tlc import MachineryError

    # (cfg, depth, rich alphabet, number of aliasing variants, label)
    if ctx.quick:
        runs = [("MC_Heap_q.cfg", 3, False, 1, "all objects of depth<=3 (attr/list/dict mixed), every path to an existing slot and every new attribute / new dict key (create_new_ok), 1 update, the code's copy discipline"),
                ("MC_Heap_q2.cfg", 2, True, 2, "rich alphabet depth<=2, aliased and unaliased, +negative indices, existing and new slots, 2 updates on any held root, path copying")]
    else:
        runs = [("MC_Heap_t.cfg", 3, False, 2, "all trees of depth<=3, aliased and unaliased, +negative indices, every sequence of 2 updates on any held root"),
                ("MC_Heap_t2.cfg", 3, True, 2, "rich alphabet depth<=3, aliased and unaliased, 1 update, path copying"),
                ("MC_Heap_q2.cfg", 2, True, 2, "rich alphabet depth<=2, 2 updates, path copying")]
    for cfg, d, rich, nshare, label in runs:
        r = ctx.mc("Heap", cfg, workers=6, label=label, heap_gb=8)
        want = len(roots(d, rich)) * nshare
        got = _init_count(r)
        if got != want:
            raise MachineryError(f"harness enumerates {want} initial objects for {cfg}, TLC computed {got}: shape enumerations differ")
    ctx.mc_negative("Heap", "MC_Heap_neg.cfg", workers=2)     # list step without the copy
    ctx.mc_negative("Heap", "MC_Heap_neg3.cfg", workers=2)    # lookup of a missing final key inserts a default into the caller's dict
    if not ctx.quick:
        ctx.mc_negative("Heap", "MC_Heap_neg2.cfg", workers=2)  # attribute set on the caller's object
    ctx.assumptions += [
        "object graphs are acyclic (configuration objects); leaves are compared by value, containers by id() and contents",
        "paths through tuples are outside the claim (aset documents attributes, list indices and dict keys)",
        "create_new_ok=True may create an attribute or a dict key as the LAST step (no list append in the API); paths through a missing slot may raise, the original must stay unchanged",
    ]


# ------------------------------------------------------------------ case generation
def _case(cid, shape, share, ops, special=""):
    return {"id": cid, "shape": to_json(shape), "share": share, "ops": ops, "special": special}


def _op(root, path, value, create_new=False, invalid=False):
    return {"root": root, "path": path, "value": to_json(value), "create_new": create_new, "invalid": invalid}


def _specials():
    L, O = LEAF, "Outer"
    out = []
    # frozen_field holding containers (getattr unfreezes, setattr freezes again)
    frz = ("frz", "Frz", (("f", ("list", (L, ("dict", (("k", L),))))), ("g", L)))
    for p in ([["attr", "f", 0], ["idx", "", 0]], [["attr", "f", 0], ["idx", "", 1], ["key", "k", 0]], [["attr", "f", 0]], [["attr", "g", 0]]):
        out.append(_case("frozen-" + path_str(p), frz, False, [_op(0, p, VAL_LEAF)], "frozen"))
    nested_frz = ("obj", O, (("a", frz), ("b", ("list", (frz, L)))))
    for p in ([["attr", "a", 0], ["attr", "f", 0], ["idx", "", -1], ["key", "k", 0]], [["attr", "b", 0], ["idx", "", 0], ["attr", "g", 0]]):
        for sh in (False, True):
            out.append(_case(f"frozen-nested-{int(sh)}-" + path_str(p), nested_frz, sh, [_op(0, p, VAL_LIST), _op(1, p, VAL_LEAF), _op(0, [["attr", "a", 0]], VAL_LEAF)], "frozen"))
    # ordered dict keeps its type; tuples and exotic leaves as bystanders
    od = ("obj", O, (("a", ("odict", (("x", L), ("y", ("list", (L, L)))))), ("b", ("tuple", (L, ("list", (L,)), ("arr",), ("str",), ("none",), ("float",))))))
    for p in ([["attr", "a", 0], ["key", "x", 0]], [["attr", "a", 0], ["key", "y", 0], ["idx", "", 1]], [["attr", "b", 0]], [["attr", "a", 0]]):
        out.append(_case("odict-" + path_str(p), od, False, [_op(0, p, VAL_LEAF), _op(1, p, ("arr",))], "odict/tuple/array"))
    od_x = ("odict", (("x", L),))
    od_y = ("odict", (("y", L),))
    top_od = ("obj", "Inner", (("p", ("list", (od_x, ("dict", (("x", od_y),))))),))
    for p in ([["attr", "p", 0], ["idx", "", 0], ["key", "x", 0]], [["attr", "p", 0], ["idx", "", -1], ["key", "x", 0], ["key", "y", 0]]):
        out.append(_case("odict2-" + path_str(p), top_od, False, [_op(0, p, VAL_LIST)], "odict/tuple/array"))
    # the value is an object, or a part of the receiver itself (aliasing through the value)
    base = ("obj", O, (("a", ("list", (("obj", "Inner", (("p", L),)), L))), ("b", ("dict", (("x", ("list", (L, L))),)))))
    out.append(_case("value-obj", base, False, [_op(0, [["attr", "b", 0], ["key", "x", 0], ["idx", "", 0]], ("obj", "Inner", (("p", ("leaf9",)),)))], "object value"))
    out.append(_case("value-alias", base, False, [{"root": 0, "path": [["attr", "b", 0], ["key", "x", 0], ["idx", "", 1]], "value_from": [["attr", "a", 0]], "create_new": False},
                                                  _op(1, [["attr", "a", 0], ["idx", "", 0], ["attr", "p", 0]], VAL_LEAF),
                                                  _op(1, [["attr", "b", 0], ["key", "x", 0], ["idx", "", 1], ["idx", "", 0], ["attr", "p", 0]], VAL_LIST)], "value aliases receiver"))
    # slots that do not exist yet (create_new_ok=True): reported as drift only
    out.append(_case("new-key", base, False, [_op(0, [["attr", "b", 0], ["key", "fresh", 0]], VAL_LEAF, True)], "create_new"))
    out.append(_case("new-attr", base, False, [_op(0, [["attr", "a", 0], ["idx", "", 0], ["attr", "_cache", 0]], VAL_LIST, True), _op(1, [["attr", "_top", 0]], VAL_LEAF, True)], "create_new"))
    out.append(_case("new-key-frozen", frz, False, [_op(0, [["attr", "f", 0], ["idx", "", 1], ["key", "fresh", 0]], VAL_LEAF, True)], "create_new"))
    demo = ("obj", O, (("a", ("frz", "Frz", (("f", ("dict", (("a", L), ("b", ("list", (L, L)))))), ("g", L)))), ("b", ("dict", (("r", ("dict", (("s", L),))),)))))
    out.append(_case("new-key-demo1", demo, False, [_op(0, [["attr", "a", 0], ["attr", "f", 0], ["key", "c", 0]], VAL_LEAF, True)], "create_new"))
    out.append(_case("new-key-demo2", demo, False, [_op(0, [["attr", "b", 0], ["key", "r", 0], ["key", "t", 0]], VAL_LEAF, True),
                                                    _op(1, [["attr", "b", 0], ["key", "r", 0], ["key", "t", 0]], VAL_LIST, True),
                                                    _op(0, [["attr", "b", 0], ["key", "r", 0], ["key", "t", 0], ["key", "u", 0]], VAL_LEAF, True, True)], "create_new"))
    # real fdtdx configuration objects
    for p in ([["attr", "recorder", 0], ["attr", "modules", 0], ["idx", "", 0], ["attr", "k", 0]],
              [["attr", "recorder", 0], ["attr", "modules", 0], ["idx", "", -1]],
              [["attr", "recorder", 0], ["attr", "_input_shape_dtypes", 0], ["key", "x", 0]],
              [["attr", "num_checkpoints", 0]]):
        out.append({"id": "fdtdx-gradcfg-" + path_str(p), "builder": "gradcfg", "share": False, "ops": [_op(0, p, VAL_LEAF), _op(1, p, ("float",))], "special": "real fdtdx object"})
    for p in ([["attr", "recorder", 0], ["attr", "_input_shape_dtypes", 0], ["key", "y", 0]], [["attr", "recorder", 0], ["attr", "_max_time_steps", 0]], [["attr", "_cache", 0]]):
        out.append({"id": "fdtdx-gradcfg-new-" + path_str(p), "builder": "gradcfg", "share": False, "ops": [_op(0, p, VAL_LEAF, True), _op(1, p, VAL_LIST, True)], "special": "real fdtdx object, create_new"})
    return out


def gen_cases(ctx):
    rng = random.Random(ctx.seed)
    quick = ctx.quick
    # A. rich alphabet, depth <= 2: every shape x aliasing x every path x both values (exhaustive)
    for si, s in enumerate(roots(2, True)):
        for share in (False, True):
            for pi, p in enumerate(paths_of(s)):
                for vi, v in enumerate(VALUES):
                    if quick and vi != (si + pi) % 2:
                        continue  # quick: one of the two values per (object, path), alternating; thorough: both
                    yield _case(f"A{si}-{int(share)}-{pi}-{vi}", s, share, [_op(0, p, v)])
    # B. base alphabet, depth 3 (the shapes of MC_Heap_q/t): thorough = every shape x every path, quick = seeded sample
    S3 = roots(3, False)
    S2 = roots(2, True)
    if quick:
        ctx.exhaustive = False
        for n in range(450):
            s = S3[rng.randrange(len(S3))]
            P = paths_of(s)
            if not P:
                continue
            p = P[rng.randrange(len(P))]
            if rng.random() < 0.3:
                p = neg_path(s, p)
            yield _case(f"B{n}", s, rng.random() < 0.5, [_op(0, p, VALUES[rng.randrange(2)])])
    else:
        for si, s in enumerate(S3):
            for share in (False, True):
                for pi, p in enumerate(paths_of(s)):
                    q = neg_path(s, p) if (si + pi) % 3 == 0 else p
                    yield _case(f"B{si}-{int(share)}-{pi}", s, share, [_op(0, q, VALUES[(si + pi) % 2])])
    # E. create_new_ok=True: a new attribute of every object / a new key of every dict (root included), mirror of NewSlotPaths
    for si, s in enumerate(roots(2, True)):
        for share in (False, True):
            for pi, p in enumerate(new_slot_paths(s)):
                for vi, v in enumerate(VALUES):
                    if quick and vi != (si + pi) % 2:
                        continue
                    yield _case(f"E{si}-{int(share)}-{pi}-{vi}", s, share, [_op(0, p, v, True)])
    for n in range(200 if quick else 6000):
        s = S3[rng.randrange(len(S3))]
        P = new_slot_paths(s)
        p = P[rng.randrange(len(P))]
        yield _case(f"E3-{n}", s, rng.random() < 0.5, [_op(0, neg_path(s, p[:-1]) + p[-1:] if rng.random() < 0.3 else p, VALUES[rng.randrange(2)], True)])
    # ... the flag on although the slot exists
    for n in range(100 if quick else 2000):
        s = S3[rng.randrange(len(S3))]
        P = paths_of(s)
        yield _case(f"Ex-{n}", s, rng.random() < 0.5, [_op(0, P[rng.randrange(len(P))], VALUES[rng.randrange(2)], True)])
    # F. paths THROUGH a slot that does not exist (with and without create_new_ok), or to a missing slot without the flag:
    #    aset may raise, the original must stay as it is
    for n in range(200 if quick else 3000):
        s = S3[rng.randrange(len(S3))] if rng.random() < 0.7 else S2[rng.randrange(len(S2))]
        P = new_slot_paths(s)
        p = P[rng.randrange(len(P))]
        kind = rng.randrange(3)
        if kind == 0:
            yield _case(f"F{n}", s, rng.random() < 0.5, [_op(0, p, VAL_LEAF, False, True)])
        else:
            tail = rng.choice(([["key", "z", 0]], [["attr", "q", 0]], [["idx", "", 0]], [["key", "z", 0], ["idx", "", 1]]))
            yield _case(f"F{n}", s, rng.random() < 0.5, [_op(0, p + tail, VAL_LEAF, kind == 1, True), _op(0, p, VAL_LIST, True)])
    # C. sequences of 2-3 updates on any held root
    S2 = roots(2, True)
    for n in range(400 if quick else 6000):
        s = S2[rng.randrange(len(S2))] if rng.random() < 0.6 else S3[rng.randrange(len(S3))]
        held = [s]
        ops = []
        for _ in range(rng.choice((2, 2, 3))):
            r = rng.randrange(len(held))
            create = rng.random() < 0.3
            P = new_slot_paths(held[r]) if create else paths_of(held[r])
            if not P:
                break
            p = P[rng.randrange(len(P))]
            if create and rng.random() < 0.5:  # a second new slot next to an earlier one
                p = p[:-1] + [[p[-1][0], p[-1][1] + str(len(ops)), 0]]
            v = VALUES[rng.randrange(2)]
            vshape = ("leaf",) if v == VAL_LEAF else ("list", (("leaf",),))
            if create and any(lab == p[-1] for lab, _ in kids_of(node_at(held[r], p[:-1]))):
                create = False  # the slot was created by an earlier call of this sequence: now an ordinary update
            held.append(subst_shape(held[r], p, vshape))
            ops.append(_op(r, p if create or rng.random() >= 0.25 else neg_path(held[r], p), v, create or rng.random() < 0.2))
        if ops:
            yield _case(f"C{n}", s, rng.random() < 0.5, ops)
    yield from _specials()


# ------------------------------------------------------------------ building real objects
_CLS = {}


def _classes():
    if not _CLS:
        from fdtdx.core.jax.pytrees import TreeClass, autoinit, field, frozen_field

        @autoinit
        class Outer(TreeClass):
            a: object = field(default=None)
            b: object = field(default=None)

        @autoinit
        class Inner(TreeClass):
            p: object = field(default=None)

        @autoinit
        class Frz(TreeClass):
            f: object = frozen_field(default=None)
            g: object = frozen_field(default=None)

        _CLS.update(Outer=Outer, Inner=Inner, Frz=Frz)
    return _CLS


class _Builder:
    def __init__(self, share):
        self.share = share
        self.memo = {}
        self.counter = 0

    def build(self, s):
        import collections

        if self.share and s in self.memo:
            return self.memo[s]
        k = s[0]
        if k == "leaf":
            if self.share:
                o = 1
            else:
                self.counter += 1
                o = self.counter
        elif k == "leaf9":
            o = 9
        elif k == "arr":
            import jax.numpy as jnp

            o = jnp.arange(3.0)
        elif k == "str":
            o = "text"
        elif k == "none":
            o = None
        elif k == "float":
            o = 2.5
        elif k in ("obj", "frz"):
            o = _classes()[s[1]](**{n: self.build(c) for n, c in s[2]})
        elif k == "list":
            o = [self.build(c) for c in s[1]]
        elif k == "tuple":
            o = tuple(self.build(c) for c in s[1])
        elif k == "dict":
            o = {n: self.build(c) for n, c in s[1]}
        elif k == "odict":
            o = collections.OrderedDict((n, self.build(c)) for n, c in s[1])
        else:
            raise ValueError(k)
        if self.share:
            self.memo[s] = o
        return o


def _build_gradcfg():
    import jax
    import jax.numpy as jnp
    from fdtdx.config import GradientConfig
    from fdtdx.interfaces.modules import DtypeConversion
    from fdtdx.interfaces.recorder import Recorder
    from fdtdx.interfaces.time_filter import LinearReconstructEveryK

    rec = Recorder(modules=[LinearReconstructEveryK(k=2), DtypeConversion(dtype=jnp.float32)])
    rec = rec.aset("_input_shape_dtypes", {"x": jax.ShapeDtypeStruct((2,), jnp.float32)}, create_new_ok=True)
    return GradientConfig(method="reversible", recorder=rec)


# ------------------------------------------------------------------ snapshots of the Python object graph
class _Numbering:
    def __init__(self):
        self.ids = {}
        self.keep = []  # keeps every object alive, so id() values are never reused
        self.leaves = {}

    def nid(self, o):
        k = id(o)
        if k not in self.ids:
            self.ids[k] = len(self.ids) + 1
            self.keep.append(o)
        return self.ids[k]

    def leafval(self, o):
        if isinstance(o, (bool, int)) and abs(int(o)) < 10**6:
            return int(o)
        try:
            import numpy as np

            key = ("arr", str(o.dtype), tuple(o.shape), np.asarray(o).tobytes()) if hasattr(o, "dtype") and hasattr(o, "shape") else (type(o).__name__, repr(o))
        except Exception:
            key = (type(o).__name__, repr(o))
        if key not in self.leaves:
            self.leaves[key] = 10**6 + len(self.leaves)
        return self.leaves[key]


def _snapshot(roots, num):
    """{node id: node record} of everything reachable from roots (HeapDefs.tla format)"""
    from fdtdx.core.jax.pytrees import TreeClass

    nodes = {}
    onstack = set()

    def visit(o):
        n = num.nid(o)
        if n in nodes:
            if n in onstack:
                raise RuntimeError("cyclic object graph")
            return n
        onstack.add(n)
        nodes[n] = None
        if isinstance(o, TreeClass):
            kind, kids = "obj", [(["attr", a, 0], getattr(o, a)) for a in vars(o)]
        elif isinstance(o, list):
            kind, kids = "list", [(["idx", "", i], c) for i, c in enumerate(o)]
        elif isinstance(o, tuple):
            kind, kids = "tuple", [(["idx", "", i], c) for i, c in enumerate(o)]
        elif isinstance(o, dict):
            kind, kids = "dict", [(["key", k if isinstance(k, str) else repr(k), 0], c) for k, c in o.items()]
        else:
            kind, kids = "leaf", []
        rec = {"kind": kind, "tag": type(o).__name__, "val": num.leafval(o) if kind == "leaf" else 0, "kids": [[lab, visit(c)] for lab, c in kids]}
        nodes[n] = rec
        onstack.discard(n)
        return n

    for r in roots:
        visit(r)
    return nodes


_FREE = {"kind": "free", "tag": "", "val": 0, "kids": []}


def observe(case):
    _classes()
    num = _Numbering()
    if case.get("builder") == "gradcfg":
        root = _build_gradcfg()
    else:
        root = _Builder(case["share"]).build(from_json(case["shape"]))
    held = [root]
    events = []
    for op in case["ops"]:
        if op["root"] >= len(held):
            break  # an earlier call raised (already recorded); the calls that depend on its result cannot be made
        recv = held[op["root"]]
        if "value_from" in op:
            val = recv
            for lt, name, idx in op["value_from"]:
                val = getattr(val, name) if lt == "attr" else val[idx] if lt == "idx" else val[name]
        else:
            val = _Builder(False).build(from_json(op["value"]))
        h0 = _snapshot(held + [val], num)
        raised, new, err = False, None, ""
        try:
            new = recv.aset(path_str(op["path"]), val, create_new_ok=bool(op.get("create_new")))
        except Exception as ex:  # the trace spec decides what a raise means
            raised, err = True, f"{type(ex).__name__}: {ex}"[:200]
        h1 = _snapshot(held + [val] + ([new] if not raised else []), num)
        events.append({"old": num.nid(recv), "new": 0 if raised else num.nid(new), "v": num.nid(val), "path": op["path"], "path_str": path_str(op["path"]),
                       "raised": raised, "error": err, "create_new": bool(op.get("create_new")), "invalid": bool(op.get("invalid")), "h0": h0, "h1": h1})
        if not raised:
            held.append(new)
    n = len(num.ids)
    for e in events:
        e["h0"] = [e["h0"].get(k, _FREE) for k in range(1, n + 1)]
        e["h1"] = [e["h1"].get(k, _FREE) for k in range(1, n + 1)]
    return {"id": case["id"], "n": n, "root0": num.nid(root), "events": events, "special": case.get("special", ""),
            "any_create_new": any(e["create_new"] for e in events)}


def classify(record, verdict):
    if verdict.startswith("malformed:"):
        return "malformed"
    # clauses beyond the property's own statement (calls with create_new_ok=True ARE part of the claim: the original
    # must not change, and only the addressed - possibly new - slot may differ in the result)
    if verdict.startswith(("held:", "value:", "fresh:", "model:")):
        return "drift"
    return "violation"


def run(ctx):
    model_check(ctx)
    seen = set()
    batch, inputs = [], {}
    total = 0

    def flush():
        nonlocal batch, inputs, total
        if not batch:
            return
        recs = [observe(c) for c in batch]
        if total == 0:
            for r in recs[:2]:
                ctx.sample({k: v for k, v in r.items()})
        total += len(recs)
        ctx.validate(*TRACE, recs, inputs, classify=classify, chunk=CHUNK, parallel=8)
        batch, inputs = [], {}

    for c in gen_cases(ctx):
        seen.add(c["id"])
        batch.append(c)
        inputs[c["id"]] = c
        if len(batch) >= BATCH:
            flush()
    flush()
    ctx.nontrivial = len(seen)
    ctx.extra_cov["aset_calls_validated"] = total
