"""C16 - Detector reductions are consistent with their spatial records.
Spec: spec/Reduce.tla (+ReduceDefs), trace spec: spec/Trace_Reduce.tla.  DESIGN.md §5 C16.

Conformance: the same integer fields are handed to the real `update` of really placed detectors that differ only
in the option an identity is about; TLC evaluates the identity on their outputs (exact integers)."""
import random

ID = "C16"
TRACE = ("Trace_Reduce", "Trace_Reduce.cfg")
CHUNK = 80
PARALLEL = 4

ALL6 = ["Ex", "Ey", "Ez", "Hx", "Hy", "Hz"]
FAMS = ["mean-field", "mean-phasor", "energy", "flux", "closed", "inverse"]


def model_check(ctx):
    ctx.mc("Reduce", "MC_Reduce_q.cfg" if ctx.quick else "MC_Reduce_t.cfg",
           label="region shapes (1..2)^3 x 3 width patterns (uniform and non-uniform, widths 1..3) x 4 integer test fields; identities between the modelled detector outputs")
    ctx.mc_negative("Reduce", "MC_Reduce_neg.cfg")  # unweighted mean
    ctx.mc_negative("Reduce", "MC_Reduce_neg2.cfg")  # closed surface adds the min faces
    ctx.assumptions += [
        "fields are handed to Detector.update already restricted to the region and co-located (co-location is C15)",
        "integer fields scaled by the total region volume (means), eps in {1,2,4} and mu in {1,2} (energy x2), phasors at omega*dt = pi/2 with 2 all-on steps: all outputs are exact integers in float64 (dev must be <= tol = 1 ppb)",
        "non-uniform grids: RectilinearGrid with integer cell widths in {1,2,3}; uniform: unresolved UniformGrid fallback path",
        "face fluxes of the closed-surface identity come from six real PoyntingFluxDetector(reduce_volume=True, fixed_propagation_axis=a) objects placed on the box faces",
    ]


def gen_cases(ctx):
    rng = random.Random(ctx.seed)
    ctx.exhaustive = False
    n_cases = 72 if ctx.quick else 900
    for k in range(n_cases):
        fam = FAMS[k % len(FAMS)]
        n = [rng.randint(1, 3) for _ in range(3)]
        if fam == "closed" and all(v == 1 for v in n):
            n[rng.randrange(3)] = 2
        case = {
            "id": f"r{k}-{fam}", "fam": fam, "n": n, "lo": [rng.randint(0, 5 - v) for v in n],
            "grid": rng.choice(["uniform", "rect", "rect", "rect"]),
            "widths": [[rng.randint(1, 3) for _ in range(5)] for _ in range(3)],
            "components": rng.sample(ALL6, rng.randint(1, 6)), "prop": rng.randrange(3),
            "axes": None if rng.random() < 0.6 else sorted(rng.sample([0, 1, 2], rng.randint(1, 3))),
            "mode": rng.choice(["continuous", "pulse"]), "seed": rng.randrange(1 << 30),
        }
        yield case


def _ints(a, scale=1.0):
    import numpy as np

    a = np.asarray(a, dtype=np.float64) * scale
    r = np.rint(a)
    mag = max(1.0, float(np.max(np.abs(a)))) if a.size else 1.0
    dev = float(np.max(np.abs(a - r))) / mag if a.size else 0.0
    return r.astype(np.int64).tolist(), int(min(10**9, round(dev * 1e9)))


def observe(case):
    import jax
    import jax.numpy as jnp
    import numpy as np
    import fdtdx
    from loguru import logger
    from fdtdx.objects.detectors.poynting_flux import ClosedSurfacePoyntingFluxDetector

    logger.disable("fdtdx")
    rng = np.random.default_rng(case["seed"])
    fam, n, lo = case["fam"], case["n"], case["lo"]
    T = 2
    cf = 0.5 * 3**0.5
    if case["grid"] == "uniform":
        grid = fdtdx.UniformGrid(spacing=1.0)
        widths_full = [[1] * 5 for _ in range(3)]
    else:
        widths_full = case["widths"]
        edges = [np.concatenate([[0.0], np.cumsum(w)]).astype(np.float64) for w in widths_full]
        grid = fdtdx.RectilinearGrid(x_edges=jnp.asarray(edges[0]), y_edges=jnp.asarray(edges[1]), z_edges=jnp.asarray(edges[2]))
    dt = fdtdx.SimulationConfig(time=1.0, grid=grid, backend="cpu", dtype=jnp.float64, courant_factor=cf).time_step_duration
    cfg = fdtdx.SimulationConfig(time=T * dt, grid=grid, backend="cpu", dtype=jnp.float64, courant_factor=cf)
    assert cfg.time_steps_total == T
    W = [widths_full[a][lo[a]: lo[a] + n[a]] for a in range(3)]
    totvol = int(sum(W[0]) * sum(W[1]) * sum(W[2]))
    gs = tuple((lo[a], lo[a] + n[a]) for a in range(3))
    key = jax.random.PRNGKey(0)
    rec = {"id": case["id"], "fam": fam.split("-")[0], "n": list(n), "W": W, "tol": 1, "dev": 0, "prop": int(case["prop"])}
    devs = []

    def ints(a, scale=1.0):
        li, dv = _ints(a, scale)
        devs.append(dv)
        return li

    def draw(shape, mult=1):
        return (rng.integers(1, 6, size=shape) * rng.choice([-1, 1], size=shape) * mult).astype(np.float64)

    def run(det, fields, state=None, eps=None, mu=1.0):
        det = det.place_on_grid(gs, cfg, key)
        st = det.init_state() if state is None else state
        inv_eps = jnp.ones((3, *n)) if eps is None else jnp.asarray(1.0 / eps)
        inv_mu = mu if np.isscalar(mu) else jnp.asarray(1.0 / mu)
        for t in range(T):
            F = jnp.asarray(fields[t])
            st = det.update(jnp.asarray(t, dtype=jnp.int32), F[:3], F[3:], st, inv_eps, inv_mu)
        return det, st

    def cparts(a):
        """complex (1, F, C, ...) -> batches [re, im] of (C, ...)"""
        a = np.asarray(a)[0]
        return [p for f in range(a.shape[0]) for p in (a[f].real, a[f].imag)]

    if fam == "mean-field":
        comps = tuple(case["components"])
        F = draw((T, 6, *n), totvol)
        _, sp = run(fdtdx.FieldDetector(name="a", dtype=jnp.float64, components=comps, reduce_volume=False), F)
        _, rd = run(fdtdx.FieldDetector(name="b", dtype=jnp.float64, components=comps, reduce_volume=True), F)
        rec.update({"kind": "field", "sp": ints(sp["fields"]), "red": ints(rd["fields"])})
    elif fam in ("mean-phasor", "inverse"):
        comps = tuple(case["components"])
        wc = (fdtdx.WaveCharacter(period=4.0 * dt), fdtdx.WaveCharacter(period=2.0 * dt))
        mult = totvol * (T if case["mode"] == "continuous" else 1)  # continuous scale 2/N with N = T recorded steps
        F = draw((T, 6, *n), mult)
        mk = lambda nm, red, inv: fdtdx.PhasorDetector(name=nm, dtype=jnp.complex128, components=comps, reduce_volume=red,
                                                       wave_characters=wc, scaling_mode=case["mode"], inverse=inv)
        if fam == "mean-phasor":
            _, sp = run(mk("a", False, False), F)
            _, rd = run(mk("b", True, False), F)
            rec.update({"kind": "phasor", "sp": [ints(p) for p in cparts(sp["phasor"])], "red": [ints(p) for p in cparts(rd["phasor"])]})
        else:
            nc = len(comps)
            s0 = draw((1, 2, nc, *n)) + 1j * draw((1, 2, nc, *n))
            init = {"phasor": jnp.asarray(s0)}
            _, fw = run(mk("a", False, False), F, state=dict(init))
            _, iv = run(mk("b", False, True), F, state=dict(init))
            rec.update({"fwd": [ints(p) for p in cparts(fw["phasor"])], "inv": [ints(p) for p in cparts(iv["phasor"])],
                        "s0": [ints(p) for p in cparts(s0)]})
    elif fam == "energy":
        F = draw((T, 6, *n))
        eps = rng.choice([1.0, 2.0, 4.0], size=(3, *n))
        mu = rng.choice([1.0, 2.0], size=(3, *n)) if rng.random() < 0.5 else 1.0
        _, sp = run(fdtdx.EnergyDetector(name="a", dtype=jnp.float64, reduce_volume=False), F, eps=eps, mu=mu)
        _, rd = run(fdtdx.EnergyDetector(name="b", dtype=jnp.float64, reduce_volume=True), F, eps=eps, mu=mu)
        rec.update({"sp": ints(np.asarray(sp["energy"])[:, None], 2.0), "red": ints(rd["energy"], 2.0)})
    elif fam == "flux":
        F = draw((T, 6, *n))
        p = int(case["prop"])
        out = {}
        for dname, d in (("P", "+"), ("M", "-")):
            for kname, keep in (("All", True), ("One", False)):
                for rname, red in (("sp", False), ("red", True)):
                    det = fdtdx.PoyntingFluxDetector(name="d", dtype=jnp.float64, direction=d, reduce_volume=red,
                                                     keep_all_components=keep, fixed_propagation_axis=p)
                    _, st = run(det, F)
                    a = np.asarray(st["poynting_flux"])
                    if rname == "sp" and not keep:
                        a = a[:, None]
                    out[f"{rname}{kname}{dname}"] = ints(a)
        rec.update(out)
    elif fam == "closed":
        F = draw((T, 6, *n))
        axes = tuple(case["axes"]) if case["axes"] is not None else None
        vals = {}
        for o in ("outward", "inward"):
            det, st = run(ClosedSurfacePoyntingFluxDetector(name="c", dtype=jnp.float64, orientation=o, axes=axes), F)
            vals[o] = ints(np.asarray(st["poynting_flux"]).reshape((T,)))
            active = [int(a) for a in det._resolve_active_axes()]
        faces = [[[0, 0] for _ in active] for _ in range(T)]
        for m, a in enumerate(active):
            for s, at in enumerate((0, n[a] - 1)):
                fgs = tuple((lo[b] + at, lo[b] + at + 1) if b == a else (lo[b], lo[b] + n[b]) for b in range(3))
                fdet = fdtdx.PoyntingFluxDetector(name="f", dtype=jnp.float64, direction="+", reduce_volume=True, fixed_propagation_axis=a)
                fdet = fdet.place_on_grid(fgs, cfg, key)
                st = fdet.init_state()
                sl = [slice(None)] * 3
                sl[a] = slice(at, at + 1)
                for t in range(T):
                    Ft = jnp.asarray(F[t][(slice(None), *sl)])
                    st = fdet.update(jnp.asarray(t, dtype=jnp.int32), Ft[:3], Ft[3:], st, jnp.ones((3, 1, 1, 1)), 1.0)
                v = ints(np.asarray(st["poynting_flux"]).reshape((T,)))
                for t in range(T):
                    faces[t][m][s] = v[t]
        rec.update({"out": vals["outward"], "inw": vals["inward"], "axes": active, "faces": faces})
    else:
        raise ValueError(fam)
    rec["dev"] = max(devs) if devs else 0
    return rec


def classify(record, verdict):
    if verdict.startswith("malformed:"):
        return "malformed"
    return "violation"
