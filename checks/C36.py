"""C36 - Dispersive cells follow their recurrence; accepted passive media stay bounded
(fdtdx/fdtd/update.py ADE branch of update_E, fdtdx/dispersion.py, fdtdx/fdtd/initialization.py).
Specs: spec/Ade.tla (one-cell state machine, exact rationals, ZeroPoles product), spec/DispDefs.tla (coefficient map,
coupled stability bound); trace specs: spec/Trace_Ade.tla (exact part), spec/Trace_Bounded.tla (trace-monitor part).

Every scene is built through the public pipeline (place_objects -> apply_params) and advanced with the real
fdtdx.fdtd.forward.forward.  Pole parameters are rationals in units of the time step."""
import math
import os
import random
from fractions import Fraction as F

ID = "C36"
TRACE = ("Trace_Ade", "Trace_Ade.cfg")
SCALE = 10**12
MIN_STEPS = 10_000
LIMIT = 10_000            # ratio * 1000
FACES = ("min_x", "max_x", "min_y", "max_y", "min_z", "max_z")


# ------------------------------------------------------------------ scenes
def _mk_pole(p, dt):
    from fdtdx.dispersion import CCPRPole, DrudePole, LorentzPole

    def par(k, scale):
        vals = tuple(p["ax"][i][k][0] / p["ax"][i][k][1] * scale for i in range(3))
        return vals if p["form"] == "axes" else vals[0]

    ori = tuple(q[0] / q[1] for q in p["u"]) if p["form"] == "oriented" else None
    if p["ptype"] == "lorentz":
        return LorentzPole(resonance_frequency=par(0, 1 / dt), damping=par(1, 1 / dt), delta_epsilon=par(2, 1.0), orientation=ori)
    if p["ptype"] == "drude":
        return DrudePole(plasma_frequency=par(0, 1 / dt), damping=par(1, 1 / dt), orientation=ori)
    q = tuple(complex(p["ax"][i][0][0] / p["ax"][i][0][1], p["ax"][i][1][0] / p["ax"][i][1][1]) / dt for i in range(3))
    r = tuple(complex(p["ax"][i][2][0] / p["ax"][i][2][1], p["ax"][i][3][0] / p["ax"][i][3][1]) / dt for i in range(3))
    return CCPRPole(pole=q if p["form"] == "axes" else q[0], residue=r if p["form"] == "axes" else r[0])


def _pole(ptype, v, form="iso", axes=None, u=None):
    ax = [[list(q) for q in a] for a in axes] if axes else [[list(q) for q in v]] * 3
    return {"ptype": ptype, "form": form, "ax": ax, "v": [list(q) for q in (v or axes[0])], "u": [list(q) for q in u] if u else [[0, 1]] * 3}


def _build(shape, cf, T, blocks, strip_dispersion=False, capture=True, walls=None):
    """blocks: [{"lo","hi","eps","poles":[...]}]; returns (objects, arrays, config, accepted info)"""
    import logging
    import warnings

    import jax
    import jax.numpy as jnp
    from loguru import logger

    import fdtdx
    from fdtdx.dispersion import DispersionModel

    res = 50e-9
    cfg0 = fdtdx.SimulationConfig(time=1e-15, grid=fdtdx.UniformGrid(spacing=res), backend="cpu", dtype=jnp.float64, courant_factor=cf)
    dt = cfg0.time_step_duration
    config = fdtdx.SimulationConfig(time=(T + 0.25) * dt, grid=fdtdx.UniformGrid(spacing=res), backend="cpu", dtype=jnp.float64, courant_factor=cf, gradient_config=None)
    vol = fdtdx.SimulationVolume(partial_grid_shape=tuple(shape))
    objs, cons = [vol], []
    bcfg = fdtdx.BoundaryConfig.from_uniform_bound(thickness=2, override_types={f: (walls or {}).get(f, "periodic") for f in FACES})
    bd, cl = fdtdx.boundary_objects_from_config(bcfg, vol)
    objs += list(bd.values())
    cons += cl
    msgs, raised = [], ""

    class _H(logging.Handler):
        def emit(self, record):
            msgs.append("logging:" + record.getMessage()[:160])

    h = _H(level=logging.WARNING)
    logging.getLogger().addHandler(h)
    sink = logger.add(lambda m: msgs.append("loguru:" + str(m)[:160]), level="WARNING")
    out = None
    import contextlib

    try:
        with (warnings.catch_warnings(record=True) if capture else contextlib.nullcontext([])) as wl:
            if capture:      # process-global state: only the (sequential) boundedness runs capture warnings
                warnings.simplefilter("always")
            try:
                for k, b in enumerate(blocks):
                    poles = [] if strip_dispersion else [_mk_pole(p, dt) for p in b.get("poles", [])]
                    sig, sigm = b.get("sigma", 0.0), b.get("sigma_m", 0.0)
                    mat = fdtdx.Material(permittivity=b["eps"], dispersion=DispersionModel(poles=tuple(poles)) if poles else None,
                                         electric_conductivity=tuple(sig) if isinstance(sig, list) else sig,
                                         magnetic_conductivity=tuple(sigm) if isinstance(sigm, list) else sigm)
                    o = fdtdx.UniformMaterialObject(name=f"blk{k}", partial_grid_shape=tuple(h_ - l_ for l_, h_ in zip(b["lo"], b["hi"])), material=mat)
                    cons.append(o.set_grid_coordinates(axes=(0, 1, 2), sides=("-", "-", "-"), coordinates=tuple(b["lo"])))
                    objs.append(o)
                key = jax.random.PRNGKey(0)
                obj, arrays, params, config, _ = fdtdx.place_objects(object_list=objs, config=config, constraints=cons, key=key)
                arrays, obj, _ = fdtdx.apply_params(arrays, obj, params, key)
                out = (obj, arrays, config)
            except Exception as ex:  # placement rejected the medium
                raised = f"{type(ex).__name__}: {str(ex)[:160]}"
        msgs += ["warnings:" + str(w.message)[:160] for w in wl]
    finally:
        logger.remove(sink)
        logging.getLogger().removeHandler(h)
    return out, msgs, raised


def _l3(v):
    n = round(F(float(v)) * SCALE)
    s = -1 if n < 0 else 1
    m = abs(n)
    return [s * (m // 10**8), s * ((m // 10**4) % 10**4), s * (m % 10**4)]


def _random_E(arrays, seed):
    import jax
    import jax.numpy as jnp

    E0 = jax.random.normal(jax.random.PRNGKey(seed), arrays.fields.E.shape, dtype=jnp.float64)
    return arrays.aset("fields->E", E0)


def _stepper(obj, config):
    import jax

    from fdtdx.fdtd.forward import forward

    key = jax.random.PRNGKey(0)
    return jax.jit(lambda s: forward(s, config, obj, key, record_detectors=False, record_boundaries=False, simulate_boundaries=True))


# ------------------------------------------------------------------ exact part: recurrence
R = lambda a, b=1: (a, b)  # noqa: E731
LOR_A = _pole("lorentz", (R(1, 2), R(0), R(2)))                 # c = (7/4, -1, 1/2, 0)
LOR_B = _pole("lorentz", (R(1), R(2, 3), R(3, 2)))              # D = 4/3: c = (3/4, -1/2, 9/8, 0)
DRU_A = _pole("drude", (R(1, 2), R(2)))                         # D = 2:   c = (1, 0, 1/8, 0)
CCP_A = _pole("ccpr", (R(-1, 2), R(-1, 2), R(1, 4), R(1)))      # c = (1, -1/3, 1/2, 1/3)
LOR_AX = _pole("lorentz", None, "axes", axes=[(R(1, 2), R(0), R(2)), (R(1), R(2, 3), R(3, 2)), (R(3, 2), R(2), R(1, 2))])
DRU_AX = _pole("drude", None, "axes", axes=[(R(1, 2), R(2)), (R(0), R(2)), (R(1), R(2, 3))])
CCP_AX = _pole("ccpr", None, "axes", axes=[(R(-1, 2), R(-1, 2), R(1, 4), R(1)), (R(-1), R(-1), R(1, 2), R(-1, 2)), (R(-1, 3), R(1, 2), R(1, 2), R(1))])
REC_SETS = {"lorentz": [LOR_A], "drude": [DRU_A], "lorentz+drude": [LOR_B, DRU_A], "ccpr": [CCP_A], "axes": [LOR_AX], "axes2": [LOR_AX, DRU_AX],
            "ccpr_axes": [CCP_AX], "ccpr+lorentz": [CCP_A, LOR_A]}


def _observe_rec(case):
    import jax.numpy as jnp
    import numpy as np

    T = case["T"]
    shape = [4, 4, 4]
    blocks = [{"lo": [0, 0, 0], "hi": [4, 4, 4], "eps": case["eps"], "poles": case["poles"]}]
    if case["second"]:      # a second object with more pole slots -> the first material's extra slots are padded
        blocks[0]["hi"] = [2, 4, 4]
        blocks.append({"lo": [2, 0, 0], "hi": [4, 4, 4], "eps": 2.0, "poles": case["poles"] + [DRU_A]})
    out, msgs, raised = _build(shape, 0.5, T, blocks, capture=False)
    if out is None:
        raise RuntimeError("rec scene rejected: " + raised)
    obj, arrays, config = out
    arrays = _random_E(arrays, case["seed"])
    step = _stepper(obj, config)
    P_slots = int(arrays.fields.dispersive_P_curr.shape[0])
    cells = [(0, 1, 2), (1, 3, 0), (1, 0, 3)]
    probes = [{"comp": cpt + 1, "slot": s + 1, "cell": list(cell)} for cell in cells for cpt in range(3) for s in range(P_slots)]
    state = (jnp.asarray(0, dtype=jnp.int32), arrays)
    raw = []
    for _ in range(T):
        a0 = state[1]
        state = step(state)
        a1 = state[1]
        Pc0, Pp0, Pc1, Pp1 = (np.asarray(x) for x in (a0.fields.dispersive_P_curr, a0.fields.dispersive_P_prev, a1.fields.dispersive_P_curr, a1.fields.dispersive_P_prev))
        E0, E1 = np.asarray(a0.fields.E), np.asarray(a1.fields.E)
        row = []
        for pr in probes:
            i, j, k = pr["cell"]
            c, s = pr["comp"] - 1, pr["slot"] - 1
            row.append({"p1": Pc1[s, c, i, j, k], "p0": Pc0[s, c, i, j, k], "pm": Pp0[s, c, i, j, k], "e0": E0[c, i, j, k], "e1": E1[c, i, j, k],
                        "pz": bool(Pc1[s, c, i, j, k] == 0.0 and Pp1[s, c, i, j, k] == 0.0)})
        raw.append(row)
    vals = [abs(float(o[k])) for r in raw for o in r for k in ("p1", "p0", "pm", "e0", "e1")]
    finite = all(math.isfinite(v) for v in vals)
    M = max(vals) if finite and vals else 0.0
    active = finite and M > 0 and any(abs(float(o["p1"])) > 1e-6 * M for r in raw for o in r)
    events = [[{k: (_l3(float(o[k]) / M) if finite and M > 0 else [0, 0, 0]) for k in ("p1", "p0", "pm", "e0", "e1")} | {"pz": o["pz"]} for o in r] for r in raw]
    return {"id": case["id"], "kind": "rec", "poles": case["poles"], "nslots": P_slots, "probes": [{"comp": p["comp"], "slot": p["slot"]} for p in probes],
            "events": events, "tol": 8, "finite": bool(finite), "active": bool(active), "set": case["set"], "second": case["second"]}


# ------------------------------------------------------------------ exact part: ZeroPoles product
OR_A = _pole("lorentz", (R(1, 2), R(1, 10), R(2)), "oriented", u=[R(3, 5), R(4, 5), R(0)])
ZERO_SETS = {"iso": [LOR_A, DRU_A], "axes": [LOR_AX], "ccpr": [CCP_A], "oriented": [OR_A]}
# what the ZERO-coefficient region contains besides vacuum: a dielectric block, optionally conductive (electric: isotropic /
# per-axis, magnetic), optionally PEC / PMC walls on the x faces.  update_E's dispersive branches carry their own copy of
# the conductive loss factor, so a conductive cell with all-zero pole coefficients is where they can go out of step.
ZERO_ENVS = {"plain": {}, "sigma": {"sigma": 3e4}, "sigma_axes": {"sigma": [3e4, 0.0, 6e4]}, "sigma_m": {"sigma_m": 1e9},
             "sigma+walls": {"sigma": 3e4, "sigma_m": 5e8, "walls": {"min_x": "pec", "max_x": "pmc"}}}
ZERO_QUICK = [("iso", "plain"), ("axes", "plain"), ("ccpr", "plain"), ("oriented", "plain"), ("iso", "sigma"), ("axes", "sigma_axes"),
              ("iso", "sigma_m"), ("iso", "sigma+walls"), ("ccpr", "sigma"), ("oriented", "sigma"), ("axes", "sigma+walls")]


def _observe_zero(case):
    import jax.numpy as jnp
    import numpy as np

    T = case["T"]
    shape = [6, 4, 4]
    env = ZERO_ENVS[case.get("env", "plain")]
    blocks = [{"lo": [0, 0, 0], "hi": [2, 4, 4], "eps": 2.25, "poles": [], "sigma": env.get("sigma", 0.0), "sigma_m": env.get("sigma_m", 0.0)},
              {"lo": [3, 0, 0], "hi": [5, 4, 4], "eps": case["eps"], "poles": case["poles"]}]
    outA, _, raisedA = _build(shape, 0.5, T, blocks, capture=False, walls=env.get("walls"))
    outB, _, raisedB = _build(shape, 0.5, T, blocks, strip_dispersion=True, capture=False, walls=env.get("walls"))
    if outA is None or outB is None:
        raise RuntimeError("zero scene rejected: " + raisedA + raisedB)
    objA, A, cfgA = outA
    objB, B, cfgB = outB
    if B.fields.dispersive_P_curr is not None or A.fields.dispersive_P_curr is None:
        raise RuntimeError("zero scene: dispersive arrays not allocated as expected")
    epsA, epsB = np.asarray(A.inv_permittivities), np.asarray(B.inv_permittivities)
    if epsA.shape != epsB.shape:      # oriented poles force the 9-component tier: compare on the diagonal entries
        dA = epsA[[0, 4, 8]] if epsA.shape[0] == 9 else np.broadcast_to(epsA, (3, *epsA.shape[1:]))
        dB = epsB[[0, 4, 8]] if epsB.shape[0] == 9 else np.broadcast_to(epsB, (3, *epsB.shape[1:]))
        same_eps = bool(np.array_equal(dA, dB))
    else:
        same_eps = bool(np.array_equal(epsA, epsB))
    if not same_eps:
        raise RuntimeError("zero scene: twin scenes differ in permittivity")
    cs = [np.asarray(x) for x in (A.dispersive_c1, A.dispersive_c2, A.dispersive_c3) + ((A.dispersive_c4,) if A.dispersive_c4 is not None else ())]
    zero_cell = np.ones(shape, dtype=bool)
    for c in cs:
        zero_cell &= np.all(c == 0.0, axis=(0, 1))
    def diag3(x):
        x = np.asarray(x)
        return x[[0, 4, 8]] if x.shape[0] == 9 else np.broadcast_to(x, (3, *x.shape[1:]))

    sigA, sigB = A.electric_conductivity, B.electric_conductivity
    for xa, xb in ((sigA, sigB), (A.magnetic_conductivity, B.magnetic_conductivity)):
        if (xa is None) != (xb is None) or (xa is not None and not np.array_equal(diag3(xa), diag3(xb))):
            raise RuntimeError("zero scene: twin scenes differ in conductivity")
    lossy = sigA is not None and bool(np.any(diag3(sigA)[:, zero_cell] != 0.0))
    if ("sigma" in env) != lossy:
        raise RuntimeError("zero scene: conductive cells are not where the scene description puts them")
    # forward = E update, then H update from the NEW E: H of a zero-coefficient cell may only be compared when the
    # neighbouring cells its curl stencil reads are zero-coefficient cells too
    zero_H = zero_cell.copy()
    for ax in range(3):
        zero_H &= np.roll(zero_cell, 1, axis=ax) & np.roll(zero_cell, -1, axis=ax)
    A = _random_E(A, case["seed"])
    stepA, stepB = _stepper(objA, cfgA), _stepper(objB, cfgB)
    sA = (jnp.asarray(0, dtype=jnp.int32), A)
    events, finite, active = [], True, False
    for n in range(T):
        a0 = sA[1]
        b0 = B.aset("fields->E", a0.fields.E).aset("fields->H", a0.fields.H)
        sA = stepA(sA)
        sB = stepB((jnp.asarray(n, dtype=jnp.int32), b0))
        EA, HA, EB, HB = (np.asarray(x) for x in (sA[1].fields.E, sA[1].fields.H, sB[1].fields.E, sB[1].fields.H))
        Pc = np.asarray(sA[1].fields.dispersive_P_curr)
        M = max(float(np.max(np.abs(EA))), float(np.max(np.abs(HA))))
        finite &= math.isfinite(M)
        d = max(float(np.max(np.abs(EA - EB)[:, zero_cell])), float(np.max(np.abs(HA - HB)[:, zero_H])))
        active |= bool(np.max(np.abs(Pc)) > 0) and bool(np.max(np.abs(EA - EB)) > 1e-9 * M)
        events.append({"n": n, "diff": int(min(10**9, math.ceil(d / M * 1e15))) if finite and M > 0 else 10**9,
                       "bit": bool(np.array_equal(EA[:, zero_cell], EB[:, zero_cell])), "pzero": bool(np.all(Pc[:, :, zero_cell] == 0.0))})
    return {"id": case["id"], "kind": "zero", "events": events, "tol": 100, "nzero": int(zero_cell.sum()), "nzero_h": int(zero_H.sum()), "ndisp": int((~zero_cell).sum()),
            "finite": bool(finite), "active": bool(active), "set": case["set"], "env": case.get("env", "plain"), "lossy": bool(lossy)}


# ------------------------------------------------------------------ trace-monitor part: boundedness
def _load(poles):
    """largest per-axis sum of Nyquist loads, or None when a coupling axis has omega_0*dt >= 2 (placement must reject it)"""
    worst = F(0)
    for i in range(3):
        s = F(0)
        for p in poles:
            v = [F(*q) for q in p["ax"][i]]
            k = (v[2] * v[0] ** 2) if p["ptype"] == "lorentz" else v[0] ** 2
            w2 = v[0] ** 2 if p["ptype"] == "lorentz" else F(0)
            if k != 0 and w2 >= 4:
                return None
            if k != 0:
                s += k / (4 - w2)
        worst = max(worst, s)
    return worst


def _bounded_case(tag, poles, eps, cf):
    load = _load(poles)
    margin = None if load is None else (F(*eps) - load) / (F(*cf) ** 2)
    if margin is not None and abs(margin - 1) < F(1, 100):     # too close to the coupled limit: neither verdict would be meaningful
        return None
    return {"id": f"b-{tag}-eps{eps[0]}_{eps[1]}-cf{cf[0]}_{cf[1]}", "kind": "bounded", "poles": poles, "eps": list(eps), "cf": list(cf), "seed": 1}


def _quick_media(L, Dr):
    """(tag, poles, [(cf, eps), ...]).  The multi-pole media sit on BOTH sides of the coupled bound in places where only the
    SUM over the poles decides (each pole alone - or the mean load - would be inside)."""
    C99, C9, C5, E1, E2 = R(99, 100), R(9, 10), R(1, 2), R(1), R(2)
    LA = lambda axes: _pole("lorentz", None, "axes", axes=axes)  # noqa: E731
    dru34 = [Dr(R(3, 4), R(1, 100)), Dr(R(3, 4), R(1, 50))]                                    # loads 9/64 + 9/64
    mix3 = [L(R(1, 2), R(1, 100), R(2)), Dr(R(1, 2), R(1, 100)), Dr(R(1, 2), R(1, 10))]        # 2/15 + 1/16 + 1/16
    dru12 = [Dr(R(1, 2), R(1, 100)), Dr(R(1, 2), R(1, 50))]                                    # 1/16 + 1/16
    mild3 = [L(R(3, 10), R(1, 100), R(1)), Dr(R(1, 2), R(1, 100)), Dr(R(3, 10), R(1, 10))]     # 9/391 + 1/16 + 9/400
    return [("vac", [], [(C99, E1)]),
            ("lorMild", [L(R(3, 10), R(1, 100), R(2))], [(C99, E1), (C99, E2)]),
            ("lorWeak", [L(R(1, 10), R(1, 100), R(1))], [(C99, E1)]),
            ("druHalf", [Dr(R(1, 2), R(1, 100))], [(C99, E1), (C99, E2), (C9, E1), (C5, E1)]),
            ("druWeak", [Dr(R(1, 10), R(1, 10))], [(C99, E1)]),
            ("lorStrong", [L(R(1), R(0), R(2))], [(C99, E1), (C9, E1), (C5, E1)]),
            ("two", [L(R(1, 10), R(1, 100), R(1)), Dr(R(1, 10), R(1, 10))], [(C99, E1)]),
            ("twoDru34", dru34, [(C9, E1), (C5, E1)]),          # outside at 0.9 (0.81 > 1 - 9/32), inside at 0.5
            ("mix3", mix3, [(C9, E1), (C99, E2)]),              # outside at 0.9 (0.81 > 1 - 31/120), inside for eps 2
            ("twoDru12", dru12, [(C9, E1)]),                    # inside at 0.9 (0.81 <= 1 - 1/8)
            ("mild3", mild3, [(C9, E1)]),                       # inside at 0.9
            # omega_0*dt >= 2: placement must reject these with an error (if it ever accepts one silently it must stay bounded)
            ("lorW2", [L(R(2), R(1, 100), R(1))], [(C5, E1)]),
            ("lorW25", [L(R(5, 2), R(1, 100), R(1, 2))], [(C99, E1), (C5, E2)]),
            ("lorW4", [L(R(4), R(1, 10), R(1, 4))], [(C5, E1)]),
            ("axesW25", [LA([(R(3, 10), R(1, 100), R(1)), (R(3, 10), R(1, 100), R(1)), (R(5, 2), R(1, 100), R(1))])], [(C5, E1)]),
            ("twoW25", [L(R(3, 10), R(1, 100), R(1)), L(R(5, 2), R(1, 100), R(1, 2))], [(C5, E1)]),
            # control: the axis beyond the limit is switched off (strength 0): exempt, accepted, bounded
            ("axesExempt", [LA([(R(3, 10), R(1, 100), R(1)), (R(3, 10), R(1, 100), R(1)), (R(5, 2), R(1, 100), R(0))])], [(C5, E1)])]


def _media(quick, rng):
    L = lambda w, g, de: _pole("lorentz", (w, g, de))  # noqa: E731
    Dr = lambda wp, g: _pole("drude", (wp, g))  # noqa: E731
    if quick:
        return _quick_media(L, Dr)
    out = [("vac", [])]
    for w in (R(1, 10), R(3, 10), R(1), R(3, 2)):
        for g in (R(0), R(1, 100), R(1, 2)):
            for de in (R(1, 4), R(2), R(8)):
                out.append((f"lor{w[0]}_{w[1]}-{g[0]}_{g[1]}-{de[0]}_{de[1]}", [L(w, g, de)]))
    for wp in (R(1, 10), R(1, 2), R(1), R(3, 2)):
        for g in (R(0), R(1, 100), R(1, 2)):
            out.append((f"dru{wp[0]}_{wp[1]}-{g[0]}_{g[1]}", [Dr(wp, g)]))
    for k in range(12):
        out.append((f"mix{k}", [L(rng.choice([R(1, 5), R(1, 2), R(1)]), rng.choice([R(0), R(1, 20)]), rng.choice([R(1, 2), R(3)])),
                                Dr(rng.choice([R(1, 5), R(1, 2)]), rng.choice([R(1, 100), R(1, 4)]))]))
    for k in range(16):      # two and three poles of similar strength: the SUM of the loads decides
        n = 2 + k % 2
        out.append((f"multi{k}", [Dr(rng.choice([R(1, 2), R(3, 4), R(1)]), rng.choice([R(1, 100), R(1, 20)])) if rng.random() < 0.5
                                  else L(rng.choice([R(1, 2), R(1)]), rng.choice([R(0), R(1, 100)]), rng.choice([R(1, 2), R(1), R(2)])) for _ in range(n)]))
    for w in (R(2), R(9, 4), R(5, 2), R(4)):       # beyond the uncoupled limit: must be rejected
        out.append((f"beyond{w[0]}_{w[1]}", [L(w, R(1, 100), R(1, 2))]))
        out.append((f"beyond2p{w[0]}_{w[1]}", [Dr(R(1, 5), R(1, 100)), L(w, R(0), R(1, 4))]))
    return [(t, p, None) for t, p in out] + [(t + "-q", p, None) for t, p, _ in _quick_media(L, Dr)[7:]]


def _observe_bounded(case):
    import jax
    import jax.numpy as jnp

    from fdtdx.core.physics.metrics import compute_energy
    from fdtdx.fdtd.forward import forward

    cf = case["cf"][0] / case["cf"][1]
    eps = case["eps"][0] / case["eps"][1]
    out, msgs, raised = _build([4, 4, 4], cf, MIN_STEPS, [{"lo": [0, 0, 0], "hi": [4, 4, 4], "eps": eps, "poles": case["poles"]}])
    accepted = out is not None and not msgs
    rec = {"id": case["id"], "kind": "bounded", "poles": [{"ptype": p["ptype"], "ax": p["ax"]} for p in case["poles"]], "eps": case["eps"], "cf": case["cf"],
           "accepted": bool(accepted), "raised": raised, "nwarn": len(msgs), "first_warning": (msgs[0] if msgs else ""), "min_steps": MIN_STEPS, "limit": LIMIT,
           "ratio": 0, "steps": 0}
    if not accepted:
        return rec
    obj, arrays, config = out
    arrays = _random_E(arrays, case["seed"])
    key = jax.random.PRNGKey(0)

    def en(a):
        return jnp.sum(compute_energy(a.fields.E, a.fields.H, a.inv_permittivities, a.inv_permeabilities))

    e0 = en(arrays)

    def cond(c):
        i, _, _, mx = c
        return (i < MIN_STEPS) & (mx < 1e9 * e0)

    def body(c):
        i, t, a, mx = c
        t, a = forward((t, a), config, obj, key, record_detectors=False, record_boundaries=False, simulate_boundaries=True)
        e = en(a)
        return (i + 1, t, a, jnp.where(jnp.isfinite(e), jnp.maximum(mx, e), jnp.inf))

    i, _, _, mx = jax.jit(lambda a: jax.lax.while_loop(cond, body, (jnp.asarray(0), jnp.asarray(0, dtype=jnp.int32), a, e0)))(arrays)
    ratio = float(mx / e0)
    rec["ratio"] = int(min(2 * 10**9, math.ceil(ratio * 1000))) if math.isfinite(ratio) else 2 * 10**9
    rec["steps"] = int(i)
    return rec


# ------------------------------------------------------------------ pipeline
def observe(case):
    return {"rec": _observe_rec, "zero": _observe_zero, "bounded": _observe_bounded}[case["kind"]](case)


def classify(rec, verdict):
    if verdict.startswith("malformed"):
        return "malformed"
    return "drift" if verdict.startswith("model:") else "violation"


def _exact_cases(ctx, rng):
    n = 0
    for name, poles in REC_SETS.items():
        for second in (False, True):
            if ctx.quick and second and name not in ("lorentz", "axes", "ccpr"):
                continue
            for eps in ((1.0, 2.0) if not ctx.quick else (2.0,)):
                n += 1
                yield {"id": f"rec{n}-{name}{'-pad' if second else ''}", "kind": "rec", "set": name, "poles": poles, "second": second, "eps": eps,
                       "T": 8 if ctx.quick else 16, "seed": rng.randint(1, 10**6)}
    combos = ZERO_QUICK if ctx.quick else [(a, b) for a in ZERO_SETS for b in ZERO_ENVS]
    for name, env in combos:
        for eps in ((2.0,) if ctx.quick else (1.0, 2.0, 4.0)):
            n += 1
            yield {"id": f"zero{n}-{name}-{env}", "kind": "zero", "set": name, "env": env, "poles": ZERO_SETS[name], "eps": eps,
                   "T": 6 if ctx.quick else 14, "seed": rng.randint(1, 10**6)}


def _bounded_cases(ctx, rng):
    cfs = [R(99, 100), R(9, 10), R(1, 2)]
    epss = [R(1), R(2)] if ctx.quick else [R(1), R(2), R(9, 4)]
    for tag, poles, combos in _media(ctx.quick, rng):
        for cf, eps in (combos if combos is not None else [(cf, eps) for cf in cfs for eps in epss]):
            c = _bounded_case(tag, poles, eps, cf)
            if c is not None:
                yield c


def run(ctx):
    from lib.worker import pmap

    if os.environ.get("VERIF_SKIP_MC") != "1":
        ctx.mc("Ade", "MC_Ade_q.cfg" if ctx.quick else "MC_Ade_t.cfg", workers=4, label="one cell, 2 pole slots (none / Lorentz / Drude / CCPR with c4), every drive sequence of length <= MaxT, inv_eps in {1, 1/2}, loss factor in {0, 1/3(, 2)}")
        ctx.mc_negative("Ade", "MC_Ade_neg.cfg", workers=2)     # c3 multiplies E^{n+1}
        ctx.mc_negative("Ade", "MC_Ade_neg2.cfg", workers=2)    # P_prev not advanced
        ctx.mc_negative("Ade", "MC_Ade_neg3.cfg", workers=2)    # implicit loss divisor dropped in the dispersive branch
        ctx.mc_negative("Disp", "MC_Disp_neg4.cfg", workers=2)  # acceptance rule: axis_active with `and` lets omega_0*dt >= 2 through
    else:
        ctx.notes.append("model checking of Ade.tla skipped (VERIF_SKIP_MC=1)")
    rng = random.Random(ctx.seed)
    exact = list(_exact_cases(ctx, rng))
    recs = pmap(__name__, "observe", exact, procs=3)
    for r in recs[:1]:
        ctx.sample({k: v for k, v in r.items() if k != "events"})
    ctx.validate("Trace_Ade", "Trace_Ade.cfg", recs, {c["id"]: c for c in exact}, classify=classify, chunk=8)
    bounded = list(_bounded_cases(ctx, rng))
    brecs = [observe(c) for c in bounded]      # sequential: warnings capture is process-global
    for r in brecs[:3]:
        ctx.sample(r)
    ctx.validate("Trace_Bounded", "Trace_Bounded.cfg", brecs, {c["id"]: c for c in bounded}, classify=classify, chunk=100)
    ctx.nontrivial = len(exact) + len(bounded)
    ctx.exhaustive = False
    ctx.extra_cov["bounded_media"] = len(bounded)
    ctx.extra_cov["bounded_accepted"] = sum(1 for r in brecs if r["accepted"])
    ctx.extra_cov["bounded_max_ratio_x1000_of_stable"] = max([r["ratio"] for r in brecs if r["accepted"] and r["ratio"] <= LIMIT] or [0])
    ctx.extra_cov["explanation_trace_monitor"] = ("boundedness clause: seeded random initial E field, 4x4x4 all-periodic box filled with the medium, "
                                                  f"{MIN_STEPS} real forward steps under lax.while_loop (stopped early only after growth by 1e9); media within 1% of the coupled bound are not enumerated")
    ctx.assumptions += [
        "recurrence clause: coefficients are NOT read back from the code; TLC derives them from the declared pole (documented map, C35) - pole parameters chosen so the coefficients are small rationals",
        "ZeroPoles clause is checked as a one-step product along the dispersive run (same E,H into a step with and without dispersive arrays); tolerance 1e-13 of the field maximum",
        "oriented poles take part in the ZeroPoles clause only (their recurrence couples spatially averaged neighbour components)",
        "boundedness is trace-monitored on one seeded random initial field per medium; field energy = compute_energy(E, H, inv_eps, inv_mu) summed over the box",
    ]


def replay(ctx, inp):
    rec = observe(inp)
    mod = ("Trace_Bounded", "Trace_Bounded.cfg") if inp["kind"] == "bounded" else TRACE
    ctx.validate(*mod, [rec], {rec["id"]: inp}, classify=classify)
