"""C25 - Brush-constrained designs are unions of brush placements.
Spec: spec/Brush.tla (+BrushDefs), trace spec: spec/Trace_Brush.tla.  DESIGN.md §5 C25.

The real BrushConstraint2D.__call__ (with circular_brush(d) of the implementation) is run on every 2-level
design of small grids and on seeded random designs with pairwise distinct integer values; TLC evaluates
BrushFeasible of BrushDefs on the array it returned (violation) and, as detail, compares it with the terminal
state of the touch loop of Brush.tla (drift)."""
import itertools
import random

ID = "C25"
TRACE = ("Trace_Brush", "Trace_Brush.cfg")
CHUNK = 1500
PARALLEL = 4
BATCH = 4096


def model_check(ctx):
    if ctx.quick:
        ctx.mc("Brush", "MC_Brush_q.cfg", label="all {-1,+1} designs on 1x1, 2x2, 3x3, 3x4 x brushes d1, d2, d3")
    else:
        ctx.mc("Brush", "MC_Brush_t.cfg", label="all {-1,+1} designs on grids up to 4x4 and 2x5 x brushes d1..d4", timeout=3 * 3600)
        ctx.mc("Brush", "MC_Brush_t3.cfg", label="all {-1,0,+1} designs on 3x3 x brushes d2, d3")
    # Case2 is not reachable on the small grids above: a 4x5 witness design and its 20 one-pixel variations
    ctx.mc("Brush", "MC_Brush_c2.cfg", label="Case2 witnesses: 21 designs on 4x5, brush d2, all invariants")
    ctx.mc_negative("Brush", "MC_Brush_c2neg.cfg")  # 'NeverCase2' must be violated: Case2 is reachable
    ctx.mc_negative("Brush", "MC_Brush_neg.cfg")  # touches may paint over pixels of the other kind
    ctx.assumptions += [
        "circular brushes circular_brush(d), d in {1, 2, 2.5, 3, 4, 5}; the offsets TLC uses are read from the array the implementation built",
        "design values are integers (only their order and sign enter the algorithm), so float64 comparisons are exact",
        "termination is observed as the call returning; a hang would surface as a harness timeout, not as a verdict",
    ]


# brush diameters -> smallest grid side used with them (grid >= brush array, the case convolve2d handles without swapping)
DIAM = {1: 1, 2: 3, 2.5: 3, 3: 3, 4: 5, 5: 5}


def gen_cases(ctx):
    rng = random.Random(ctx.seed)

    def emit(dm, d, axis, bg, vals, fam, tag, model=1):
        return {"id": f"{dm[0]}x{dm[1]}-d{d}-ax{axis}-bg{bg}-{fam}-{tag}", "dm": list(dm), "d": d, "axis": axis, "bg": bg, "arr": vals, "family": fam, "model": model}

    # 1. every 2-level design on small grids
    # (axis, background) is fixed per (grid, diameter) group - one jit compilation each - and cycles over all six
    # combinations across groups; on 3x3 every combination is used with every diameter
    grids = [((2, 2), (1,)), ((3, 3), (1, 2, 3)), ((3, 4), (2, 3))]
    if not ctx.quick:
        grids += [((3, 4), (1,)), ((4, 3), (1, 2, 3)), ((4, 4), (1, 2, 3)), ((2, 5), (1,))]
    gi = 0
    for dm, ds in grids:
        n = dm[0] * dm[1]
        for d in ds:
            combos = [(a, b) for a in range(3) for b in range(2)] if dm == (3, 3) else [(gi % 3, (gi // 3) % 2)]
            if ctx.quick and dm == (3, 3):
                combos = [(0, 0), (1, 1), (2, 0), (2, 1)][: 4 if d == 2 else 3]
            gi += 1
            for axis, bg in combos:
                for k in range(2**n):
                    if ctx.quick and n > 9 and d == 3 and k % 4 != 1:
                        continue  # quick: a quarter of the 3x4 designs with the 3x3 brush
                    vals = [1 if (k >> i) & 1 else -1 for i in range(n)]
                    yield emit(dm, d, axis, bg, vals, "all2", str(k))
    ctx.exhaustive = False
    # 4x4: all 65536 in thorough (above); quick samples
    if ctx.quick:
        for d in (2, 3):
            for j in range(700):
                k = rng.randrange(2**16)
                yield emit((4, 4), d, d % 3, d % 2, [1 if (k >> i) & 1 else -1 for i in range(16)], "rand2", f"{j}")
    # 2. random designs with distinct values (no ties), and with few levels (many ties)
    shapes = [(5, 5), (6, 7), (8, 8), (7, 5)] if ctx.quick else [(5, 5), (6, 7), (8, 8), (7, 5), (10, 9), (12, 12), (16, 5)]
    per = 25 if ctx.quick else 300
    for dm in shapes:
        n = dm[0] * dm[1]
        for d in DIAM:
            if min(dm) < DIAM[d]:
                continue
            gi += 1
            axis, bg = gi % 3, (gi // 3) % 2
            for j in range(per):
                if j % 3 == 2:
                    vals = [rng.randrange(-2, 3) for _ in range(n)]
                    fam = "levels5"
                else:
                    vals = list(range(-(n // 2), n - n // 2))
                    rng.shuffle(vals)
                    fam = "perm"
                    if j % 3 == 1:  # smooth-ish: sort blocks so that larger features appear
                        w = dm[1]
                        vals = [vals[i] + 3 * n * (1 if ((i // w) // 3 + (i % w) // 3 + j) % 2 else -1) for i in range(n)]
                        fam = "blocks"
                # the step-by-step model comparison (drift detail) is expensive in TLC: small grids and a sample
                yield emit(dm, d, axis, bg, vals, fam, str(j), model=1 if (n <= 25 or j < 3) else 0)
    # 3. grids smaller than the brush array (convolve2d swaps its operands there)
    for dm, d in (((3, 3), 4), ((4, 4), 5), ((3, 4), 5), ((2, 2), 3), ((2, 2), 2)):
        n = dm[0] * dm[1]
        for j in range(40 if ctx.quick else 400):
            k = rng.randrange(2**n)
            yield emit(dm, d, d % 3, (d + dm[0]) % 2, [1 if (k >> i) & 1 else -1 for i in range(n)], "small", str(j))


_MODS = {}


def _module(dm, d, axis, bg):
    key = (tuple(dm), d, axis, bg)
    if key not in _MODS:
        import numpy as np
        from fdtdx.config import SimulationConfig
        from fdtdx.core.grid import UniformGrid
        from fdtdx.materials import Material
        from fdtdx.objects.device.parameters.discretization import BrushConstraint2D, circular_brush
        from fdtdx.typing import ParameterType

        shape = list(dm)
        shape.insert(axis, 1)
        shape = tuple(shape)
        mats = {"Air": Material(permittivity=1.0), "Si": Material(permittivity=4.0)}
        cfg = SimulationConfig(time=100e-15, grid=UniformGrid(spacing=500e-9), backend="cpu")
        brush = circular_brush(d)
        t = BrushConstraint2D(brush=brush, axis=axis, background_material=None if bg == 0 else "Si")
        t = t.init_module(config=cfg, materials=mats, matrix_voxel_grid_shape=shape, single_voxel_size=(1e-6, 1e-6, 1e-6), output_shape={"params": shape})
        t = t.init_type({"params": ParameterType.CONTINUOUS})
        b = np.asarray(brush)
        c0, c1 = (b.shape[0] - 1) // 2, (b.shape[1] - 1) // 2
        offs = [[int(i) - c0, int(j) - c1] for i, j in zip(*np.nonzero(b))]
        _MODS[key] = (t, shape, offs)
    return _MODS[key]


def _record(case, offs, out, shape):
    import numpy as np

    o = np.asarray(out, dtype=np.float64)
    ok_shape = tuple(o.shape) == tuple(shape)
    o = o.reshape(-1)
    if not ok_shape or not np.all(np.isfinite(o)):
        vals, dev = [-7] * len(case["arr"]), 10**9
    else:
        r = np.rint(o)
        dev = int(min(10**9, round(float(np.max(np.abs(o - r))) * 1e9)))
        vals = [int(v) for v in r]
    return {"id": case["id"], "dm": case["dm"], "brush": offs, "bg": case["bg"], "arr": case["arr"], "out": vals, "dev": dev, "model": case["model"], "family": case["family"], "d": str(case["d"])}


def observe(case):
    import jax.numpy as jnp

    t, shape, offs = _module(case["dm"], case["d"], case["axis"], case["bg"])
    arr = jnp.asarray(case["arr"], dtype=jnp.float64).reshape(shape)
    return _record(case, offs, t({"params": arr})["params"], shape)


def observe_batch(cases):
    import jax
    import jax.numpy as jnp
    import numpy as np

    c0 = cases[0]
    t, shape, offs = _module(c0["dm"], c0["d"], c0["axis"], c0["bg"])
    f = jax.jit(jax.vmap(lambda a: t({"params": a})["params"]))
    recs = []
    for i in range(0, len(cases), BATCH):
        part = cases[i : i + BATCH]
        arr = jnp.asarray(np.asarray([c["arr"] for c in part], dtype=np.float64).reshape((len(part),) + shape))
        out = np.asarray(f(arr))
        recs += [_record(c, offs, o, shape) for c, o in zip(part, out)]
    return recs


def classify(record, verdict):
    if verdict.startswith("malformed"):
        return "malformed"
    return "drift" if verdict.startswith("drift:") else "violation"


def run(ctx):
    from concurrent.futures import ThreadPoolExecutor

    model_check(ctx)
    cases = list(gen_cases(ctx))
    groups = {}
    for c in cases:
        groups.setdefault(gkey(c), []).append(c)
    with ThreadPoolExecutor(max_workers=PARALLEL) as ex:
        recs = [r for rs in ex.map(observe_batch, groups.values()) for r in rs]
    rng = random.Random(ctx.seed + 1)
    inputs = {c["id"]: c for c in cases}
    for c in rng.sample(cases, min(len(cases), 30 if ctx.quick else 300)):  # eager re-runs, no jit / vmap
        e = dict(c, id=c["id"] + "-eager")
        inputs[e["id"]] = e
        recs.append(observe(e))
    for r in recs[:1] + recs[-1:]:
        ctx.sample({k: r[k] for k in ("id", "dm", "brush", "bg", "arr", "out")})
    ctx.nontrivial = sum(1 for r in recs if 0 < sum(r["out"]) < len(r["out"]))
    fam = {}
    for r in recs:
        fam[r["family"] + "/d" + r["d"]] = fam.get(r["family"] + "/d" + r["d"], 0) + 1
    ctx.extra_cov["cases_by_family_and_diameter"] = fam
    ctx.validate(*TRACE, recs, inputs, classify=classify, chunk=CHUNK)


def gkey(c):
    return (tuple(c["dm"]), c["d"], c["axis"], c["bg"])
