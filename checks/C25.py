"""C25 - Brush-constrained designs are unions of brush placements.
Spec: spec/Brush.tla (+BrushDefs), trace spec: spec/Trace_Brush.tla.  DESIGN.md §5 C25.

The real BrushConstraint2D.__call__ (with circular_brush(d) of the implementation) is run on every 2-level
design of small grids and on seeded random designs with pairwise distinct integer values; TLC evaluates
BrushFeasible of BrushDefs on the array it returned (violation) and, as detail, compares it with the terminal
state of the touch loop of Brush.tla (drift)."""
import itertools
import random

ID = "C25"
TRACE = ("Trace_Brush", "Trace_Brush.cfg")
CHUNK = 1500
PARALLEL = 4
BATCH = 4096


def model_check(ctx):
    if ctx.quick:
        ctx.mc("Brush", "MC_Brush_q.cfg", label="all {-1,+1} designs on 1x1, 2x2, 3x3, 3x4 x brushes d1, d2, d3")
    else:
        ctx.mc("Brush", "MC_Brush_t.cfg", label="all {-1,+1} designs on grids up to 4x4 and 2x5 x brushes d1..d4", timeout=3 * 3600)
        ctx.mc("Brush", "MC_Brush_t3.cfg", label="all {-1,0,+1} designs on 3x3 x brushes d2, d3")
    # Case2 is not reachable on the small grids above: a 4x5 witness design and its 20 one-pixel variations
    ctx.mc("Brush", "MC_Brush_c2.cfg", label="Case2 witnesses: 21 designs on 4x5, brush d2, all invariants")
    ctx.mc_negative("Brush", "MC_Brush_c2neg.cfg")  # 'NeverCase2' must be violated: Case2 is reachable
    ctx.mc_negative("Brush", "MC_Brush_neg.cfg")  # touches may paint over pixels of the other kind
    ctx.assumptions += [
        "circular brushes circular_brush(d), d in {1, 2, 2.5, 3, 4, 5}; the offsets TLC uses are read from the array the implementation built",
        "design values are integers (only their order and sign enter the algorithm), so float64 comparisons are exact",
        "termination is observed as the call returning: every batch / eager call runs under a watchdog (C25_TIMEOUT, default 180 s, normal run time < 5 s); a call that does not return yields the verdict 'termination: ...'",
    ]


# brush diameters -> smallest grid side used with them (grid >= brush array, the case convolve2d handles without swapping)
DIAM = {1: 1, 2: 3, 2.5: 3, 3: 3, 4: 5, 5: 5}


def gen_cases(ctx):
    rng = random.Random(ctx.seed)

    def emit(dm, d, axis, bg, vals, fam, tag, model=1):
        return {"id": f"{dm[0]}x{dm[1]}-d{d}-ax{axis}-bg{bg}-{fam}-{tag}", "dm": list(dm), "d": d, "axis": axis, "bg": bg, "arr": vals, "family": fam, "model": model}

    # 1. every 2-level design on small grids
    # (axis, background) is fixed per (grid, diameter) group - one jit compilation each - and cycles over all six
    # combinations across groups; on 3x3 every combination is used with every diameter
    grids = [((2, 2), (1,)), ((3, 3), (1, 2, 3)), ((3, 4), (2, 3))]
    if not ctx.quick:
        grids += [((3, 4), (1,)), ((4, 3), (1, 2, 3)), ((4, 4), (1, 2, 3)), ((2, 5), (1,))]
    gi = 0
    for dm, ds in grids:
        n = dm[0] * dm[1]
        for d in ds:
            combos = [(a, b) for a in range(3) for b in range(2)] if dm == (3, 3) else [(gi % 3, (gi // 3) % 2)]
            if ctx.quick and dm == (3, 3):
                combos = [(0, 0), (1, 1), (2, 0), (2, 1)][: 4 if d == 2 else 3]
            gi += 1
            for axis, bg in combos:
                for k in range(2**n):
                    if ctx.quick and n > 9 and d == 3 and k % 4 != 1:
                        continue  # quick: a quarter of the 3x4 designs with the 3x3 brush
                    vals = [1 if (k >> i) & 1 else -1 for i in range(n)]
                    yield emit(dm, d, axis, bg, vals, "all2", str(k))
    ctx.exhaustive = False
    # 4x4: all 65536 in thorough (above); quick samples
    if ctx.quick:
        for d in (2, 3):
            for j in range(700):
                k = rng.randrange(2**16)
                yield emit((4, 4), d, d % 3, d % 2, [1 if (k >> i) & 1 else -1 for i in range(16)], "rand2", f"{j}")
    # 2. random designs with distinct values (no ties), and with few levels (many ties)
    shapes = [(5, 5), (6, 7), (8, 8), (7, 5)] if ctx.quick else [(5, 5), (6, 7), (8, 8), (7, 5), (10, 9), (12, 12), (16, 5)]
    per = 25 if ctx.quick else 300
    for dm in shapes:
        n = dm[0] * dm[1]
        for d in DIAM:
            if min(dm) < DIAM[d]:
                continue
            gi += 1
            axis, bg = gi % 3, (gi // 3) % 2
            for j in range(per):
                if j % 3 == 2:
                    vals = [rng.randrange(-2, 3) for _ in range(n)]
                    fam = "levels5"
                else:
                    vals = list(range(-(n // 2), n - n // 2))
                    rng.shuffle(vals)
                    fam = "perm"
                    if j % 3 == 1:  # smooth-ish: sort blocks so that larger features appear
                        w = dm[1]
                        vals = [vals[i] + 3 * n * (1 if ((i // w) // 3 + (i % w) // 3 + j) % 2 else -1) for i in range(n)]
                        fam = "blocks"
                # the step-by-step model comparison (drift detail) is expensive in TLC: small grids and a sample
                yield emit(dm, d, axis, bg, vals, fam, str(j), model=1 if (n <= 25 or j < 3) else 0)
    # 2b. elongated designs in both orientations (a loop bound that confuses rows and columns only shows on designs
    #     much wider than tall, and then only in a fraction of them): >= 40 random designs per wide shape and brush
    wide = [(3, 16), (4, 24), (5, 24), (4, 40)]
    for dm0 in wide:
        for transposed in (0, 1):
            dm = (dm0[1], dm0[0]) if transposed else dm0
            n = dm[0] * dm[1]
            per_l = (14 if ctx.quick else 60) if transposed else (40 if ctx.quick else 200)
            for d in (2, 2.5, 3):
                gi += 1
                axis, bg = gi % 3, (gi // 3) % 2
                for j in range(per_l):
                    vals = list(range(-(n // 2), n - n // 2))
                    rng.shuffle(vals)
                    fam = "wide-perm" if not transposed else "tall-perm"
                    if j % 2 == 1:
                        w = dm[1]
                        vals = [vals[i] + 3 * n * (1 if ((i // w) // 2 + (i % w) // 3 + j) % 2 else -1) for i in range(n)]
                        fam = fam.replace("perm", "blocks")
                    yield emit(dm, d, axis, bg, vals, fam, str(j), model=1 if j < 1 else 0)
    # 3. grids smaller than the brush array (convolve2d swaps its operands there)
    for dm, d in (((3, 3), 4), ((4, 4), 5), ((3, 4), 5), ((2, 2), 3), ((2, 2), 2)):
        n = dm[0] * dm[1]
        for j in range(40 if ctx.quick else 400):
            k = rng.randrange(2**n)
            yield emit(dm, d, d % 3, (d + dm[0]) % 2, [1 if (k >> i) & 1 else -1 for i in range(n)], "small", str(j))


_MODS = {}


def _module(dm, d, axis, bg):
    key = (tuple(dm), d, axis, bg)
    if key not in _MODS:
        import numpy as np
        from fdtdx.config import SimulationConfig
        from fdtdx.core.grid import UniformGrid
        from fdtdx.materials import Material
        from fdtdx.objects.device.parameters.discretization import BrushConstraint2D, circular_brush
        from fdtdx.typing import ParameterType

        shape = list(dm)
        shape.insert(axis, 1)
        shape = tuple(shape)
        mats = {"Air": Material(permittivity=1.0), "Si": Material(permittivity=4.0)}
        cfg = SimulationConfig(time=100e-15, grid=UniformGrid(spacing=500e-9), backend="cpu")
        brush = circular_brush(d)
        t = BrushConstraint2D(brush=brush, axis=axis, background_material=None if bg == 0 else "Si")
        t = t.init_module(config=cfg, materials=mats, matrix_voxel_grid_shape=shape, single_voxel_size=(1e-6, 1e-6, 1e-6), output_shape={"params": shape})
        t = t.init_type({"params": ParameterType.CONTINUOUS})
        b = np.asarray(brush)
        c0, c1 = (b.shape[0] - 1) // 2, (b.shape[1] - 1) // 2
        offs = [[int(i) - c0, int(j) - c1] for i, j in zip(*np.nonzero(b))]
        _MODS[key] = (t, shape, offs)
    return _MODS[key]


def _record(case, offs, out, shape):
    import numpy as np

    o = np.asarray(out, dtype=np.float64)
    ok_shape = tuple(o.shape) == tuple(shape)
    o = o.reshape(-1)
    if not ok_shape or not np.all(np.isfinite(o)):
        vals, dev = [-7] * len(case["arr"]), 10**9
    else:
        r = np.rint(o)
        dev = int(min(10**9, round(float(np.max(np.abs(o - r))) * 1e9)))
        vals = [int(v) for v in r]
    return {"id": case["id"], "dm": case["dm"], "brush": offs, "bg": case["bg"], "arr": case["arr"], "out": vals, "dev": dev, "model": case["model"], "family": case["family"], "d": str(case["d"])}


def observe(case):
    import jax.numpy as jnp

    t, shape, offs = _module(case["dm"], case["d"], case["axis"], case["bg"])
    arr = jnp.asarray(case["arr"], dtype=jnp.float64).reshape(shape)
    return _record(case, offs, t({"params": arr})["params"], shape)


def observe_batch(cases):
    import jax
    import jax.numpy as jnp
    import numpy as np

    c0 = cases[0]
    t, shape, offs = _module(c0["dm"], c0["d"], c0["axis"], c0["bg"])
    f = jax.jit(jax.vmap(lambda a: t({"params": a})["params"]))
    recs = []
    for i in range(0, len(cases), BATCH):
        part = cases[i : i + BATCH]
        arr = jnp.asarray(np.asarray([c["arr"] for c in part], dtype=np.float64).reshape((len(part),) + shape))
        out = np.asarray(f(arr))
        recs += [_record(c, offs, o, shape) for c, o in zip(part, out)]
    return recs


def classify(record, verdict):
    if verdict.startswith("malformed"):
        return "malformed"
    return "drift" if verdict.startswith("drift:") else "violation"


TIMEOUT = float(__import__("os").environ.get("C25_TIMEOUT", "180"))  # seconds per batch / eager call (normal: < 5 s)


def _timeout_record(cid, cases):
    """stands for a call (or batch of calls) of the real transform that did not return within TIMEOUT"""
    c0 = cases[0]
    return {"id": cid, "returned": 0, "dm": c0["dm"], "brush": [[0, 0]], "bg": c0["bg"], "arr": [], "out": [], "dev": 0, "model": 0,
            "family": "timeout", "d": str(c0["d"]), "ncases": len(cases)}  # fmt: skip


def _guarded(jobs, parallel):
    """Run jobs {key: (fn, arg)} in daemon threads, at most `parallel` at a time, each under the watchdog TIMEOUT
    (counted from the moment the job starts computing).  Returns (results by key, set of timed-out keys).  After
    the first timeout no further job is started (non-termination is established; a hung JAX while-loop cannot be
    cancelled, it only loses its slot)."""
    import threading
    import time

    sem = threading.Semaphore(parallel)
    results, started, timed_out, stop = {}, {}, set(), threading.Event()

    def work(k, fn, arg):
        sem.acquire()
        if stop.is_set():
            results[k] = None
            sem.release()
            return
        started[k] = time.time()
        try:
            results[k] = fn(arg)
        except BaseException as ex:  # re-raised in the main thread
            results[k] = ex
        if k not in timed_out:
            sem.release()

    for k, (fn, arg) in jobs.items():
        threading.Thread(target=work, args=(k, fn, arg), daemon=True).start()
    while len(results) + len([k for k in timed_out if k not in results]) < len(jobs):
        time.sleep(0.2)
        now = time.time()
        for k, t0 in list(started.items()):
            if k not in results and k not in timed_out and now - t0 > TIMEOUT:
                timed_out.add(k)
                stop.set()
                sem.release()  # the hung job never gives its slot back
    for k, r in list(results.items()):
        if isinstance(r, BaseException):
            raise r
    return {k: r for k, r in list(results.items()) if k not in timed_out}, timed_out


def _finish_after_timeout(ctx):
    """a hung JAX computation keeps the interpreter from exiting: write the evidence and leave hard"""
    import os
    import sys

    rc = ctx.finish()
    sys.stdout.flush()
    sys.stderr.flush()
    os._exit(rc)


def run(ctx, only=None):
    model_check(ctx) if only is None else None
    cases = list(gen_cases(ctx)) if only is None else only
    groups = {}
    for c in cases:
        groups.setdefault(gkey(c), []).append(c)
    res, hung = _guarded({k: (observe_batch, g) for k, g in groups.items()}, PARALLEL)
    recs = [r for k in groups if res.get(k) for r in res[k]]
    inputs = {c["id"]: c for c in cases}
    for k in hung:
        cid = "timeout-" + "-".join(str(x) for x in k)
        recs.append(_timeout_record(cid, groups[k]))
        inputs[cid] = {"batch": groups[k]}
    if not hung and only is None:
        rng = random.Random(ctx.seed + 1)
        eager = {}
        for c in rng.sample(cases, min(len(cases), 30 if ctx.quick else 300)):  # eager re-runs, no jit / vmap
            e = dict(c, id=c["id"] + "-eager")
            inputs[e["id"]] = e
            eager[e["id"]] = (observe, e)
        res2, hung2 = _guarded(eager, 1)
        recs += [res2[k] for k in eager if res2.get(k)]
        for k in hung2:
            recs.append(_timeout_record("timeout-" + k, [inputs[k]]))
            inputs["timeout-" + k] = {"batch": [inputs[k]]}
        hung = hung2
    for r in recs:
        r.setdefault("returned", 1)
    ok = [r for r in recs if r["returned"] == 1]
    for r in ok[:1] + ok[-1:]:
        ctx.sample({k: r[k] for k in ("id", "dm", "brush", "bg", "arr", "out")})
    ctx.nontrivial = sum(1 for r in ok if 0 < sum(r["out"]) < len(r["out"]))
    fam = {}
    for r in recs:
        fam[r["family"] + "/d" + r["d"]] = fam.get(r["family"] + "/d" + r["d"], 0) + 1
    ctx.extra_cov["cases_by_family_and_diameter"] = fam
    ctx.extra_cov["watchdog_timeout_s"] = TIMEOUT
    ctx.validate(*TRACE, recs, inputs, classify=classify, chunk=CHUNK)
    if hung:
        ctx.notes.append("a call of BrushConstraint2D did not return within the watchdog limit; remaining batches were not started")
        _finish_after_timeout(ctx)


def replay(ctx, inp):
    """--replay: a stored case, or the batch behind a timeout record, again under the watchdog"""
    run(ctx, only=inp["batch"] if "batch" in inp else [inp])


def gkey(c):
    return (tuple(c["dm"]), c["d"], c["axis"], c["bg"])
