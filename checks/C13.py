"""C13 - plane sources radiate only in their stated direction (trace-monitor).
Spec: spec/DirectionDefs.tla, spec/DirectionScenes.tla (configuration space + phase machine Ramp -> Steady over an abstract
two-sheet model of the total-field/scattered-field plane); trace spec: spec/Trace_Direction.tla.

Every scene is built through the public pipeline (place_objects -> apply_params -> run_fdtd), vacuum everywhere:
  uniform : UniformPlaneSource at normal incidence spanning a 3x3-cell cross-section with PERIODIC transverse faces,
            absorbing layers (10 cells) only along the propagation axis
  gauss   : GaussianPlaneSource (radius 0.30 / 0.35 / 0.50 wavelengths) spanning the free cross-section (1.6 wavelengths)
            of a domain with absorbing layers (8 cells) on every face
  two library PoyntingFluxDetector planes with the transverse extent of the source, 0.4 (uniform) / 0.27 (gauss)
  wavelengths in front of and behind it.  cw: flux averaged over consecutive whole periods; pulse: flux integrated.
TLC (Trace_Direction) decides: Steady => P_fwd > 0 and |P_back| < 1e-3 P_fwd (uniform) / < 0.1 P_fwd (gauss)."""
import math
import random
import re

ID = "C13"
LEVEL = "other"
TRACE = ("Trace_Direction", "Trace_Direction.cfg")
PARALLEL = 2
CHUNK = 200

FACES = ("min_x", "max_x", "min_y", "max_y", "min_z", "max_z")
POLS = ("h", "v", "obl", "hfix")
SWITCHES = ("on", "delay", "window")
DELAY_PERIODS = {"on": 0.0, "delay": 2.0, "window": 1.5}      # switch-on time of the source in periods
EXTRA_PERIODS = 2                                              # switched scenes run two periods longer
RES = 50e-9
NPERIODS = 14
PULSE_SWF = 4       # pulse: spectral width f0 / 4
EXPLANATION = ("trace-monitor: TLC enumerates the configuration space (DirectionScenes, count cross-checked with the harness) and "
               "checks that the phase machine and the stated thresholds are consistent with a two-sheet model of the injection plane "
               "(negative instances: direction ignored, half-step offset dropped, H sign, too large diffraction share - all rejected); for "
               "every scene the REAL fdtdx run is logged as scaled integers (powers in ppb of P_fwd) and TLC (Trace_Direction) evaluates the "
               "statement's inequality on every Steady window. TLC does not derive the thresholds 1e-3 / 0.1; they are those of the statement.")


def configs():
    """mirror of DirectionDefs!Configs"""
    return [(a, d, p, pr, r, b, sw) for sw in SWITCHES for b in ("uniform", "gauss") for r in (15, 20) for pr in ("cw", "pulse") for a in range(3) for d in ("+", "-") for p in POLS]


def _init_count(r):
    m = re.search(r"Finished computing initial states: (\d+) (?:distinct )?states? generated", r.out)
    return int(m.group(1)) if m else -1


def model_check(ctx):
    from lib.tlc import MachineryError

    r = ctx.mc("DirectionScenes", "MC_DirectionScenes_q.cfg" if ctx.quick else "MC_DirectionScenes_t.cfg",
               label="576 scenes (axis x direction x polarisation class x profile x resolution x beam x switch) x ramp levels x every residual of the two-sheet model")
    n = _init_count(r)
    if n != len(configs()):
        raise MachineryError(f"DirectionScenes enumerates {n} scenes, the harness {len(configs())}")
    for c in ("neg", "neg2", "neg3", "neg4", "neg5"):
        ctx.mc_negative("DirectionScenes", f"MC_DirectionScenes_{c}.cfg")
    ctx.assumptions += [
        "thresholds 1e-3 (uniform) and 0.1 (Gaussian) are taken from the statement, not derived",
        "power = library PoyntingFluxDetector (reduce_volume, float64, exact_interpolation) on planes with the transverse extent of the source; P_fwd counted in the declared direction in front of the source, P_back counted in the opposite direction behind it, |P_back| is compared",
        "cw: averages over consecutive whole periods (window edges rounded to steps); Steady = periods starting after the 4-period linear ramp plus the transit to the planes and back from the layers; pulse: time integral from the start, Steady = pulse over (12 sigma) plus the same transit",
        "Gaussian beam: measured in an open domain (absorbing layers on all faces), planes = free cross-section of 1.6 wavelengths, 0.27 wavelengths from the source; the measured share depends on this geometry (a point-like Huygens source sends 1/7 of its forward power into the backward half space through infinite planes)",
        "vacuum, uniform 50 nm grid, default courant factor 0.99, float64",
    ]


def _vec(axis, pol, phi):
    """unit vector in the transverse plane of `axis`: angle phi from the horizontal transverse axis"""
    from fdtdx.core.axis import get_oriented_transverse_axes

    h, v = get_oriented_transverse_axes(axis)
    out = [0.0, 0.0, 0.0]
    if pol == "h":
        out[h] = 1.0
    elif pol == "v":
        out[v] = 1.0
    else:
        out[h], out[v] = math.cos(phi), math.sin(phi)
    return out


def _case(cfg, rng, radius=None):
    a, d, p, pr, r, b, sw = cfg
    phi = math.radians(rng.choice([-1, 1]) * rng.uniform(10.0, 80.0))
    rad = 0 if b == "uniform" else (radius if radius is not None else rng.choice([300, 350, 500]))
    return {"id": f"{'xyz'[a]}{d}-{p}-{pr}-r{r}-{b}-{sw}", "axis": a, "dir": d, "pol": p, "profile": pr, "res": r, "beam": b, "switch": sw, "phi": phi, "radiusMilli": rad}


def gen_cases(ctx):
    rng = random.Random(ctx.seed)
    ctx.exhaustive = False      # thorough: every configuration, but oblique angles / Gaussian radii are seeded
    if not ctx.quick:
        for cfg in configs():
            yield _case(cfg, rng)
        return
    ctx.exhaustive = False
    axes = [0, 1, 2]
    rng.shuffle(axes)
    axes.append(rng.choice([0, 1, 2]))
    # the three uniform scenes cover the three propagation axes (axes[:3] is a permutation) and are polarised OBLIQUELY, so that
    # both transverse components of every per-axis injection / curl branch carry field in every run; the axis-parallel classes
    # h / v (special cases) go to the Gaussian scene by seed and are swept completely in the thorough tier
    pols = ["obl", "hfix", rng.choice(["obl", "hfix"])]
    rng.shuffle(pols)
    pols.append(rng.choice(["h", "v"]))
    res = [15, 20, 15, 20]
    rng.shuffle(res)
    d0 = rng.choice(["+", "-"])
    other = "-" if d0 == "+" else "+"
    # uniform: both directions x both profiles; plus one uniform and one Gaussian scene with seeded direction / profile
    plan = [("uniform", d0, "cw"), ("uniform", other, "pulse"), ("uniform", rng.choice(["+", "-"]), rng.choice(["cw", "pulse"])), ("gauss", rng.choice(["+", "-"]), rng.choice(["cw", "pulse"]))]
    # switches: the three uniform scenes carry the three switch classes (always-on, delayed start, start+end window): every run
    # exercises the update path of sources with a non-default switch twice; the Gaussian scene uses a seeded class
    sws = list(SWITCHES)
    rng.shuffle(sws)
    sws.append(rng.choice(SWITCHES))
    for i, (b, d, pr) in enumerate(plan):
        yield _case((axes[i], d, pols[i], pr, res[i], b, sws[i]), rng, radius=300)


# ------------------------------------------------------------------ scene construction (public pipeline)
def _base():
    import jax.numpy as jnp

    import fdtdx

    cfg0 = fdtdx.SimulationConfig(time=1e-15, grid=fdtdx.UniformGrid(spacing=RES), backend="cpu", dtype=jnp.float64)
    return cfg0.time_step_duration, cfg0.courant_number


def geometry(case):
    dt, cn = _base()
    cpw = case["res"]
    psteps = cpw / cn                                   # period in steps
    sw = case.get("switch", "on")
    nper = NPERIODS + (EXTRA_PERIODS if sw != "on" else 0)
    delay_nominal = int(math.ceil(DELAY_PERIODS[sw] * psteps))
    T = int(round(nper * psteps))
    if case["beam"] == "uniform":
        pml, gap, W = 10, int(round(0.4 * cpw)), 3
    else:
        pml, gap, W = 8, int(round(cpw * 4 / 15)), int(round(1.6 * cpw))
    settle = int(math.ceil((4 * gap + 2 * pml) / cn))
    if case["profile"] == "cw":
        ramp = int(math.ceil(4 * psteps))               # SingleFrequencyProfile.num_startup_periods = 4 (asserted in _build)
    else:
        ramp = int(math.ceil(12 * PULSE_SWF / (2 * math.pi) * psteps))
    return {"psteps": psteps, "nper": nper, "T": T, "pml": pml, "gap": gap, "W": W, "rampSteps": ramp, "settleSteps": settle,
            "tSteady": delay_nominal + 1 + ramp + settle}


def _build(case):
    import jax
    import jax.numpy as jnp

    import fdtdx
    from fdtdx.constants import c as c0

    g = geometry(case)
    dt, _ = _base()
    axis, T, pml, gap, W = case["axis"], g["T"], g["pml"], g["gap"], g["W"]
    wl = case["res"] * RES
    config = fdtdx.SimulationConfig(time=(T + 0.25) * dt, grid=fdtdx.UniformGrid(spacing=RES), backend="cpu", dtype=jnp.float64, gradient_config=None)
    assert config.time_steps_total == T, (config.time_steps_total, T)
    L = 2 * pml + 4 * gap + 3
    uniform = case["beam"] == "uniform"
    shape = [W if uniform else W + 2 * pml] * 3
    shape[axis] = L
    vol = fdtdx.SimulationVolume(partial_grid_shape=tuple(shape))
    over = {f: "periodic" for f in FACES if f[-1] != "xyz"[axis]} if uniform else {}
    bcfg = fdtdx.BoundaryConfig.from_uniform_bound(thickness=pml, override_types=over)
    bd, cl = fdtdx.boundary_objects_from_config(bcfg, vol)
    objs, cons = [vol] + list(bd.values()), list(cl)
    wc = fdtdx.WaveCharacter(wavelength=wl)
    if case["profile"] == "cw":
        tp = fdtdx.SingleFrequencyProfile()
        assert tp.num_startup_periods == 4
    else:
        tp = fdtdx.GaussianPulseProfile(spectral_width=fdtdx.WaveCharacter(frequency=(c0 / wl) / PULSE_SWF), center_wave=wc)
    pshape = [W] * 3
    pshape[axis] = 1
    lo = [0 if uniform else pml] * 3
    vec = tuple(_vec(axis, case["pol"], case["phi"]))
    kw = dict(name="src", partial_grid_shape=tuple(pshape), wave_character=wc, temporal_profile=tp, direction=case["dir"])
    sw = case.get("switch", "on")
    if sw == "delay":
        kw["switch"] = fdtdx.OnOffSwitch(start_after_periods=DELAY_PERIODS[sw], period=wc.get_period())
    elif sw == "window":      # start + end window; the end lies after the last step, so the measuring interval is covered
        kw["switch"] = fdtdx.OnOffSwitch(start_after_periods=DELAY_PERIODS[sw], end_after_periods=g["nper"] + 3.0, period=wc.get_period())
    kw["fixed_H_polarization_vector" if case["pol"] == "hfix" else "fixed_E_polarization_vector"] = vec
    if uniform:
        src = fdtdx.UniformPlaneSource(**kw)
    else:
        src = fdtdx.GaussianPlaneSource(**kw, radius=case["radiusMilli"] / 1000.0 * wl)
    ks = pml + 2 * gap + 1

    def place(o, k):
        c = list(lo)
        c[axis] = k
        cons.append(o.set_grid_coordinates(axes=(0, 1, 2), sides=("-", "-", "-"), coordinates=tuple(c)))
        objs.append(o)

    place(src, ks)
    for nm, k in (("lo", ks - gap), ("hi", ks + gap)):
        place(fdtdx.PoyntingFluxDetector(name=nm, partial_grid_shape=tuple(pshape), direction="+", fixed_propagation_axis=axis, dtype=jnp.float64, plot=False), k)
    key = jax.random.PRNGKey(0)
    obj, arrays, params, config, _ = fdtdx.place_objects(object_list=objs, config=config, constraints=cons, key=key)
    arrays, obj, _ = fdtdx.apply_params(arrays, obj, params, key)
    return obj, arrays, config, g


def _units(x, cap=2_000_000_000):
    if not math.isfinite(x):
        return cap
    return int(min(cap, max(0, math.floor(x))))


def observe(case):
    import numpy as np

    import fdtdx

    obj, arrays, config, g = _build(case)
    by = {o.name: o for o in obj.objects}
    src = by["src"]
    axis = case["axis"]
    # premises, read back from the placed objects
    periodic = all(type(b).__name__ == "BlochBoundary" and tuple(float(v) for v in b.bloch_vector) == (0.0, 0.0, 0.0) for b in obj.boundary_objects if b.axis != axis)
    normal = bool(src.azimuth_angle == 0.0 and src.elevation_angle == 0.0 and src.max_angle_random_offset == 0.0)
    homogeneous = bool(np.all(np.asarray(arrays.inv_permittivities) == 1.0) and np.all(np.asarray(arrays.inv_permeabilities) == 1.0))
    on = np.asarray(src._is_on_at_time_step_arr, dtype=bool)
    assert on.shape[0] == g["T"] and on.any()
    delay = int(np.argmax(on))                         # first step at which the placed source is on
    on_to_end = bool(on[delay:].all())
    k_src, k_lo, k_hi = (int(by[n].grid_slice_tuple[axis][0]) for n in ("src", "lo", "hi"))
    assert k_lo < k_src < k_hi, (k_lo, k_src, k_hi)
    for n in ("lo", "hi"):      # planes have the transverse extent of the source
        assert all(by[n].grid_slice_tuple[a] == src.grid_slice_tuple[a] for a in range(3) if a != axis)
    _, out = fdtdx.run_fdtd(arrays, obj, config, show_progress=False)
    lo = np.asarray(out.detector_states["lo"]["poynting_flux"], dtype=np.float64)[:, 0]
    hi = np.asarray(out.detector_states["hi"]["poynting_flux"], dtype=np.float64)[:, 0]
    s = 1.0 if case["dir"] == "+" else -1.0
    fwd = s * (hi if s > 0 else lo)                   # flux in the declared direction through the plane in front
    back = -s * (lo if s > 0 else hi)                 # flux in the opposite direction through the plane behind
    T, p = g["T"], g["psteps"]
    wins = []
    if case["profile"] == "cw":
        edges = [int(round(k * p)) for k in range(g["nper"] + 1)]
        edges[-1] = min(edges[-1], T)
        for a, b in zip(edges[:-1], edges[1:]):
            wins.append((a, b, float(np.mean(fwd[a:b])), float(np.mean(back[a:b]))))
    else:
        for b in sorted({int(round(4 * p)), int(round(6 * p)), int(round(8 * p)), g["tSteady"], (g["tSteady"] + T) // 2, T}):
            wins.append((0, b, float(np.sum(fwd[:b])), float(np.sum(back[:b]))))
    ref = wins[-1][2]
    events = []
    for a, b, pf, pb in wins:
        pos = bool(math.isfinite(pf) and pf > 0)
        events.append({"t0": a, "t1": b, "fwdPos": pos, "pf": _units(1e9 * pf / ref) if (ref > 0 and math.isfinite(ref)) else 0,
                       "ratio": _units(1e9 * abs(pb) / pf) if pos else 2_000_000_000})
    steady = [e for e in events if (e["t0"] >= g["tSteady"] if case["profile"] == "cw" else e["t1"] >= g["tSteady"])]
    return {"id": case["id"], "axis": axis, "dir": case["dir"], "pol": case["pol"], "profile": case["profile"], "res": case["res"], "beam": case["beam"], "switch": case.get("switch", "on"), "delaySteps": delay, "onToEnd": on_to_end,
            "cpwMilli": int(round(1000 * (case["res"] * RES) / config.uniform_spacing())), "radiusMilli": case["radiusMilli"],
            "normal": normal, "periodic": bool(periodic), "homogeneous": homogeneous,
            "tSteady": g["tSteady"], "rampSteps": g["rampSteps"], "settleSteps": g["settleSteps"], "T": T, "events": events,
            "maxSteadyRatio": max([e["ratio"] for e in steady] or [0]), "nSteady": len(steady), "planes": [k_lo, k_src, k_hi]}


def classify(rec, verdict):
    return "malformed" if verdict.startswith("malformed") else "violation"


def run(ctx):
    import json

    from lib.worker import pmap

    model_check(ctx)
    inputs = list(gen_cases(ctx))
    # every scene compiles its own run_fdtd: hundreds of cached executables exhaust memory in the thorough sweep
    # (SIGSEGV / SIGABRT observed), so scenes are run in batches and the jit caches are dropped in between
    import gc

    import jax

    recs = []
    for b in range(0, len(inputs), 24):
        recs += pmap(__name__, "observe", inputs[b:b + 24], procs=PARALLEL, mode="thread")
        jax.clear_caches()
        gc.collect()
    for r in recs[:2]:
        ctx.sample(r)
    ctx.nontrivial = len({json.dumps(c, sort_keys=True) for c in inputs})
    ctx.validate(*TRACE, recs, {c["id"]: c for c in inputs}, classify=classify, chunk=CHUNK)
    mu = max([r["maxSteadyRatio"] for r in recs if r["beam"] == "uniform"] or [0])
    mg = max([r["maxSteadyRatio"] for r in recs if r["beam"] == "gauss"] or [0])
    ctx.notes += [EXPLANATION,
                  f"scenes run: {len(recs)} of {len(configs())} enumerated ({'seeded choice; three obliquely polarised uniform scenes covering all three axes, both directions and both profiles, one Gaussian beam at radius 0.3' if ctx.quick else 'all'})",
                  f"observed: max |P_back|/P_fwd over Steady windows = {mu} ppb for uniform sources (bound 1000000 ppb), {mg} ppb for Gaussian beams (bound 100000000 ppb)"]
    ctx.extra_cov["explanation"] = EXPLANATION
    ctx.extra_cov["observed_margins"] = {"uniform_max_ratio_ppb": mu, "uniform_bound_ppb": 1000000, "gauss_max_ratio_ppb": mg, "gauss_bound_ppb": 100000000}
    ctx.extra_cov["scenes"] = [r["id"] for r in recs]
