"""C28 - Static materials are painted by placement order.
Spec: spec/Painter.tla (+PainterDefs), trace spec: spec/Trace_Painter.tla.  DESIGN.md §5 C28.

Scenes (volume + up to 3 overlapping boxes / spheres / cylinders, optional Device as a tier-only
contributor) go through the public fdtdx.place_objects; the returned material arrays are encoded as
integers (inverse x 8, conductivity / spacing) and TLC evaluates the painter's rule cell by cell."""
import itertools
import random

ID = "C28"
TRACE = ("Trace_Painter", "Trace_Painter.cfg")
CHUNK = 40
PARALLEL = 5

SHAPE = (4, 4, 2)
SPACING = 50e-9
SCALE = 8
I9 = [1, 0, 0, 0, 1, 0, 0, 0, 1]
Z9 = [0] * 9


def _iso(v):
    return [v, 0, 0, 0, v, 0, 0, 0, v]


def _diag(a, b, c):
    return [a, 0, 0, 0, b, 0, 0, 0, c]


# material catalogue: integer tensors whose inverses are exact multiples of 1/8
MATS = {
    "vac": dict(eps=_iso(1), mu=I9, se=Z9, sm=Z9),
    "iso2": dict(eps=_iso(2), mu=I9, se=Z9, sm=Z9),
    "iso4": dict(eps=_iso(4), mu=I9, se=Z9, sm=Z9),
    "iso8": dict(eps=_iso(8), mu=I9, se=Z9, sm=Z9),
    "diag": dict(eps=_diag(2, 4, 8), mu=I9, se=Z9, sm=Z9),
    "full": dict(eps=[2, 1, 0, 1, 1, 0, 0, 0, 4], mu=I9, se=Z9, sm=Z9),
    "full2": dict(eps=[4, 0, 2, 0, 2, 0, 2, 0, 2], mu=I9, se=Z9, sm=Z9),
    "mag": dict(eps=_iso(4), mu=_iso(2), se=Z9, sm=Z9),
    "magdiag": dict(eps=_iso(2), mu=_diag(1, 2, 4), se=Z9, sm=Z9),
    "cond": dict(eps=_iso(2), mu=I9, se=_iso(3), sm=Z9),
    "conddiag": dict(eps=_iso(4), mu=I9, se=_diag(1, 2, 3), sm=Z9),
    "lossy": dict(eps=_iso(8), mu=_diag(1, 2, 4), se=_diag(1, 2, 3), sm=[1, 1, 0, 1, 2, 0, 0, 0, 1]),
    "mcond": dict(eps=_iso(2), mu=_iso(4), se=Z9, sm=_iso(2)),
}
# uniaxial tensors (two equal diagonal entries) for EVERY property and every axis: alone in a scene they decide the tier,
# so an isotropy test that compares only two of the three diagonal entries allocates too narrow an array
UNIAX = []
for _ax, _n in enumerate("xyz"):
    def _u(a, c, ax=_ax):
        v = [a, a, a]
        v[ax] = c
        return _diag(*v)
    MATS[f"epsU{_n}"] = dict(eps=_u(2, 4), mu=I9, se=Z9, sm=Z9)
    MATS[f"muU{_n}"] = dict(eps=_iso(2), mu=_u(1, 2), se=Z9, sm=Z9)
    MATS[f"muV{_n}"] = dict(eps=_iso(4), mu=_u(2, 4), se=Z9, sm=Z9)
    MATS[f"seU{_n}"] = dict(eps=_iso(2), mu=I9, se=_u(1, 3), sm=Z9)
    MATS[f"seZ{_n}"] = dict(eps=_iso(4), mu=I9, se=_u(0, 2), sm=Z9)          # conductive along one axis only
    MATS[f"smU{_n}"] = dict(eps=_iso(2), mu=I9, se=Z9, sm=_u(2, 1))
    MATS[f"smZ{_n}"] = dict(eps=_iso(2), mu=_iso(2), se=Z9, sm=_u(0, 3))
    UNIAX += [f"epsU{_n}", f"muU{_n}", f"muV{_n}", f"seU{_n}", f"seZ{_n}", f"smU{_n}", f"smZ{_n}"]
# 63 further pairwise distinct materials with diagonal permittivity (a, b, c), a, b, c in {1, 2, 4, 8}: exact inverses, so
# the object on top of a cell is identifiable from the stored components even with 16 objects in one scene
DIAGS = []
for _a in (1, 2, 4, 8):
    for _b in (1, 2, 4, 8):
        for _c in (1, 2, 4, 8):
            if (_a, _b, _c) != (1, 1, 1):
                MATS[f"d{_a}{_b}{_c}"] = dict(eps=_diag(_a, _b, _c), mu=I9, se=Z9, sm=Z9)
                DIAGS.append(f"d{_a}{_b}{_c}")
TIE_SHAPE = (6, 6, 2)
PLAIN = ["iso2", "iso4", "iso8"]
ALLM = [m for m in MATS if m != "vac" and m not in DIAGS]


def model_check(ctx):
    ctx.mc("Painter", "MC_Painter_q.cfg" if ctx.quick else "MC_Painter_t.cfg", workers=6,
           label="volume + 3 objects, covers = all non-empty subsets of 3 (thorough 4) cells, orders {0,1,2}^3; all material assignments from a 7-kind catalogue")
    ctx.mc("Painter", "MC_Painter_ties.cfg" if ctx.quick else "MC_Painter_ties_t.cfg", workers=6,
           label="quick: volume + 6 objects, orders in {0,1} in every way (all tied / two interleaved tie groups), 3 rotating mutually overlapping covers; thorough: volume + 5 objects, every cover assignment")
    ctx.mc_negative("Painter", "MC_Painter_neg.cfg", workers=4)    # ties painted in reverse list order
    ctx.mc_negative("Painter", "MC_Painter_neg2.cfg", workers=4)   # ties resolved by an arbitrary permutation (non-stable sort)
    ctx.mc_negative("Painter", "MC_Painter_neg3.cfg", workers=4)   # isotropy test ignores zz (uniaxial-z tensor passes as isotropic)
    ctx.assumptions += [
        "material tensors are small integers whose inverses are multiples of 1/8, so the arrays are exact in float64 (deviation is sent and bounded by tol = 1000 ppb anyway)",
        "user placement orders are > -1000 (the volume's default), as the statement's 'the volume is lowest' presupposes",
        "uniform grid: conductivities are stored times the grid spacing; sub-pixel smoothing and dispersion are off",
        "an object's cover is its placed box (UniformMaterialObject) or its own get_voxel_mask_for_shape() (Sphere, Cylinder); rasterisation itself is C43",
    ]


def _rbox(rng):
    b = []
    for n in SHAPE:
        s = rng.randrange(0, n)
        b.append([s, rng.randrange(s + 1, n + 1)])
    return b


def gen_cases(ctx):
    rng = random.Random(ctx.seed)
    ctx.exhaustive = False
    n = 0

    def scene(tag, objs, device=None, shape=None):
        nonlocal n
        n += 1
        return {"id": f"{tag}-{n}", "vol": "vac", "objs": objs, "device": device, "shape": list(shape or SHAPE)}

    # A. three fully/partly overlapping objects, ALL 27 order assignments from {0,1,2}, shapes rotating
    fixed = [
        {"kind": "box", "box": [[0, 3], [0, 3], [0, 2]]},
        {"kind": "sphere", "at": [1, 1, 0], "r": [1.5, 1.0, 1.0]},
        {"kind": "cyl", "axis": 2, "at": [0, 1, 0], "r": 1.5, "len": 2},
    ]
    for r, orders in enumerate(itertools.product((0, 1, 2), repeat=3)):
        objs = []
        perm = [fixed[(i + r) % 3] for i in range(3)]
        for i, (g, o) in enumerate(zip(perm, orders)):
            objs.append({**g, "ord": o, "mat": PLAIN[i], "extra": []})
        yield scene("orders", objs)
    # D. many static objects sharing ONE placement order (9-16 mutually overlapping boxes, distinct materials, several
    #    list permutations), and mixes of several tie groups: list order must break every tie, for any number of objects
    def tie_box():
        # every box contains the cells (2..3, 2..3, 0): all boxes overlap mutually
        b = []
        for _ in range(2):
            b.append([rng.randrange(0, 3), rng.randrange(4, 7)])
        b.append([0, rng.choice((1, 2))])
        return b

    sizes = (9, 12, 14, 16) if ctx.quick else (9, 10, 11, 12, 13, 14, 15, 16)
    for nb in sizes:
        boxes = [tie_box() for _ in range(nb)]
        mats = rng.sample(DIAGS, nb)
        for perm in range(2 if ctx.quick else 6):
            idx = list(range(nb))
            rng.shuffle(idx)
            yield scene(f"ties{nb}", [{"kind": "box", "box": boxes[i], "ord": 0, "mat": mats[i], "extra": []} for i in idx], shape=TIE_SHAPE)
    mixes = ((12, (0, 1)), (16, (0, 1, 2)), (15, (-2, 0, 0, 5)), (16, (3, 3, 3, 7)), (13, (0, 1)), (14, (1, 0, 0)), (16, (0, 1)), (12, (2, 4, 4)),
             (9, (0, 1)), (16, (-1, -1, 0, 6)))
    if not ctx.quick:
        mixes = tuple((nb, g) for nb in (9, 10, 12, 14, 16) for g in ((0, 1), (0, 1, 2), (-2, 0, 0, 5), (3, 3, 3, 7), (1, 0, 0), (2, 4, 4)))
    for nb, groups in mixes:
        mats = rng.sample(DIAGS, nb)
        yield scene(f"tiegroups{nb}", [{"kind": "box", "box": tie_box(), "ord": rng.choice(groups), "mat": mats[i], "extra": []} for i in range(nb)], shape=TIE_SHAPE)
    # B. material kinds: tier selection (every catalogue material alone, in pairs, as unused dictionary entry, in a Device)
    for m in ALLM:
        yield scene("kind1", [{"kind": "box", "box": [[1, 3], [0, 4], [0, 1]], "ord": 0, "mat": m, "extra": []}])
        if m in ("iso4", "iso8", "full2", "magdiag", "conddiag", "mcond") or (m in UNIAX and (m[-1] != "z" or m[:3] in ("muV", "seU", "smZ"))):
            continue
        yield scene("kindx", [{"kind": "sphere", "at": [0, 0, 0], "r": [2.0, 2.0, 1.0], "ord": 0, "mat": "iso2", "extra": [m]},
                              {"kind": "box", "box": [[0, 2], [1, 3], [0, 2]], "ord": 0, "mat": "iso4", "extra": []}])
    # uniaxial materials mixed with each other and with isotropic ones (sphere/cylinder dictionaries, two boxes)
    for m1, m2 in (("epsUz", "iso4"), ("epsUx", "epsUy"), ("muUz", "iso2"), ("seZz", "cond"), ("smUz", "mcond"), ("seUz", "muVy"), ("smZx", "epsUz")):
        yield scene("uniax2", [{"kind": "box", "box": [[0, 3], [1, 4], [0, 2]], "ord": 0, "mat": m1, "extra": []},
                               {"kind": "cyl", "axis": 2, "at": [1, 0, 0], "r": 1.5, "len": 2, "ord": 0, "mat": m2, "extra": []}])
    for m in ("diag", "full", "mag", "cond", "epsUz", "seZz", "muUz", "smUz"):
        yield scene("kinddev", [{"kind": "box", "box": [[0, 2], [0, 4], [0, 2]], "ord": 1, "mat": "iso2", "extra": []}], device=["iso4", m])
    # C. seeded random scenes: random shapes, orders (with ties and negatives), materials of every kind
    for _ in range(20 if ctx.quick else 400):
        objs = []
        for i in range(rng.choice((1, 2, 3, 3))):
            k = rng.choice(("box", "box", "sphere", "cyl"))
            if k == "box":
                g = {"kind": "box", "box": _rbox(rng)}
            elif k == "sphere":
                r = [rng.choice((1.0, 1.5, 2.0)), rng.choice((1.0, 1.5, 2.0)), 1.0]
                g = {"kind": "sphere", "r": r, "at": [rng.randrange(0, 4 - int(2 * r[0]) + 1), rng.randrange(0, 4 - int(2 * r[1]) + 1), 0]}
            else:
                r = rng.choice((1.0, 1.5, 2.0))
                g = {"kind": "cyl", "axis": 2, "r": r, "len": rng.choice((1, 2)), "at": [rng.randrange(0, 4 - int(2 * r) + 1), rng.randrange(0, 4 - int(2 * r) + 1), 0]}
            pool = ALLM if rng.random() < 0.5 else PLAIN
            extra = [rng.choice(ALLM)] if k != "box" and rng.random() < 0.3 else []
            objs.append({**g, "ord": rng.choice((-3, 0, 0, 1, 1, 2)), "mat": rng.choice(pool), "extra": extra})
        yield scene("rand", objs, device=["iso2", rng.choice([m for m in ALLM if m != "iso2"])] if rng.random() < 0.15 else None)


def _material(name):
    import fdtdx

    m = MATS[name]

    def prop(p):
        return tuple(float(x) for x in p)

    return fdtdx.Material(permittivity=prop(m["eps"]), permeability=prop(m["mu"]), electric_conductivity=prop(m["se"]), magnetic_conductivity=prop(m["sm"]))


def observe(case):
    import jax
    import jax.numpy as jnp
    import numpy as np
    import fdtdx

    shape = tuple(case.get("shape") or SHAPE)
    cfg = fdtdx.SimulationConfig(time=20e-15, grid=fdtdx.UniformGrid(spacing=SPACING), dtype=jnp.float64)
    vol = fdtdx.SimulationVolume(name="vol", partial_grid_shape=shape, material=_material(case["vol"]))
    objs, cons = [vol], []
    used = [case["vol"]]
    for i, o in enumerate(case["objs"]):
        names = [o["mat"]] + list(o["extra"])
        used += names
        if o["kind"] == "box":
            ob = fdtdx.UniformMaterialObject(name=f"o{i}", partial_grid_shape=tuple(e - s for s, e in o["box"]), material=_material(o["mat"]), placement_order=o["ord"])
            at = [s for s, _ in o["box"]]
        elif o["kind"] == "sphere":
            rx, ry, rz = (r * SPACING for r in o["r"])
            ob = fdtdx.Sphere(name=f"o{i}", radius=rx, radius_x=rx, radius_y=ry, radius_z=rz, materials={k: _material(k) for k in names}, material_name=o["mat"], placement_order=o["ord"])
            at = o["at"]
        else:
            pgs = [None, None, None]
            pgs[o["axis"]] = o["len"]
            ob = fdtdx.Cylinder(name=f"o{i}", radius=o["r"] * SPACING, axis=o["axis"], partial_grid_shape=tuple(pgs), materials={k: _material(k) for k in names}, material_name=o["mat"], placement_order=o["ord"])
            at = o["at"]
        objs.append(ob)
        cons.append(ob.set_grid_coordinates(axes=(0, 1, 2), sides=("-", "-", "-"), coordinates=tuple(at)))
    if case.get("device"):
        dm = {k: _material(k) for k in case["device"]}
        used += list(case["device"])
        dev = fdtdx.Device(name="dev", partial_grid_shape=(1, 1, 1), materials=dm, param_transforms=[fdtdx.ClosestIndex()], partial_voxel_grid_shape=(1, 1, 1))
        objs.append(dev)
        cons.append(dev.set_grid_coordinates(axes=(0, 1, 2), sides=("-", "-", "-"), coordinates=tuple(x - 1 for x in shape)))
    oc, arrays, _, _, _ = fdtdx.place_objects(objs, cfg, cons)

    cat = sorted(set(used), key=used.index)
    nx, ny, nz = shape
    lin = np.arange(nx * ny * nz).reshape(shape) + 1
    rec_objs = []
    # LIST ORDER = the order of the object_list handed to place_objects (volume first), which is what the statement's
    # "list order breaks ties" refers to; placed objects are looked up by name
    placed = {o.name: o for o in oc.static_material_objects}
    for o in [placed[x.name] for x in objs if x.name in placed]:
        sl = tuple(slice(a, b) for a, b in o.grid_slice_tuple)
        if isinstance(o, fdtdx.UniformMaterialObject):
            cells = lin[sl].reshape(-1)
            mat = case["vol"] if o.name == "vol" else case["objs"][int(o.name[1:])]["mat"]
        else:
            mask = np.broadcast_to(np.asarray(o.get_voxel_mask_for_shape()).astype(bool), tuple(b - a for a, b in o.grid_slice_tuple))
            cells = lin[sl][mask]
            mat = o.material_name
        rec_objs.append({"name": o.name, "ord": int(o.placement_order), "mat": cat.index(mat) + 1, "cells": [int(x) for x in cells], "kind": type(o).__name__})

    dev = 0.0

    def enc(arr, factor):
        nonlocal dev
        a = np.asarray(arr, dtype=np.float64) * factor
        r = np.rint(a)
        dev = max(dev, float(np.max(np.abs(a - r))))
        r = np.clip(r, -(10**6), 10**6)
        return [[int(v) for v in r[:, x, y, z]] for x in range(nx) for y in range(ny) for z in range(nz)]

    def tier(a):
        return 0 if a is None or not (isinstance(a, jax.Array) and a.ndim > 0) else int(a.shape[0])

    mu = arrays.inv_permeabilities
    tiers = {"eps": tier(arrays.inv_permittivities), "mu": tier(mu), "se": tier(arrays.electric_conductivity), "sm": tier(arrays.magnetic_conductivity)}
    rec = {
        "id": case["id"], "shape": list(shape), "scale": SCALE, "tol": 1000,
        "mats": [MATS[k] for k in cat], "mat_names": cat, "objs": rec_objs, "tiers": tiers,
        "eps": enc(arrays.inv_permittivities, SCALE),
        "mu": enc(mu, SCALE) if tiers["mu"] else [],
        "mu_scalar": int(round(float(mu) * SCALE)) if not tiers["mu"] else 0,
        "se": enc(arrays.electric_conductivity, 1.0 / SPACING) if tiers["se"] else [],
        "sm": enc(arrays.magnetic_conductivity, 1.0 / SPACING) if tiers["sm"] else [],
    }
    rec["dev"] = int(min(10**9, round(dev * 1e9)))
    ords = [o["ord"] for o in rec_objs[1:]]
    rec["max_tie_group"] = max([ords.count(x) for x in set(ords)] or [0])
    rec["overlap_cells"] = int(sum(1 for c in range(1, nx * ny * nz + 1) if sum(1 for o in rec_objs[1:] if c in o["cells"]) >= 2))
    return rec


def classify(record, verdict):
    return "malformed" if verdict.startswith("malformed:") else "violation"


def run(ctx):
    from lib.worker import pmap

    model_check(ctx)
    inputs = list(gen_cases(ctx))
    recs = pmap(__name__, "observe", inputs, procs=PARALLEL, mode="thread")
    for r in recs[:2]:
        ctx.sample({k: v for k, v in r.items() if k not in ("eps", "mu", "se", "sm")})
    ctx.nontrivial = sum(1 for r in recs if r["overlap_cells"] > 0)
    ctx.extra_cov["scenes_with_cells_covered_by_2plus_objects"] = ctx.nontrivial
    ctx.extra_cov["largest_tie_group_per_scene_max"] = max(r["max_tie_group"] for r in recs)
    ctx.extra_cov["scenes_with_tie_group_of_9plus_overlapping_objects"] = sum(1 for r in recs if r["max_tie_group"] >= 9)
    ctx.extra_cov["tier_combinations_observed"] = sorted({f"{r['tiers']['eps']}/{r['tiers']['mu']}/{r['tiers']['se']}/{r['tiers']['sm']}" for r in recs})
    ctx.validate(*TRACE, recs, {c["id"]: c for c in inputs}, classify=classify, chunk=CHUNK)
