"""C23 - Fabrication clean-up keeps exactly the connected material.
Spec: spec/FloodFill.tla (+FloodFillDefs), trace spec: spec/Trace_FloodFill.tla.  DESIGN.md §5 C23.

The real transforms RemoveFloatingMaterial / ConnectHolesAndStructures (module __call__, i.e. discrete.py +
binary_transform.py) are run on every binary design of small lattices, on seeded random designs of larger
ones and on adversarial paths (serpentines, spirals, helices, random snakes; every prefix, 8 orientations);
TLC evaluates Keep / NoFloating / NoEnclosed of FloodFillDefs on the arrays they returned.

Supported lattices: jax.scipy.signal.convolve2d (used for every planar dilation) rejects an image that is
larger than the 3x3 kernel on one axis and smaller on the other, so either all sides are <= 3 or all sides
are >= 3 (a Z of 1 counts as 3 for RemoveFloatingMaterial because the code pads it).  Other shapes raise
ValueError in the code and are outside the property's claim (noted, not tested)."""
import itertools
import random

ID = "C23"
TRACE = ("Trace_FloodFill", "Trace_FloodFill.cfg")
CHUNK = 1500
PARALLEL = 4
BATCH = 2048


# ------------------------------------------------------------------ model checking
def model_check(ctx):
    if ctx.quick:
        ctx.mc("FloodFill", "MC_FloodFill_q.cfg", label="all designs x {material, air} flood fill on lattices of <= 9 cells, fixpoint loop")
        ctx.mc("FloodFill", "MC_FloodFill_q2.cfg", label="all 4096 designs on 2x2x3, material flood fill, fixpoint loop")
    else:
        ctx.mc("FloodFill", "MC_FloodFill_t.cfg", label="all designs x {material, air} on 11 lattices up to 12 cells", timeout=3 * 3600)
        ctx.mc("FloodFill", "MC_FloodFill_impl.cfg", label="code-as-written variant (max(shape) rounds, Z=1 padded) agrees with BoundedReach used for labelling")
    ctx.mc_negative("FloodFill", "MC_FloodFill_neg.cfg")  # loop bounded by max(shape): 6-cell helix on 2x2x3
    ctx.mc_negative("FloodFill", "MC_FloodFill_neg2.cfg")  # Z = 1 padded below: no seed
    ctx.assumptions += [
        "binary designs (two materials); both choices of the background index are exercised",
        "lattice shapes restricted to those jax.scipy.signal.convolve2d accepts (all sides <= 3 or all sides >= 3)",
        "connect-holes is checked against its two post-conditions only (the property claims nothing else about its output)",
    ]


# ------------------------------------------------------------------ case generation
def _supported(dm, kind):
    x, y, z = dm
    zz = 3 if (z == 1 and kind == "remove") else z
    s = (x, y, zz)
    return all(v <= 3 for v in s) or all(v >= 3 for v in s)


def _flat(cells, dm):
    X, Y, Z = dm
    a = [0] * (X * Y * Z)
    for x, y, z in cells:
        a[x * Y * Z + y * Z + z] = 1
    return a


def _orient(path, dm, o):
    """o in 0..7: bit0 flip x, bit1 flip y, bit2 swap x/y (lattice dims swap accordingly)."""
    X, Y, Z = dm
    out = []
    for x, y, z in path:
        if o & 1:
            x = X - 1 - x
        if o & 2:
            y = Y - 1 - y
        if o & 4:
            x, y = y, x
        out.append((x, y, z))
    return out, ((Y, X, Z) if o & 4 else (X, Y, Z))


def _serpentine(dm, zl):
    """bottom cell (0,0,0), climb to layer zl, boustrophedon rows along x separated by empty rows."""
    X, Y, Z = dm
    p = [(0, 0, z) for z in range(zl + 1)]
    x, y, d = 0, 0, 1
    while True:
        rng_x = range(x + 1, X) if d > 0 else range(x - 1, -1, -1)
        for xx in rng_x:
            p.append((xx, y, zl))
            x = xx
        if y + 2 >= Y:
            break
        p += [(x, y + 1, zl), (x, y + 2, zl)]
        y += 2
        d = -d
    return p


def _spiral(dm, zl):
    """bottom cell, climb to layer zl, square spiral inwards with one empty ring between turns."""
    X, Y, Z = dm
    p = [(0, 0, z) for z in range(zl + 1)]
    used = {(0, 0)}
    blocked = set()
    x, y = 0, 0
    dirs = [(1, 0), (0, 1), (-1, 0), (0, -1)]
    di = 0
    stuck = 0
    while stuck < 2:
        dx, dy = dirs[di]
        nx, ny = x + dx, y + dy

        def free(ax, ay):
            if not (0 <= ax < X and 0 <= ay < Y) or (ax, ay) in used:
                return False
            # induced path: the new cell may touch only the current head
            for ex, ey in dirs:
                q = (ax + ex, ay + ey)
                if q in used and q != (x, y):
                    return False
            return True

        if free(nx, ny):
            x, y = nx, ny
            used.add((x, y))
            p.append((x, y, zl))
            stuck = 0
        else:
            di = (di + 1) % 4
            stuck += 1
    return p


def _helix(dm):
    """spiral staircase along the lattice perimeter: part of a turn per layer, then one step up."""
    X, Y, Z = dm
    ring = [(x, 0) for x in range(X)] + [(X - 1, y) for y in range(1, Y)]
    if Y > 1 and X > 1:
        ring += [(x, Y - 1) for x in range(X - 2, -1, -1)] + [(0, y) for y in range(Y - 2, 0, -1)]
    n = len(ring)
    if n < 3:
        return [(0, 0, z) for z in range(Z)]
    p = [(ring[0][0], ring[0][1], 0)]
    i = 0
    for z in range(1, Z):
        p.append((ring[i % n][0], ring[i % n][1], z))
        run = max(2, min(n - 2, n // 2))
        for _ in range(run):
            i += 1
            p.append((ring[i % n][0], ring[i % n][1], z))
    # keep it an induced path: drop a suffix as soon as a cell touches an earlier non-predecessor cell
    out = []
    for c in p:
        if c in out:
            break
        touching = [q for q in out[:-1] if abs(q[0] - c[0]) + abs(q[1] - c[1]) + abs(q[2] - c[2]) == 1]
        if touching:
            break
        out.append(c)
    return out


def _snake(dm, rng):
    """random induced path from a bottom cell that leaves the bottom layer at once."""
    X, Y, Z = dm
    c = (rng.randrange(X), rng.randrange(Y), 0)
    p = [c]
    if Z > 1:
        p.append((c[0], c[1], 1))
    moves = [(1, 0, 0), (-1, 0, 0), (0, 1, 0), (0, -1, 0), (0, 0, 1), (0, 0, -1)]
    while True:
        h = p[-1]
        cand = []
        for m in moves:
            q = (h[0] + m[0], h[1] + m[1], h[2] + m[2])
            if not (0 <= q[0] < X and 0 <= q[1] < Y and 1 <= q[2] < Z) or q in p:
                continue
            if any(abs(q[0] - r[0]) + abs(q[1] - r[1]) + abs(q[2] - r[2]) == 1 for r in p[:-1]):
                continue
            cand.append(q)
        if not cand:
            return p
        p.append(rng.choice(cand))


def gen_cases(ctx):
    rng = random.Random(ctx.seed)
    seen = set()

    def emit(kind, dm, bg, cells_flat, family, tag):
        dm = tuple(dm)
        if not _supported(dm, kind):
            return None
        cid = f"{kind}-{dm[0]}x{dm[1]}x{dm[2]}-bg{bg}-{family}-{tag}"
        if cid in seen:
            return None
        seen.add(cid)
        return {"id": cid, "kind": kind, "dm": list(dm), "bg": bg, "cells": cells_flat, "family": family}

    # 1. every binary design on small lattices
    exh = [(1, 1, 1), (1, 1, 2), (1, 1, 3), (3, 1, 3), (1, 3, 3), (3, 3, 1), (2, 2, 2), (2, 2, 3)]
    if not ctx.quick:
        exh += [(3, 2, 2), (2, 3, 2), (4, 3, 1), (3, 3, 2)]
    for dm in exh:
        n = dm[0] * dm[1] * dm[2]
        for kind in ("remove", "connect"):
            if n > 12 and kind == "connect":
                continue  # 2^18: remove only; connect is sampled below
            for d in range(2**n):
                if ctx.quick and n > 9 and kind == "connect" and d % 4 != 1:
                    ctx.exhaustive = False
                    continue  # quick: connect-holes on a quarter of the 2x2x3 designs (thorough: all)
                for b in (0, 1) if n <= (8 if ctx.quick else 9) else (((d * 2654435761) >> 7) & 1,):
                    c = emit(kind, dm, b, [(d >> i) & 1 for i in range(n)], "all", str(d))
                    if c:
                        yield c
    # 2. seeded random designs on larger lattices
    ctx.exhaustive = False
    shapes = [(3, 3, 3), (4, 3, 3), (5, 4, 3), (4, 4, 4), (7, 7, 3), (5, 5, 5), (4, 4, 1), (6, 5, 1), (3, 3, 2)]
    per = 60 if ctx.quick else 1000
    for dm in shapes:
        n = dm[0] * dm[1] * dm[2]
        for k in range(per):
            dens = rng.choice((0.3, 0.45, 0.55, 0.65, 0.8))
            cells = [1 if rng.random() < dens else 0 for _ in range(n)]
            for kind in ("remove", "connect"):
                c = emit(kind, dm, rng.randrange(2), cells, "rand", str(k))
                if c:
                    yield c
    # 2b. pockets: a solid block with a background pocket that RESTS ON THE BOTTOM layer and is closed on its sides and
    #     above (the bottom face is not an exit: only sides and top are), optionally with a chimney that stops one
    #     cell short of the top, and the same pocket lifted off the bottom; plus a few random holes elsewhere
    for dm in [(3, 3, 2), (3, 3, 3), (4, 4, 3), (5, 4, 3), (5, 5, 4)] + ([] if ctx.quick else [(7, 7, 3), (6, 6, 5)]):
        X, Y, Z = dm
        k = 0
        for x0 in range(1, X - 1):
            for x1 in range(x0 + 1, X):
                for y0 in range(1, Y - 1):
                    for y1 in range(y0 + 1, Y):
                        for h in range(1, Z):
                            for lift in (0, 1):
                                if lift + h >= Z or (ctx.quick and X * Y > 9 and (x0 * 3 + y0 * 5 + x1 + y1 + h + lift) % 3):
                                    continue
                                cells = [1] * (X * Y * Z)
                                for x in range(x0, x1):
                                    for y in range(y0, y1):
                                        for z in range(lift, lift + h):
                                            cells[x * Y * Z + y * Z + z] = 0
                                k += 1
                                for noise in (0, 1):
                                    cc = list(cells)
                                    if noise:
                                        for _ in range(2):
                                            cc[rng.randrange(X * Y * Z)] = 0
                                    for kind in ("connect", "remove"):
                                        c = emit(kind, dm, (k + noise) % 2, cc, "pocket", f"{k}n{noise}")
                                        if c:
                                            yield c
    # 3. adversarial paths: every prefix, eight orientations; for connect also the complement (air channel)
    bases = [(5, 5, 3), (7, 7, 3), (3, 3, 3), (4, 4, 5)] if ctx.quick else [(5, 5, 3), (7, 7, 3), (6, 5, 4), (3, 3, 3), (4, 4, 5), (9, 7, 3), (8, 8, 5), (3, 3, 8)]
    fams = []
    for dm in bases:
        for zl in range(1, dm[2]):
            if zl > 2 and ctx.quick:
                continue
            fams.append((f"serp{zl}", dm, _serpentine(dm, zl)))
            fams.append((f"spiral{zl}", dm, _spiral(dm, zl)))
        fams.append(("helix", dm, _helix(dm)))
        for s in range(3 if ctx.quick else 12):
            fams.append((f"snake{s}", dm, _snake(dm, rng)))
    for dm in [(2, 2, 3), (3, 2, 3), (2, 3, 3), (3, 3, 2)]:
        fams.append(("helix", dm, _helix(dm)))
    for name, dm0, path in fams:
        orients = (0,) if name.startswith("snake") else range(8) if (not ctx.quick or name in ("serp1", "helix")) else (0, 3, 5, 6)
        stride = 1 if (not ctx.quick or len(path) <= 14) else 2
        kmin = 2 if not ctx.quick else max(2, max(dm0) - 1)  # (a path of <= max(shape) cells cannot show the loop bound)
        for o in orients:
            pth, dm = _orient(path, dm0, o)
            ks = sorted(set(list(range(kmin, len(pth) + 1, stride)) + [len(pth)]))
            for k in ks:
                flat = _flat(pth[:k], dm)
                c = emit("remove", dm, 0, flat, name, f"o{o}k{k}")
                if c:
                    yield c
                if k == len(pth) or k % 4 == 0:
                    for kind, fl, nm in (("connect", flat, name), ("connect", [1 - v for v in flat], name + "inv"), ("remove", [1 - v for v in flat], name + "inv")):
                        c = emit(kind, dm, (o + k) % 2, fl, nm, f"o{o}k{k}")
                        if c:
                            yield c


# ------------------------------------------------------------------ running the real code
_MODS = {}


def _module(kind, dm, bg):
    key = (kind, tuple(dm), bg)
    if key not in _MODS:
        from fdtdx.config import SimulationConfig
        from fdtdx.core.grid import UniformGrid
        from fdtdx.materials import Material
        from fdtdx.objects.device.parameters.discrete import ConnectHolesAndStructures, RemoveFloatingMaterial
        from fdtdx.typing import ParameterType

        mats = {"Air": Material(permittivity=1.0), "Si": Material(permittivity=4.0)}
        cfg = SimulationConfig(time=100e-15, grid=UniformGrid(spacing=500e-9), backend="cpu")
        cls = RemoveFloatingMaterial if kind == "remove" else ConnectHolesAndStructures
        t = cls(background_material=None if bg == 0 else "Si")
        t = t.init_module(config=cfg, materials=mats, matrix_voxel_grid_shape=tuple(dm), single_voxel_size=(1e-6, 1e-6, 1e-6), output_shape={"params": tuple(dm)})
        t = t.init_type({"params": ParameterType.BINARY})
        _MODS[key] = t
    return _MODS[key]


def _record(case, inp_idx, out):
    import numpy as np

    o = np.asarray(out, dtype=np.float64).reshape(-1)
    if not np.all(np.isfinite(o)):
        vals, dev = [-7] * o.size, 10**9
    else:
        r = np.rint(o)
        dev = int(min(10**9, round(float(np.max(np.abs(o - r))) * 1e9))) if o.size else 0
        vals = [int(v) for v in r]
    if tuple(np.shape(out)) != tuple(case["dm"]):
        dev = 10**9
    return {
        "id": case["id"],
        "kind": case["kind"],
        "dm": case["dm"],
        "bg": case["bg"],
        "family": case["family"],
        "Z": case["dm"][2],
        "nmat": int(sum(case["cells"])),
        "inp": [int(v) for v in inp_idx],
        "out": vals,
        "dev": dev,
    }


def _indices(case):
    bg = case["bg"]
    return [(1 - bg) if m else bg for m in case["cells"]]  # material cells get the non-background index


def observe(case):
    """one eager call of the real module (used by --replay and for the eager sample)"""
    import jax.numpy as jnp

    t = _module(case["kind"], case["dm"], case["bg"])
    idx = _indices(case)
    arr = jnp.asarray(idx, dtype=jnp.float64).reshape(tuple(case["dm"]))
    out = t({"params": arr})["params"]
    return _record(case, idx, out)


def observe_batch(cases):
    """the same module call under jax.jit(jax.vmap(.)) over all designs of one (kind, lattice, background)"""
    import jax
    import jax.numpy as jnp
    import numpy as np

    c0 = cases[0]
    t = _module(c0["kind"], c0["dm"], c0["bg"])
    f = jax.jit(jax.vmap(lambda a: t({"params": a})["params"]))
    recs = []
    for i in range(0, len(cases), BATCH):
        part = cases[i : i + BATCH]
        idx = [_indices(c) for c in part]
        arr = jnp.asarray(np.asarray(idx, dtype=np.float64).reshape((len(part),) + tuple(c0["dm"])))
        out = np.asarray(f(arr))
        recs += [_record(c, ix, o) for c, ix, o in zip(part, idx, out)]
    return recs


def classify(record, verdict):
    return "malformed" if verdict.startswith("malformed") else "violation"


def run(ctx):
    from concurrent.futures import ThreadPoolExecutor

    model_check(ctx)
    cases = list(gen_cases(ctx))
    groups = {}
    for c in cases:
        groups.setdefault((c["kind"], tuple(c["dm"]), c["bg"]), []).append(c)
    with ThreadPoolExecutor(max_workers=PARALLEL) as ex:
        recs = [r for rs in ex.map(observe_batch, groups.values()) for r in rs]
    # a seeded sample is additionally run eagerly, one call per design (no vmap / jit)
    rng = random.Random(ctx.seed + 1)
    inputs = {c["id"]: c for c in cases}
    for c in rng.sample(cases, min(len(cases), 40 if ctx.quick else 400)):
        e = dict(c, id=c["id"] + "-eager")
        inputs[e["id"]] = e
        recs.append(observe(e))
    for r in recs[:2]:
        ctx.sample({k: r[k] for k in ("id", "kind", "dm", "bg", "inp", "out")})
    ctx.nontrivial = sum(1 for r in recs if 0 < r["nmat"] < len(r["inp"]))
    fam = {}
    for r in recs:
        fam[r["family"].rstrip("0123456789")] = fam.get(r["family"].rstrip("0123456789"), 0) + 1
    ctx.extra_cov["cases_by_family"] = fam
    ctx.extra_cov["lattices"] = sorted({"x".join(map(str, r["dm"])) for r in recs})
    ctx.validate(*TRACE, recs, inputs, classify=classify, chunk=CHUNK)
