---------------------------- MODULE Reconstruct ----------------------------
(* C03: why the reverse sweep reconstructs the interior although absorbing layers are not reversible.
   Knowledge (taint) model on a 2-D lattice N x N: KE / KH = cells whose E / H currently equal the forward
   run's value at the held time.  One reverse step is, as in fdtd/backward.py::backward,
       Restore  (add_interfaces: inner layer of every absorbing layer := recorded values of that time)
       RevH     (H_t[c]  from  H_{t+1}[c], E_{t+1}[c], E_{t+1}[c + e_a])
       RevE     (E_t[c]  from  E_{t+1}[c], H_t[c], H_t[c - e_a])
       ResetPml (absorbing-layer cells := 0, i.e. no longer equal to the forward run)
   A reverse update is exact only in "plain" cells: cells outside every absorbing layer, or in the inner layer
   of an absorbing layer whose grading has no loss and no stretching there (InnerPlain: a = 0, kappa = 1).
   Restored values are exact only if the recording is lossless and indexed by the right time (RecordOK).
   Property: after every reverse step the interior is exactly reconstructed.                              *)
EXTENDS Integers, FiniteSets, TLC

CONSTANTS N,            \* lattice side
          MaxThick,     \* absorbing-layer thickness in 1..MaxThick
          InnerPlain,   \* premise of C03 (default grading)   -- FALSE is a negative instance
          RecordOK,     \* lossless, correctly indexed recording -- FALSE is a negative instance
          RestoreFirst  \* TRUE: Restore happens before RevH/RevE (the code); FALSE: after (negative instance)

Axes == {1, 2}
Cells == (0..(N-1)) \X (0..(N-1))
Kinds == {"pml", "wall", "periodic"}

VARIABLES kind,     \* kind[a][side], side in {"lo","hi"}
          thick, KE, KH, pc, steps
vars == << kind, thick, KE, KH, pc, steps >>

Coord(c, a) == c[a]
Shift(c, a, d) == IF a = 1 THEN << c[1] + d, c[2] >> ELSE << c[1], c[2] + d >>
InPml(c, a, side) == /\ kind[a][side] = "pml"
                     /\ IF side = "lo" THEN Coord(c, a) < thick ELSE Coord(c, a) >= N - thick
InnerLayer(c, a, side) == /\ kind[a][side] = "pml"
                          /\ IF side = "lo" THEN Coord(c, a) = thick - 1 ELSE Coord(c, a) = N - thick
PmlCells == { c \in Cells : \E a \in Axes, s \in {"lo", "hi"} : InPml(c, a, s) }
Iface    == { c \in Cells : \E a \in Axes, s \in {"lo", "hi"} : InnerLayer(c, a, s) }
Interior == Cells \ PmlCells
Plain(c) == \A a \in Axes, s \in {"lo", "hi"} : InPml(c, a, s) => (InnerLayer(c, a, s) /\ InnerPlain)

\* neighbour along axis a in direction d: a cell, or "halo" (constant zero = always known) behind a wall/pml edge
Nb(c, a, d) == LET x == Coord(c, a) + d IN
               IF x >= 0 /\ x < N THEN Shift(c, a, d)
               ELSE IF kind[a]["lo"] = "periodic" THEN Shift(c, a, d - (IF x < 0 THEN -N ELSE N))
               ELSE << -1, -1 >>
Known(S, c) == c = << -1, -1 >> \/ c \in S

Init == /\ kind \in [ Axes -> [ {"lo", "hi"} -> Kinds ] ]
        /\ \A a \in Axes : (kind[a]["lo"] = "periodic") = (kind[a]["hi"] = "periodic")
        /\ thick \in 1..MaxThick /\ 2 * thick < N
        /\ KE = Cells /\ KH = Cells            \* the forward run's final state
        /\ pc = (IF RestoreFirst THEN "restore" ELSE "revH") /\ steps = 0

Restore == /\ pc = "restore"
           /\ KE' = IF RecordOK THEN KE \cup Iface ELSE KE \ Iface
           /\ KH' = IF RecordOK THEN KH \cup Iface ELSE KH \ Iface
           /\ pc' = (IF RestoreFirst THEN "revH" ELSE "reset")
           /\ UNCHANGED << kind, thick, steps >>
RevH == /\ pc = "revH"
        /\ KH' = { c \in Cells : c \in KH /\ c \in KE /\ Plain(c) /\ \A a \in Axes : Known(KE, Nb(c, a, 1)) }
        /\ pc' = "revE" /\ UNCHANGED << kind, thick, KE, steps >>
RevE == /\ pc = "revE"
        /\ KE' = { c \in Cells : c \in KE /\ c \in KH /\ Plain(c) /\ \A a \in Axes : Known(KH, Nb(c, a, -1)) }
        /\ pc' = (IF RestoreFirst THEN "reset" ELSE "restore") /\ UNCHANGED << kind, thick, KH, steps >>
ResetPml == /\ pc = "reset"
            /\ KE' = KE \ PmlCells /\ KH' = KH \ PmlCells
            /\ pc' = (IF RestoreFirst THEN "restore" ELSE "revH") /\ steps' = steps + 1
            /\ UNCHANGED << kind, thick >>
Next == (steps < 3) /\ (Restore \/ RevH \/ RevE \/ ResetPml)
Spec == Init /\ [][Next]_vars

\* C03: at the end of every reverse step the interior holds the forward run's fields
AtStepEnd == pc = (IF RestoreFirst THEN "restore" ELSE "revH")
InteriorReconstructed == AtStepEnd => (Interior \subseteq KE /\ Interior \subseteq KH)
InteriorNonEmpty == Interior # {}
=============================================================================
