----------------------------- MODULE Smooth -----------------------------
(* GaussianSmoothing2D (continuous.py) over an ABSTRACT kernel: any table of non-negative integer weights
   (the Gaussian values themselves need exp() and are read from the implementation by the conformance step,
   which asserts the same facts about them).

   A behaviour picks a kernel table, a grid, a design x and the four optional padding vectors, then takes one
   step  Apply  = one call of _apply_smoothing:  out = numerators of the smoothed array (denominator KSum).
   Property C22, stated exactly on the numerators:
     Range      every output lies between the smallest and the largest input / padding value
     Constants  a constant design with matching (or default) padding is returned unchanged
     Affine     out(x) = out(0) + sum_k x_k * (out(e_k) - out(0))     (e_k = unit designs; paddings fixed)
     Mirror     mirroring the design and the paddings mirrors the output   (needs a mirror-symmetric kernel)
   CONSTANT PadMode = "edge" is the code; "zero" (missing paddings are zeros) is the negative instance.   *)
EXTENDS SmoothDefs

CONSTANTS Kernels,     \* set of kernel names (KernelOf)
          Grids,       \* set of <<nx, ny>>
          Vals,        \* design values
          PadVals,     \* values of given padding vectors (constant vectors and ramps are enumerated)
          PadMode

KernelOf(name) ==
    CASE name = "binomial" -> << <<1, 2, 1>>, <<2, 4, 2>>, <<1, 2, 1>> >>          \* symmetric, like a Gaussian
      [] name = "box"      -> << <<1, 1, 1>>, <<1, 1, 1>>, <<1, 1, 1>> >>
      [] name = "cross"    -> << <<0, 1, 0>>, <<1, 3, 1>>, <<0, 1, 0>> >>
      [] name = "skew"     -> << <<3, 0, 0>>, <<0, 1, 1>>, <<0, 2, 0>> >>          \* non-negative but NOT symmetric
      [] name = "wide"     -> << <<0, 0, 1, 0, 0>>, <<0, 2, 3, 2, 0>>, <<1, 3, 5, 3, 1>>, <<0, 2, 3, 2, 0>>, <<0, 0, 1, 0, 0>> >>

\* padding vectors of length n: not given, a constant, or the ramp -1, 0, 1, ...
PadChoices(n) == { << >> } \cup { [ k \in 1..n |-> v ] : v \in PadVals } \cup { [ k \in 1..n |-> k - 2 ] }

VARIABLES kname, x, pads, phase, out
vars == << kname, x, pads, phase, out >>

K == KernelOf(kname)

Init == /\ kname \in Kernels
        /\ \E g \in Grids :
              /\ x \in [ 1..g[1] -> [ 1..g[2] -> Vals ] ]
              /\ pads \in [ l0 : PadChoices(g[2]), h0 : PadChoices(g[2]), l1 : PadChoices(g[1]), h1 : PadChoices(g[1]) ]
        /\ phase = "in" /\ out = << >>

Apply == /\ phase = "in"
         /\ out' = Num(x, pads, K, PadMode)
         /\ phase' = "out"
         /\ UNCHANGED << kname, x, pads >>
Next == Apply \/ (phase = "out" /\ UNCHANGED vars)
Spec == Init /\ [][Next]_vars

\* ---------------------------------- properties ----------------------------------
KernelFacts == KNonNeg(K) /\ KSum(K) > 0

Range == phase = "out" =>
           LET lo == MinOf(AllValues(x, pads))  hi == MaxOf(AllValues(x, pads))
           IN  \A i \in 1..NX(x) : \A j \in 1..NY(x) : lo * KSum(K) <= out[i][j] /\ out[i][j] <= hi * KSum(K)

IsConstWithMatchingPads == \E c \in Values(x) : AllValues(x, pads) = {c}
Constants == (phase = "out" /\ IsConstWithMatchingPads) =>
               \A i \in 1..NX(x) : \A j \in 1..NY(x) : out[i][j] = x[1][1] * KSum(K)

Unit(k, nx, ny) == [ i \in 1..nx |-> [ j \in 1..ny |-> IF (i - 1) * ny + j = k THEN 1 ELSE 0 ] ]
Affine == phase = "out" =>
            LET nx == NX(x)  ny == NY(x)
                o0 == Num(ConstArr(0, nx, ny), pads, K, PadMode)
            IN  \A i \in 1..nx : \A j \in 1..ny :
                  out[i][j] = o0[i][j] + SumTo([ k \in 1..(nx * ny) |->
                                 x[((k - 1) \div ny) + 1][((k - 1) % ny) + 1]
                                   * (NumAt(Unit(k, nx, ny), pads, K, i, j, PadMode) - o0[i][j]) ], nx * ny)

Mirror == (phase = "out" /\ KSymmetric(K)) =>
            \A axis \in {0, 1} :
               Num(MirrorArr(x, axis), MirrorPads(pads, axis), K, PadMode) = MirrorArr(out, axis)

TypeOK == /\ phase \in {"in", "out"} /\ kname \in Kernels
          /\ (phase = "out" => Len(out) = NX(x) /\ Len(out[1]) = NY(x))

\* ---------------------------------- bounded instances ----------------------------------
GridsQ  == { <<2, 2>> }
GridsT  == { <<2, 2>>, <<1, 3>>, <<3, 2>>, <<2, 3>> }
GridsT2 == { <<2, 2>> }
Bits   == {0, 1}
Two    == {2}
Zero2  == {0, 2}
Zero12 == {0, 1, 2}
=======================================================================
