SPECIFICATION Spec
CONSTANTS N1 = 5  N2 = 5  N3 = 6  MaxTh = 2  Variant = "code"
INVARIANT TypeOK
INVARIANT ClampForm
INVARIANT InteriorUntouched
INVARIANT SourcesOutside
CHECK_DEADLOCK FALSE
