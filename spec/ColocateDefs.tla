------------------------- MODULE ColocateDefs -------------------------
(* Pure definitions of what a field detector of fdtdx must record (fdtd/update.py update_detector_states,
   core/physics/curl.py interpolate_fields / _backward_edge_average, fdtd/update.py pad_fields_with_symmetry_mirror),
   shared by Colocate.tla (state machine, model-checked) and Trace_Colocate.tla (conformance).

   The record of a detector with exact interpolation is ONE definitional formula:
       every component, sampled on its own Yee position, is linearly interpolated (per axis, tensor product)
       onto the E_z node (i, j, k + 1/2) of every cell of the detector region; samples outside the domain
       come from the boundary-appropriate halo; E is taken at the step, H as the mean of the two adjacent
       half steps.
   Exact integer arithmetic: a value is a pair <<num, den>> (den > 0, not normalised); two values are compared
   by cross multiplication.  Cell widths are positive integers.

   Field accessors are operator arguments  F(c, p)  with  c \in 0..2  the component axis and
   p = <<i, j, k>>  a 0-based cell index of the (reduced) simulation domain of shape N.                  *)
EXTENDS Integers, Sequences, FiniteSets

U == INSTANCE UnfoldDefs        \* Yee offsets, co-location offset and the reflection parity table (property C32)

Axes == 0..2
Comp6 == << "Ex", "Ey", "Ez", "Hx", "Hy", "Hz" >>        \* stored order of a FieldDetector with all components
FT6 == << "E", "E", "E", "H", "H", "H" >>
CA6 == << 0, 1, 2, 0, 1, 2 >>

Cells(n) == (0..(n[1] - 1)) \X (0..(n[2] - 1)) \X (0..(n[3] - 1))

\* ---------------------------------------------------------------- geometry of one axis
\* W[a + 1] = sequence of the cell widths of axis a;  cell i (0-based) has width W[a + 1][i + 1].
CW(W, a, i) == W[a + 1][i + 1]
\* width of the cell behind edge i.  The halo cell behind edge 0 takes the width of the cell it borders
\* (convention of the library on every boundary kind, the same one its curl metric uses).
PW(W, a, i) == IF i = 0 THEN W[a + 1][1] ELSE W[a + 1][i]

\* 1-D interpolation stencil that moves a component of field type ft, axis c from its Yee position to the
\* co-location node along axis a, at target index i:  taps = << <<delta index, integer weight>>, .. >>, den = sum of weights.
\*   natural offset = target offset : the sample itself
\*   natural 1/2, target 0          : backward onto edge i.  The sample of cell i sits CW/2 above the edge, the one of
\*                                    cell i-1 sits PW/2 below it; linear interpolation weights each sample with the
\*                                    distance of the OTHER one (equal weights on a uniform grid)
\*   natural 0, target 1/2          : forward onto the centre of cell i: midpoint of its two edges, whatever its width
Stencil(ft, c, a, W, i) ==
    LET nat == U!YeeOffset(ft, c, a)  tgt == U!ColocOffset(a) IN
    IF nat = tgt THEN [ taps |-> << << 0, 1 >> >>, den |-> 1 ]
    ELSE IF nat = 1 THEN [ taps |-> << << 0, PW(W, a, i) >>, << -1, CW(W, a, i) >> >>, den |-> CW(W, a, i) + PW(W, a, i) ]
    ELSE [ taps |-> << << 0, 1 >>, << 1, 1 >> >>, den |-> 2 ]

\* ---------------------------------------------------------------- halo (one cell around the domain)
\* Halo kinds per axis:  lo \in {"zero", "wrap", "mirror"},  hi \in {"zero", "wrap"}.
\*   zero    PEC / PMC / PML / open faces and the (half-cell displaced) magnetic symmetry plane
\*   wrap    periodic face: the sample of the opposite side
\*   mirror  electric symmetry plane ON the min edge (position 0): sample i of a component with Yee offset off
\*           (in half cells) sits at position 2i + off, its mirror image at -(2i + off) is sample -i - off, and the
\*           value is the reflection parity of the component times that sample.
\* Source of sample i \in -1..n of one axis:  << domain index, sign >>, sign 0 = the sample is zero.
HaloSrc(n, lo, hi, off, par, i) ==
    IF i >= 0 /\ i < n THEN << i, 1 >>
    ELSE IF i < 0 THEN
        (IF lo = "wrap" THEN << n + i, 1 >>
         ELSE IF lo = "mirror" THEN << -i - off, par >>
         ELSE << 0, 0 >>)
    ELSE (IF hi = "wrap" THEN << i - n, 1 >> ELSE << 0, 0 >>)

\* Yee offsets and reflection parities of component (ft, c) along the three axes
Offs(ft, c) == << U!YeeOffset(ft, c, 0), U!YeeOffset(ft, c, 1), U!YeeOffset(ft, c, 2) >>
Pars(ft, c) == << U!Parity(ft, c, 0, -1), U!Parity(ft, c, 1, -1), U!Parity(ft, c, 2, -1) >>
\* padded sample of a component with offsets off and parities par of the field F at p \in (-1..N)^3;
\* halos of different axes compose
PadVal(F(_, _), N, lo, hi, off, par, c, p) ==
    LET s0 == HaloSrc(N[1], lo[1], hi[1], off[1], par[1], p[1])
        s1 == HaloSrc(N[2], lo[2], hi[2], off[2], par[2], p[2])
        s2 == HaloSrc(N[3], lo[3], hi[3], off[3], par[3], p[3])
        sg == s0[2] * s1[2] * s2[2]
    IN  IF sg = 0 THEN 0 ELSE sg * F(c, << s0[1], s1[1], s2[1] >>)

\* ---------------------------------------------------------------- the co-location formula
Sum2(f) == IF Len(f) = 1 THEN f[1] ELSE f[1] + f[2]
\* G(c, p) = padded sample at p \in (-1..N)^3.  Value of component (ft, c) at the E_z node of cell q: << num, den >>.
Coloc(G(_, _), W, ft, c, q) ==
    LET s0 == Stencil(ft, c, 0, W, q[1])  s1 == Stencil(ft, c, 1, W, q[2])  s2 == Stencil(ft, c, 2, W, q[3])
        num == Sum2([ t0 \in 1..Len(s0.taps) |-> s0.taps[t0][2] *
                 Sum2([ t1 \in 1..Len(s1.taps) |-> s1.taps[t1][2] *
                    Sum2([ t2 \in 1..Len(s2.taps) |-> s2.taps[t2][2] *
                       G(c, << q[1] + s0.taps[t0][1], q[2] + s1.taps[t1][1], q[3] + s2.taps[t2][1] >>) ]) ]) ])
    IN  << num, s0.den * s1.den * s2.den >>

\* What an exact detector records for stored component m \in 1..6 at domain cell q (a cell of its region):
\* E at the step; H as the mean of the previous and the current half step (the halo of a mean is the mean of the halos).
ExactVal(FE(_, _), FHp(_, _), FH(_, _), N, W, lo, hi, m, q) ==
    LET ft == FT6[m]  cc == CA6[m]  off == Offs(ft, cc)  par == Pars(ft, cc) IN
    IF ft = "E"
    THEN Coloc(LAMBDA c, p : PadVal(FE, N, lo, hi, off, par, c, p), W, "E", cc, q)
    ELSE LET r == Coloc(LAMBDA c, p : PadVal(FHp, N, lo, hi, off, par, c, p) + PadVal(FH, N, lo, hi, off, par, c, p), W, "H", cc, q)
         IN  << r[1], 2 * r[2] >>
\* What a detector without interpolation records: the raw Yee samples of the current E and H.
RawVal(FE(_, _), FH(_, _), m, q) == IF FT6[m] = "E" THEN << FE(CA6[m], q), 1 >> ELSE << FH(CA6[m], q), 1 >>

RatEq(x, y) == x[1] * y[2] = y[1] * x[2]

\* ---------------------------------------------------------------- boxes
\* a detector region: s, e triples with 0 <= s[a] < e[a] <= N[a]
Intervals(n) == { iv \in (0..(n - 1)) \X (1..n) : iv[1] < iv[2] }
Region(s, e) == { q \in (s[1]..(e[1] - 1)) \X (s[2]..(e[2] - 1)) \X (s[3]..(e[3] - 1)) : TRUE }
\* the stencils above read the domain indices s-1 .. e of every axis and nothing else
Interior(N, s, e) == \A a \in 1..3 : s[a] >= 1 /\ e[a] <= N[a] - 1
=======================================================================
