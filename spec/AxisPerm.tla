------------------------------ MODULE AxisPerm ------------------------------
(* C08: the solver is equivariant under the cyclic relabelling of the axes.

   Product specification: orientation 1 is a scene (shape N, boundary kind per axis, absorbing-layer parameter per FACE (pi acts on faces: min_x->min_y->min_z->min_x), diagonal
   tensor coefficients, soft source entry, initial fields); orientation 2 is the SAME scene with every per-axis,
   per-cell and per-component attribute relabelled by pi (x->y->z->x).  Both copies take the same half steps
   (AxisPermDefs!YeeE / YeeH, written with one explicit formula per axis like the implementation).
   Invariant PermInv:  E2[pi(i)] = E1[i]  and  H2[pi(i)] = H1[i]  for every entry after every half step.
   Applying the relabelling three times gives back the scene (PermCubeId).

   ten = "full" runs the full 3x3 tensor update (off-diagonal couplings through four-point averages); the
   relabelled tensor is PermTensor (pi on both indices).
   Variant # "ok" breaks one per-axis branch (layer derivative pair of axis y, curl_y operand order, PEC
   tangential table of the y faces, averaging location of the yz coupling, per-face parameter table whose min_y entry reads min_x) in both copies, or relabels only the
   diagonal of the tensor ("tensor_diag_only"); TLC must reject those.                                *)
EXTENDS AxisPermDefs

CONSTANTS Shapes, MaxT, Variant, Kinds, Srcs    \* Srcs: "all" source entries or "few" (first, middle, last)

VARIABLES N, bk, lay, mat, ten, src, ini, E1, H1, E2, H2, pc, t
vars == << N, bk, lay, mat, ten, src, ini, E1, H1, E2, H2, pc, t >>

MatOf(n) == [ i \in 1..Size(n) |-> 1 + ((Comp(i, n) + Coord(i, n, 1) + 2 * Coord(i, n, 2)) % 2) ]   \* diagonal tensor, varies
\* full symmetric 3x3 coefficient tensor per cell: diagonal 2,3,4 (+ cell parity), couplings xy = 1, xz = 2, yz = 3
\* (all non-zero and distinct), used when ten = "full"
Sym(r, c) == IF r = c THEN 2 + r ELSE r + c
TensorOf(n) == [ i \in 1..Size9(n) |->
                   LET k == (i - 1) \div Cells(n)
                   IN  Sym(k \div 3, k % 3) + (IF (k \div 3) = (k % 3) THEN (Coord(i, n, 1) + Coord(i, n, 2)) % 2 ELSE 0) ]
Dense(n, s) == [ i \in 1..Size(n) |-> 1 + Comp(i, n) + 2 * Coord(i, n, 1) + 3 * Coord(i, n, 2) + 5 * Coord(i, n, 3) + s ]
Zero(n) == [ i \in 1..Size(n) |-> 0 ]
N2 == PermShape(N)
PermSrc(s, n) == IF s = 0 THEN 0 ELSE PermIdx(s, n)
PermLay(l) == PermFaceFn(l)
\* per-face layer parameters: on an open axis no layers, different kappa on the two faces (2 on min, 3 on max), or
\* a layer on the min face only (kappa 3); other axes carry none
LayOpt(k) == IF k = "open" THEN { << 0, 0 >>, << 2, 3 >>, << 3, 0 >> } ELSE { << 0, 0 >> }
LaySet(b) == { [ f \in Faces |-> o[f[1] + 1][IF f[2] = "-" THEN 1 ELSE 2] ] : o \in LayOpt(b[1]) \X LayOpt(b[2]) \X LayOpt(b[3]) }
SrcSet(n) == IF Srcs = "all" THEN 1..Size(n) ELSE { 1, (Size(n) \div 2) + 2, Size(n) }

Init == /\ N \in Shapes
        /\ bk \in [ 1..3 -> Kinds ]
        /\ lay \in LaySet(bk)
        /\ mat = MatOf(N)
        /\ ten \in {"diag", "full"} /\ (ten = "full" => lay = NoLayers)
        /\ ini \in {"dense", "zero"}
        /\ src \in IF ini = "zero" THEN SrcSet(N) ELSE {0}
        /\ E1 = IF ini = "dense" THEN Dense(N, 0) ELSE Zero(N)
        /\ H1 = IF ini = "dense" THEN Dense(N, 1) ELSE Zero(N)
        /\ E2 = PermField(E1, N) /\ H2 = PermField(H1, N)
        /\ pc = "E" /\ t = 0

UpdE == /\ pc = "E" /\ t < MaxT
        /\ IF ten = "diag"
           THEN /\ E1' = YeeE(E1, H1, mat, N, bk, lay, src, Variant)
                /\ E2' = YeeE(E2, H2, PermField(mat, N), N2, PermVec(bk), PermLay(lay), PermSrc(src, N), Variant)
           ELSE /\ E1' = YeeEFull(E1, H1, TensorOf(N), N, bk, lay, src, Variant)
                /\ E2' = YeeEFull(E2, H2, PermTensor(TensorOf(N), N, Variant), N2, PermVec(bk), PermLay(lay), PermSrc(src, N), Variant)
        /\ pc' = "H"
        /\ UNCHANGED << N, bk, lay, mat, ten, src, ini, H1, H2, t >>
UpdH == /\ pc = "H"
        /\ H1' = YeeH(E1, H1, N, bk, lay, Variant)
        /\ H2' = YeeH(E2, H2, N2, PermVec(bk), PermLay(lay), Variant)
        /\ pc' = "E" /\ t' = t + 1
        /\ UNCHANGED << N, bk, lay, mat, ten, src, ini, E1, E2 >>
Next == UpdE \/ UpdH
Spec == Init /\ [][Next]_vars

TypeOK == pc \in {"E", "H"} /\ t \in 0..MaxT /\ Len(E1) = Size(N) /\ Len(E2) = Size(N2)
\* C08
PermInv == PermRel(E2, E1, N) /\ PermRel(H2, H1, N)
\* the index map is a bijection and its cube is the identity
PermBijective == { PermIdx(i, N) : i \in 1..Size(N) } = 1..Size(N2)
\* the tensor relabelling is a bijection, keeps symmetry, and agrees with its inverse-map form
TensorPermOK == /\ { PermIdx9(i, N, "ok") : i \in 1..Size9(N) } = 1..Size9(N2)
                /\ PermRel9(PermTensor(TensorOf(N), N, "ok"), TensorOf(N), N)
PermCubeId == \A i \in 1..Size(N) : PermIdx(PermIdx(PermIdx(i, N), N2), PermShape(N2)) = i

ShapesQ == { <<3,2,1>> }
ShapesT == { <<3,2,2>>, <<4,3,2>>, <<2,3,1>> }
ShapesN == { <<3,2,1>> }
KindsAll == {"wrap", "open", "pec-", "pec+"}
KindsQ == {"wrap", "open", "pec-"}
KindsN == {"open", "pec-"}
=============================================================================
