SPECIFICATION Spec
CONSTANTS MaxT = 4  MaxRule = "total"
INVARIANT HaltsAtFirstStop
INVARIANT NeverLate
INVARIANT NeverLateTime
INVARIANT NeverEarly
PROPERTY NoStepAfterStop
CHECK_DEADLOCK FALSE
