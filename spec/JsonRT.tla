---------------------------- MODULE JsonRT ----------------------------
(* C31 - setups survive a JSON round trip.

   Property: Place(Import(Export(s))) = Place(s).  `Place` (constraint resolution + array initialisation) is an
   uninterpreted but DETERMINISTIC function of the fields of the setup that placement reads, so the property
   reduces to: every placement-read field of every item of the setup comes back unchanged - View(Import(Export(s)))
   = View(s), where View erases what placement does not read (cosmetic fields, private fields that only
   placement sets, the dtype / device of coordinate arrays, the order of dictionary keys).  The list of
   placement-read fields per class is JsonRTDefs!ClassFields; this module models the value kinds that occur in
   those fields and the two structural maps of conversion/json.py:

     Export == _export_json : None, scalars, numpy / jax arrays (written as nested lists: dtype and device are
               lost), jax dtypes, dataclasses (public __dict__), TreeClasses (public CONSTRUCTOR fields only:
               init=False and private fields are skipped), dicts (string keys, key order lost by sort_keys),
               tuples / lists (wrapped with their type name)
     Import == _import_obj_from_json : rebuilds by calling the class with the exported fields as keyword
               arguments, so __post_init__ runs again and recomputes the derived fields

   THE ENCODER ITSELF (json.dumps / json.loads, float repr) IS NOT MODELLED; scalars are opaque tokens.

   Variants: "ok" is the intended behaviour; negative instances:
     "drop_field"      a placement-read field (grid_margins of a PositionConstraint) is not exported and comes back
                       as the constructor default
     "tuple_as_list"   tuples are exported under the name "list" (come back as lists)
     "reject_derived"  a constructor refuses an explicitly passed field that its own __post_init__ derives and
                       that Export therefore wrote (this is what fdtdx.Cylinder does; ExtrudedPolygon accepts
                       an equal value, Sphere avoids the issue with init=False)                          *)
EXTENDS Integers, Sequences, FiniteSets, TLC

CONSTANT Variant

\* ---------- abstract Python values ----------
N        == [ k |-> "none" ]
S(x)     == [ k |-> "scalar", v |-> x ]                         \* opaque token (int, float, str, bool)
Tup(s)   == [ k |-> "tuple", v |-> s ]
Lst(s)   == [ k |-> "list", v |-> s ]
Dct(f)   == [ k |-> "dict", v |-> f ]                            \* f : function from string keys
Arr(dt, jx, s) == [ k |-> "array", dt |-> dt, jax |-> jx, v |-> s ]
Dt(x)    == [ k |-> "dtype", v |-> x ]
Obj(c, f) == [ k |-> "obj", cls |-> c, v |-> f ]                 \* live object: ALL its fields
Err      == [ k |-> "error" ]

\* ---------- model classes (named after the real ones; field lists abridged to one field per value kind) ----------
\* init: constructor fields (exported); derived: init=False fields recomputed by __post_init__; private: set by
\* placement only; over: constructor fields that __post_init__ overwrites with a derived value
Meta == [
    SimulationConfig      |-> [ init |-> {"time", "grid", "dtype", "symmetry", "gradient_config"}, derived |-> {}, private |-> {}, over |-> {}, cosmetic |-> {} ],
    UniformGrid           |-> [ init |-> {"spacing"}, derived |-> {}, private |-> {}, over |-> {}, cosmetic |-> {} ],
    RectilinearGrid       |-> [ init |-> {"x_edges"}, derived |-> {}, private |-> {}, over |-> {}, cosmetic |-> {} ],
    Material              |-> [ init |-> {"permittivity", "dispersion"}, derived |-> {}, private |-> {}, over |-> {}, cosmetic |-> {} ],
    OnOffSwitch           |-> [ init |-> {"start_time", "interval", "fixed_on_time_steps"}, derived |-> {}, private |-> {}, over |-> {}, cosmetic |-> {} ],
    UniformMaterialObject |-> [ init |-> {"name", "partial_grid_shape", "material", "placement_order", "color"}, derived |-> {},
                                private |-> {"_grid_slice_tuple"}, over |-> {}, cosmetic |-> {"color"} ],
    Sphere                |-> [ init |-> {"name", "radius", "radius_y", "materials", "material_name"}, derived |-> {"partial_real_shape"},
                                private |-> {"_grid_slice_tuple"}, over |-> {}, cosmetic |-> {} ],
    Cylinder              |-> [ init |-> {"name", "radius", "axis", "partial_real_shape"}, derived |-> {},
                                private |-> {"_grid_slice_tuple"}, over |-> {"partial_real_shape"}, cosmetic |-> {} ],
    ExtrudedPolygon       |-> [ init |-> {"name", "vertices", "axis", "partial_real_shape"}, derived |-> {},
                                private |-> {"_grid_slice_tuple"}, over |-> {"partial_real_shape"}, cosmetic |-> {} ],
    PerfectlyMatchedLayer |-> [ init |-> {"name", "axis", "direction", "partial_grid_shape", "sigma_end"}, derived |-> {},
                                private |-> {"_grid_slice_tuple"}, over |-> {}, cosmetic |-> {} ],
    PointDipoleSource     |-> [ init |-> {"name", "polarization", "switch"}, derived |-> {},
                                private |-> {"_grid_slice_tuple", "_is_on_at_time_step_arr"}, over |-> {}, cosmetic |-> {} ],
    EnergyDetector        |-> [ init |-> {"name", "switch", "as_slices", "dtype", "plot"}, derived |-> {},
                                private |-> {"_grid_slice_tuple", "_num_time_steps_on"}, over |-> {}, cosmetic |-> {"plot"} ],
    PositionConstraint       |-> [ init |-> {"object", "other_object", "axes", "object_positions", "margins", "grid_margins"}, derived |-> {}, private |-> {}, over |-> {}, cosmetic |-> {} ],
    SizeConstraint           |-> [ init |-> {"object", "other_object", "axes", "other_axes", "proportions", "offsets"}, derived |-> {}, private |-> {}, over |-> {}, cosmetic |-> {} ],
    SizeExtensionConstraint  |-> [ init |-> {"object", "other_object", "axis", "direction", "offset"}, derived |-> {}, private |-> {}, over |-> {}, cosmetic |-> {} ],
    GridCoordinateConstraint |-> [ init |-> {"object", "axes", "sides", "coordinates"}, derived |-> {}, private |-> {}, over |-> {}, cosmetic |-> {} ],
    RealCoordinateConstraint |-> [ init |-> {"object", "axes", "sides", "coordinates"}, derived |-> {}, private |-> {}, over |-> {}, cosmetic |-> {} ] ]
AllFields(c) == Meta[c].init \cup Meta[c].derived \cup Meta[c].private
TopClasses == DOMAIN Meta \ {"UniformGrid", "RectilinearGrid", "Material", "OnOffSwitch"}

T3(a, b, c) == Tup(<< a, b, c >>)
Mat(e)  == Obj("Material", [ permittivity |-> T3(S(e), S(e), S(e)), dispersion |-> N ])
Sw(t, i, fx) == Obj("OnOffSwitch", [ start_time |-> t, interval |-> S(i), fixed_on_time_steps |-> fx ])

\* values a constructor field may take: first = the constructor default (used when the field is not exported)
Dom(c, f) ==
    CASE f = "name" -> << S("obj") >>
      [] f \in {"object"} -> << S("obj") >>
      [] f = "other_object" -> IF c = "SizeExtensionConstraint" THEN << N, S("vol") >> ELSE << S("vol") >>
      [] f = "time" -> << S("40e-15") >>
      [] f = "grid" -> << Obj("UniformGrid", [ spacing |-> S("50e-9") ]),
                          Obj("RectilinearGrid", [ x_edges |-> Arr("f32", TRUE, << "0", "1", "3" >>) ]),
                          Obj("RectilinearGrid", [ x_edges |-> Arr("f64", FALSE, << "0", "1", "3" >>) ]) >>
      [] f = "dtype" -> << Dt("float32"), Dt("float64") >>
      [] f = "symmetry" -> << T3(S("0"), S("0"), S("0")), T3(S("-1"), S("0"), S("1")) >>
      [] f = "gradient_config" -> << N >>
      [] f = "partial_grid_shape" -> << T3(N, N, N), T3(S("3"), N, S("2")) >>
      [] f = "material" -> << Mat("1"), Mat("2.5") >>
      [] f = "placement_order" -> << S("0"), S("2") >>
      [] f = "color" -> << N, T3(S("1"), S("0.4"), S("0.7")) >>
      [] f \in {"radius"} -> << S("100e-9") >>
      [] f = "radius_y" -> << N, S("150e-9") >>
      [] f = "materials" -> << Dct([ key \in {"a"} |-> Mat("2") ]), Dct([ key \in {"b", "a"} |-> IF key = "a" THEN Mat("2") ELSE Mat("5") ]) >>
      [] f = "material_name" -> << S("a") >>
      [] f = "axis" -> IF c \in {"Cylinder", "ExtrudedPolygon"} THEN << S("0"), S("2") >> ELSE << S("0"), S("1") >>
      [] f = "partial_real_shape" -> << T3(N, N, N), T3(N, N, S("220e-9")) >>        \* as PASSED by the user; post-init fills the cross-section
      [] f = "vertices" -> << Arr("f64", FALSE, << "-1", "1", "1", "-1" >>), Arr("f32", FALSE, << "-2", "2", "0", "1" >>) >>
      [] f = "direction" -> << S("+"), S("-") >>
      [] f = "sigma_end" -> << N, S("1.5") >>
      [] f = "polarization" -> << S("0"), S("2") >>
      [] f = "switch" -> << Sw(N, "1", N), Sw(S("5e-15"), "3", N), Sw(N, "1", Lst(<< S("0"), S("4") >>)) >>
      [] f = "as_slices" -> << S("False"), S("True") >>
      [] f = "plot" -> << S("True"), S("False") >>
      [] f \in {"axes", "other_axes"} -> << Tup(<< S("0"), S("1"), S("2") >>), Tup(<< S("2") >>) >>
      [] f = "object_positions" -> << Tup(<< S("-1"), S("0"), S("1") >>) >>
      [] f = "margins" -> << Tup(<< S("0"), S("0"), S("0") >>), Tup(<< S("100e-9"), S("0"), S("-50e-9") >>) >>
      [] f = "grid_margins" -> << Tup(<< S("0"), S("0"), S("0") >>), Tup(<< S("1"), S("0"), S("-3") >>) >>
      [] f = "proportions" -> << Tup(<< S("1.0"), S("1.0"), S("1.0") >>), Tup(<< S("0.5") >>) >>
      [] f = "offsets" -> << Tup(<< S("0"), S("0"), S("0") >>), Tup(<< S("30e-9") >>) >>
      [] f = "offset" -> << S("0"), S("30e-9") >>
      [] f = "sides" -> << Tup(<< S("-"), S("-"), S("+") >>) >>
      [] f = "coordinates" -> << Tup(<< S("5"), S("5"), S("5") >>), Tup(<< S("1"), S("0"), S("7") >>) >>
      [] OTHER -> << N >>
Default(c, f) == Dom(c, f)[1]

\* ---------- constructors: __init__ + __post_init__ ----------
Dbl(x) == S("2*" \o x.v)
CrossAxes(ax) == IF ax = S("0") THEN {2, 3} ELSE IF ax = S("1") THEN {1, 3} ELSE {1, 2}
CrossSize(c, kw) == IF c = "Cylinder" THEN Dbl(kw.radius) ELSE S("bbox")        \* diameter / vertex bounding box
\* value of a derived or overwritten field after __post_init__
PostInit(c, f, kw) ==
    CASE c = "Sphere" /\ f = "partial_real_shape" ->
            T3(Dbl(kw.radius), Dbl(IF kw.radius_y = N THEN kw.radius ELSE kw.radius_y), Dbl(kw.radius))
      [] c \in {"Cylinder", "ExtrudedPolygon"} /\ f = "partial_real_shape" ->
            Tup([ i \in 1..3 |-> IF i \in CrossAxes(kw.axis) THEN CrossSize(c, kw) ELSE kw.partial_real_shape.v[i] ])
      [] OTHER -> N
\* does the constructor refuse these keyword arguments?
Refuses(c, kw) ==
    /\ c \in {"Cylinder", "ExtrudedPolygon"}
    /\ \E i \in CrossAxes(kw.axis) :
          LET given == kw.partial_real_shape.v[i] IN
          /\ given # N
          /\ \/ Variant = "reject_derived"                               \* "do not specify it explicitly"
             \/ given # CrossSize(c, kw)                                  \* ExtrudedPolygon's rule: an equal value is accepted
Construct(c, given) ==
    LET kw == [ f \in Meta[c].init |-> IF f \in DOMAIN given THEN given[f] ELSE Default(c, f) ] IN
    IF Refuses(c, kw) THEN Err
    ELSE Obj(c, [ f \in AllFields(c) |-> IF f \in Meta[c].private THEN N
                                         ELSE IF f \in Meta[c].derived \cup Meta[c].over THEN PostInit(c, f, kw)
                                         ELSE kw[f] ])

\* ---------- Export / Import (conversion/json.py) ----------
Exported(c) == IF Variant = "drop_field" /\ c = "PositionConstraint" THEN Meta[c].init \ {"grid_margins"} ELSE Meta[c].init
RECURSIVE Ser(_)
Ser(x) ==
    CASE x.k = "none"   -> [ j |-> "null" ]
      [] x.k = "scalar" -> [ j |-> "scalar", v |-> x.v ]
      [] x.k = "array"  -> [ j |-> "wrap", name |-> "array", v |-> x.v ]                      \* tolist(): dtype and device are not written
      [] x.k = "dtype"  -> [ j |-> "dtype", v |-> x.v ]
      [] x.k = "tuple"  -> [ j |-> "wrap", name |-> IF Variant = "tuple_as_list" THEN "list" ELSE "tuple", v |-> [ i \in DOMAIN x.v |-> Ser(x.v[i]) ] ]
      [] x.k = "list"   -> [ j |-> "wrap", name |-> "list", v |-> [ i \in DOMAIN x.v |-> Ser(x.v[i]) ] ]
      [] x.k = "dict"   -> [ j |-> "object", cls |-> "dict", v |-> [ key \in DOMAIN x.v |-> Ser(x.v[key]) ] ]
      [] OTHER          -> [ j |-> "object", cls |-> x.cls, v |-> [ f \in Exported(x.cls) |-> Ser(x.v[f]) ] ]
RECURSIVE De(_)
De(y) ==
    CASE y.j = "null"   -> N
      [] y.j = "scalar" -> S(y.v)
      [] y.j = "dtype"  -> Dt(y.v)
      [] y.j = "wrap"   -> IF y.name = "array" THEN Arr("f64", FALSE, y.v)                    \* numpy.array(list): default dtype, host memory
                           ELSE [ k |-> y.name, v |-> [ i \in DOMAIN y.v |-> De(y.v[i]) ] ]
      [] y.cls = "dict" -> Dct([ key \in DOMAIN y.v |-> De(y.v[key]) ])
      [] OTHER          -> LET kw == [ f \in DOMAIN y.v |-> De(y.v[f]) ] IN
                           IF \E f \in DOMAIN kw : kw[f] = Err THEN Err ELSE Construct(y.cls, kw)

\* ---------- what placement reads ----------
RECURSIVE View(_)
View(x) ==
    CASE x.k = "array" -> [ k |-> "array", v |-> x.v ]                                        \* values only (grids re-wrap with jnp.asarray)
      [] x.k \in {"tuple", "list"} -> [ k |-> x.k, v |-> [ i \in DOMAIN x.v |-> View(x.v[i]) ] ]
      [] x.k = "dict" -> [ k |-> "dict", v |-> [ key \in DOMAIN x.v |-> View(x.v[key]) ] ]    \* a function: key order is not part of it
      [] x.k = "obj"  -> [ k |-> "obj", cls |-> x.cls,
                           v |-> [ f \in AllFields(x.cls) \ (Meta[x.cls].private \cup Meta[x.cls].cosmetic) |-> View(x.v[f]) ] ]
      [] OTHER -> x

VARIABLES item,    \* one item of a setup (config, object or constraint) as the user built it
          ser,     \* its serialised form (or "none")
          back,    \* the re-imported item (or "none")
          pc
vars == << item, ser, back, pc >>

Choices(c) == { h \in [ Meta[c].init -> 1..3 ] : \A f \in Meta[c].init : h[f] <= Len(Dom(c, f)) }
Assignments(c) == { [ f \in Meta[c].init |-> Dom(c, f)[h[f]] ] : h \in Choices(c) }
Init == /\ \E c \in TopClasses : \E g \in Assignments(c) : item = Construct(c, g)
        /\ item # Err
        /\ ser = "none" /\ back = "none" /\ pc = "built"
Export == /\ pc = "built" /\ ser' = Ser(item) /\ pc' = "exported" /\ UNCHANGED << item, back >>
Import == /\ pc = "exported" /\ back' = De(ser) /\ pc' = "imported" /\ UNCHANGED << item, ser >>
Next == Export \/ Import
Spec == Init /\ [][Next]_vars

\* ---------- properties ----------
TypeOK == pc \in {"built", "exported", "imported"}
\* C31: the re-imported item exists and placement reads the same values from it
RoundTrip == pc = "imported" => back # Err /\ View(back) = View(item)
\* stronger on constraints (plain dataclasses, every field is read): identical
ConstraintsIdentical == pc = "imported" /\ item.cls \in {"PositionConstraint", "SizeConstraint", "SizeExtensionConstraint",
                                                           "GridCoordinateConstraint", "RealCoordinateConstraint"} => back = item
\* what the round trip is allowed to lose is exactly: private fields (unset before placement anyway) and array dtype/device
PrivateUnsetBeforePlacement == \A f \in Meta[item.cls].private : item.v[f] = N
\* derived fields are functions of the constructor fields, so dropping them in Export loses nothing
DerivedRecomputed == pc = "imported" /\ back # Err => \A f \in Meta[item.cls].derived \cup Meta[item.cls].over : back.v[f] = item.v[f]
========================================================================
