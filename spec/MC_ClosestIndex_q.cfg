SPECIFICATION Spec
CONSTANTS
  MaxN = 5
  Shapes <- Shapes2
  BigShapes <- Shapes3
  BigN = 2
  MatSets <- MatSetsQ
  Variant = "spec"
INVARIANT TypeOK
INVARIANT ShapeKept
INVARIANT Nearest
INVARIANT GradOne
INVARIANT RoundIsNearest
CHECK_DEADLOCK FALSE
