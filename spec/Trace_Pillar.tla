------------------------- MODULE Trace_Pillar -------------------------
(* Validates calls of the REAL fdtdx.PillarDiscretization (init_module + __call__) against Pillar.tla / PillarDefs.tla.
   One record = one call:
     den               unit of all real numbers
     eps               permittivities <<num, den>> of the materials in DICTIONARY order (pairwise distinct)
     bg                0 = background_material None (lowest permittivity), else 1-based dictionary position of the named one
     single, metric, axis (1-based pillar axis), shape, inp (row-major flat list, units 1/den)
     err, oshape, out, dev   returned index array (rounded, deviation in ppb)
   TLC evaluates the property on the returned array, column by column, with the DECLARATIVE allowed set:
   the column is allowed, and no allowed column is strictly closer in the configured distance.             *)
EXTENDS Integers, Sequences, FiniteSets, TLC, TLCExt, Json, IOUtils

D == INSTANCE PillarDefs

Cases == JsonDeserialize(IOEnv.TRACE_FILE)

VARIABLES ci
tvars == << ci >>

N(c) == Len(c.eps)
EpsLess(a, b) == a[1] * b[2] < b[1] * a[2]
Order(c, j) == Cardinality({ i \in 1..N(c) : EpsLess(c.eps[i], c.eps[j]) })        \* ordered 0-based index of entry j
InvExact(c) == \A i \in 1..N(c) : c.eps[i][1] > 0 /\ c.eps[i][2] > 0 /\ (c.den * c.eps[i][2]) % c.eps[i][1] = 0
Invs(c) == [ k \in 1..N(c) |-> LET j == CHOOSE j \in 1..N(c) : Order(c, j) = k - 1
                               IN  (c.den * c.eps[j][2]) \div c.eps[j][1] ]
Bg(c) == IF c.bg = 0 THEN 0 ELSE Order(c, c.bg)

WellFormed(c) ==
    /\ N(c) >= 2 /\ c.den > 0 /\ InvExact(c)
    /\ \A i, j \in 1..N(c) : i # j => EpsLess(c.eps[i], c.eps[j]) \/ EpsLess(c.eps[j], c.eps[i])
    /\ c.bg \in 0..N(c) /\ c.axis \in 1..3
    /\ c.metric \in { "euclidean", "permittivity_differences_plus_average_permittivity" }
    /\ Len(c.shape) = 3 /\ D!IsShape(c.shape) /\ Len(c.inp) = D!Size(c.shape)
    /\ c.err = "" /\ c.oshape = c.shape => Len(c.out) = Len(c.inp)

ColumnVerdicts(c) ==
    LET L   == c.shape[c.axis]
        in  == D!FromFlat(c.shape, c.inp)
        o   == D!FromFlat(c.shape, c.out)
        ids == D!ColumnIds(c.shape, c.axis)
    IN  \* bind by value (TLC re-evaluates operator arguments at every use)
        UNION { UNION { { IF D!Column(o, c.shape, c.axis, id) \notin allowed THEN "allowed"
                          ELSE IF D!Column(o, c.shape, c.axis, id) \notin
                                    D!Minimisers(c.metric, D!Column(in, c.shape, c.axis, id), allowed, invs, L) THEN "nearest"
                          ELSE "ok" : id \in ids }
                        : allowed \in { D!AllowedDecl(L, N(c), Bg(c), c.single) } }
                : invs \in { Invs(c) } }

Verdict(c) ==
    IF ~WellFormed(c) THEN "malformed: record"
    ELSE IF c.err # "" THEN "call: transform raised"
    ELSE IF c.oshape # c.shape THEN "allowed: output shape differs from input shape"
    ELSE IF c.dev # 0 \/ \E i \in 1..Len(c.out) : c.out[i] \notin 0..(N(c) - 1) THEN "allowed: output is not a material index"
    ELSE LET vs == ColumnVerdicts(c)
         IN  IF "allowed" \in vs
             THEN "allowed: a column is not an allowed column (background only on top / single material)"
             ELSE IF "nearest" \in vs
             THEN "nearest: an allowed column is strictly closer to the input column than the returned one"
             ELSE "ok"

TInit == ci = 1 /\ TLCSet(1, << >>)
TNext == /\ ci <= Len(Cases)
         /\ TLCSet(1, Append(TLCGet(1), [ id |-> Cases[ci].id, v |-> Verdict(Cases[ci]) ]))
         /\ ci' = ci + 1
TSpec == TInit /\ [][TNext]_tvars

Post == ndJsonSerialize(IOEnv.VERDICT_FILE, TLCGet(1))
=======================================================================
