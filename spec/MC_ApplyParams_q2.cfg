SPECIFICATION Spec
CONSTANTS
  N = 4
  BaseEps <- Eps14
  MatEps <- Eps14
  PVals <- P012
  MaxHist = 3
  Backup = "any"
  Scenes <- Pair
  DispWrite = "every"
  MatTable = "own"
INVARIANT TypeOK
INVARIANT DeviceCells
INVARIANT Range
INVARIANT DiscreteExact
INVARIANT OutsideUnchanged
INVARIANT HistoryIndependent
INVARIANT DispCells
INVARIANT DispOutsideUnchanged
CHECK_DEADLOCK TRUE
