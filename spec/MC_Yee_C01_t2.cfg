SPECIFICATION Spec
CONSTANTS Mode = "energy"  Variant = "ok"  Family = "mixed"  List = { }  Steps = 1  PairMod = 1
          Extra = { 0, 1100, 1010, 110 }
INVARIANT TypeOK
INVARIANT WallsHold
INVARIANT EnergyBalance
INVARIANT NeverIncreases
CHECK_DEADLOCK FALSE
