------------------------------- MODULE Shard -------------------------------
(* C42: results do not depend on the number of devices.
   Product of the global 1-D lattice run and the same run on D shards with halo exchange (ShardDefs);
   invariant: the concatenation of the shards equals the global arrays after every half step, for D in {1,2,4}.
   Negative instance: no halo exchange (a shard reads its own edge cell).                                   *)
EXTENDS ShardDefs

CONSTANTS Sizes, Devs, MaxT, Variant
VARIABLES n, D, wrap, ini, E, H, Es, Hs, pc, t
vars == << n, D, wrap, ini, E, H, Es, Hs, pc, t >>

Mat(k) == [ i \in 1..k |-> 1 + (i % 2) ]
F0(k, i0, f, ft) == [ i \in 1..k |-> IF i0 = 0 THEN i + (IF ft = "H" THEN 2 ELSE 0) ELSE IF f = ft /\ i = i0 THEN 1 ELSE 0 ]
Init == /\ n \in Sizes /\ D \in Devs /\ n % D = 0 /\ wrap \in BOOLEAN
        /\ ini \in { << "dense", 0 >> } \cup ({"E", "H"} \X (1..n))
        /\ E = F0(n, ini[2], ini[1], "E") /\ H = F0(n, ini[2], ini[1], "H")
        /\ Es = Split(E, D) /\ Hs = Split(H, D)
        /\ pc = "E" /\ t = 0
UpdE == /\ pc = "E" /\ t < MaxT
        /\ E' = GStepE(E, H, Mat(n), wrap) /\ Es' = SStepE(Es, Hs, Split(Mat(n), D), wrap, Variant)
        /\ pc' = "H" /\ UNCHANGED << n, D, wrap, ini, H, Hs, t >>
UpdH == /\ pc = "H"
        /\ H' = GStepH(E, H, wrap) /\ Hs' = SStepH(Es, Hs, wrap, Variant)
        /\ pc' = "E" /\ t' = t + 1 /\ UNCHANGED << n, D, wrap, ini, E, Es >>
Next == UpdE \/ UpdH
Spec == Init /\ [][Next]_vars

TypeOK == pc \in {"E", "H"} /\ Len(Es) = D /\ Len(E) = n
\* C42
ShardInv == Concat(Es) = E /\ Concat(Hs) = H
SplitConcat == Concat(Split(E, D)) = E
=============================================================================
