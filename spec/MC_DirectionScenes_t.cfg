SPECIFICATION Spec
CONSTANTS Variant = "ok"  RampSteps = 8  GaussShare = 8
INVARIANT TypeOK
INVARIANT Directional
INVARIANT ForwardCarriesPower
PROPERTY PhaseMonotone
CHECK_DEADLOCK FALSE
