--------------------------- MODULE BrushDefs ---------------------------
(* Pure definitions for the brush constraint of fdtdx (discretization.py: BrushConstraint2D._generator,
   binary_transform.py: dilate_jax), shared by Brush.tla (state machine of the touch loop) and
   Trace_Brush.tla (validation of what the real transform returned).

   A pixel <<x, y>> of an X x Y grid is coded as the integer 64*x + y, a brush offset <<dx, dy>> as
   64*dx + dy (X, Y <= 48, |dx|, |dy| <= 4).  Codes add like vectors, and a position that left the grid
   never has the code of a grid pixel, so "p + b \in G" is the in-domain test.                         *)
EXTENDS Integers, Sequences, FiniteSets, TLC

Px(x, y)   == 64 * x + y
Grid(dm)   == { Px(x, y) : x \in 0..(dm[1] - 1), y \in 0..(dm[2] - 1) }
\* position of pixel p in the row-major flattening of an (X, Y) array, 1-based
Pos(p, dm) == (p \div 64) * dm[2] + (p % 64) + 1

\* morphological dilation by the brush B (a set of offsets), clipped to the grid G:
\* pixel p is covered iff some touch t = p - b lies in T.   (dilate_jax = "same" convolution, zero fill)
Dilate(T, G, B) == { p \in G : \E b \in B : (p - b) \in T }
\* in-domain part of the brush footprint put down at centre t
Footprint(t, G, B) == { t + b : b \in B } \cap G

\* ---------- the property (C25): a region is a union of brush footprints lying inside it ----------
\* literal reading: the brush may be centred anywhere; only the in-domain part of its footprint counts
CoveredBy(R, G, B) == \A q \in R : \E b \in B : \A b2 \in B : (q - b + b2) \in G => (q - b + b2) \in R
\* stronger reading (what the touch loop constructs): the centre itself is a grid pixel
CoveredByCentred(R, G, B) == \A q \in R : \E b \in B : (q - b) \in G /\ Footprint(q - b, G, B) \subseteq R
BrushFeasible(Solid, G, B) == CoveredBy(Solid, G, B) /\ CoveredBy(G \ Solid, G, B)
BrushFeasibleCentred(Solid, G, B) == CoveredByCentred(Solid, G, B) /\ CoveredByCentred(G \ Solid, G, B)

\* ---------- one iteration of the touch loop (Algorithm 1 of the brush paper, as coded) ----------
\* ts / tv = solid / void touches so far.  All sets are subsets of G.
\* variant "paper" is the code; "ignore_impossible" forgets that a touch must not paint over existing
\* pixels of the other kind (used as negative instance only).
Analysis(ts, tv, G, B, variant) ==
    LET pes == Dilate(ts, G, B)                      \* pixel_existing_solid
        pev == Dilate(tv, G, B)                      \* pixel_existing_void
        tis == IF variant = "paper" THEN Dilate(pev, G, B) ELSE {}     \* touch_impossible_solid
        tiv == IF variant = "paper" THEN Dilate(pes, G, B) ELSE {}     \* touch_impossible_void
        tvs == (G \ tis) \ ts                        \* touch_valid_solid
        tvv == (G \ tiv) \ tv                        \* touch_valid_void
        pps == Dilate(ts \cup tvs, G, B)             \* pixel_possible_solid
        ppv == Dilate(tv \cup tvv, G, B)             \* pixel_possible_void
        prs == (G \ pes) \ ppv                       \* pixel_required_solid
        prv == (G \ pev) \ pps                       \* pixel_required_void
    IN  [ pes |-> pes, pev |-> pev, tvs |-> tvs, tvv |-> tvv,
          trs |-> Dilate(prs, G, B) \cap tvs,        \* touch_resolving_solid
          trv |-> Dilate(prv, G, B) \cap tvv,        \* touch_resolving_void
          tfs |-> (G \ Dilate(ppv \cup pev, G, B)) \cap tvs,     \* touch_free_solid
          tfv |-> (G \ Dilate(pps \cup pes, G, B)) \cap tvv ]    \* touch_free_void

\* loop condition is false: every pixel is an existing solid or void pixel
Done(ts, tv, G, B) == Dilate(ts, G, B) \cup Dilate(tv, G, B) = G

\* the best touch among candidates cs (solid) / cv (void): reward arr[p] for solid, -arr[p] for void;
\* solid wins only with a strictly larger reward; jnp.argmax takes the first maximum in row-major order,
\* which is the smallest code.  Result: <<kind, pixel>>.
MaxOf(S)  == CHOOSE m \in S : \A k \in S : k <= m
MinOf(S)  == CHOOSE m \in S : \A k \in S : m <= k
Best(cs, cv, arr, dm) ==
    LET vs == { arr[Pos(p, dm)] : p \in cs }
        vv == { 0 - arr[Pos(p, dm)] : p \in cv }
        solid == cs # {} /\ (cv = {} \/ MaxOf(vs) > MaxOf(vv))
    IN  IF solid THEN << "solid", MinOf({ p \in cs : arr[Pos(p, dm)] = MaxOf(vs) }) >>
                 ELSE << "void",  MinOf({ p \in cv : 0 - arr[Pos(p, dm)] = MaxOf(vv) }) >>

\* which case of the loop body applies, and the touches after it
CaseOf(a) == IF a.tfs \cup a.tfv # {} THEN 1 ELSE IF a.trs \cup a.trv # {} THEN 2
             ELSE IF a.tvs \cup a.tvv # {} THEN 3 ELSE 0       \* 0: no valid touch left (the loop would spin)
StepTouches(ts, tv, arr, dm, B, variant) ==
    LET G == Grid(dm)
        a == Analysis(ts, tv, G, B, variant)
        k == CaseOf(a)
    IN  IF k = 1 THEN << ts \cup a.tfs, tv \cup a.tfv >>
        ELSE IF k = 0 THEN << ts, tv >>
        ELSE LET c == IF k = 2 THEN Best(a.trs, a.trv, arr, dm) ELSE Best(a.tvs, a.tvv, arr, dm)
             IN  IF c[1] = "solid" THEN << ts \cup {c[2]}, tv >> ELSE << ts, tv \cup {c[2]} >>

\* the whole loop, run to the end (n = remaining fuel; at most one new touch set per pixel and kind)
RECURSIVE RunLoop(_, _, _, _, _, _)
RunLoop(ts, tv, arr, dm, B, n) ==
    IF n = 0 \/ Done(ts, tv, Grid(dm), B) THEN << ts, tv >>
    ELSE LET nx == StepTouches(ts, tv, arr, dm, B, "paper")
         IN  IF nx = << ts, tv >> THEN << ts, tv >> ELSE RunLoop(nx[1], nx[2], arr, dm, B, n - 1)
\* solid pixels returned by _generator
GeneratorOutput(arr, dm, B) ==
    LET r == RunLoop({}, {}, arr, dm, B, 2 * dm[1] * dm[2] + 1) IN Dilate(r[1], Grid(dm), B)
=======================================================================
