----------------------------- MODULE Grid -----------------------------
(* Grid geometry helpers of fdtdx (core/grid.py RectilinearGrid; config.py time_step_duration) as a
   state machine: a realised rectilinear grid g = <<x_edges, y_edges, z_edges>> is built once (Init picks
   every grid in the bound) and is then queried; each query is one action that leaves its answer in `out`.
   One action per public helper, computing what the CODE computes ("...Alg": argmin = first minimum,
   searchsorted, clamped candidate list, uniform shortcut in cfl_time_step):

     Snap(a, mode, c)        coord_to_index(axis, coord, snap)
     Centre(a, size, c)      bounds_for_center(axis, center, size)
     Anchor(a, size, k, x)   bounds_for_anchor(axis, size, anchor, position = k/2 - 1)
     AnchorCoord(a,l,u,k)    anchor_coordinate(axis, (l,u), position)
     Extent(a, l, u)         axis_extent / slice_extent
     Area(a, sl), Volume(sl) face_area / cell_volume
     Cfl                     cfl_time_step(courant_factor)   (as X = (c dt / cf)^2, exact rational)
     Reduce(sym)             reduce_symmetric(symmetry)

   Property C37 = the invariants below: each answer satisfies the DECLARATIVE statement (a nearest edge,
   the previous/next edge, a size-preserving interval of minimal centre/anchor distance, extents/areas/
   volumes consistent with the edges, CFL bound, mirror-reconstructing reduction).
   Coordinates are integers in quarter units (GridDefs).  Variant # "code" selects deliberately wrong
   variants (negative instances).                                                                     *)
EXTENDS GridDefs, TLC

CONSTANTS MaxN,      \* cells on the long axis of a "line" grid
          MaxNT,     \* cells per axis of a "box" grid
          Ws,        \* admissible cell widths (whole units)
          WsBox,     \* widths used for box grids
          Origins,   \* lower-corner coordinates (quarter units)
          Pad,       \* query coordinates range from E(0)-Pad to E(n)+Pad (quarter units)
          Rotate,    \* TRUE: the long axis of a line grid takes every position x, y, z; FALSE: one position per width sequence
          Variant

OriginsDef == {0, -6}
VARIABLES g,     \* the grid: <<x_edges, y_edges, z_edges>>
          la,    \* "line" grids: index of the long axis (1-D helpers are queried there); 3 for "box" grids
          out    \* answer of the last query
vars == << g, la, out >>

WSeqs(N, S) == UNION { [ 1..n -> S ] : n \in 1..N }
Unit1 == EdgesOf(0, << 1 >>)
LineGrid(o, w, p) == [ a \in 1..3 |-> IF a = p + 1 THEN EdgesOf(o, w) ELSE Unit1 ]
Positions(w) == IF Rotate THEN 0..2 ELSE { (SumTo(w, Len(w)) + Len(w)) % 3 }
Boxes == { << EdgesOf(0, wx), EdgesOf(0, wy), EdgesOf(0, wz) >> : wx \in WSeqs(MaxNT, WsBox), wy \in WSeqs(MaxNT, WsBox), wz \in WSeqs(MaxNT, WsBox) }

Init == /\ \/ \E o \in Origins, w \in WSeqs(MaxN, Ws) : \E p \in Positions(w) : g = LineGrid(o, w, p) /\ la = p
           \/ g \in Boxes /\ la = 3
        /\ out = [ op |-> "none" ]

Ax(a) == g[a + 1]
Coords(a) == (E(Ax(a), 0) - Pad)..(E(Ax(a), NCells(Ax(a))) + Pad)

\* ---------- what the code computes (with wrong variants for the negative instances) ----------
SnapAlg(e, mode, c) ==
    IF mode = "nearest" THEN (IF Variant = "nearest_last" THEN MaxOf({ i \in Idx(e) : IsNearest(e, c, i) }) + (IF c > E(e, NCells(e)) THEN 1 ELSE 0)
                              ELSE NearestAlg(e, c))
    ELSE IF mode = "lower" THEN (IF Variant = "lower_strict" THEN Cardinality({ j \in Idx(e) : E(e, j) < c }) - 1 ELSE LowerAlg(e, c))
    ELSE UpperAlg(e, c)

CentreLo(e, size, c) ==
    IF Variant = "centre_unclamped"
    THEN \* rounding a centre index without restricting to intervals that fit (the UniformGrid policy formula)
         NearestAlg(e, c) - (size \div 2)
    ELSE CentreAlg(e, size, c)

Snap(a, mode, c) ==
    out' = [ op |-> "snap", a |-> a, mode |-> mode, c |-> c, r |-> SnapAlg(Ax(a), mode, c) ]

Centre(a, size, c) ==
    out' = IF Fits(Ax(a), size)
           THEN LET lo == CentreLo(Ax(a), size, c) IN [ op |-> "centre", a |-> a, size |-> size, c |-> c, raised |-> FALSE, lo |-> lo, hi |-> lo + size ]
           ELSE [ op |-> "centre", a |-> a, size |-> size, c |-> c, raised |-> TRUE, lo |-> 0, hi |-> 0 ]

Anchor(a, size, k, x) ==
    out' = IF Fits(Ax(a), size)
           THEN LET lo == AnchorAlg(Ax(a), size, k, x) IN [ op |-> "anchor", a |-> a, size |-> size, k |-> k, c |-> x, raised |-> FALSE, lo |-> lo, hi |-> lo + size ]
           ELSE [ op |-> "anchor", a |-> a, size |-> size, k |-> k, c |-> x, raised |-> TRUE, lo |-> 0, hi |-> 0 ]

AnchorCoord(a, l, u, k) ==
    out' = [ op |-> "anchor_coord", a |-> a, l |-> l, u |-> u, k |-> k, r |-> AnchorQ(Ax(a), l, u, k) ]

Extent(a, l, u) ==
    out' = [ op |-> "extent", a |-> a, l |-> l, u |-> u, r |-> ExtentQ(Ax(a), l, u) ]

Area(a, sl)  == out' = [ op |-> "area", a |-> a, sl |-> sl, shape |-> FaceShape(sl, a), r |-> FaceAreaFlat(g, a, sl) ]
Volume(sl)   == out' = [ op |-> "volume", sl |-> sl, shape |-> VolShape(sl), r |-> CellVolumeFlat(g, sl) ]

\* cfl_time_step: uniform grids use courant_factor/sqrt(3) * spacing / c, others the per-axis minimum spacings
CflX ==
    IF Variant = "cfl_first_spacing" \/ IsUniformExact(g)
    THEN LET s == WidthQ(g[1], 0) \div 4 IN << s * s, 3 >>
    ELSE << CflNum(g), CflDen(g) >>
Cfl == out' = [ op |-> "cfl", x |-> CflX, uniform |-> IsUniformExact(g) ]

Reduce(sym) ==
    out' = IF ReduceRaises(g, sym) THEN [ op |-> "reduce", sym |-> sym, raised |-> TRUE, r |-> g ]
           ELSE [ op |-> "reduce", sym |-> sym, raised |-> FALSE, r |-> Reduced(g, sym) ]

Pairs(e) == { p \in Idx(e) \X Idx(e) : p[1] < p[2] }
Slices == { << p1, p2, p3 >> : p1 \in Pairs(g[1]), p2 \in Pairs(g[2]), p3 \in Pairs(g[3]) }
Syms   == [ 1..3 -> {-1, 0, 1} ]

Query ==
    \/ \E a \in {la} \cap 0..2, mode \in {"nearest", "lower", "upper"} : \E c \in Coords(a) : Snap(a, mode, c)
    \/ \E a \in {la} \cap 0..2 : \E size \in 0..(NCells(Ax(a)) + 1), c \in Coords(a) : Centre(a, size, c)
    \/ \E a \in {la} \cap 0..2, k \in 0..4 : \E size \in 0..(NCells(Ax(a)) + 1), x \in Coords(a) : Anchor(a, size, k, x)
    \/ \E a \in {la} \cap 0..2, k \in 0..4 : \E l \in Idx(Ax(a)), u \in Idx(Ax(a)) : l <= u /\ AnchorCoord(a, l, u, k)
    \/ \E a \in 0..2 : \E l \in Idx(Ax(a)), u \in Idx(Ax(a)) : l <= u /\ Extent(a, l, u)
    \/ \E a \in 0..2 : \E sl \in Slices : Area(a, sl)
    \/ \E sl \in Slices : Volume(sl)
    \/ Cfl
    \/ \E sym \in Syms : Reduce(sym)

Next == out.op = "none" /\ Query /\ UNCHANGED << g, la >>      \* one query per behaviour (answers do not depend on earlier queries: g is immutable)
Spec == Init /\ [][Next]_vars

\* ---------- properties ----------
GridOK == \A a \in 1..3 : StrictlyIncreasing(g[a]) /\ NCells(g[a]) >= 1

\* coordinate snapping returns the nearest / previous / next edge as named
SnapCorrect ==
    out.op = "snap" =>
        LET e == Ax(out.a) IN
        /\ out.mode = "nearest" => IsNearest(e, out.c, out.r)
        /\ (out.mode = "lower" /\ HasLower(e, out.c)) => IsLower(e, out.c, out.r)
        /\ (out.mode = "upper" /\ HasUpper(e, out.c)) => IsUpper(e, out.c, out.r)

\* interval choice: size preserving, inside the grid, minimal distance; refused exactly when no interval fits
CentreCorrect ==
    out.op = "centre" =>
        /\ out.raised <=> ~Fits(Ax(out.a), out.size)
        /\ ~out.raised => IsCentreChoice(Ax(out.a), out.size, out.c, out.lo, out.hi)
AnchorCorrect ==
    out.op = "anchor" =>
        /\ out.raised <=> ~Fits(Ax(out.a), out.size)
        /\ ~out.raised => IsAnchorChoice(Ax(out.a), out.size, out.k, out.c, out.lo, out.hi)
\* an interval's own anchor is reproduced by the anchor choice (round trip), and the end positions are the edges
AnchorCoordCorrect ==
    out.op = "anchor_coord" =>
        LET e == Ax(out.a) IN
        /\ out.k = 0 => out.r = E(e, out.l)
        /\ out.k = 4 => out.r = E(e, out.u)
        /\ out.k = 2 => 2 * out.r = E(e, out.l) + E(e, out.u)
        /\ out.r >= E(e, out.l) /\ out.r <= E(e, out.u)
        /\ out.l < out.u => AnchorDist(e, AnchorAlg(e, out.u - out.l, out.k, out.r), out.u - out.l, out.k, out.r) = 0

\* extents, areas and volumes are consistent with the edges
RECURSIVE SumSeq(_, _)
SumSeq(s, k) == IF k = 0 THEN 0 ELSE SumSeq(s, k - 1) + s[k]
ExtentCorrect ==
    out.op = "extent" =>
        LET e == Ax(out.a) IN
        /\ out.r = SumTo(WidthsQ(e), out.u) - SumTo(WidthsQ(e), out.l)
        /\ out.r >= 0 /\ (out.r = 0 <=> out.l = out.u)
AreaCorrect ==
    out.op = "area" =>
        LET t == Transverse(out.a) IN
        /\ out.shape[out.a + 1] = 1
        /\ Len(out.r) = out.shape[1] * out.shape[2] * out.shape[3]
        /\ \A p \in 1..Len(out.r) : out.r[p] > 0
        /\ SumSeq(out.r, Len(out.r)) = ExtentQ(g[t[1] + 1], out.sl[t[1] + 1][1], out.sl[t[1] + 1][2]) * ExtentQ(g[t[2] + 1], out.sl[t[2] + 1][1], out.sl[t[2] + 1][2])
VolumeCorrect ==
    out.op = "volume" =>
        /\ Len(out.r) = out.shape[1] * out.shape[2] * out.shape[3]
        /\ \A p \in 1..Len(out.r) : out.r[p] > 0
        /\ SumSeq(out.r, Len(out.r)) = ExtentQ(g[1], out.sl[1][1], out.sl[1][2]) * ExtentQ(g[2], out.sl[2][1], out.sl[2][2]) * ExtentQ(g[3], out.sl[3][1], out.sl[3][2])

\* the time step respects the CFL bound of the smallest cell on each axis:  X <= Num/Den
CflSafe == out.op = "cfl" => out.x[1] * CflDen(g) <= CflNum(g) * out.x[2]

\* symmetric reduction: refused exactly for odd / asymmetric symmetric axes; otherwise the kept half mirrors back to the full axis
ReduceCorrect ==
    out.op = "reduce" =>
        /\ out.raised <=> ReduceRaises(g, out.sym)
        /\ ~out.raised => \A a \in 1..3 :
              /\ StrictlyIncreasing(out.r[a]) /\ NCells(out.r[a]) >= 1
              /\ out.sym[a] = 0 => out.r[a] = g[a]
              /\ out.sym[a] # 0 => /\ MirrorReconstructs(g[a]) /\ out.r[a] = UpperHalf(g[a])
                                   /\ E(out.r[a], NCells(out.r[a])) = E(g[a], NCells(g[a]))
=======================================================================
