-------------------------- MODULE ShapesDefs --------------------------
(* Pure definitions for C43 (shapes are rasterised by cell-centre inclusion), shared by Shapes.tla and
   Trace_Shapes.tla.  Exact integer geometry:

     * a lattice axis is a strictly increasing sequence of integer EDGES (unit = the length unit D of the
       scene), cell i lies between edge i and edge i+1;
     * every derived coordinate is kept in QUARTER units (1 = D/4): a cell centre is 2*(e[i]+e[i+1]), the
       middle of a box 2*(e[lo]+e[hi]) - both integers;
     * radii are q/4 (q a positive integer), polygon vertices are integer pairs in quarter units relative to
       the shape centre;
     * "strictly inside" is an integer inequality after cross-multiplication - no division, no rounding.

   fdtdx: objects/static_material/sphere.py, cylinder.py, polygon.py (get_voxel_mask_for_shape),
   core/grid.py (polygon_to_mask, polygon_to_mask_at_points).                                          *)
EXTENDS Integers, Sequences, FiniteSets

Abs(x) == IF x < 0 THEN -x ELSE x
Min2(a, b) == IF a <= b THEN a ELSE b
Max2(a, b) == IF a >= b THEN a ELSE b
Sq(x) == x * x

\* ---------- lattice ----------
NCells(E, a)    == Len(E[a]) - 1
Centre4(e, i)   == 2 * (e[i] + e[i + 1])          \* centre of cell i of an axis with edges e
Corner4(e, i)   == 4 * e[i]                       \* lower corner of cell i (wrong sample point, negative instance)
Mid4(e, lo, hi) == 2 * (e[lo] + e[hi])            \* middle of the box between edge lo and edge hi
\* fdtdx.core.axis.get_transverse_axes, 1-based: (horizontal, vertical) axis of a cross-section
Transverse(axis) == CASE axis = 1 -> << 2, 3 >> [] axis = 2 -> << 1, 3 >> [] OTHER -> << 1, 2 >>

\* ---------- ellipsoid / ellipse: sum (d[a]/q[a])^2 < 1 without division ----------
\* the guard |d| < q is implied by the inequality; it only keeps the products small (TLC integers are 32 bit)
InEllipsoid(d, q) ==
    /\ \A a \in 1..3 : Abs(d[a]) < q[a]
    /\ Sq(d[1]) * Sq(q[2]) * Sq(q[3]) + Sq(d[2]) * Sq(q[1]) * Sq(q[3]) + Sq(d[3]) * Sq(q[1]) * Sq(q[2])
         < Sq(q[1]) * Sq(q[2]) * Sq(q[3])
OnEllipsoid(d, q) ==
    /\ \A a \in 1..3 : Abs(d[a]) <= q[a]
    /\ Sq(d[1]) * Sq(q[2]) * Sq(q[3]) + Sq(d[2]) * Sq(q[1]) * Sq(q[3]) + Sq(d[3]) * Sq(q[1]) * Sq(q[2])
         = Sq(q[1]) * Sq(q[2]) * Sq(q[3])
InEllipse(dh, dv, qh, qv) ==
    /\ Abs(dh) < qh /\ Abs(dv) < qv
    /\ Sq(dh) * Sq(qv) + Sq(dv) * Sq(qh) < Sq(qh) * Sq(qv)
OnEllipse(dh, dv, qh, qv) ==
    /\ Abs(dh) <= qh /\ Abs(dv) <= qv
    /\ Sq(dh) * Sq(qv) + Sq(dv) * Sq(qh) = Sq(qh) * Sq(qv)

\* ---------- polygon: crossing number (even-odd rule) ----------
NextIdx(V, i) == (i % Len(V)) + 1                 \* the polygon is closed implicitly: last vertex -> first
\* edge a->b crosses the horizontal ray from p towards +h (half-open in v, so a ray through a vertex counts once)
Crosses(p, a, b) ==
    /\ (a[2] > p[2]) # (b[2] > p[2])
    /\ LET dv == b[2] - a[2]
           lhs == (p[1] - a[1]) * dv
           rhs == (p[2] - a[2]) * (b[1] - a[1])
       IN IF dv > 0 THEN lhs < rhs ELSE lhs > rhs
OnSegment(p, a, b) ==
    /\ (b[1] - a[1]) * (p[2] - a[2]) = (b[2] - a[2]) * (p[1] - a[1])
    /\ Min2(a[1], b[1]) <= p[1] /\ p[1] <= Max2(a[1], b[1])
    /\ Min2(a[2], b[2]) <= p[2] /\ p[2] <= Max2(a[2], b[2])
OnPolygon(p, V) == \E i \in 1..Len(V) : OnSegment(p, V[i], V[NextIdx(V, i)])
InPolygon(p, V) == Cardinality({ i \in 1..Len(V) : Crosses(p, V[i], V[NextIdx(V, i)]) }) % 2 = 1

\* ---------- radius defaulting of the ellipsoid (Sphere.radius, radius_x/_y/_z) ----------
\* `rad` is the default radius, given[a] the per-axis radius or 0 when it is omitted: r_a = given[a] if given else rad.
\* variant "z_from_y" is a deliberately wrong rule (the omitted z radius falls back to the EFFECTIVE y radius).
EffRadii(rad, given, variant) ==
    LET rx == IF given[1] # 0 THEN given[1] ELSE rad
        ry == IF given[2] # 0 THEN given[2] ELSE rad
        rz == IF given[3] # 0 THEN given[3] ELSE IF variant = "z_from_y" THEN ry ELSE rad
    IN << rx, ry, rz >>

\* ---------- shapes ----------
\* sh = [ kind |-> "ell" | "cyl" | "poly", q |-> <<qx,qy,qz>>, axis |-> 1..3, poly |-> << <<h,v>>, ... >> ]
\* d = sample point minus shape centre (3-sequence, quarter units).  cyl/poly ignore the component along
\* sh.axis (extrusion); cyl uses q[h], q[v] of its cross-section (fdtdx's Cylinder has q[h] = q[v]).
Strictly(sh, d) ==
    LET t == Transverse(sh.axis) IN
    CASE sh.kind = "ell"  -> InEllipsoid(d, sh.q)
      [] sh.kind = "cyl"  -> InEllipse(d[t[1]], d[t[2]], sh.q[t[1]], sh.q[t[2]])
      [] OTHER            -> InPolygon(<< d[t[1]], d[t[2]] >>, sh.poly) /\ ~OnPolygon(<< d[t[1]], d[t[2]] >>, sh.poly)
OnBoundary(sh, d) ==
    LET t == Transverse(sh.axis) IN
    CASE sh.kind = "ell"  -> OnEllipsoid(d, sh.q)
      [] sh.kind = "cyl"  -> OnEllipse(d[t[1]], d[t[2]], sh.q[t[1]], sh.q[t[2]])
      [] OTHER            -> OnPolygon(<< d[t[1]], d[t[2]] >>, sh.poly)
\* closed shape (the wrong `<=` rule of the negative instance)
Closed(sh, d) == Strictly(sh, d) \/ OnBoundary(sh, d)

\* ---------- what a binary floating-point evaluation of sum (d/r)^2 < 1 can decide on a boundary point ----------
\* d/r is a dyadic rational with few bits (so d/r, its square and the sum are exact in float64 and the strict
\* comparison alone decides) iff the reduced denominator q/gcd(|d|,q) is a power of two.
Gcd(a, b) == CHOOSE g \in 1..Max2(Max2(a, b), 1) : /\ (a % g = 0 /\ b % g = 0)
                                                   /\ \A h \in (g + 1)..Max2(Max2(a, b), 1) : ~(a % h = 0 /\ b % h = 0)
Pow2 == {1, 2, 4, 8, 16, 32, 64}
DyadicTerm(d, q) == d = 0 \/ (q \div Gcd(Abs(d), q)) \in Pow2
ExactTie(sh, d) ==
    LET t == Transverse(sh.axis) IN
    CASE sh.kind = "ell"  -> \A a \in 1..3 : DyadicTerm(d[a], sh.q[a])
      [] sh.kind = "cyl"  -> DyadicTerm(d[t[1]], sh.q[t[1]]) /\ DyadicTerm(d[t[2]], sh.q[t[2]])
      [] OTHER            -> FALSE

\* ---------- symmetry helpers ----------
MirrorPoly(V, t) == [ i \in 1..Len(V) |-> IF t = 1 THEN << -V[i][1], V[i][2] >> ELSE << V[i][1], -V[i][2] >> ]
EdgeSet(V) == { { V[i], V[NextIdx(V, i)] } : i \in 1..Len(V) }
\* the polygon is its own mirror image about the line h = 0 (t = 1) / v = 0 (t = 2)
PolySymmetric(V, t) == EdgeSet(MirrorPoly(V, t)) = EdgeSet(V)
Palindrome(w) == \A i \in 1..Len(w) : w[i] = w[Len(w) + 1 - i]
Reverse(w) == [ i \in 1..Len(w) |-> w[Len(w) + 1 - i] ]
========================================================================
