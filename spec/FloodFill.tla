--------------------------- MODULE FloodFill ---------------------------
(* Flood fill of fdtdx's fabrication clean-up (binary_transform.py: compute_polymer_connection,
   compute_air_connection, remove_floating_polymer) as a state machine.

   A behaviour fixes a lattice, a binary design and a mode
       "material": grow through material cells from the bottom layer   (compute_polymer_connection)
       "air"     : grow through background cells from the sides and top (compute_air_connection)
   and then repeats ROUNDS of three planar dilations, exactly like seperated_3d_dilation:
       DilateXY ; DilateXZ ; DilateYZ         each:  conn' = (conn dilated in that plane) /\ mask
   Every dilation is an instance of the abstract action  Grow(F): add a set F of mask cells that are
   face-adjacent to the connected set  (action property GrowOnly).

   When does the loop stop?   CONSTANT Loop
       "fixpoint" : after the first round that added nothing                 (the design; proposed fix)
       "maxside"  : after max(X, Y, Z) rounds                               (binary_transform.py today)
   Where does material growth start?   CONSTANT Seed
       "bottom"   : material cells of layer z = 0                            (the documented meaning)
       "padded"   : as the code does for Z = 1: the design is padded with an empty layer below, the
                    seed layer is the padding, so there is no seed at all

   Property C23 (first sentence): at termination the transform's output
       Output == design minus (material that is not connected)
   equals Keep(design) = the material cells connected through face-adjacent material to the bottom layer.
   The terminal state is characterised three independent ways: by a reachability certificate kept in
   `rank` (every connected cell has a neighbour connected strictly earlier, down to a seed), by closedness
   (no mask cell outside touches the set), and by equality with the recursive Closure of FloodFillDefs,
   which is the definition the trace spec evaluates on the real code's output.                        *)
EXTENDS FloodFillDefs

CONSTANTS Shapes,    \* set of lattices <<X, Y, Z>> to enumerate (all designs on each)
          Modes,     \* subset of {"material", "air"}
          Loop,      \* "fixpoint" | "maxside"
          Seed,      \* "bottom" | "padded"
          Filter(_)  \* which designs to enumerate (AnyDesign, or a cheaper family for the negative instance)

VARIABLES dm, design, mode,     \* fixed at Init
          conn,                 \* cells found connected so far
          rank,                 \* [conn -> Nat]: index of the dilation that added the cell (0 = seed)
          phase,                \* "xy" | "xz" | "yz" | "done"
          round,                \* completed rounds
          grew,                 \* did the current round add anything so far
          step                  \* dilations executed
vars == << dm, design, mode, conn, rank, phase, round, grew, step >>

Mask      == IF mode = "material" THEN design ELSE Cells(dm) \ design
TrueSeeds == IF mode = "material" THEN Bottom(dm) ELSE SidesTop(dm)
UsedSeeds == IF mode = "material" /\ Seed = "padded" /\ dm[3] = 1 THEN {} ELSE TrueSeeds

Init == /\ dm \in Shapes
        /\ design \in { d \in SUBSET Cells(dm) : Filter(d) }
        /\ mode \in Modes
        /\ conn = Mask \cap UsedSeeds
        /\ rank = [ c \in Mask \cap UsedSeeds |-> 0 ]
        /\ phase = "xy" /\ round = 0 /\ grew = FALSE /\ step = 0

\* abstract growth step: add a set F of mask cells face-adjacent to conn
Grow(F) == /\ F \subseteq Frontier(conn, Mask, dm, AllAxes)
           /\ conn' = conn \cup F
           /\ rank' = [ c \in conn \cup F |-> IF c \in conn THEN rank[c] ELSE step + 1 ]
           /\ step' = step + 1

StopAfter(r, g) == IF Loop = "maxside" THEN r >= MaxSide(dm) ELSE ~g

Dilate(ph, axes, nextph) ==
    /\ phase = ph
    /\ LET F == Frontier(conn, Mask, dm, axes) IN
       /\ Grow(F)
       /\ IF nextph # "xy"
          THEN /\ phase' = nextph /\ round' = round /\ grew' = (grew \/ F # {})
          ELSE /\ round' = round + 1
               /\ phase' = IF StopAfter(round + 1, grew \/ F # {}) THEN "done" ELSE "xy"
               /\ grew' = FALSE
    /\ UNCHANGED << dm, design, mode >>

DilateXY == Dilate("xy", {1, 2}, "xz")
DilateXZ == Dilate("xz", {1, 3}, "yz")
DilateYZ == Dilate("yz", {2, 3}, "xy")

Finished == phase = "done" /\ UNCHANGED vars      \* terminal states stutter; every other state must have a successor (deadlock check)

Next == DilateXY \/ DilateXZ \/ DilateYZ \/ Finished
Spec == Init /\ [][Next]_vars

\* what remove_floating_polymer returns from the terminal state
NonConnected == (Cells(dm) \ conn) \cap design
Output       == design \ NonConnected

\* ---------------------------------- properties ----------------------------------
TypeOK == /\ dm \in Shapes /\ design \subseteq Cells(dm) /\ mode \in Modes
          /\ conn \subseteq Mask /\ DOMAIN rank = conn
          /\ phase \in {"xy", "xz", "yz", "done"} /\ round \in Nat /\ step = 3 * round + (CASE phase = "xz" -> 1 [] phase = "yz" -> 2 [] OTHER -> 0)

\* reachability certificate: every connected cell is a true seed or hangs on a cell connected earlier
RankWitness == \A c \in conn : \/ rank[c] = 0 /\ c \in TrueSeeds
                               \/ \E d \in Nbrs(c, dm) \cap conn : rank[d] < rank[c]
\* hence nothing outside the reachable set is ever marked
ConnSound == conn \subseteq (IF mode = "material" THEN Reach(design, dm) ELSE AirReach(design, dm))

\* terminal state: contains every seed and is closed, i.e. it is a fixpoint of growth
TerminalClosed == phase = "done" => /\ Mask \cap TrueSeeds \subseteq conn
                                    /\ Frontier(conn, Mask, dm, AllAxes) = {}
\* terminal state = reachability
TerminalIsReach == phase = "done" =>
                     conn = (IF mode = "material" THEN Reach(design, dm) ELSE AirReach(design, dm))
\* ... and reachability really is the LEAST closed set containing the seeds (checked by brute force
\* over all subsets on lattices of at most 9 cells)
LeastClosed == (phase = "done" /\ NCells(dm) <= 9) =>
                 \A T \in SUBSET conn :
                    (Mask \cap TrueSeeds \subseteq T /\ Frontier(T, Mask, dm, AllAxes) = {}) => T = conn

\* C23: the transform keeps precisely the connected material and turns the rest into background
RemoveCorrect == (phase = "done" /\ mode = "material") =>
                    /\ Output = Keep(design, dm)
                    /\ Output \subseteq design
                    /\ NoFloating(Output, dm)

\* the fixpoint loop needs at most one round per mask cell plus the final idle round
RoundsBounded == round <= Cardinality(Mask) + 1

\* every step only ever adds face-adjacent mask cells; the input is never touched
GrowOnly == [][ /\ conn \subseteq conn'
                /\ (conn' \ conn) \subseteq Frontier(conn, Mask, dm, AllAxes)
                /\ design' = design /\ dm' = dm /\ mode' = mode ]_vars

\* C23, second sentence, is a pair of post-conditions; they are satisfiable for every design
RepairFeasible == step = 0 => /\ NoFloating(Repair(design, dm), dm)
                              /\ NoEnclosed(Repair(design, dm), dm)
                              /\ (NoFloating(design, dm) /\ NoEnclosed(design, dm) => Repair(design, dm) = design)

\* the model of the code as written (BoundedReach in FloodFillDefs) is this machine with Loop = "maxside",
\* Seed = "padded"; used by the trace spec only to label a violation as the known loop-bound defect
BoundedModelAgrees == (phase = "done" /\ mode = "material" /\ Loop = "maxside" /\ Seed = "padded") =>
                         conn = BoundedReach(design, dm)

\* ---------------------------------- bounded instances (cfg: Shapes <- ..., Filter <- ...) ----------------------------------
AnyDesign(d) == TRUE
SixCells(d)  == Cardinality(d) = 6
ShapesQ    == { <<1,1,1>>, <<1,1,2>>, <<1,1,3>>, <<3,1,3>>, <<1,3,3>>, <<3,3,1>>, <<2,2,2>> }
ShapesQ2   == { <<2,2,3>> }
ShapesT    == ShapesQ \cup { <<2,2,3>>, <<3,2,2>>, <<2,3,2>>, <<4,3,1>> }
ShapesNeg  == { <<2,2,3>> }      \* smallest lattice on which max(shape) rounds are too few (a 6-cell helix)
ShapesNeg2 == { <<3,3,1>> }
ShapesImpl == { <<1,1,1>>, <<1,1,3>>, <<3,1,3>>, <<3,3,1>>, <<2,2,3>>, <<3,2,2>> }
=======================================================================
