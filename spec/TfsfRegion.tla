------------------------------ MODULE TfsfRegion ------------------------------
(* X01 - total-field/scattered-field box, exact 1-D state machine (integer arithmetic).

   A line of N Yee cells (E[i] at i, H[i] at i + 1/2), vacuum, Courant number 1 (the 1-D Yee wave is exact there, so the
   incident table  g(tau - delay)  is a solution of the same update and the statement below holds EXACTLY), box [A, B).
   One time step is shaped like fdtdx.fdtd.update:
       StepE        E[i] -= H[i] - H[i-1]                     (curl update of every cell)
       InjectE(f)   per face f: E[ENode(f)] += FaceSign(f) * incident H at HNode(f), sampled at the on-clock time m
       StepH        H[i] -= E[i+1] - E[i]
       InjectH(f)   per face f: H[HNode(f)] += FaceSign(f) * incident E at ENode(f), sampled at m + 1/2
   The faces of one phase may inject in any order (TLC explores both).  The on/off switch gates a WHOLE step (all faces,
   both fields) and drives the source's own clock m = number of on-steps so far (fdtdx: lax.cond around update_E/update_H,
   adjust_time_step_by_on_off).

   Invariants (at step boundaries):
     OutsideZero     the scattered-field unknowns are exactly zero               (TF/SF contract, empty box)
     InsideIncident  the total-field unknowns equal Amp * incident wave          (linearity in Amp, mirrored for "-")
     EOutsideZeroMid after the E half of a step the scattered E unknowns are zero
   Init enumerates box position, direction, amplitude, switch delay and EVERY incident table over Vals of length K.

   Negative instances (CONSTANT Variant / Origin):
     "far_sign"        the max face injects with the sign of the min face
     "h_half_step"     the H faces sample the incident E at m instead of m + 1/2
     "face_off_by_one" the max face writes its E correction on node B - 1 instead of B (and samples the incident E there).
                       At Courant number 1 the incident H at node B-1 equals the incident E at node B-1 half a step earlier,
                       so this variant is again a consistent (half a cell smaller) box: OutsideZero survives, the variant is
                       rejected by InsideIncident (node B - 1 no longer carries the incident wave)
     "h_ungated"       the switch gates only the E faces
     Origin = "lower"  phase origin at the box lower corner for BOTH directions: for direction "-" the incident wave is
                       already inside the box at clock 0 while the fields start from zero  (this is what
                       TFSFPlaneSourceRegion.apply does: center_physical = 0 -> finding X01-F1)                        *)
EXTENDS TfsfRegionDefs, TLC
ValsPM == {-1, 0, 1}          \* cfg files cannot hold negative literals:  Vals <- ValsPM
CONSTANTS N, K, Vals, Amps, Delays, NSteps, Variant, Origin
VARIABLES cfg, E, H, n, pc, done
vars == << cfg, E, H, n, pc, done >>

Cells == 0..(N - 1)
G(k) == IF k \in 1..K THEN cfg.tab[k] ELSE 0                     \* causal table: zero up to and including time 0
L2 == 2 * (cfg.b - cfg.a)
\* incident fields at on-clock half-step tau; E node i at u = 2 (i - a), H node i at u = 2 (i - a) + 1
IncE(i, tau) == cfg.amp * G(tau - Delay2(2 * (i - cfg.a), cfg.dir, Origin, L2))
IncH(i, tau) == DirSgn(cfg.dir) * cfg.amp * G(tau - Delay2(2 * (i - cfg.a) + 1, cfg.dir, Origin, L2))
On(k) == k >= cfg.delay
Clock(k) == k - cfg.delay                                        \* on-steps before step k (for k >= delay)

Sgn(f) == IF Variant = "far_sign" THEN 1 ELSE FaceSign(f)
EN(f) == IF Variant = "face_off_by_one" /\ f = "max" THEN cfg.b - 1 ELSE ENode(f, cfg.a, cfg.b)
HN(f) == HNode(f, cfg.a, cfg.b)
HTau(k) == IF Variant = "h_half_step" THEN 2 * Clock(k)
           ELSE IF Variant = "h_ungated" THEN 2 * k + 1          \* not gated: runs on the global clock
           ELSE 2 * Clock(k) + 1
GateH(k) == IF Variant = "h_ungated" THEN TRUE ELSE On(k)

Configs == { c \in [a : Cells, b : Cells, dir : Dirs, amp : Amps, delay : Delays, tab : [1..K -> Vals]] : Placeable(c.a, c.b, N) }
Init == /\ cfg \in Configs
        /\ E = [i \in Cells |-> 0] /\ H = [i \in Cells |-> 0]
        /\ n = 0 /\ pc = "E" /\ done = {}
Hm(i) == IF i \in Cells THEN H[i] ELSE 0
Ep(i) == IF i \in Cells THEN E[i] ELSE 0
StepE == /\ pc = "E" /\ n < NSteps
         /\ E' = [i \in Cells |-> E[i] - (H[i] - Hm(i - 1))]
         /\ pc' = "injE" /\ done' = {} /\ UNCHANGED << cfg, H, n >>
InjectE(f) == /\ pc = "injE" /\ f \notin done
              /\ E' = IF On(n) THEN [E EXCEPT ![EN(f)] = @ + Sgn(f) * IncH(HN(f), 2 * Clock(n))] ELSE E
              /\ done' = done \cup {f}
              /\ pc' = IF done' = Faces THEN "H" ELSE "injE"
              /\ UNCHANGED << cfg, H, n >>
StepH == /\ pc = "H"
         /\ H' = [i \in Cells |-> H[i] - (Ep(i + 1) - E[i])]
         /\ pc' = "injH" /\ done' = {} /\ UNCHANGED << cfg, E, n >>
InjectH(f) == /\ pc = "injH" /\ f \notin done
              /\ H' = IF GateH(n) THEN [H EXCEPT ![HN(f)] = @ + Sgn(f) * IncE(EN(f), HTau(n))] ELSE H
              /\ done' = done \cup {f}
              /\ pc' = IF done' = Faces THEN "E" ELSE "injH"
              /\ n' = IF done' = Faces THEN n + 1 ELSE n
              /\ UNCHANGED << cfg, E >>
Next == StepE \/ StepH \/ \E f \in Faces : InjectE(f) \/ InjectH(f)
Spec == Init /\ [][Next]_vars

Tot == Total1D(cfg.a, cfg.b)
\* after n whole steps: E lives at on-clock half-step 2 m - 1, H at 2 m   (m = Clock(n); nothing was injected while off)
TauE == 2 * Clock(n) - 1
TauH == 2 * Clock(n)
TypeOK == cfg \in Configs /\ n \in 0..NSteps /\ pc \in {"E", "injE", "H", "injH"} /\ done \subseteq Faces
OutsideZero == pc = "E" => \A i \in Cells \ Tot : E[i] = 0 /\ H[i] = 0
InsideIncident == pc = "E" => \A i \in Tot : E[i] = IncE(i, TauE) /\ H[i] = IncH(i, TauH)
EOutsideZeroMid == pc = "H" => \A i \in Cells \ Tot : E[i] = 0
\* the face table equals the first-principles connecting condition of TfsfRegionDefs on the line (axis 0, components
\* E_y = 1 and H_z = 2):  same cells, same neighbours, same signs
Line == { << i, 0, 0 >> : i \in Cells }
FaceTableE(a, b) == { [idx |-> << ENode(f, a, b), 0, 0 >>, nb |-> << HNode(f, a, b), 0, 0 >>, sgn |-> FaceSign(f)] : f \in Faces }
FaceTableH(a, b) == { [idx |-> << HNode(f, a, b), 0, 0 >>, nb |-> << ENode(f, a, b), 0, 0 >>, sgn |-> FaceSign(f)] : f \in Faces }
Derived(fld, comp, a, b) ==
    { [idx |-> t.idx, nb |-> t.nb, sgn |-> t.sgn] :
      t \in { t \in Terms(fld, Line, << a, 0, 0 >>, << b, 1, 1 >>, {0}) : t.comp = comp /\ Crossing(t, << a, 0, 0 >>, << b, 1, 1 >>, {0}) } }
FaceTableIsDerived == \A a \in Cells, b \in Cells : Placeable(a, b, N) =>
    /\ Derived("E", 1, a, b) = FaceTableE(a, b)
    /\ Derived("H", 2, a, b) = FaceTableH(a, b)
ASSUME FaceTableIsDerived
=============================================================================
