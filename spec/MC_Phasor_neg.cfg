SPECIFICATION Spec
CONSTANTS MaxT = 3  MaxStride = 2  Variant = "no_window"
INVARIANT TypeOK
INVARIANT AccIsDFT
INVARIANT KeptShape
INVARIANT Reconstructs
CHECK_DEADLOCK FALSE
