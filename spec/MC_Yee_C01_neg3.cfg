SPECIFICATION Spec
CONSTANTS Mode = "energy"  Variant = "metric_primal"  Family = "list"  List = { 1050107 }  Steps = 1  PairMod = 7
          Extra = { 1010 }
INVARIANT TypeOK
INVARIANT EnergyBalance
CHECK_DEADLOCK FALSE
