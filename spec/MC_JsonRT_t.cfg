SPECIFICATION Spec
CONSTANTS Variant = "ok"
INVARIANT TypeOK
INVARIANT RoundTrip
INVARIANT ConstraintsIdentical
INVARIANT PrivateUnsetBeforePlacement
INVARIANT DerivedRecomputed
CHECK_DEADLOCK FALSE
