----------------------------- MODULE Brush -----------------------------
(* The touch loop of BrushConstraint2D._generator (discretization.py) as a state machine.

   State: the solid and void touches put down so far (touch_s, touch_v of the code).  One step = one
   iteration of the while loop, in one of the cases of Algorithm 1:
       Case1       all "free" touches at once (footprint cannot collide with the other kind)
       Case2       the best "resolving" touch (covers a pixel only one kind can still reach)
       Case3       the best "valid" touch
   "best" = largest reward (design value for solid, its negative for void), solid only on a strict win,
   first maximum in row-major order.  The loop ends when every pixel is covered (Done); the output is
   the dilation of the solid touches.

   Property C25: the loop terminates, and the output's solid and void regions are both unions of brush
   footprints lying inside that region (BrushFeasible).  Behind it: solid and void pixels never overlap
   (NoConflict), a valid touch exists as long as a pixel is uncovered (Progress), every iteration adds a
   touch (Grows), so at most 2*X*Y iterations happen.

   A behaviour fixes a grid, a brush and a design; TLC enumerates all designs with values in Levels.  *)
EXTENDS BrushDefs

CONSTANTS Dims,      \* set of grids <<X, Y>>
          Brushes,   \* set of brush names, see BrushOf
          Levels,    \* design values to enumerate (e.g. {-1, 1}; negative values via the Neg* definitions)
          Variant,   \* "paper" | "ignore_impossible" (negative instance)
          DesignSet(_) \* designs to enumerate on a grid: AllLevels, or Case2Designs (witnesses for Case2)

\* circular_brush(diameter) of the code for the diameters used; read back from the implementation by the
\* conformance harness, which sends the offsets it actually found
Abs(x) == IF x < 0 THEN 0 - x ELSE x
BrushOf(name) ==
    CASE name = "d1" -> { 0 }                                                    \* 1x1
      [] name = "d2" -> { 0, 1, -1, 64, -64 }                                    \* plus shape (d = 2 .. 2.8)
      [] name = "d3" -> { 64 * dx + dy : dx \in -1..1, dy \in -1..1 }            \* 3x3 square (d = 3)
      [] name = "d4" -> { 64 * t[1] + t[2] : t \in { u \in (-2..2) \X (-2..2) : Abs(u[1]) + Abs(u[2]) <= 2 } }   \* 5x5 diamond (d = 4)

VARIABLES dm, brush, arr,       \* fixed at Init: grid, brush name, design (flat row-major sequence of values)
          ts, tv,               \* solid / void touches
          steps, lastcase
vars == << dm, brush, arr, ts, tv, steps, lastcase >>

G == Grid(dm)
B == BrushOf(brush)
A == Analysis(ts, tv, G, B, Variant)
IsDone == Done(ts, tv, G, B)

Init == /\ dm \in Dims /\ brush \in Brushes
        /\ arr \in DesignSet(dm)
        /\ ts = {} /\ tv = {} /\ steps = 0 /\ lastcase = 0

Take(k, nts, ntv) == /\ ts' = nts /\ tv' = ntv /\ steps' = steps + 1 /\ lastcase' = k
                     /\ UNCHANGED << dm, brush, arr >>

Case1 == /\ ~IsDone /\ CaseOf(A) = 1
         /\ Take(1, ts \cup A.tfs, tv \cup A.tfv)
Case2 == /\ ~IsDone /\ CaseOf(A) = 2
         /\ LET c == Best(A.trs, A.trv, arr, dm)
            IN  IF c[1] = "solid" THEN Take(2, ts \cup {c[2]}, tv) ELSE Take(2, ts, tv \cup {c[2]})
Case3 == /\ ~IsDone /\ CaseOf(A) = 3
         /\ LET c == Best(A.tvs, A.tvv, arr, dm)
            IN  IF c[1] = "solid" THEN Take(3, ts \cup {c[2]}, tv) ELSE Take(3, ts, tv \cup {c[2]})
Finished == IsDone /\ UNCHANGED vars

Next == Case1 \/ Case2 \/ Case3 \/ Finished
Spec == Init /\ [][Next]_vars

Output == Dilate(ts, G, B)

\* ---------------------------------- properties ----------------------------------
TypeOK == /\ dm \in Dims /\ brush \in Brushes /\ ts \subseteq G /\ tv \subseteq G
          /\ steps \in Nat /\ lastcase \in 0..3
\* a pixel is never painted both solid and void
NoConflict == Dilate(ts, G, B) \cap Dilate(tv, G, B) = {}
\* while a pixel is uncovered some case applies (otherwise the while loop would never end);
\* together with the deadlock check: every non-final state has a successor
Progress == ~IsDone => CaseOf(A) # 0
\* termination bound
StepsBounded == steps <= 2 * dm[1] * dm[2]
\* C25: the result is brush-feasible (checked in both readings; the literal one is the property)
PostCondition == IsDone => /\ BrushFeasible(Output, G, B)
                           /\ BrushFeasibleCentred(Output, G, B)
                           /\ G \ Output = Dilate(tv, G, B)
\* the functional form used by the trace spec computes the same terminal state
RunLoopAgrees == IsDone => GeneratorOutput(arr, dm, B) = Output
\* every iteration strictly adds touches and never withdraws one
Grows == [][ /\ ts \subseteq ts' /\ tv \subseteq tv'
             /\ (ts' \cup tv') # (ts \cup tv) ]_<< ts, tv, steps >>

\* Case2 needs room: no 2-level design on grids up to 3x5 / 4x4 reaches it.  The 4x5 design below (found with a
\* numpy port of the loop; bit i of 551407 = pixel i in row-major order) does, with the plus brush d2; it and
\* its 20 one-pixel variations are enumerated by MC_Brush_c2.cfg, and NeverCase2 must be violated there.
AllLevels(d)  == [ 1..(d[1] * d[2]) -> Levels ]
Witness45     == [ i \in 1..20 |-> IF (551407 \div (2 ^ (i - 1))) % 2 = 1 THEN 1 ELSE 0 - 1 ]
Case2Designs(d) == IF d = <<4, 5>> THEN { Witness45 } \cup { [ Witness45 EXCEPT ![j] = 0 - @ ] : j \in 1..20 } ELSE {}
NeverCase2    == lastcase # 2
Dims45        == { <<4, 5>> }

\* ---------------------------------- bounded instances ----------------------------------
NegPos  == {-1, 1}
DimsQ   == { <<1,1>>, <<2,2>>, <<3,3>>, <<3,4>> }
DimsQ2  == { <<4,4>> }
DimsT   == { <<1,1>>, <<2,2>>, <<3,3>>, <<3,4>>, <<4,3>>, <<4,4>>, <<2,5>> }
ThreeLevels == {-1, 0, 1}
DimsT3  == { <<3,3>> }
=======================================================================
