SPECIFICATION Spec
CONSTANTS N = 7  MaxThick = 3  InnerPlain = TRUE  RecordOK = TRUE  RestoreFirst = TRUE
INVARIANT InteriorReconstructed
INVARIANT InteriorNonEmpty
CHECK_DEADLOCK FALSE
