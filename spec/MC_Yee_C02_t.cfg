SPECIFICATION Spec
CONSTANTS Mode = "reverse"  Variant = "ok"  Family = "sweep"  List = { }  Steps = 3  PairMod = 1
          Extra = { 1000, 1001, 1002, 1003, 1102, 1013, 1113 }
INVARIANT TypeOK
INVARIANT WallsHold
INVARIANT ReverseExact
CHECK_DEADLOCK FALSE
