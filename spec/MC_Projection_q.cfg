SPECIFICATION Spec
CONSTANTS Variant = "spec"
INVARIANT TypeOK
INVARIANT Range
INVARIANT Monotone
INVARIANT Fixes01
INVARIANT ClipAt0
INVARIANT StepAtInf
CHECK_DEADLOCK FALSE
