SPECIFICATION Spec
CONSTANTS
  N = 4
  BaseEps <- One
  MatEps <- Eps124
  PVals <- P012
  MaxHist = 2
  Backup = "any"
  Scenes <- Twin
  DispWrite = "every"
  MatTable = "first"
INVARIANT TypeOK
INVARIANT OutsideUnchanged
INVARIANT HistoryIndependent
INVARIANT DeviceCells
CHECK_DEADLOCK TRUE
