SPECIFICATION Spec
CONSTANTS
  MaxN = 3
  MaxD = 2
  MaxT = 1
  Variant = "origin_other_axis"
  Volumes <- VolumesQ
INVARIANT TypeOK
INVARIANT AllEqual
INVARIANT ScaleIsOne
INVARIANT EdgesAgree
INVARIANT PlacementAgrees
CHECK_DEADLOCK FALSE
