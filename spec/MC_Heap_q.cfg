SPECIFICATION Spec
CONSTANTS MaxDepth = 3  MaxUpdates = 1  Mode = "obj_deep"  ShareSet = {FALSE}  NegIdx = FALSE  Rich = FALSE  CreateNew = TRUE
INVARIANT TypeOK
INVARIANT Persistent
INVARIANT PathOnly
INVARIANT TypeKept
INVARIANT ValueUntouched
INVARIANT ResultFresh
INVARIANT SpineOnly
INVARIANT NewSlotAdded
INVARIANT ChildrenOlder
PROPERTY AppendOnly
CHECK_DEADLOCK FALSE
