SPECIFICATION Spec
CONSTANTS MaxDepth = 3  MaxUpdates = 1  Mode = "obj_deep"  ShareSet = {TRUE, FALSE}  NegIdx = TRUE  Rich = FALSE
INVARIANT TypeOK
INVARIANT Persistent
INVARIANT PathOnly
INVARIANT TypeKept
INVARIANT ValueUntouched
INVARIANT ResultFresh
INVARIANT SpineOnly
INVARIANT ChildrenOlder
PROPERTY AppendOnly
CHECK_DEADLOCK FALSE
