SPECIFICATION Spec
CONSTANTS MaxN = 2  MaxNT = 1  Ws = {1, 2, 3}  WsBox = {1, 2}  Origins = {0}  Rotate = FALSE  Pad = 6  Variant = "lower_strict"
INVARIANT GridOK
INVARIANT SnapCorrect
INVARIANT CentreCorrect
INVARIANT AnchorCorrect
INVARIANT AnchorCoordCorrect
INVARIANT ExtentCorrect
INVARIANT AreaCorrect
INVARIANT VolumeCorrect
INVARIANT CflSafe
INVARIANT ReduceCorrect
CHECK_DEADLOCK FALSE
