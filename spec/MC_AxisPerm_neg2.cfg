SPECIFICATION Spec
CONSTANTS
  Shapes <- ShapesN
  Kinds <- KindsN
  MaxT = 1
  Variant = "curl_y"
  Srcs = "few"
INVARIANT TypeOK
INVARIANT PermInv
INVARIANT PermBijective
INVARIANT PermCubeId
INVARIANT TensorPermOK
CHECK_DEADLOCK FALSE
