SPECIFICATION Spec
CONSTANTS
  Shapes <- ShapesN
  Kinds <- KindsN
  MaxT = 1
  Variant = "pec_table"
INVARIANT TypeOK
INVARIANT PermInv
INVARIANT PermBijective
INVARIANT PermCubeId
CHECK_DEADLOCK FALSE
