SPECIFICATION Spec
CONSTANTS Mode = "energy"  Variant = "ok"  Family = "sweep"  List = { }  Steps = 2  PairMod = 1
          Extra = { 1000 }
INVARIANT TypeOK
INVARIANT WallsHold
INVARIANT EnergyBalance
INVARIANT NeverIncreases
CHECK_DEADLOCK FALSE
