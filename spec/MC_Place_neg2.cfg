SPECIFICATION Spec
CONSTANTS CatFile = "Place_catalogue_neg2.json"  MaxCons = 2  MaxSpec = 9  EarlyBreak = FALSE  SkipKnown = TRUE
INVARIANT Confluence
INVARIANT Soundness
INVARIANT PassItemsCommute
PROPERTY WriteOnce
PROPERTY FailSticky
CHECK_DEADLOCK FALSE
