SPECIFICATION Spec
CONSTANTS
  Shapes <- ShapesT
  MaxT = 3
  Variant = "ok"
INVARIANT TypeOK
INVARIANT SymInv
INVARIANT StaysConsistent
CHECK_DEADLOCK FALSE
