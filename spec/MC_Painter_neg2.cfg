SPECIFICATION Spec
CONSTANTS L = 2  Variant = "arbitrary_ties"  NObj = 4  Family = "ties"
INVARIANT TypeOK
INVARIANT PainterRule
INVARIANT PrefixRule
INVARIANT VolumeFirst
INVARIANT TiersWidest
INVARIANT ScalarMu
PROPERTY OnlyUpwards
CHECK_DEADLOCK FALSE
