SPECIFICATION Spec
CONSTANTS MaxN = 6  SmallNs = {2, 3}  Variant = "code"
INVARIANT TypeOK
INVARIANT EvenRequired
INVARIANT UpperHalfKept
INVARIANT ClippedToHalf
INVARIANT UnclippedShifted
INVARIANT WallsOnElectricPlanes
CHECK_DEADLOCK FALSE
