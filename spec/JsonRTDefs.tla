-------------------------- MODULE JsonRTDefs --------------------------
(* C31 (setups survive a JSON round trip): definitions shared by JsonRT.tla and Trace_JsonRT.tla.

   1. The class table: for every serialisable class the public constructor fields that conversion/json.py
      exports (TreeClass.get_public_fields / dataclass __dict__), split into
        read     - placement reads the field: resolved grid slices, material / field / detector-state arrays or
                   the placed state of the object depend on it (so it must survive the round trip), and
        cosmetic - placement does not read it (colours, plotting, video options).
      Fields with init=False (Sphere.partial_real_shape/partial_grid_shape) and private fields (leading "_",
      set by placement) are never exported and are not listed.
   2. Comparison helpers for sequences of << key, integer fingerprint >> pairs.                         *)
EXTENDS Integers, Sequences, FiniteSets, TLC

ObjCommonRead == {"name", "partial_real_shape", "partial_real_position", "partial_grid_shape",
                  "max_random_real_offsets", "max_random_grid_offsets"}
ObjCommonCosmetic == {"color"}
StaticRead == ObjCommonRead \cup {"placement_order"}
MultiRead  == StaticRead \cup {"materials", "material_name", "subpixel_smoothing", "subpixel_full_tensor"}
SourceRead == ObjCommonRead \cup {"wave_character", "temporal_profile", "static_amplitude_factor", "switch"}
PlaneRead  == SourceRead \cup {"direction", "azimuth_angle", "elevation_angle", "max_angle_random_offset",
                               "max_vertical_offset", "max_horizontal_offset", "normalize_by_energy",
                               "fixed_E_polarization_vector", "fixed_H_polarization_vector"}
DetRead    == ObjCommonRead \cup {"dtype", "exact_interpolation", "inverse", "switch"}
DetCosmetic == ObjCommonCosmetic \cup {"_signed_data", "plot", "if_inverse_plot_backwards", "num_video_workers", "plot_interpolation", "plot_dpi"}
PmlRead    == ObjCommonRead \cup {"axis", "direction", "kappa_start", "kappa_end", "kappa_order", "alpha_start", "alpha_end",
                                  "alpha_order", "sigma_start", "sigma_end", "sigma_order",
                                  \* public profile arrays, None until placement fills them (exported as null before placement)
                                  "inv_kappa_E", "inv_kappa_H", "pml_a_E", "pml_a_H", "pml_b_E", "pml_b_H"}
WallRead   == ObjCommonRead \cup {"axis", "direction"}

Tbl(r, c) == [ read |-> r, cosmetic |-> c ]
ClassFields == [
    SimulationConfig          |-> Tbl({"time", "grid", "backend", "dtype", "use_complex_fields", "courant_factor", "symmetry", "gradient_config"}, {}),
    UniformGrid               |-> Tbl({"spacing", "center"}, {}),
    RectilinearGrid           |-> Tbl({"x_edges", "y_edges", "z_edges", "center"}, {}),
    Material                  |-> Tbl({"permittivity", "permeability", "electric_conductivity", "magnetic_conductivity", "dispersion"}, {}),
    OnOffSwitch               |-> Tbl({"start_time", "start_after_periods", "end_time", "end_after_periods", "on_for_time", "on_for_periods",
                                       "period", "fixed_on_time_steps", "is_always_off", "interval"}, {}),
    WaveCharacter             |-> Tbl({"phase_shift", "period", "wavelength", "frequency"}, {}),
    SimulationVolume          |-> Tbl(StaticRead \cup {"material"}, ObjCommonCosmetic),
    UniformMaterialObject     |-> Tbl(StaticRead \cup {"material"}, ObjCommonCosmetic),
    Sphere                    |-> Tbl((MultiRead \ {"partial_real_shape", "partial_grid_shape"}) \cup {"radius", "radius_x", "radius_y", "radius_z"}, ObjCommonCosmetic),
    Cylinder                  |-> Tbl(MultiRead \cup {"radius", "axis"}, ObjCommonCosmetic),
    ExtrudedPolygon           |-> Tbl(MultiRead \cup {"axis", "vertices"}, ObjCommonCosmetic),
    PerfectlyMatchedLayer     |-> Tbl(PmlRead, ObjCommonCosmetic),
    PerfectElectricConductor  |-> Tbl(WallRead, ObjCommonCosmetic),
    PerfectMagneticConductor  |-> Tbl(WallRead, ObjCommonCosmetic),
    BlochBoundary             |-> Tbl(WallRead \cup {"bloch_vector"}, ObjCommonCosmetic),
    PointDipoleSource         |-> Tbl(SourceRead \cup {"polarization", "azimuth_angle", "elevation_angle", "source_type", "amplitude"}, ObjCommonCosmetic),
    UniformPlaneSource        |-> Tbl(PlaneRead \cup {"amplitude"}, ObjCommonCosmetic),
    GaussianPlaneSource       |-> Tbl(PlaneRead \cup {"radius", "std"}, ObjCommonCosmetic),
    EnergyDetector            |-> Tbl(DetRead \cup {"as_slices", "reduce_volume", "x_slice", "y_slice", "z_slice", "aggregate"}, DetCosmetic),
    FieldDetector             |-> Tbl(DetRead \cup {"reduce_volume", "components"}, DetCosmetic),
    PoyntingFluxDetector      |-> Tbl(DetRead \cup {"direction", "reduce_volume", "fixed_propagation_axis", "keep_all_components"}, DetCosmetic),
    PhasorDetector            |-> Tbl(DetRead \cup {"wave_characters", "reduce_volume", "components", "scaling_mode", "dft_subsample", "apodization"}, DetCosmetic),
    PositionConstraint        |-> Tbl({"object", "other_object", "axes", "object_positions", "other_object_positions", "margins", "grid_margins"}, {}),
    SizeConstraint            |-> Tbl({"object", "other_object", "axes", "other_axes", "proportions", "offsets", "grid_offsets"}, {}),
    SizeExtensionConstraint   |-> Tbl({"object", "other_object", "axis", "direction", "other_position", "offset", "grid_offset"}, {}),
    GridCoordinateConstraint  |-> Tbl({"object", "axes", "sides", "coordinates"}, {}),
    RealCoordinateConstraint  |-> Tbl({"object", "axes", "sides", "coordinates"}, {}) ]
KnownClasses == DOMAIN ClassFields
ReadFields(cls) == ClassFields[cls].read
KnownFields(cls) == ClassFields[cls].read \cup ClassFields[cls].cosmetic

\* ---------- fingerprint lists: sequences of << key, fp >> ----------
Keys(s) == [ i \in 1..Len(s) |-> s[i][1] ]
SameKeys(a, b) == Keys(a) = Keys(b)
DiffIdx(a, b) == { i \in 1..Len(a) : a[i][2] # b[i][2] }
Min(S) == CHOOSE x \in S : \A y \in S : x <= y
ToSet(s) == { s[i] : i \in 1..Len(s) }
========================================================================
