------------------------- MODULE Trace_Unfold -------------------------
(* Validates what the REAL unfold helpers of /repo/src (fdtdx.fdtd.symmetry.unfold_fields,
   unfold_detector_states, core.physics.symmetry.restrict_to_kept_half) returned on integer arrays
   against the definitions of UnfoldDefs.tla (the ones model-checked in Unfold.tla).

   One record = one unfolded array:
     kind      "field" (unfold_fields) | "det" (a detector state through unfold_detector_states)
     ck        "EH" (components = list of names) | "W" (energy) | "S" (Poynting: keep_all, prop)
     exact     detector.exact_interpolation
     touched   per-axis wall type of the planes the array is unfolded across (0 = not unfolded)
     plane     physical axes present in the record (energy slices: two; otherwise all three)
     n         kept shape;  x[b][c][i][j][k] reduced input;  y = implementation's unfolded output
     has_u, u  restrict_to_kept_half(y) from the implementation
     ydims     trailing three dimensions of y
     raised    the helper raised an exception
     red       "none" | "mean" | "sum";  r[b][c] reduced record of x, r2[b][c] its unfolded value
     dev       max deviation of any output from an integer, in ppb
   Verdict = first failing clause of property C32, or "ok".                                        *)
EXTENDS Integers, Sequences, FiniteSets, TLC, TLCExt, Json, IOUtils

D == INSTANCE UnfoldDefs

Cases == JsonDeserialize(IOEnv.TRACE_FILE)
VARIABLES ci
tvars == << ci >>

\* ---- record accessors (JSON arrays are 1-based sequences)
At(A, b, c, p) == A[b][c][p[1] + 1][p[2] + 1][p[3] + 1]
Dims(A) == << Len(A[1][1]), Len(A[1][1][1]), Len(A[1][1][1][1]) >>
CompsOf(c) == IF c.ck = "EH" THEN D!Stored({ c.components[i] : i \in 1..Len(c.components) })
              ELSE IF c.ck = "W" THEN << "W" >>
              ELSE IF c.keep_all THEN D!FluxComps ELSE << D!FluxComps[c.prop + 1] >>
Touched(c) == [ a \in 1..3 |-> IF (a - 1) \in { c.plane[i] : i \in 1..Len(c.plane) } THEN c.touched[a] ELSE 0 ]
FullShape(c) == [ a \in 1..3 |-> IF Touched(c)[a] # 0 THEN 2 * c.n[a] ELSE c.n[a] ]
Cells(s) == (0..(s[1] - 1)) \X (0..(s[2] - 1)) \X (0..(s[3] - 1))
On(c, comp, a) == Touched(c)[a + 1] # 0 /\ D!OnPlane(c.kind, comp, a, Touched(c)[a + 1], c.exact)
Par(c, comp, a) == D!CompParity(comp, a, Touched(c)[a + 1])

RECURSIVE SumTo(_, _)
SumTo(f, n) == IF n < 0 THEN 0 ELSE f[n] + SumTo(f, n - 1)
Sum3(A, b, cc, s) ==
    SumTo([ i \in 0..(s[1] - 1) |-> SumTo([ j \in 0..(s[2] - 1) |-> SumTo([ k \in 0..(s[3] - 1) |-> At(A, b, cc, << i, j, k >>) ], s[3] - 1) ], s[2] - 1) ], s[1] - 1)
NCells(s) == s[1] * s[2] * s[3]

\* ---- clauses of the property
WellFormed(c) ==
    /\ Len(c.n) = 3 /\ Len(c.touched) = 3
    /\ \A a \in 1..3 : c.n[a] >= 1 /\ c.touched[a] \in {-1, 0, 1}
    /\ c.raised \/ (Len(c.x) >= 1 /\ Len(c.x[1]) = Len(CompsOf(c)) /\ Dims(c.x) = c.n)

\* ydims = trailing three dimensions of the implementation's output as reported by the array itself
ShapeOK(c) == /\ << c.ydims[1], c.ydims[2], c.ydims[3] >> = FullShape(c)
              /\ Len(c.y) = Len(c.x) /\ Len(c.y[1]) = Len(CompsOf(c)) /\ Dims(c.y) = FullShape(c)

UpperOK(c) ==
    LET off == [ a \in 1..3 |-> IF Touched(c)[a] # 0 THEN c.n[a] ELSE 0 ] IN
    \A b \in 1..Len(c.x), cc \in 1..Len(CompsOf(c)), p \in Cells(c.n) :
        At(c.y, b, cc, << p[1] + off[1], p[2] + off[2], p[3] + off[3] >>) = At(c.x, b, cc, p)

RestrictOK(c) == c.has_u => c.u = c.x

ParityOK(c) ==
    LET comps == CompsOf(c)  fs == FullShape(c) IN
    \A a \in D!Axes : Touched(c)[a + 1] # 0 =>
        \A cc \in 1..Len(comps), p \in Cells(fs) :
            LET n == c.n[a + 1]  on == On(c, comps[cc], a)  i == p[a + 1] IN
            D!HasPartner(n, on, i) =>
                \A b \in 1..Len(c.y) :
                    At(c.y, b, cc, [ p EXCEPT ![a + 1] = D!MirrorIdx(n, on, i) ]) = Par(c, comps[cc], a) * At(c.y, b, cc, p)

SrcA(c, comp, a, i) == IF Touched(c)[a + 1] # 0 THEN D!Src(c.n[a + 1], On(c, comp, a), Par(c, comp, a), i) ELSE << i, 1 >>
ClosedFormOK(c) ==
    LET comps == CompsOf(c) IN
    \A cc \in 1..Len(comps), p \in Cells(FullShape(c)) :
        LET s0 == SrcA(c, comps[cc], 0, p[1])  s1 == SrcA(c, comps[cc], 1, p[2])  s2 == SrcA(c, comps[cc], 2, p[3]) IN
        \A b \in 1..Len(c.y) :
            At(c.y, b, cc, p) = s0[2] * s1[2] * s2[2] * At(c.x, b, cc, << s0[1], s1[1], s2[1] >>)

NoSampleOnPlane(c) == \A a \in D!Axes, cc \in 1..Len(CompsOf(c)) : ~On(c, CompsOf(c)[cc], a)
Mean(c) == c.red = "mean"
ReducedInputOK(c) ==              \* harness duty: r really is the reduction of x
    /\ Len(c.r) = Len(c.x) /\ Len(c.r2) = Len(c.x)
    /\ \A b \in 1..Len(c.x), cc \in 1..Len(CompsOf(c)) :
          c.r[b][cc] * (IF Mean(c) THEN NCells(c.n) ELSE 1) = Sum3(c.x, b, cc, c.n)
ReduceCommutesOK(c) ==
    \A b \in 1..Len(c.x), cc \in 1..Len(CompsOf(c)) :
        c.r2[b][cc] * (IF Mean(c) THEN NCells(FullShape(c)) ELSE 1) = Sum3(c.y, b, cc, FullShape(c))
FactorOK(c) ==
    \A b \in 1..Len(c.x), cc \in 1..Len(CompsOf(c)) :
        LET f == D!ReduceFactor(CompsOf(c)[cc], Touched(c), Mean(c)) IN c.r2[b][cc] * f[2] = f[1] * c.r[b][cc]

Verdict(c) ==
    IF ~WellFormed(c) THEN "malformed: record shape"
    ELSE IF c.raised THEN "raised: the unfold helper raised an exception on a legal reduced array"
    ELSE IF c.dev > 0 THEN "exact: unfolded integer array is not integer valued"
    ELSE IF ~ShapeOK(c) THEN "shape: a symmetric axis is not doubled"
    ELSE IF ~UpperOK(c) THEN "upper: upper half of the unfolded array differs from the original"
    ELSE IF ~RestrictOK(c) THEN "upper: restrict_to_kept_half(unfold(x)) differs from x"
    ELSE IF ~ParityOK(c) THEN "parity: a sample and its mirror partner do not differ by the documented parity"
    ELSE IF ~ClosedFormOK(c) THEN "indexmap: unfolded array differs from the documented mirror map"
    ELSE IF c.red = "none" THEN "ok"
    ELSE IF ~ReducedInputOK(c) THEN "malformed: reduced input is not the reduction of x"
    ELSE IF NoSampleOnPlane(c) /\ ~ReduceCommutesOK(c) THEN "reduce: unfolded reduced value differs from the reduction of the unfolded record"
    ELSE IF ~FactorOK(c) THEN "factor: unfolded reduced value differs from the documented prod(1+parity) factor"
    ELSE "ok"

TInit == ci = 1 /\ TLCSet(1, << >>)
TNext == /\ ci <= Len(Cases)
         /\ TLCSet(1, Append(TLCGet(1), [ id |-> Cases[ci].id, v |-> Verdict(Cases[ci]) ]))
         /\ ci' = ci + 1
TSpec == TInit /\ [][TNext]_tvars
Post == ndJsonSerialize(IOEnv.VERDICT_FILE, TLCGet(1))
=======================================================================
