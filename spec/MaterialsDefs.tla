------------------------- MODULE MaterialsDefs -------------------------
(* Pure definitions for material descriptions (fdtdx/materials.py), shared by Materials.tla and
   Trace_Materials.tla.

   Numbers are integers (the harness uses floats that are multiples of 1/Scale, so value*Scale is exact).
   A material property (permittivity, permeability, electric / magnetic conductivity) is entered in one of
   four formats; an input is the record [fmt, v]:
       "scalar"  v = << s >>                                   isotropic
       "diag3"   v = << x, y, z >>                             diagonally anisotropic
       "flat9"   v = << xx, xy, xz, yx, yy, yz, zx, zy, zz >>  row-major
       "nested"  v = << <<xx,xy,xz>>, <<yx,yy,yz>>, <<zx,zy,zz>> >>
   and is stored as the 9-tuple in row-major order.                                                        *)
EXTENDS Integers, Sequences, FiniteSets, TLC

Axes == 1..3
Props == << "eps", "mu", "se", "sm" >>      \* permittivity, permeability, electric and magnetic conductivity

\* ---------- what an input MEANS: entry (i, j) of the 3x3 tensor it denotes (independent of any storage layout)
Entry(inp, i, j) ==
    CASE inp.fmt = "scalar" -> IF i = j THEN inp.v[1] ELSE 0
      [] inp.fmt = "diag3"  -> IF i = j THEN inp.v[i] ELSE 0
      [] inp.fmt = "flat9"  -> inp.v[3 * (i - 1) + j]
      [] inp.fmt = "nested" -> inp.v[i][j]
SameTensor(a, b) == \A i \in Axes, j \in Axes : Entry(a, i, j) = Entry(b, i, j)
FormatOK(inp) ==
    CASE inp.fmt = "scalar" -> Len(inp.v) = 1
      [] inp.fmt = "diag3"  -> Len(inp.v) = 3
      [] inp.fmt = "flat9"  -> Len(inp.v) = 9
      [] inp.fmt = "nested" -> Len(inp.v) = 3 /\ \A i \in Axes : Len(inp.v[i]) = 3
      [] OTHER -> FALSE

\* ---------- what the code does: _normalize_material_property, case by case
\* Variant "rowmajor" is the design; "colmajor" (nested rows written down the columns) and "diag_bcast"
\* (3-tuple broadcast from its first entry) are deliberately wrong variants for the negative instances.
Normalize(inp, variant) ==
    CASE inp.fmt = "scalar" -> << inp.v[1], 0, 0, 0, inp.v[1], 0, 0, 0, inp.v[1] >>
      [] inp.fmt = "diag3"  -> IF variant = "diag_bcast"
                               THEN << inp.v[1], 0, 0, 0, inp.v[1], 0, 0, 0, inp.v[1] >>
                               ELSE << inp.v[1], 0, 0, 0, inp.v[2], 0, 0, 0, inp.v[3] >>
      [] inp.fmt = "flat9"  -> inp.v
      [] inp.fmt = "nested" -> IF variant = "colmajor"
                               THEN << inp.v[1][1], inp.v[2][1], inp.v[3][1], inp.v[1][2], inp.v[2][2], inp.v[3][2],
                                       inp.v[1][3], inp.v[2][3], inp.v[3][3] >>
                               ELSE << inp.v[1][1], inp.v[1][2], inp.v[1][3], inp.v[2][1], inp.v[2][2], inp.v[2][3],
                                       inp.v[3][1], inp.v[3][2], inp.v[3][3] >>

\* the stored tuple t represents the tensor the input denotes
Represents(t, inp) == Len(t) = 9 /\ \A i \in Axes, j \in Axes : t[3 * (i - 1) + j] = Entry(inp, i, j)

\* ---------- classification
\* stated on the tensor (property side) ...
TensorIsDiagonal(inp) == \A i \in Axes, j \in Axes : i # j => Entry(inp, i, j) = 0
TensorIsIsotropic(inp) == TensorIsDiagonal(inp) /\ \A i \in Axes : Entry(inp, i, i) = Entry(inp, 1, 1)
\* ... and on the stored tuple, the way the code looks at it (_is_property_isotropic / _diagonally_anisotropic)
OffDiag == { 2, 3, 4, 6, 7, 8 }
TupleIsDiagonal(t) == \A k \in OffDiag : t[k] = 0
TupleIsIsotropic(t) == t[1] = t[5] /\ t[5] = t[9] /\ TupleIsDiagonal(t)
Identity9(one) == << one, 0, 0, 0, one, 0, 0, 0, one >>
Zero9 == << 0, 0, 0, 0, 0, 0, 0, 0, 0 >>

\* a material: the four stored tuples
AllIsotropic(m) == \A k \in 1..4 : TupleIsIsotropic(m[Props[k]])
AllDiagonal(m)  == \A k \in 1..4 : TupleIsDiagonal(m[Props[k]])

\* ---------- the canonical material order (compute_ordered_material_name_tuples)
\* d is the dictionary in insertion order: a sequence of [name, m]; the order is ascending in the key
\* (eps_xx, mu_xx, se_xx, sm_xx), ties keep insertion order (Python's sort is stable)
Key(m) == << m.eps[1], m.mu[1], m.se[1], m.sm[1] >>
RECURSIVE LexLess(_, _)
LexLess(a, b) == IF a = << >> THEN FALSE
                 ELSE IF Head(a) # Head(b) THEN Head(a) < Head(b) ELSE LexLess(Tail(a), Tail(b))
\* position (1-based) of dictionary entry i in the sorted order, by key function K
RankBy(d, i, K(_)) == 1 + Cardinality({ j \in 1..Len(d) : LexLess(K(d[j].m), K(d[i].m)) \/ (K(d[j].m) = K(d[i].m) /\ j < i) })
\* Tabulate(f, n) == << f[1], ..., f[n] >>: an explicit sequence.  TLC keeps [x \in S |-> e] as an unevaluated closure
\* and re-evaluates e at EVERY application, so a function that is indexed many times is tabulated once.
RECURSIVE Tabulate(_, _)
Tabulate(f, n) == IF n = 0 THEN << >> ELSE Append(Tabulate(f, n - 1), f[n])
OrderBy(d, K(_)) == Tabulate([ r \in 1..Len(d) |-> CHOOSE i \in 1..Len(d) : RankBy(d, i, K) = r ], Len(d))     \* rank -> dict index
Order(d) == OrderBy(d, Key)

\* projections of a stored tuple for the three list modes
Proj(t, mode) == CASE mode = "iso" -> << t[1] >> [] mode = "diag" -> << t[1], t[5], t[9] >> [] OTHER -> t
Modes == << "iso", "diag", "full" >>

\* the list the code returns for property p in mode md, when materials are taken in order ord (rank -> dict index)
ListAlong(d, ord, p, md) == [ r \in 1..Len(d) |-> Proj(d[ord[r]].m[p], md) ]
NamesAlong(d, ord) == [ r \in 1..Len(d) |-> d[ord[r]].name ]

IsPermutation(ord, n) == DOMAIN ord = 1..n /\ { ord[r] : r \in 1..n } = 1..n
NonDecreasing(d, ord) == \A r \in 1..(Len(d) - 1) : ~LexLess(Key(d[ord[r + 1]].m), Key(d[ord[r]].m))
=======================================================================
