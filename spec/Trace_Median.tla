------------------------- MODULE Trace_Median -------------------------
(* Validates calls of the REAL fdtdx.BinaryMedianFilterModule.__call__ (binary_median_filter + advanced_padding)
   against Median.tla / MedianDefs.tla.  One record = one call:
     shape, inp            binary input array (row-major flat list of 0/1)
     ks                    kernel sizes (odd)
     widths, modes, values padding configuration exactly as passed to PaddingConfig (1 or 6 entries; values may be empty = None)
     repeats               num_repeats of the module
     err, oshape, out, dev returned array (rounded to integers, rounding deviation in ppb)
   TLC evaluates the property: every output voxel is the majority value of its odd box neighbourhood under the
   configured padding (MedianDefs!Majority, closed-form padding rule), applied `repeats` times.            *)
EXTENDS Integers, Sequences, FiniteSets, TLC, TLCExt, Json, IOUtils

D == INSTANCE MedianDefs

Cases == JsonDeserialize(IOEnv.TRACE_FILE)

VARIABLES ci
tvars == << ci >>

CfgOf(c) == D!ExpandCfg([ widths |-> c.widths, modes |-> c.modes, values |-> c.values ])

WellFormed(c) ==
    /\ Len(c.shape) = 3 /\ D!IsShape(c.shape) /\ Len(c.inp) = D!Size(c.shape)
    /\ \A i \in 1..Len(c.inp) : c.inp[i] \in {0, 1}
    /\ D!OddKernel(c.ks) /\ c.repeats \in 1..3
    /\ Len(c.widths) \in {1, 6} /\ Len(c.modes) \in {1, 6} /\ Len(c.values) \in {0, 1, 6}
    /\ D!ValidCfg(CfgOf(c), c.shape) /\ D!Sufficient(CfgOf(c), c.ks)
    /\ c.err = "" /\ c.oshape = c.shape => Len(c.out) = Len(c.inp)

Verdict(c) ==
    IF ~WellFormed(c) THEN "malformed: record"
    ELSE IF c.err # "" THEN "call: filter raised"
    ELSE IF c.oshape # c.shape THEN "majority: output shape differs from input shape"
    ELSE IF c.dev # 0 THEN "majority: output is not binary/integer"
    ELSE LET expect == D!MedianTimes(D!FromFlat(c.shape, c.inp), c.shape, CfgOf(c), c.ks, c.repeats)
         IN  IF D!FromFlat(c.shape, c.out) = expect THEN "ok"
             ELSE "majority: a voxel is not the majority value of its box neighbourhood under the configured padding"

TInit == ci = 1 /\ TLCSet(1, << >>)
TNext == /\ ci <= Len(Cases)
         /\ TLCSet(1, Append(TLCGet(1), [ id |-> Cases[ci].id, v |-> Verdict(Cases[ci]) ]))
         /\ ci' = ci + 1
TSpec == TInit /\ [][TNext]_tvars

Post == ndJsonSerialize(IOEnv.VERDICT_FILE, TLCGet(1))
=======================================================================
