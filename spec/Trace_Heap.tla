-------------------------- MODULE Trace_Heap --------------------------
(* Validates calls of the REAL TreeClass.aset (fdtdx/core/jax/pytrees.py on /repo/src) against the clauses of
   Heap.tla.  A case is a sequence of calls on real Python objects; for every call the harness sends two
   snapshots of the Python object graph, one taken immediately before and one immediately after the call,
   as heaps in the format of HeapDefs.tla (node id = position; the numbering is the same in both snapshots
   and comes from Python's id(): same Python object <=> same node id):
       h0 : everything reachable from the roots the caller holds, and from the value to be written
       h1 : the same roots again, plus everything reachable from the object aset returned
   TLC evaluates on them, with the definitions shared with Heap.tla,
       SameType         kind and type tag of the result and of every copied holder on the path are kept
       OrigUnchanged    every node reachable from the receiver before the call has the same contents after it
       OnlyPathChanged  Val(result) = Subst(Val(receiver), path, Val(value))
   Calls with create_new_ok=True whose last step is a dict key / attribute that does not exist yet are part of the claim
   (Subst adds the slot; the ORIGINAL must not gain it: dict key sets are part of every node's contents).
   and keeps the set of held roots as spec state (a later call may be made on an earlier result, and every
   earlier result must stay unchanged as well).  Verdicts are total: first failing clause per case.        *)
EXTENDS Integers, Sequences, FiniteSets, TLC, TLCExt, Json, IOUtils

H == INSTANCE HeapDefs

Cases == JsonDeserialize(IOEnv.TRACE_FILE)

VARIABLES ci,      \* case index
          l,       \* next event (call) of the case
          held,    \* ids of the roots the caller holds: the initial object and every result so far
          bad      \* first failing clause of the case
tvars == << ci, l, held, bad >>

C == Cases[ci]
Note(cl) == IF bad = "" THEN cl ELSE bad

Kinds == {"obj", "list", "dict", "tuple", "leaf", "free"}
HeapOK(h, n) == /\ Len(h) = n
                /\ \A k \in 1..n : /\ h[k].kind \in Kinds
                                   /\ \A j \in 1..Len(h[k].kids) : h[k].kids[j][2] \in 1..n /\ h[k].kids[j][2] # k

\* the harness's record is usable: both snapshots cover the same ids, receiver/value/path make sense in h0
Malformed(c, e) ==
    IF ~(HeapOK(e.h0, c.n) /\ HeapOK(e.h1, c.n)) THEN "malformed: heap snapshot"
    ELSE IF ~(e.old \in held /\ e.v \in 1..c.n) THEN "malformed: receiver is not a held root"
    ELSE IF ~H!Allocated(e.h0, H!Reach(e.h0, e.old) \cup H!Reach(e.h0, e.v)) THEN "malformed: dangling node in before-snapshot"
    ELSE IF ~e.invalid /\ ~(IF e.create_new THEN H!ValidPathNew(e.h0, e.old, e.path) ELSE H!ValidPath(e.h0, e.old, e.path))
         THEN "malformed: path does not address a slot of the receiver"
    ELSE IF e.invalid /\ (IF e.create_new THEN H!ValidPathNew(e.h0, e.old, e.path) ELSE H!ValidPath(e.h0, e.old, e.path))
         THEN "malformed: path announced as invalid addresses a slot"
    ELSE IF ~e.raised /\ ~(e.new \in 1..c.n /\ H!Allocated(e.h1, H!Reach(e.h1, e.new))) THEN "malformed: result not in after-snapshot"
    ELSE ""

CallVerdict(c, e) ==
    LET m == Malformed(c, e) IN
    IF m # "" THEN m
    \* a path THROUGH a slot that does not exist (or to a missing slot without create_new_ok) is an error of the caller:
    \* aset may raise, but "leaves the original object unchanged" still holds (a failed lookup must not insert anything)
    ELSE IF e.invalid THEN
            IF ~H!OrigUnchanged(e.h0, e.h1, e.old) THEN "original: the receiver's object graph was modified"
            ELSE IF ~(\A r \in held : H!OrigUnchanged(e.h0, e.h1, r)) THEN "held: an earlier result was modified"
            ELSE IF ~e.raised THEN "model: aset accepted a path through a slot that does not exist"
            ELSE ""
    ELSE IF e.raised THEN "returned: aset raised on a path that addresses a slot (existing, or creatable with create_new_ok)"
    ELSE IF ~H!SameType(e.h0, e.h1, e.old, e.new, e.path) THEN "same type: a copied node changed kind or type tag"
    ELSE IF ~H!OrigUnchanged(e.h0, e.h1, e.old) THEN "original: the receiver's object graph was modified"
    ELSE IF ~H!OnlyPathChanged(e.h0, e.h1, e.old, e.new, e.path, e.v) THEN "only path: result is not receiver[path := value]"
    ELSE IF e.new \in H!Reach(e.h0, e.old) THEN "fresh: result is (part of) the receiver itself"
    ELSE IF ~(\A r \in held : H!OrigUnchanged(e.h0, e.h1, r)) THEN "held: an earlier result was modified"
    ELSE IF ~H!OrigUnchanged(e.h0, e.h1, e.v) THEN "value: the value handed in was modified"
    ELSE ""

TInit == /\ ci = 1 /\ l = 1 /\ bad = ""
         /\ held = IF Len(Cases) >= 1 THEN { Cases[1].root0 } ELSE {}
         /\ TLCSet(1, << >>)

Call ==
    LET e == C.events[l] IN
    \E v \in { CallVerdict(C, e) } :      \* bound once (TLC would re-evaluate a LET definition at every use)
        /\ bad' = IF v = "" THEN bad ELSE Note(v)
        /\ held' = IF e.raised \/ v # "" THEN held ELSE held \cup { e.new }
        /\ l' = l + 1 /\ ci' = ci

NextCase ==
    /\ TLCSet(1, Append(TLCGet(1), [ id |-> C.id, v |-> IF bad = "" THEN "ok" ELSE bad ]))
    /\ ci' = ci + 1 /\ l' = 1 /\ bad' = ""
    /\ held' = IF ci + 1 <= Len(Cases) THEN { Cases[ci + 1].root0 } ELSE {}

TNext == /\ ci <= Len(Cases)
         /\ IF l > Len(C.events) THEN NextCase ELSE Call
TSpec == TInit /\ [][TNext]_tvars

Post == ndJsonSerialize(IOEnv.VERDICT_FILE, TLCGet(1))
=======================================================================
