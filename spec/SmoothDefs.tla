--------------------------- MODULE SmoothDefs ---------------------------
(* Pure definitions for GaussianSmoothing2D (continuous.py: _apply_smoothing), shared by Smooth.tla and
   Trace_Smooth.tla.

   A design x is an nx-by-ny array (sequence of rows).  The transform pads it by w = 3*std cells on every
   side and convolves with a (2w+1)x(2w+1) kernel.  The Gaussian weights need exp(); they enter as an
   abstract table K of non-negative integers with common denominator KSum(K) (so K/KSum sums to one) whose
   required facts - non-negative, unit sum, mirror symmetric - are stated here and asserted on the table
   read from the implementation.  Everything is exact integer arithmetic on numerators:
        Smooth(x)[i][j] = Num(x)[i][j] / KSum(K).

   Padding (pads = [l0, h0, l1, h1], an empty sequence = not given):
     rows    before / after axis 0: l0 / h0 (length ny) repeated w times, else the first / last row of x
     columns before / after axis 1: l1 / h1 (length nx), extended into the corner rows by their first / last
             entry, repeated w times; else the first / last column of the row-padded array.            *)
EXTENDS Integers, Sequences, FiniteSets, TLC

NX(x) == Len(x)
NY(x) == Len(x[1])

\* row-padded array, r in 1..nx+2w, j in 1..ny
RowPadded(x, pads, w, r, j, mode) ==
    IF r <= w THEN (IF Len(pads.l0) > 0 THEN pads.l0[j] ELSE IF mode = "edge" THEN x[1][j] ELSE 0)
    ELSE IF r > w + NX(x) THEN (IF Len(pads.h0) > 0 THEN pads.h0[j] ELSE IF mode = "edge" THEN x[NX(x)][j] ELSE 0)
    ELSE x[r - w][j]
\* a column padding vector (length nx) extended to the nx+2w rows of the row-padded array
Extended(v, nx, w, r) == IF r <= w THEN v[1] ELSE IF r > w + nx THEN v[nx] ELSE v[r - w]
\* fully padded array, r in 1..nx+2w, c in 1..ny+2w.   mode "edge" is the code; "zero" a negative instance
Padded(x, pads, w, r, c, mode) ==
    IF c <= w THEN (IF Len(pads.l1) > 0 THEN Extended(pads.l1, NX(x), w, r)
                    ELSE IF mode = "edge" THEN RowPadded(x, pads, w, r, 1, mode) ELSE 0)
    ELSE IF c > w + NY(x) THEN (IF Len(pads.h1) > 0 THEN Extended(pads.h1, NX(x), w, r)
                                ELSE IF mode = "edge" THEN RowPadded(x, pads, w, r, NY(x), mode) ELSE 0)
    ELSE RowPadded(x, pads, w, r, c - w, mode)

\* sum of f[lo..hi], by halving (recursion depth log n: the 19x19 kernel of std 3 has 361 entries)
RECURSIVE SumRange(_, _, _)
SumRange(f, lo, hi) == IF lo > hi THEN 0 ELSE IF lo = hi THEN f[lo]
                       ELSE LET mid == (lo + hi) \div 2 IN SumRange(f, lo, mid) + SumRange(f, mid + 1, hi)
SumTo(f, n) == SumRange(f, 1, n)
\* kernel table K: sequence of 2w+1 rows of 2w+1 non-negative integers
KW(K)   == (Len(K) - 1) \div 2
KSum(K) == SumTo([ t \in 1..(Len(K) * Len(K)) |-> K[((t - 1) \div Len(K)) + 1][((t - 1) % Len(K)) + 1] ], Len(K) * Len(K))
KNonNeg(K)    == \A a \in 1..Len(K) : \A b \in 1..Len(K) : K[a][b] >= 0
KSymmetric(K) == \A a \in 1..Len(K) : \A b \in 1..Len(K) :
                     K[a][b] = K[Len(K) + 1 - a][b] /\ K[a][b] = K[a][Len(K) + 1 - b]

\* numerator of the smoothed value at (i, j): "same" convolution of the padded array, cropped back
NumAt(x, pads, K, i, j, mode) ==
    LET w == KW(K)
        n == Len(K)
    IN  SumTo([ t \in 1..(n * n) |->
                  LET a == ((t - 1) \div n) - w      \* kernel offsets -w..w
                      b == ((t - 1) % n) - w
                  IN  K[a + w + 1][b + w + 1] * Padded(x, pads, w, i + w - a, j + w - b, mode) ], n * n)
Num(x, pads, K, mode) == [ i \in 1..NX(x) |-> [ j \in 1..NY(x) |-> NumAt(x, pads, K, i, j, mode) ] ]

\* ---------- helpers for the property statements ----------
Values(x)   == { x[i][j] : i \in 1..NX(x), j \in 1..NY(x) }
SeqVals(s)  == { s[k] : k \in 1..Len(s) }
AllValues(x, pads) == Values(x) \cup SeqVals(pads.l0) \cup SeqVals(pads.h0) \cup SeqVals(pads.l1) \cup SeqVals(pads.h1)
MinOf(S) == CHOOSE m \in S : \A k \in S : m <= k
MaxOf(S) == CHOOSE m \in S : \A k \in S : k <= m
Rev(s)   == [ k \in 1..Len(s) |-> s[Len(s) + 1 - k] ]
\* mirror of an array / of a padding set along axis 0 (rows) or axis 1 (columns)
MirrorArr(x, axis) == IF axis = 0 THEN Rev(x) ELSE [ i \in 1..Len(x) |-> Rev(x[i]) ]
MirrorPads(p, axis) == IF axis = 0 THEN [ l0 |-> p.h0, h0 |-> p.l0, l1 |-> Rev(p.l1), h1 |-> Rev(p.h1) ]
                       ELSE [ l0 |-> Rev(p.l0), h0 |-> Rev(p.h0), l1 |-> p.h1, h1 |-> p.l1 ]
ConstArr(c, nx, ny) == [ i \in 1..nx |-> [ j \in 1..ny |-> c ] ]
\* a*x + b*y, entrywise
Comb(a, x, b, y) == [ i \in 1..NX(x) |-> [ j \in 1..NY(x) |-> a * x[i][j] + b * y[i][j] ] ]
Abs(v) == IF v < 0 THEN 0 - v ELSE v
\* two arrays agree entrywise within tol
Near(u, v, tol) == \A i \in 1..Len(u) : \A j \in 1..Len(u[i]) : Abs(u[i][j] - v[i][j]) <= tol
=======================================================================
