---------------------------- MODULE SymPlace ----------------------------
(* C34 - symmetric placement keeps the upper half and clips objects consistently.

   place_objects with config.symmetry (fdtd/initialization.py steps 4-8, fdtd/symmetry.py) as a machine:
     ReduceVolume  == first loop of reduce_resolved_slices: validate every symmetric axis (odd or < 2
                      cells => error), fix the plane index and the reduced volume
     ClipObject    == object loop: clip to the kept half per axis, remember the unclipped slice shifted
                      by the plane index, drop the object if some symmetric axis clips to nothing
     MakeWalls     == make_symmetry_walls: one PEC wall per ELECTRIC plane on the reduced min edge
   Inputs (volume size, symmetry tuple, object box) are chosen at Init, exhaustively inside the bounds.

   Properties = the statement of C34, in its own (cell-set) words, see the invariants below.       *)
EXTENDS SymPlaceDefs

CONSTANTS MaxN,      \* the x axis has 1..MaxN cells (all sizes, all intervals)
          SmallNs,   \* sizes of the y and z axes
          Variant    \* "code" or a wrong variant (negative instance)

\* one axis of a scene: << cells, symmetry kind, object interval >>
AxisCfgs(Ns) == UNION { { << n, k, iv >> : k \in {-1, 0, 1}, iv \in Intervals(n) } : n \in Ns }

VARIABLES scene,                  \* input, fixed at Init: << x, y, z >> axis configurations
          pc,                     \* "volume" | "object" | "walls" | "done" | "error"
          vol,                    \* reduced volume slices
          clip, unc, dropped,     \* object: clipped slices, unclipped-shifted slices, dropped flag
          walls                   \* set of [axis, slice]
vars == << scene, pc, vol, clip, unc, dropped, walls >>
dims == [ a \in 1..3 |-> scene[a][1] ]
sym  == [ a \in 1..3 |-> scene[a][2] ]
obox == [ a \in 1..3 |-> scene[a][3] ]

Init == /\ scene \in AxisCfgs(1..MaxN) \X AxisCfgs(SmallNs) \X AxisCfgs(SmallNs)
        /\ pc = "volume"
        /\ vol = << >> /\ clip = << >> /\ unc = << >> /\ dropped = FALSE /\ walls = {}

ReduceVolume ==
    /\ pc = "volume"
    /\ IF \E a \in 1..3 : ~AxisOK(dims[a], sym[a])
       THEN pc' = "error" /\ vol' = vol
       ELSE pc' = "object" /\ vol' = [ a \in 1..3 |-> RedVol(dims[a], sym[a]) ]
    /\ UNCHANGED << scene, clip, unc, dropped, walls >>

ClipObject ==
    /\ pc = "object"
    /\ dropped' = \E a \in 1..3 : DropAxis(obox[a], dims[a], sym[a], Variant)
    /\ clip' = [ a \in 1..3 |-> ClipIv(obox[a], dims[a], sym[a], Variant) ]
    /\ unc'  = [ a \in 1..3 |-> UnclippedIv(obox[a], dims[a], sym[a]) ]
    /\ pc' = "walls"
    /\ UNCHANGED << scene, vol, walls >>

MakeWalls ==
    /\ pc = "walls"
    /\ walls' = { [ axis |-> a, slice |-> WallSlice(a, [ b \in 1..3 |-> vol[b][2] - vol[b][1] ]) ] : a \in WallAxes(sym, Variant) }
    /\ pc' = "done"
    /\ UNCHANGED << scene, vol, clip, unc, dropped >>

Next == ReduceVolume \/ ClipObject \/ MakeWalls
Spec == Init /\ [][Next]_vars

\* ---------- properties (C34, clause by clause) ----------
Done == pc = "done"
\* "requires an even cell count on each symmetric axis"
EvenRequired == /\ pc = "error" => \E a \in 1..3 : sym[a] # 0 /\ (dims[a] % 2 = 1 \/ dims[a] < 2)
                /\ pc \in {"object", "walls", "done"} => \A a \in 1..3 : sym[a] # 0 => dims[a] % 2 = 0 /\ dims[a] >= 2
\* "keeps the upper half of the volume"
UpperHalfKept == pc \in {"object", "walls", "done"} =>
                   \A a \in 1..3 : /\ CellsOf(vol[a]) = { c - Plane(dims[a], sym[a]) : c \in KeptCells(dims[a], sym[a]) }
                                   /\ sym[a] # 0 => 2 * Cardinality(CellsOf(vol[a])) = dims[a]
\* "clips every object to that half (dropping those entirely in the lower half)"
ClippedToHalf == Done => /\ dropped <=> \E a \in 1..3 : InLowerHalf(obox[a], dims[a], sym[a])
                         /\ ~dropped => \A a \in 1..3 : /\ clip[a][1] < clip[a][2]
                                                        /\ CellsOf(clip[a]) = ClippedCells(obox[a], dims[a], sym[a])
                                                        /\ CellsOf(clip[a]) \subseteq CellsOf(vol[a])
\* "records each surviving object's unclipped extent shifted by the plane index"
UnclippedShifted == Done /\ ~dropped =>
                      \A a \in 1..3 : /\ CellsOf(unc[a]) = ShiftedCells(obox[a], dims[a], sym[a])
                                      /\ CellsOf(clip[a]) = CellsOf(unc[a]) \cap CellsOf(vol[a])      \* clipped = unclipped restricted to the kept half
                                      /\ (unc[a][1] < 0) <=> (sym[a] # 0 /\ obox[a][1] < dims[a] \div 2)   \* straddles <=> negative start
\* "adds a PEC wall only on electric planes", on the plane (reduced min edge), spanning the reduced volume
WallsOnElectricPlanes ==
    Done => /\ { w.axis : w \in walls } = { a \in 1..3 : sym[a] = -1 }
            /\ \A w \in walls : \A b \in 1..3 : w.slice[b] = IF b = w.axis THEN << 0, 1 >> ELSE vol[b]
TypeOK == pc \in {"volume", "object", "walls", "done", "error"}
=========================================================================
