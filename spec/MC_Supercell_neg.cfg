SPECIFICATION Spec
CONSTANTS
  Pairs <- PairsN
  MaxT = 2
  Variant = "swap_ghost"
  Dense = TRUE
  Basis = "origin"
  Singles = "none"
INVARIANT TypeOK
INVARIANT TileInv
CHECK_DEADLOCK FALSE
