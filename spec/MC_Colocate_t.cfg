SPECIFICATION Spec
CONSTANTS NX = 4  NY = 3  NZ = 3  Variant = "doc"  HaloMode = "all"  NumFields = 1  NumWidths = 2  DetMode = "all"  Parts = 1
INVARIANT TypeOK
INVARIANT RecordIsFormula
INVARIANT PathsAgree
INVARIANT BlockInDomain
PROPERTY HprevIsOldH
CHECK_DEADLOCK FALSE
