SPECIFICATION Spec
CONSTANTS Mode = "reverse"  Variant = "ok"  Family = "list"  List = { 1050107, 2110109 }  Steps = 3  PairMod = 1
          Extra = { 1103, 1011 }
INVARIANT TypeOK
INVARIANT WallsHold
INVARIANT ReverseExact
CHECK_DEADLOCK FALSE
