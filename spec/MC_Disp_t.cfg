SPECIFICATION Spec
CONSTANTS Variant = "ok"  Slots = 3  Guard = "or"  Pairs = TRUE
  Ws <- TW  Gs <- TG  Des <- TDe  Wps <- TWp  CpA <- TA  CpOm <- TOm  CpGa <- TGa  CpPh <- TPh  Xs <- TX
INVARIANT TypeOK
INVARIANT AcceptsWithinLimit
INVARIANT AcceptedJury
INVARIANT RejectsBeyond
INVARIANT JuryOK
INVARIANT RootsOK
INVARIANT StrictWhenDamped
INVARIANT NoC4
INVARIANT RoundTrip
INVARIANT ChiMatches
INVARIANT UnifiedIsDeclared
INVARIANT PadZero
INVARIANT NyquistLoad
CHECK_DEADLOCK FALSE
