SPECIFICATION Spec
CONSTANTS
  ShapeSet <- ShapesNeg
  KernelSet <- KernelsNeg
  CfgSet <- CfgsNeg
  Variant = "no_offset"
INVARIANT TypeOK
INVARIANT PadAgrees
INVARIANT MajorityOK
CHECK_DEADLOCK FALSE
