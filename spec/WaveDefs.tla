--------------------------- MODULE WaveDefs ---------------------------
(* Pure definitions for wave descriptions (fdtdx/core/wavelength.py: WaveCharacter) and temporal profiles
   (fdtdx/objects/sources/profile.py, fdtdx/core/window.py), shared by Wave.tla and Trace_Wave.tla.      *)
EXTENDS Integers, Sequences, FiniteSets, TLC

C0 == 299792458                     \* speed of light in m/s: an integer, so everything below stays rational

\* ---------- exact rationals << num, den >>, den > 0 (compared by cross-multiplication, never reduced) ----------
RMul(a, b) == << a[1] * b[1], a[2] * b[2] >>
RInv(a)    == << a[2], a[1] >>
REq(a, b)  == a[1] * b[2] = b[1] * a[2]
One == << 1, 1 >>

\* ---------- WaveCharacter: exactly one of period / frequency / wavelength is given (value x) ----------
\* the three getters, branch by branch as in the code.  Variant "design" is the code; "c_times_f" (wavelength from
\* frequency computed as c * f instead of c / f) is a deliberately wrong variant for the negative instance.
GetPeriod(given, x, variant) ==
    CASE given = "period"     -> x
      [] given = "wavelength" -> RMul(x, << 1, C0 >>)
      [] given = "frequency"  -> RInv(x)
GetFrequency(given, x, variant) ==
    CASE given = "frequency"  -> x
      [] given = "period"     -> RInv(x)
      [] given = "wavelength" -> RMul(<< C0, 1 >>, RInv(x))
GetWavelength(given, x, variant) ==
    CASE given = "wavelength" -> x
      [] given = "period"     -> RMul(x, << C0, 1 >>)
      [] given = "frequency"  -> IF variant = "c_times_f" THEN RMul(<< C0, 1 >>, x) ELSE RMul(<< C0, 1 >>, RInv(x))
\* the property: period * frequency = 1 and wavelength = c * period, whichever was given; the given one comes back
WaveConsistent(P, F, L) == REq(RMul(P, F), One) /\ REq(L, RMul(<< C0, 1 >>, P))
Echo(given, x, P, F, L) == CASE given = "period" -> P = x [] given = "frequency" -> F = x [] given = "wavelength" -> L = x

\* ---------- binary floating-point numbers as << m, e >> = m * 2^e (what the harness sends for exact cases) ----------
RECURSIVE DyNorm(_)
DyNorm(d) == IF d[1] # 0 /\ d[1] % 2 = 0 THEN DyNorm(<< d[1] \div 2, d[2] + 1 >>) ELSE IF d[1] = 0 THEN << 0, 0 >> ELSE d
DyMul(a, b) == DyNorm(<< a[1] * b[1], a[2] + b[2] >>)
DyEq(a, b)  == DyNorm(a) = DyNorm(b)
DyOne == << 1, 0 >>
DyC0  == << C0, 0 >>

\* ---------- sampled custom signal (CustomTimeSignalProfile, linear interpolation) ----------
\* time is measured on a grid of Sub points per sample interval: grid index j  <=>  t = start + (j / Sub) * dt.
\* y is the sample sequence (1-based: y[i+1] is sample i).  The value is the exact pair << num, Sub >>.
SampleIdx(j, Sub) == j \div Sub
Frac(j, Sub)      == j % Sub
InWindow(y, j, Sub) == j >= 0 /\ SampleIdx(j, Sub) < Len(y)
\* Variant "linear" is the design; "swapped" (weights exchanged), "hold" (no interpolation) and "truncated" (the result is
\* cast back to an integer sample type: exact at sample times, rounded toward zero in between) are wrong variants.
TruncDiv(x, m) == IF x >= 0 THEN x \div m ELSE -((-x) \div m)
Amp(y, j, Sub, outside, variant) ==
    IF ~InWindow(y, j, Sub) THEN << outside * Sub, Sub >>
    ELSE LET i  == SampleIdx(j, Sub)
             r  == Frac(j, Sub)
             y0 == y[i + 1]
             y1 == y[IF i + 2 <= Len(y) THEN i + 2 ELSE Len(y)]      \* the code clips the upper neighbour to the last sample
         IN  CASE variant = "swapped" -> << r * y0 + (Sub - r) * y1, Sub >>
               [] variant = "hold"    -> << Sub * y0, Sub >>
               [] variant = "truncated" -> << Sub * TruncDiv((Sub - r) * y0 + r * y1, Sub), Sub >>
               [] OTHER               -> << (Sub - r) * y0 + r * y1, Sub >>
\* the property, stated on the samples alone
AtSampleTimes(y, j, Sub, v) == (InWindow(y, j, Sub) /\ Frac(j, Sub) = 0) => REq(v, << y[SampleIdx(j, Sub) + 1], 1 >>)
LinearBetween(y, j, Sub, v) ==
    (j >= 0 /\ SampleIdx(j, Sub) + 2 <= Len(y)) =>
        LET i == SampleIdx(j, Sub)  r == Frac(j, Sub)
        IN  v[1] * Sub = ((Sub - r) * y[i + 1] + r * y[i + 2]) * v[2]       \* on the chord from sample i to sample i+1

\* ---------- envelope monitors on logged tables (scaled integers), used by the trace spec ----------
NonDecreasing(s) == \A k \in 1..(Len(s) - 1) : s[k] <= s[k + 1]
Abs(x) == IF x < 0 THEN -x ELSE x
AllWithin(s, bound) == \A k \in 1..Len(s) : Abs(s[k]) <= bound
=======================================================================
