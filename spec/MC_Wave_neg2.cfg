SPECIFICATION Spec
CONSTANTS Nums = {1, 2}  MaxLen = 2  Vals <- ValsC  Sub = 4  WaveVariant = "c_times_f"  AmpVariant = "linear"  RampVariant = "clamped"
INVARIANT TypeOK
INVARIANT WaveOK
INVARIANT AtSamples
INVARIANT Linear
INVARIANT OutsideWindow
INVARIANT HoldLast
INVARIANT Between
INVARIANT CwBounded
INVARIANT CwReaches
PROPERTY CwRampUp
CHECK_DEADLOCK FALSE
