----------------------------- MODULE Supercell -----------------------------
(* C09: a periodic / Bloch domain of N cells evolves like its m*N-cell supercell.

   Product specification: two copies of the lattice update of SupercellDefs run in lock step,
     small :  N cells,    boundary phase phi       (phi[a] = exp(i k_a L_a),  L_a = N[a] cells)
     big   :  m*N cells,  boundary phase phi^m,    materials = the N-cell ones tiled,
              initial fields = the N-cell ones tiled with phase phi^j on copy j.
   One action per code-level half step (fdtd/update.py):
     UpdE == update_E on both copies (pad H with wrap + ghost phase, backward curl, E += mat * curl)
     UpdH == update_H on both copies (pad E,                         forward curl,  H -= curl)
   Property (invariant TileInv): big = tile(small) after every half step.

   Variant # "ok" builds a deliberately wrong padding convention into BOTH copies (see SupercellDefs);
   "L_short" computes the boundary phase from one cell too few (L = (n-1) cells): with the per-cell phase
   th (th^N = phi) the applied phases are th^(N-1) and th^(mN-1).  TLC must reject those instances.      *)
EXTENDS SupercellDefs

CONSTANTS Pairs,       \* set of << <<nx, ny, nz>>, <<mx, my, mz>> >> : lattice shape and tiling factors
          MaxT,        \* full steps
          Variant,
          Dense,       \* also run the dense (every entry non-zero, complex) initial state
          Basis,       \* "all": every unit basis state of E and H; "origin": only those at cell (0,0,0);
                       \* "auto": all for lattices of at most 3 cells, origin otherwise
          Singles      \* "all" | "first" | "none": which single-entry material perturbations are enumerated

VARIABLES N, M, phi, th, mat, init, Es, Hs, Eb, Hb, pc, t
vars == << N, M, phi, th, mat, init, Es, Hs, Eb, Hb, pc, t >>

\* an axis with one cell and no tiling carries no information: its phase is fixed to 1
PhaseChoices(n, m) == IF n = 1 /\ m = 1 THEN { One } ELSE Units
\* material families: uniform, checkerboard, one component of one cell doubled
Checker(i, n) == 1 + ((Coord(i, n, 1) + Coord(i, n, 2) + Coord(i, n, 3)) % 2)
Mats(n) == { [ i \in 1..Size(n) |-> 1 ] } \cup { [ i \in 1..Size(n) |-> Checker(i, n) ] }
              \cup { [ i \in 1..Size(n) |-> IF i = k THEN 2 ELSE 1 ] :
                         k \in IF Singles = "all" THEN 1..Size(n) ELSE IF Singles = "first" THEN {1} ELSE {} }
Inits(n) == (IF Dense THEN { << "dense", 0 >> } ELSE {})
            \cup { << f, k >> : f \in {"E", "H"},
                                k \in { k \in 1..Size(n) : \/ Basis = "all" \/ (Basis = "auto" /\ Cells(n) <= 3)
                                                            \/ (k - 1) % Cells(n) = 0 } }
DenseVal(i, n, s) == << 1 + Comp(i, n) + 2 * Coord(i, n, 1) + 3 * Coord(i, n, 2) + Coord(i, n, 3) + s,
                        Coord(i, n, 1) - Comp(i, n) + 2 * s - Coord(i, n, 3) >>
Field0(n, ini, f) ==
    [ i \in 1..Size(n) |-> IF ini[1] = "dense" THEN DenseVal(i, n, IF f = "E" THEN 0 ELSE 1)
                           ELSE IF ini[1] = f /\ ini[2] = i THEN One ELSE << 0, 0 >> ]

\* boundary phases as the implementation computes them
PhSmall == IF Variant = "L_short" THEN << GPow(th[1], N[1] - 1), GPow(th[2], N[2] - 1), GPow(th[3], N[3] - 1) >>
           ELSE phi
PhBig   == IF Variant = "L_short"
           THEN << GPow(th[1], N[1] * M[1] - 1), GPow(th[2], N[2] * M[2] - 1), GPow(th[3], N[3] * M[3] - 1) >>
           ELSE BigPhase(phi, M)
NB == Mul3(N, M)

Init == /\ \E pr \in Pairs : N = pr[1] /\ M = pr[2]
        /\ phi \in { << u1, u2, u3 >> : u1 \in PhaseChoices(N[1], M[1]), u2 \in PhaseChoices(N[2], M[2]),
                                        u3 \in PhaseChoices(N[3], M[3]) }
        /\ th \in IF Variant = "L_short"
                  THEN { w \in Units \X Units \X Units : \A a \in 1..3 : GPow(w[a], N[a]) = phi[a] }
                  ELSE { << One, One, One >> }
        /\ mat \in Mats(N)
        /\ init \in Inits(N)
        /\ Es = Field0(N, init, "E") /\ Hs = Field0(N, init, "H")
        /\ Eb = TileOf(Es, N, M, phi) /\ Hb = TileOf(Hs, N, M, phi)
        /\ pc = "E" /\ t = 0

UpdE == /\ pc = "E" /\ t < MaxT
        /\ Es' = StepE(Es, Hs, mat, N, PhSmall, Variant)
        /\ Eb' = StepE(Eb, Hb, MatTile(mat, N, M), NB, PhBig, Variant)
        /\ pc' = "H"
        /\ UNCHANGED << N, M, phi, th, mat, init, Hs, Hb, t >>
UpdH == /\ pc = "H"
        /\ Hs' = StepH(Es, Hs, N, PhSmall, Variant)
        /\ Hb' = StepH(Eb, Hb, NB, PhBig, Variant)
        /\ pc' = "E" /\ t' = t + 1
        /\ UNCHANGED << N, M, phi, th, mat, init, Es, Eb >>
Next == UpdE \/ UpdH
Spec == Init /\ [][Next]_vars

\* ---------- properties ----------
TypeOK == /\ pc \in {"E", "H"} /\ t \in 0..MaxT
          /\ Len(Es) = Size(N) /\ Len(Eb) = Size(NB) /\ Len(Hs) = Size(N) /\ Len(Hb) = Size(NB)
\* C09
TileInv == TileRel(Eb, Es, N, M, phi) /\ TileRel(Hb, Hs, N, M, phi)
\* the big domain is itself Bloch-periodic with the small period (a consequence, stated separately)
BigIsQuasiPeriodic ==
    \A I \in 1..Size(NB) : \A a \in 1..3 :
        (Coord(I, NB, a) + N[a] < NB[a]) => Eb[I + N[a] * Stride(NB, a)] = GMul(phi[a], Eb[I])
\* anti-vacuity helper (must be violated): the fields do change
Frozen == Es = Field0(N, init, "E") /\ Hs = Field0(N, init, "H")

\* ---------- bounded instances (a .cfg cannot hold tuples: the cfgs substitute these) ----------
Cross(S, T) == { << n, m >> : n \in S, m \in T }
OneD   == Cross({ <<2,1,1>>, <<3,1,1>> }, { <<2,1,1>>, <<3,1,1>> })
PairsQ == OneD \cup { << <<2,2,1>>, <<2,2,1>> >> }
PairsT == Cross({ <<2,1,1>>, <<3,1,1>>, <<1,2,1>>, <<1,1,3>> }, { <<2,1,1>>, <<3,1,1>>, <<1,2,1>>, <<1,1,2>>, <<1,1,3>> })
          \cup Cross({ <<2,2,1>>, <<3,2,1>>, <<2,1,3>>, <<1,2,2>> }, { <<2,2,1>>, <<2,1,2>>, <<1,2,2>>, <<3,2,1>> })
          \cup { << <<2,2,2>>, <<2,2,2>> >> }
PairsN == { << <<2,1,1>>, <<2,1,1>> >>, << <<3,1,1>>, <<2,1,1>> >> }
=============================================================================
