SPECIFICATION Spec
CONSTANTS N = 5  MaxThick = 2  InnerPlain = TRUE  RecordOK = FALSE  RestoreFirst = TRUE
INVARIANT InteriorReconstructed
INVARIANT InteriorNonEmpty
CHECK_DEADLOCK FALSE
