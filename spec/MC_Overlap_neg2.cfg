SPECIFICATION Spec
CONSTANTS N = 7  SnapWhen = "before_devices"  NCalls = 2  Rule = "share_cell"  Scene = "pairq"
INVARIANT TypeOK
INVARIANT StateIsFresh
INVARIANT AllValid
INVARIANT AppliedOnce
INVARIANT HistoryComplete
PROPERTY NoApplyDuringParams
CHECK_DEADLOCK FALSE
