------------------------ MODULE Trace_FloodFill ------------------------
(* Validates what the REAL transforms RemoveFloatingMaterial / ConnectHolesAndStructures (discrete.py,
   binary_transform.py on /repo/src) returned, against the definitions of FloodFillDefs.tla, which are the
   ones FloodFill.tla model-checks (terminal state of the flood fill = Reach / AirReach).

   A case is one call:
      kind  "remove" | "connect"
      dm    [X, Y, Z]                      lattice (sides 1..15)
      bg    0 | 1                          index of the background material
      inp   flat C-order array of material indices given to the transform (0 | 1)
      out   flat C-order array of the indices it returned (rounded; dev = deviation from integers, ppb)
   material = cells whose index differs from bg.  The verdict is the property's own predicate:
      remove : material(out) = Keep(material(inp))            (precisely the connected material)
      connect: NoFloating(material(out)) /\ NoEnclosed(material(out))
   For a failing "remove" the verdict also says whether the output is exactly what the code-as-written
   model (max(shape) rounds; Z = 1 padded below) produces, so the known loop-bound defect can be told from
   anything else.  That label never changes ok / not ok.                                              *)
EXTENDS Integers, Sequences, FiniteSets, TLC, TLCExt, Json, IOUtils

D == INSTANCE FloodFillDefs

Cases == JsonDeserialize(IOEnv.TRACE_FILE)
VARIABLES ci

Dm(c) == << c.dm[1], c.dm[2], c.dm[3] >>
WellFormed(c) ==
    /\ c.kind \in {"remove", "connect"} /\ c.bg \in {0, 1}
    /\ Len(c.dm) = 3 /\ \A a \in 1..3 : c.dm[a] \in 1..15
    /\ Len(c.inp) = D!NCells(Dm(c)) /\ Len(c.out) = D!NCells(Dm(c))
    /\ \A i \in 1..Len(c.inp) : c.inp[i] \in {0, 1}

\* the set of material cells of a flat index array
Mat(arr, c) == { x \in D!Cells(Dm(c)) : arr[D!Pos(x, Dm(c))] # c.bg }

RemoveVerdict(c) ==
    LET dm == Dm(c)
        M  == Mat(c.inp, c)
        O  == Mat(c.out, c)
        K  == D!Keep(M, dm)
        label == IF O # D!BoundedReach(M, dm) THEN ""
                 ELSE IF dm[3] = 1 THEN " [= code-as-written model: Z=1 design padded below, seed layer is empty]"
                 ELSE " [= code-as-written model: loop stopped after max(shape) rounds]"
    IN  IF O = K THEN "ok"
        ELSE IF O \ M # {} THEN "remove: background cell turned into material"
        ELSE IF O \ K # {} THEN "remove: floating material kept"
        ELSE "remove: material connected to the bottom layer was removed" \o label

ConnectVerdict(c) ==
    LET dm == Dm(c)
        O  == Mat(c.out, c)
    IN  IF ~D!NoFloating(O, dm) THEN "connect: floating material in output"
        ELSE IF ~D!NoEnclosed(O, dm) THEN "connect: background enclosed away from sides and top in output"
        ELSE "ok"

Verdict(c) ==
    IF ~WellFormed(c) THEN "malformed: record shape"
    ELSE IF c.dev # 0 \/ \E i \in 1..Len(c.out) : c.out[i] \notin {0, 1}
         THEN "output: not an array of the two material indices"
    ELSE IF c.kind = "remove" THEN RemoveVerdict(c) ELSE ConnectVerdict(c)

TInit == ci = 1 /\ TLCSet(1, << >>)
TNext == /\ ci <= Len(Cases)
         /\ LET c == Cases[ci] IN TLCSet(1, Append(TLCGet(1), [ id |-> c.id, v |-> Verdict(c) ]))
         /\ ci' = ci + 1
TSpec == TInit /\ [][TNext]_ci

Post == ndJsonSerialize(IOEnv.VERDICT_FILE, TLCGet(1))
=======================================================================
