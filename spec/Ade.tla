--------------------------------- MODULE Ade ---------------------------------
(* One cell / one field component of fdtdx's dispersive E update (fdtd/update.py, ADE branch of update_E) as a state
   machine in exact rationals.  The cell holds NP pole slots with coefficients (c1,c2,c3,c4) taken from the
   documented map of DispDefs (Coef(Unified(pole))) or all-zero (padded slot / non-dispersive material).

     Step(k):   k = c * curl(H)^{n+1/2} (any value of the drive set)
        Phat_p = c1_p P_p + c2_p Pprev_p + c3_p E                      explicit part of the recurrence
        E'     = ( (1 - s) E + ie*k + ie * sum_p (P_p - Phat_p) ) / (1 + ie * sum_p c4_p + s)
                 with the loss factor  s = c * sigma_E * eta0 * inv_eps / 2  of a conductive cell (Schneider 3.12; 0 = lossless)
        P_p'   = Phat_p + c4_p E' ;  Pprev_p' = P_p
     and, in lock-step, the SAME cell without dispersive arrays:  Eplain' = ((1 - s) Eplain + ie*k) / (1 + s)   (ZeroPoles product)

   Properties (C36, exact part):
     Recurrence   P^{n+1} = c1 P^n + c2 P^{n-1} + c3 E^n + c4 E^{n+1}                      (action property)
     History      P^n = sum_{m<n} h_{n-1-m} (c3 E^m + c4 E^{m+1}),  h_0 = 1, h_1 = c1, h_j = c1 h_{j-1} + c2 h_{j-2}
     Ampere       eps (E^{n+1} - E^n) + eps s (E^{n+1} + E^n) + sum_p (P_p^{n+1} - P_p^n) = k   (action property)
     ZeroPoles    all coefficients zero  =>  P = 0 and E = Eplain at every step, conductive cells (s # 0) included
   Variant # "ok" is a deliberately wrong update (negative instances).                                        *)
EXTENDS DispDefs

CONSTANTS Variant,     \* "ok" | "stale_E" (c3 multiplies E^{n+1}) | "no_shift" (Pprev not advanced)
                       \* | "no_divisor" (the implicit loss divisor 1 + s dropped in the dispersive branch without c4)
          MaxT, Drives, InvEps, CellKinds, Losses

\* pole sets a cell can hold (sequences of declared poles; << >> = no pole in that slot set)
LorA  == [ ptype |-> "lorentz", v |-> << << 1, 1 >>, << 0, 1 >>, << 2, 1 >> >> ]      \* c = (1, -1, 2, 0)
LorB  == [ ptype |-> "lorentz", v |-> << << 1, 1 >>, << 2, 1 >>, << 3, 1 >> >> ]      \* c = (1/2, 0, 3/2, 0)
DruA  == [ ptype |-> "drude",   v |-> << << 1, 1 >>, << 2, 3 >> >> ]                  \* c = (3/2, -1/2, 3/4, 0)
CcpA  == [ ptype |-> "ccpr",    v |-> << << -1, 1 >>, << -1, 1 >>, << 1, 4 >>, << 1, 1 >> >> ]   \* dE/dt coupling: c4 # 0
KindsQ == { << >>, << LorA >>, << DruA >>, << CcpA >> }
KindsT == { << >>, << LorA >>, << LorB >>, << DruA >>, << CcpA >>, << LorA, DruA >>, << LorB, CcpA >> }
DrivesQ == { << -1, 1 >>, << 0, 1 >>, << 1, 2 >> }
DrivesT == { << -1, 1 >>, << 0, 1 >>, << 1, 2 >>, << 3, 1 >> }
IeQ == { << 1, 1 >>, << 1, 2 >> }
LossQ == { << 0, 1 >>, << 1, 3 >> }
LossT == { << 0, 1 >>, << 1, 3 >>, << 2, 1 >> }
NP == 2

VARIABLES kind, ie, s, n, E, Eplain, P, Pprev, Ehist, last
vars == << kind, ie, s, n, E, Eplain, P, Pprev, Ehist, last >>

CoefOf(kd, p) == IF p <= Len(kd) THEN Coef(Unified(kd[p]), "ok") ELSE CZero
RECURSIVE RSum(_, _)
RSum(f, k) == IF k = 0 THEN RZ ELSE RAdd(RSum(f, k - 1), f[k])

Init == /\ kind \in CellKinds /\ ie \in InvEps /\ s \in Losses
        /\ n = 0 /\ E \in { << 1, 1 >>, << -1, 2 >> } /\ Eplain = E
        /\ P = [ p \in 1..NP |-> RZ ] /\ Pprev = [ p \in 1..NP |-> RZ ]
        /\ Ehist = << E >> /\ last = << >>

Step(k) ==
    /\ n < MaxT
    /\ LET c    == [ p \in 1..NP |-> CoefOf(kind, p) ]
           Phat == [ p \in 1..NP |-> RAdd(RAdd(RMul(c[p].c1, P[p]), RMul(c[p].c2, Pprev[p])), RMul(c[p].c3, E)) ]
           dlt  == RSum([ p \in 1..NP |-> RSub(P[p], Phat[p]) ], NP)
           sc4  == RSum([ p \in 1..NP |-> c[p].c4 ], NP)
           \* update_E: the c4 branch folds the loss into its divisor; the branch without c4 divides by 1 + s afterwards
           div  == IF Variant = "no_divisor" /\ \A p \in 1..NP : RIsZ(c[p].c4) THEN RI(1)
                   ELSE RAdd(RAdd(RI(1), RMul(ie, sc4)), s)
           En   == RDiv(RAdd(RAdd(RMul(RSub(RI(1), s), E), RMul(ie, k)), RMul(ie, dlt)), div)
           Pn   == [ p \in 1..NP |->
                       IF Variant = "stale_E" THEN RAdd(RAdd(RAdd(RMul(c[p].c1, P[p]), RMul(c[p].c2, Pprev[p])), RMul(c[p].c3, En)), RMul(c[p].c4, En))
                       ELSE RAdd(Phat[p], RMul(c[p].c4, En)) ]
       IN /\ E' = En /\ P' = Pn
          /\ Pprev' = IF Variant = "no_shift" THEN Pprev ELSE P
          /\ Eplain' = RDiv(RAdd(RMul(RSub(RI(1), s), Eplain), RMul(ie, k)), RAdd(RI(1), s))
          /\ Ehist' = Append(Ehist, En)
          /\ last' = << k, E, P, Pprev >>
    /\ n' = n + 1 /\ UNCHANGED << kind, ie, s >>

Next == \E k \in Drives : Step(k)
Spec == Init /\ [][Next]_vars

\* ---------------------------------------------------------------- properties
TypeOK == n \in 0..MaxT /\ Len(Ehist) = n + 1 /\ Ehist[n + 1] = E

\* impulse response of z^2 - c1 z - c2
RECURSIVE H(_, _)
H(c, j) == IF j < 0 THEN RZ ELSE IF j = 0 THEN RI(1) ELSE RAdd(RMul(c.c1, H(c, j - 1)), RMul(c.c2, H(c, j - 2)))
RECURSIVE Conv(_, _, _)
Conv(c, eh, m) == \* sum over steps 0..m-1 of h_{n-1-step} (c3 E^step + c4 E^{step+1}), n = Len(eh) - 1
    IF m = 0 THEN RZ
    ELSE RAdd(Conv(c, eh, m - 1), RMul(H(c, Len(eh) - 1 - m), RAdd(RMul(c.c3, eh[m]), RMul(c.c4, eh[m + 1]))))
History == \A p \in 1..NP : P[p] = Conv(CoefOf(kind, p), Ehist, n)

Recurrence == n > 0 => \A p \in 1..NP :
    LET c == CoefOf(kind, p) IN
    P[p] = RAdd(RAdd(RAdd(RMul(c.c1, last[3][p]), RMul(c.c2, last[4][p])), RMul(c.c3, last[2])), RMul(c.c4, E))
PrevIsOld == n > 0 => Pprev = last[3]
Ampere == n > 0 =>
    RAdd(RDiv(RAdd(RSub(E, last[2]), RMul(s, RAdd(E, last[2]))), ie), RSum([ p \in 1..NP |-> RSub(P[p], last[3][p]) ], NP)) = last[1]
ZeroPoles == kind = << >> => (E = Eplain /\ \A p \in 1..NP : RIsZ(P[p]) /\ RIsZ(Pprev[p]))
=============================================================================
