-------------------------- MODULE ApplyParams --------------------------
(* apply_params (fdtd/initialization.py) on a 1-D lattice with one or two devices, as a state machine.

   State: base = permittivity of every cell after placement (what initial_inv_permittivities backs up),
   devs = the scene's device list, cur = DOUBLED permittivity of every cell now (the inverse-permittivity
   array, stated on the permittivity side so that everything is an integer), and how many parameter sets
   were applied / the last one.  One action:
       Apply(ps)  = one call apply_params(arrays, objects, {device: ps[device]}):
                      restore the backup if the scene keeps one, then every device, in list order, overwrites
                      its cells:
                        continuous : blend of the two device materials              e0 + p*(e1 - e0)
                        etched     : blend of what is in the cell and its material   bg + p*(e0 - bg)
                        discrete   : the selected material
                      every parameter voxel covers `vox` consecutive cells.
   When does a scene keep a backup?  CONSTANT Backup
       "any"   : iff at least one device etches          (the code: _init_arrays)
       "all"   : iff every device etches                 (negative instance: a seeded regression)
       "none"  : never                                   (negative instance)
   Property C18: device cells = the documented blend / material (DeviceCells, Range, DiscreteExact); cells
   outside all devices never change (OutsideUnchanged); after any sequence of parameter sets the arrays
   are what applying only the last set to the placed scene gives (HistoryIndependent).  In a dispersive
   simulation EVERY device also writes the dispersion coefficients of its cells (DispCells: those of the selected
   material, zero for a plain one; DispOutsideUnchanged); CONSTANT DispWrite = "own" (only devices that have a
   dispersive material write them) is a negative instance: stale background poles survive under a plain device. *)
EXTENDS ApplyParamsDefs

CONSTANTS N,          \* cells
          BaseEps,    \* permittivities of the placed scene (isotropic, per cell)
          MatEps,     \* permittivities available for device materials
          PVals,      \* doubled parameter values for continuous / etched devices (subset of {0, 1, 2})
          MaxHist,    \* parameter sets per behaviour
          Backup,     \* "any" | "all" | "none"
          Scenes,     \* subset of {"single", "pair", "disp"}
          DispWrite,  \* "every" (code) | "own" (negative instance): which devices write dispersion coefficients
          MatTable    \* "own" (code): every device is mapped with ITS materials | "first" (negative instance): the
                      \* material table of the first device in the list is reused for all (a cache keyed by names)

VARIABLES base, devs, cur, hlen, last,
          bcoef,      \* abstract dispersion coefficient of every cell after placement (0 = non-dispersive)
          dcur        \* DOUBLED coefficient of every cell now (dispersive_c1..c4 of the arrays)
vars == << base, devs, cur, hlen, last, bcoef, dcur >>

Placements == { << 1, 3, 1 >>, << 0, N, 2 >>, << 1, 3, 2 >>, << 0, 2, 1 >> }     \* <<lo, hi, vox>>
MaterialLists ==
    [ continuous |-> { << Iso(a), Iso(b) >> : a, b \in MatEps } \ { << Iso(a), Iso(a) >> : a \in MatEps },
      etched     |-> { << Iso(a) >> : a \in MatEps },
      discrete   |-> { << Iso(a), Iso(b) >> : a, b \in MatEps } \cup { << Iso(a), Iso(b), Iso(c) >> : a, b, c \in MatEps } ]
Ascending(ms) == \A k \in 1..(Len(ms) - 1) : ms[k][1] < ms[k + 1][1]
Dev(pl, kind, ms) == [ lo |-> pl[1], hi |-> pl[2], vox |-> pl[3], kind |-> kind, mats |-> ms, coefs |-> [ m \in 1..Len(ms) |-> 0 ] ]
\* dispersive simulations: one continuous or discrete device whose materials are plain (coefficient 0) or carry a
\* pole (5, 7), on a background whose cells are plain (0) or carry the pole 9
CoefLists(n) == IF n = 2 THEN { << 0, 0 >>, << 0, 5 >>, << 7, 0 >> } ELSE { << 0, 0, 0 >>, << 0, 5, 7 >> }
DispCandidates == { << [ Dev(pl, kind, ms) EXCEPT !.coefs = cf ] >> :
                      pl \in { << 1, 3, 1 >>, << 0, N, 2 >> }, kind \in {"continuous", "discrete"},
                      ms \in { << Iso(1), Iso(4) >>, << Iso(1), Iso(2), Iso(4) >> }, cf \in CoefLists(2) \cup CoefLists(3) }
DispScenes == { sc \in DispCandidates : Len(sc[1].coefs) = Len(sc[1].mats) /\ (sc[1].kind = "continuous" => Len(sc[1].mats) = 2) }

\* two devices, one etched and one plain (continuous), in both list orders:
\* disjoint (one voxel each; two voxels + one voxel) and overlapping in cell 2
PairPlacements == { << << 0, 2, 2 >>, << 2, 4, 2 >> >>, << << 0, 2, 1 >>, << 2, 4, 2 >> >>, << << 0, 3, 3 >>, << 2, 4, 2 >> >> }

SingleScenes == { << Dev(pl, kind, ms) >> : pl \in Placements, kind \in {"continuous"}, ms \in { m \in MaterialLists["continuous"] : Ascending(m) } }
                \cup { << Dev(pl, "etched", ms) >> : pl \in Placements, ms \in MaterialLists["etched"] }
                \cup { << Dev(pl, "discrete", ms) >> : pl \in Placements, ms \in { m \in MaterialLists["discrete"] : Ascending(m) } }
PairScenes ==
    LET E(pl, m) == Dev(pl, "etched", m)
        P(pl, m) == Dev(pl, "continuous", m)
    IN  UNION { { << E(pp[1], me), P(pp[2], mp) >>, << P(pp[2], mp), E(pp[1], me) >> } :
                  pp \in PairPlacements, me \in MaterialLists["etched"],
                  mp \in { m \in MaterialLists["continuous"] : Ascending(m) } }

\* two plain devices (both continuous, or both discrete) with DIFFERENT material sets, disjoint, both list orders
TwinScenes ==
    UNION { { << Dev(<< 0, 2, 1 >>, kind, m1), Dev(<< 2, 4, 2 >>, kind, m2) >>, << Dev(<< 2, 4, 2 >>, kind, m2), Dev(<< 0, 2, 1 >>, kind, m1) >> } :
              kind \in {"continuous", "discrete"},
              m1 \in { m \in MaterialLists["continuous"] : Ascending(m) }, m2 \in { m \in MaterialLists["continuous"] : Ascending(m) } }

Init == /\ base \in [ 1..N -> { Iso(e) : e \in BaseEps } ]
        /\ devs \in (IF "single" \in Scenes THEN SingleScenes ELSE {}) \cup (IF "pair" \in Scenes THEN PairScenes ELSE {})
                     \cup (IF "disp" \in Scenes THEN DispScenes ELSE {})
                     \cup (IF "twin" \in Scenes THEN { sc \in TwinScenes : sc[1].mats # sc[2].mats } ELSE {})
        /\ bcoef \in (IF "disp" \in Scenes THEN [ 1..N -> {0, 9} ] ELSE { [ c \in 1..N |-> 0 ] })
        /\ cur = [ c \in 1..N |-> Dbl(base[c]) ]
        /\ dcur = [ c \in 1..N |-> 2 * bcoef[c] ]
        /\ hlen = 0 /\ last = << >>

\* an etched device that comes after an overlapping plain one blends with that device's output; to keep the
\* doubled arithmetic exact the earlier device then only takes the parameters 0 and 1
OverlappedByLaterEtch(k) == \E j \in (k + 1)..Len(devs) :
                               devs[j].kind = "etched" /\ \E c \in 0..(N - 1) : InDevice(devs[k], c) /\ InDevice(devs[j], c)
ParamVectors(k) == IF devs[k].kind = "discrete" THEN [ 1..NVoxels(devs[k]) -> 0..(Len(devs[k].mats) - 1) ]
                   ELSE [ 1..NVoxels(devs[k]) -> (IF OverlappedByLaterEtch(k) THEN PVals \cap {0, 2} ELSE PVals) ]
ParamSets == IF Len(devs) = 1 THEN { << p >> : p \in ParamVectors(1) }
             ELSE { << p, q >> : p \in ParamVectors(1), q \in ParamVectors(2) }

HasBackup == CASE Backup = "any"  -> \E k \in 1..Len(devs) : devs[k].kind = "etched"
               [] Backup = "all"  -> \A k \in 1..Len(devs) : devs[k].kind = "etched"
               [] OTHER           -> FALSE

Apply(ps) ==
    /\ hlen < MaxHist
    /\ LET start == IF HasBackup THEN [ c \in 1..N |-> Dbl(base[c]) ] ELSE cur
           used  == IF MatTable = "own" THEN devs ELSE [ k \in 1..Len(devs) |-> [ devs[k] EXCEPT !.mats = devs[1].mats ] ]
       IN  cur' = WriteAll(start, used, ps, 1)
    /\ dcur' = WriteAllCoef(dcur, devs, ps, 1, DispWrite)        \* the coefficient arrays have no backup
    /\ hlen' = hlen + 1 /\ last' = ps
    /\ UNCHANGED << base, devs, bcoef >>

Next == (\E ps \in ParamSets : Apply(ps)) \/ (hlen = MaxHist /\ UNCHANGED vars)
Spec == Init /\ [][Next]_vars

\* ---------------------------------- properties ----------------------------------
TypeOK == /\ hlen \in 0..MaxHist /\ Len(cur) = N /\ Len(base) = N /\ Len(devs) \in 1..2
          /\ \A k \in 1..Len(devs) : devs[k].lo >= 0 /\ devs[k].hi <= N /\ (devs[k].hi - devs[k].lo) % devs[k].vox = 0

\* cells of exactly one device: the documented blend of the placed background / the device materials
DeviceCells == hlen > 0 =>
    \A k \in 1..Len(devs) : \A c \in devs[k].lo..(devs[k].hi - 1) :
        InOneDevice(devs, c) => cur[c + 1] = WriteDevice([ c1 \in 1..N |-> Dbl(base[c1]) ], devs[k], last[k])[c + 1]
Range == hlen > 0 =>
    \A k \in 1..Len(devs) : devs[k].kind = "continuous" =>
        \A c \in devs[k].lo..(devs[k].hi - 1) : InOneDevice(devs, c) =>
           /\ cur[c + 1][1] >= 2 * MinOf({ devs[k].mats[1][1], devs[k].mats[2][1] })
           /\ cur[c + 1][1] <= 2 * MaxOf({ devs[k].mats[1][1], devs[k].mats[2][1] })
DiscreteExact == hlen > 0 =>
    \A k \in 1..Len(devs) : devs[k].kind = "discrete" =>
        \A c \in devs[k].lo..(devs[k].hi - 1) : \E m \in 1..Len(devs[k].mats) : cur[c + 1] = Dbl(devs[k].mats[m])
OutsideUnchanged == \A c \in 0..(N - 1) : ~InAnyDevice(devs, c) => cur[c + 1] = Dbl(base[c + 1])
HistoryIndependent == hlen > 0 => cur = After(base, devs, last) /\ dcur = AfterCoef(bcoef, devs, last)
\* every device cell carries the coefficients of the selected material (zero for a plain one) / the blend
DispCells == hlen > 0 =>
    \A k \in 1..Len(devs) : \A c \in devs[k].lo..(devs[k].hi - 1) :
        (InOneDevice(devs, c) /\ devs[k].kind # "etched") =>
            dcur[c + 1] = (IF devs[k].kind = "discrete" THEN 2 * devs[k].coefs[last[k][VoxelOf(devs[k], c)] + 1]
                           ELSE 2 * devs[k].coefs[1] + last[k][VoxelOf(devs[k], c)] * (devs[k].coefs[2] - devs[k].coefs[1]))
DispOutsideUnchanged == \A c \in 0..(N - 1) : ~InAnyDevice(devs, c) => dcur[c + 1] = 2 * bcoef[c + 1]

\* ---------------------------------- bounded instances ----------------------------------
One    == {1}
Eps14  == {1, 4}
Eps124 == {1, 2, 4}
P012   == {0, 1, 2}
P02    == {0, 2}
Single == {"single"}
Pair   == {"pair"}
Both   == {"single", "pair", "disp", "twin"}
Twin   == {"twin"}
Disp   == {"disp"}
=======================================================================
