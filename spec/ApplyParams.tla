-------------------------- MODULE ApplyParams --------------------------
(* apply_params (fdtd/initialization.py) on a 1-D lattice with one device, as a state machine.

   State: base = permittivity of every cell after placement (what initial_inv_permittivities backs up for an
   etched device), cur = DOUBLED permittivity of every cell now (the inverse-permittivity array, stated on
   the permittivity side so that everything is an integer), and how many parameter sets were applied / the
   last one.  One action:
       Apply(p)   = one call apply_params(arrays, objects, {device: p}):
                      restore the backup (if the scene keeps one), then overwrite the device's cells:
                        continuous : blend of the two device materials            e0 + p*(e1 - e0)
                        etched     : blend of what was there and the one material  bg + p*(e0 - bg)
                        discrete   : the selected material
                      every parameter voxel covers `vox` consecutive cells.
   Property C18: device cells = the documented blend / material (DeviceCells, Range, DiscreteExact); cells
   outside the device are never changed (OutsideUnchanged); after any sequence of parameter sets the arrays
   are what applying only the last set to the placed scene gives (HistoryIndependent).
   CONSTANT Backup = "initial" is the code; "none" (an etched device blends with whatever is there now)
   is the negative instance.                                                                           *)
EXTENDS ApplyParamsDefs

CONSTANTS N,          \* cells
          BaseEps,    \* permittivities of the placed scene (isotropic, per cell)
          MatEps,     \* permittivities available for device materials
          PVals,      \* doubled parameter values for continuous / etched devices (subset of {0, 1, 2})
          MaxHist,    \* parameter sets per behaviour
          Backup      \* "initial" | "none"

VARIABLES base, dev, cur, hlen, last
vars == << base, dev, cur, hlen, last >>

Placements == { << 1, 3, 1 >>, << 0, N, 2 >>, << 1, 3, 2 >>, << 0, 2, 1 >> }     \* <<lo, hi, vox>>
MaterialLists ==
    [ continuous |-> { << Iso(a), Iso(b) >> : a, b \in MatEps } \ { << Iso(a), Iso(a) >> : a \in MatEps },
      etched     |-> { << Iso(a) >> : a \in MatEps },
      discrete   |-> { << Iso(a), Iso(b) >> : a, b \in MatEps } \cup { << Iso(a), Iso(b), Iso(c) >> : a, b, c \in MatEps } ]
Ascending(ms) == \A k \in 1..(Len(ms) - 1) : ms[k][1] < ms[k + 1][1]

Init == /\ base \in [ 1..N -> { Iso(e) : e \in BaseEps } ]
        /\ \E pl \in Placements, kind \in {"continuous", "etched", "discrete"} :
             \E ms \in MaterialLists[kind] :
                /\ Ascending(ms)
                /\ dev = [ lo |-> pl[1], hi |-> pl[2], vox |-> pl[3], kind |-> kind, mats |-> ms ]
        /\ cur = [ c \in 1..N |-> Dbl(base[c]) ]
        /\ hlen = 0 /\ last = << >>

ParamSets == IF dev.kind = "discrete" THEN [ 1..NVoxels(dev) -> 0..(Len(dev.mats) - 1) ]
             ELSE [ 1..NVoxels(dev) -> PVals ]

\* blend starting from a DOUBLED tensor (exact whenever it is even or v is even)
BlendFrom2(c2, T1, v) == [ k \in 1..9 |-> (2 * c2[k] + v * (2 * T1[k] - c2[k])) \div 2 ]

Apply(p) ==
    /\ hlen < MaxHist
    /\ LET start == IF Backup = "initial" /\ dev.kind = "etched"          \* the backup exists only with etching
                    THEN [ c \in 1..N |-> Dbl(base[c]) ] ELSE cur
       IN  cur' = [ c1 \in 1..N |->
                      LET c == c1 - 1 IN
                      IF ~InDevice(dev, c) THEN start[c1]
                      ELSE LET v == p[VoxelOf(dev, c)] IN
                           IF dev.kind = "continuous" THEN Blend2(dev.mats[1], dev.mats[2], v)
                           ELSE IF dev.kind = "etched" THEN BlendFrom2(start[c1], dev.mats[1], v)
                           ELSE Dbl(dev.mats[v + 1]) ]
    /\ hlen' = hlen + 1 /\ last' = p
    /\ UNCHANGED << base, dev >>

Next == (\E p \in ParamSets : Apply(p)) \/ (hlen = MaxHist /\ UNCHANGED vars)
Spec == Init /\ [][Next]_vars

\* ---------------------------------- properties ----------------------------------
TypeOK == /\ hlen \in 0..MaxHist /\ Len(cur) = N /\ Len(base) = N
          /\ dev.lo >= 0 /\ dev.hi <= N /\ (dev.hi - dev.lo) % dev.vox = 0

DeviceCells == hlen > 0 => \A c \in dev.lo..(dev.hi - 1) : cur[c + 1] = CellAfter(base, dev, last, c)
Range == (hlen > 0 /\ dev.kind = "continuous") =>
            \A c \in dev.lo..(dev.hi - 1) :
               /\ cur[c + 1][1] >= 2 * MinOf({ dev.mats[1][1], dev.mats[2][1] })
               /\ cur[c + 1][1] <= 2 * MaxOf({ dev.mats[1][1], dev.mats[2][1] })
DiscreteExact == (hlen > 0 /\ dev.kind = "discrete") =>
            \A c \in dev.lo..(dev.hi - 1) : \E k \in 1..Len(dev.mats) : cur[c + 1] = Dbl(dev.mats[k])
OutsideUnchanged == \A c \in 0..(N - 1) : ~InDevice(dev, c) => cur[c + 1] = Dbl(base[c + 1])
HistoryIndependent == hlen > 0 => cur = After(base, dev, last)

\* ---------------------------------- bounded instances ----------------------------------
Eps14  == {1, 4}
Eps124 == {1, 2, 4}
P012   == {0, 1, 2}
P02    == {0, 2}
=======================================================================
