SPECIFICATION Spec
CONSTANTS MaxDepth = 2  MaxUpdates = 1  Mode = "nocopy_list"  ShareSet = {FALSE}  NegIdx = FALSE  Rich = FALSE  CreateNew = FALSE
INVARIANT TypeOK
INVARIANT Persistent
INVARIANT PathOnly
INVARIANT TypeKept
CHECK_DEADLOCK FALSE
