------------------------------ MODULE Bounds ------------------------------
(* X02 (spec growth) - a BoundaryConfig becomes six boundary objects, and where they sit.

   The path  BoundaryConfig(...) / BoundaryConfig.from_uniform_bound(...)  ->  get_dict / get_type_dict /
   get_kappa_dict / get_alpha_dict / get_sigma_dict / get_order_dict  ->  boundary_objects_from_config  ->
   place_objects  ->  get_wrap_padding_axes  as a machine:

     Configure    build the config object: "direct" = 6 types + 6 thicknesses + 54 parameters given face by
                  face; "uniform" = from_uniform_bound (one type, one thickness, one value per parameter,
                  per-face type overrides)
     ReadTables   the eleven per-face tables (thickness, type, 9 parameter tables)
     MakeObjects  one object per face: class from the type, thickness (PML: configured, others 1), the
                  PML parameters of THAT face, the Bloch vector; unknown type => error
     Place        resolved grid slice of every object (slab flush with its face, spanning the volume on
                  the other two axes) and the wrap-padding flags of the three axes

   Parameter values are modelled as tokens << field, face >> (uniform mode: << field, 0 >>): the code only
   moves them around, so a mix-up between faces or between fields is visible as a token mismatch, without
   enumerating numbers (parametricity).  Properties are stated against the INPUT, in the user's words.   *)
EXTENDS BoundsDefs

CONSTANTS TypeSet,     \* types a face may be given in direct mode (Types, possibly plus an unknown one)
          BaseSet,     \* uniform mode: types for the uniform boundary_type
          OvSet,       \* uniform mode: per-face override ("none" or a type)
          MaxTh,       \* thicknesses 1..MaxTh
          ThickMode,   \* direct mode: "one" / "few": one / two fixed thickness vectors, "all": every vector in 1..MaxTh
          Scope,       \* direct mode: "all" type assignments or only "near"-legal ones (see InScope)
          NX, NY, NZ,  \* volume cell counts (NX, NY, NZ > 2 * MaxTh)
          Variant      \* "code" or a deliberately wrong variant (negative instance)

Dims == << NX, NY, NZ >>
ASSUME \A a \in Axes : Dims[a] > 2 * MaxTh
ThickVecs == CASE ThickMode = "one" -> { << 1, 2, 2, 1, 1, 2 >> }
               [] ThickMode = "few" -> { << 1, 2, 2, 1, 1, 2 >>, << 2, 1, 1, 2, 2, 1 >> }
               [] OTHER             -> [ Faces -> 1..MaxTh ]

VARIABLES inp,     \* input, fixed at Init: [mode, base, ov, thick]
          pc,      \* "configure" | "tables" | "objects" | "place" | "done" | "error"
          cfg,     \* the BoundaryConfig: [type, thick, par]
          tabs,    \* the per-face tables read from it: [type, thick, par]
          objs,    \* face -> [cls, axis, dir, th, par, bloch]
          slices,  \* face -> resolved slice
          wrap     \* axis -> BOOLEAN
vars == << inp, pc, cfg, tabs, objs, slices, wrap >>

\* Scope "all": every assignment; "near": the properly paired ones plus those with exactly one one-sided axis
InScope(t) == Scope = "all" \/ Cardinality({ a \in Axes : ~Paired(t, a) }) <= 1
Init == /\ inp \in  [ mode : {"direct"},  base : {"pml"},  ov : { t \in [ Faces -> TypeSet ] : InScope(t) }, thick : ThickVecs ]
                    \cup
                    [ mode : {"uniform"}, base : BaseSet, ov : [ Faces -> OvSet ], thick : { [ f \in Faces |-> t ] : t \in 1..MaxTh } ]
        /\ pc = "configure"
        /\ cfg = << >> /\ tabs = << >> /\ objs = << >> /\ slices = << >> /\ wrap = << >>

Token(fl, f) == IF inp.mode = "direct" THEN << fl, f >> ELSE << fl, 0 >>

Configure ==
    /\ pc = "configure"
    /\ cfg' = [ type  |-> [ f \in Faces |-> EffType(inp.base, inp.ov, f) ],
                thick |-> inp.thick,
                par   |-> [ fl \in Fields |-> [ f \in Faces |-> Token(fl, f) ] ] ]
    /\ pc' = "tables"
    /\ UNCHANGED << inp, tabs, objs, slices, wrap >>

ReadTables ==
    /\ pc = "tables"
    /\ tabs' = [ type  |-> [ f \in Faces |-> cfg.type[TableFace(f, Variant)] ],
                 thick |-> [ f \in Faces |-> cfg.thick[TableFace(f, Variant)] ],
                 par   |-> [ fl \in Fields |-> [ f \in Faces |-> cfg.par[fl][TableFace(f, Variant)] ] ] ]
    /\ pc' = "objects"
    /\ UNCHANGED << inp, cfg, objs, slices, wrap >>

MakeObjects ==
    /\ pc = "objects"
    /\ IF \E f \in Faces : tabs.type[f] \notin Types
       THEN pc' = "error" /\ objs' = objs
       ELSE /\ objs' = [ f \in Faces |->
                         LET t == tabs.type[f] IN
                         [ cls   |-> ClassOf(t),
                           axis  |-> AxisOf(f),
                           dir   |-> DirOf(f),
                           th    |-> ThickOf(t, tabs.thick[f]),
                           par   |-> IF HasParams(t) THEN [ fl \in Fields |-> tabs.par[fl][f] ] ELSE << >>,
                           bloch |-> IF ClassOf(t) = "BlochBoundary" THEN (IF t = "bloch" THEN "vector" ELSE "zero") ELSE "na" ] ]
            /\ pc' = "place"
    /\ UNCHANGED << inp, cfg, tabs, slices, wrap >>

WrapFrom(a) == IF Variant = "min_only" THEN { MinFace(a) } ELSE FacesOf(a)
Place ==
    /\ pc = "place"
    /\ slices' = [ f \in Faces |-> Slice3(f, objs[f].th, Dims, Variant) ]
    /\ wrap' = [ a \in Axes |-> \E f \in WrapFrom(a) : objs[f].cls = "BlochBoundary" ]     \* uses_wrap_padding of the objects on that axis
    /\ pc' = "done"
    /\ UNCHANGED << inp, cfg, tabs, objs >>

Next == Configure \/ ReadTables \/ MakeObjects \/ Place
Spec == Init /\ [][Next]_vars

\* ------------------------------- properties -------------------------------
ET(f)  == EffType(inp.base, inp.ov, f)                 \* the type the user asked for on face f
ETs    == [ f \in Faces |-> ET(f) ]
Made   == pc \in {"place", "done"}
Done   == pc = "done"

TypeOK == pc \in {"configure", "tables", "objects", "place", "done", "error"}
\* an unknown type is an error, a known one never is
ErrorIffUnknown == /\ pc = "error" => \E f \in Faces : ET(f) \notin Types
                   /\ Made => \A f \in Faces : ET(f) \in Types
\* every per-face table holds, for each face, the entry configured FOR THAT FACE (11 tables x 6 faces)
TablesPerFace == pc \in {"objects", "place", "done", "error"} =>
                   \A f \in Faces : /\ tabs.type[f] = ET(f)
                                    /\ tabs.thick[f] = inp.thick[f]
                                    /\ \A fl \in Fields : tabs.par[fl][f] = Token(fl, f)
\* the configured type decides the class; the object knows its own face
ClassPerFace == Made => \A f \in Faces : /\ objs[f].cls = ClassOf(ET(f))
                                        /\ objs[f].axis = AxisOf(f) /\ objs[f].dir = DirOf(f)
\* PML: configured thickness of that face; everything else: one cell
ThicknessRule == Made => \A f \in Faces : objs[f].th = IF ET(f) = "pml" THEN inp.thick[f] ELSE 1
\* a PML carries the nine parameters configured for its face, field by field; other kinds carry none
ParamsPerFace == Made => \A f \in Faces : IF ET(f) = "pml"
                                          THEN \A fl \in Fields : objs[f].par[fl] = Token(fl, f)
                                          ELSE objs[f].par = << >>
\* "periodic" is a Bloch boundary with zero vector, "bloch" carries the configured vector
BlochVector == Made => \A f \in Faces : objs[f].bloch = CASE ET(f) = "bloch" -> "vector" [] ET(f) = "periodic" -> "zero" [] OTHER -> "na"
\* the slab of its thickness flush with its face, whole volume on the other two axes (cell sets)
SlabFlush == Done => \A f \in Faces : \A a \in Axes :
                CellsOf(slices[f][a]) = IF a = AxisOf(f) THEN SlabCells(f, objs[f].th, Dims[a]) ELSE AllCells(Dims[a])
\* opposite faces never overlap (thicknesses leave an interior: Dims > 2 MaxTh)
OppositeDisjoint == Done => \A a \in Axes : CellsOf(slices[MinFace(a)][a]) \cap CellsOf(slices[MaxFace(a)][a]) = {}
\* perpendicular boundaries overlap exactly in the intersection of their two slabs, over the whole third axis
CornerExact == Done => \A f, g \in Faces : Perp(f, g) =>
                  \A a \in Axes : CellsOf(BoxCap(slices[f], slices[g])[a]) =
                                  CASE a = AxisOf(f) -> SlabCells(f, objs[f].th, Dims[a])
                                    [] a = AxisOf(g) -> SlabCells(g, objs[g].th, Dims[a])
                                    [] OTHER         -> AllCells(Dims[a])
\* wrap padding on an axis iff a periodic/Bloch boundary sits on it; on a properly paired axis (periodic on
\* both faces or on neither - the only configurations that make physical sense) that is "iff the axis is periodic"
WrapIffPeriodic == Done => \A a \in Axes : /\ wrap[a] <=> (Wraps(ET(MinFace(a))) \/ Wraps(ET(MaxFace(a))))
                                           /\ Paired(ETs, a) => (wrap[a] <=> (Wraps(ET(MinFace(a))) /\ Wraps(ET(MaxFace(a)))))
\* get_inside_boundary_slice (code-shaped InsideIv, one extra cell of margin) never contains a PML cell
InsideAvoidsPml == Done => \A a \in Axes :
    LET ths == [ f \in Faces |-> objs[f].th ] IN
    CellsOf(InsideIv(ETs, ths, a, Dims[a])) \cap
       UNION { IF ET(f) = "pml" THEN CellsOf(slices[f][a]) ELSE {} : f \in FacesOf(a) } = {}
=========================================================================
