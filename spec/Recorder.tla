--------------------------- MODULE Recorder ---------------------------
(* Recording pipeline of fdtdx (interfaces/recorder.py, interfaces/time_filter.py, interfaces/modules.py)
   as a state machine: a run of T steps compresses one value per step into a latent array through a
   save-every-K filter that starts at step Start and always keeps step T-1; afterwards any step
   t >= Start can be decompressed.  Values are integers (exact); interpolated values are kept as
   the exact pair <<numerator, denominator>>.

   One action per code-level step:
     Compress(t)   == Recorder.compress(values, state, t)        -- writes slot Idx(t) iff t is saved
     Decompress(t) == Recorder.decompress(state, t)              -- saved value or linear interpolation
   Property C30: Decompress(t) = Expected(t) for every t >= Start and every value history.          *)
EXTENDS RecorderDefs

\* ---------- state machine ----------
CONSTANTS MaxT, MaxK, Lookup
NoVal == -999999
VARIABLES T, K, S,      \* run parameters, fixed at Init (all triples inside the bound)
          hj,           \* which value history: -1 quadratic, j >= 0 basis history e_j
          phase, t, store, out
vars == << T, K, S, hj, phase, t, store, out >>

Hist(j, n) == [ u \in 0..(n-1) |-> IF j = -1 THEN 840 * (u * u + 1) ELSE IF u = j THEN 840 ELSE 0 ]

Init == /\ T \in 1..MaxT /\ K \in 1..MaxK /\ S \in 0..(T-1)
        /\ hj \in (-1)..(T-1)
        /\ phase = "rec" /\ t = 0
        /\ store = [ a \in 0..(ArraySize(T, K, S) - 1) |-> NoVal ]
        /\ out = << >>

Compress ==
    /\ phase = "rec" /\ t < T
    /\ store' = IF IsSaved(T, K, S, t) THEN [ store EXCEPT ![Idx(T, K, S, t)] = Hist(hj, T)[t] ] ELSE store
    /\ t' = t + 1
    /\ phase' = IF t + 1 = T THEN "play" ELSE "rec"
    /\ UNCHANGED << T, K, S, hj, out >>

Decompress(u) ==
    /\ phase = "play" /\ u \in S..(T-1)
    /\ out' = << u, DecompressFrom(store, T, K, S, u, Lookup) >>
    /\ UNCHANGED << T, K, S, hj, phase, t, store >>

Next == Compress \/ \E u \in 0..(MaxT-1) : Decompress(u)
Spec == Init /\ [][Next]_vars

\* ---------- properties ----------
TypeOK == /\ phase \in {"rec", "play"} /\ t \in 0..T
          /\ DOMAIN store = 0..(ArraySize(T, K, S) - 1)

\* C30: what comes out is what went in (saved) or the linear interpolation of the enclosing saved steps
DecompressCorrect ==
    out # << >> => RatEq(out[2], Expected(Hist(hj, T), T, K, S, out[1]))

\* the latent store is complete and holds each saved step in its own slot
SlotsComplete ==
    phase = "play" => \A s \in SaveSteps(T, K, S) : store[Idx(T, K, S, s)] = Hist(hj, T)[s]
SlotsBijective ==
    /\ \A s1, s2 \in SaveSteps(T, K, S) : s1 < s2 => Idx(T, K, S, s1) < Idx(T, K, S, s2)
    /\ { Idx(T, K, S, s) : s \in SaveSteps(T, K, S) } = 0..(ArraySize(T, K, S) - 1)
\* the final step is always kept, and nothing before Start is
SaveSetShape == (T - 1) \in SaveSteps(T, K, S) /\ \A s \in SaveSteps(T, K, S) : s >= S \/ s = T - 1
\* a slot is written once
WriteOnce == [][ \A a \in DOMAIN store : store[a] # NoVal => store'[a] = store[a] ]_vars
=======================================================================
