SPECIFICATION Spec
CONSTANTS
  ShapeSet <- ShapesQ
  KernelSet <- KernelsQ
  CfgSet <- Cfgs
  Variant = "spec"
INVARIANT TypeOK
INVARIANT PadAgrees
INVARIANT MajorityOK
CHECK_DEADLOCK FALSE
