SPECIFICATION Spec
CONSTANTS L = 2  IsoTest = "ignore_zz"  Variant = "stable"  NObj = 4  Family = "small"
INVARIANT TypeOK
INVARIANT PainterRule
INVARIANT PrefixRule
INVARIANT VolumeFirst
INVARIANT TiersWidest
INVARIANT ScalarMu
PROPERTY OnlyUpwards
CHECK_DEADLOCK FALSE
