SPECIFICATION Spec
CONSTANTS MaxN = 3  Variant = "doc"
INVARIANT MeanIdentity
INVARIANT MeanOfConstant
INVARIANT EnergyIdentity
INVARIANT FluxIdentities
INVARIANT ClosedIdentity
INVARIANT ThinAxisCancels
INVARIANT Extensive
CHECK_DEADLOCK FALSE
