SPECIFICATION Spec
CONSTANTS MaxDepth = 2  MaxUpdates = 1  Mode = "lookup_default"  ShareSet = {FALSE}  NegIdx = FALSE  Rich = FALSE  CreateNew = TRUE
INVARIANT TypeOK
INVARIANT Persistent
INVARIANT PathOnly
INVARIANT TypeKept
CHECK_DEADLOCK FALSE
