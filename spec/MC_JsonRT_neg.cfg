SPECIFICATION Spec
CONSTANTS Variant = "drop_field"
INVARIANT TypeOK
INVARIANT RoundTrip
INVARIANT ConstraintsIdentical
INVARIANT PrivateUnsetBeforePlacement
INVARIANT DerivedRecomputed
CHECK_DEADLOCK FALSE
