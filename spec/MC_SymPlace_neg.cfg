SPECIFICATION Spec
CONSTANTS MaxN = 4  SmallNs = {2}  Variant = "lower_half"
INVARIANT TypeOK
INVARIANT EvenRequired
INVARIANT UpperHalfKept
INVARIANT ClippedToHalf
INVARIANT UnclippedShifted
INVARIANT WallsOnElectricPlanes
CHECK_DEADLOCK FALSE
