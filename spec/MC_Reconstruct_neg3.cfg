SPECIFICATION Spec
CONSTANTS N = 5  MaxThick = 2  InnerPlain = TRUE  RecordOK = TRUE  RestoreFirst = FALSE
INVARIANT InteriorReconstructed
INVARIANT InteriorNonEmpty
CHECK_DEADLOCK FALSE
