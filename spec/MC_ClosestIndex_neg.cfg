SPECIFICATION Spec
CONSTANTS
  MaxN = 2
  Shapes <- ShapesNeg
  BigShapes <- NoShapes
  BigN = 0
  MatSets <- MatSetsNeg
  Variant = "component_axis"
INVARIANT TypeOK
INVARIANT ShapeKept
INVARIANT Nearest
INVARIANT GradOne
CHECK_DEADLOCK FALSE
