SPECIFICATION Spec
CONSTANTS Mode = "reverse"  Variant = "ok"  Family = "sweep"  List = { }  Steps = 3
          Extra = { 1002 }
INVARIANT TypeOK
INVARIANT WallsHold
INVARIANT ReverseExact
CHECK_DEADLOCK FALSE
