SPECIFICATION Spec
CONSTANTS Mode = "reverse"  Variant = "ok"  Family = "sweep"  List = { }  Steps = 3  PairMod = 1
          Extra = { 1002 }
INVARIANT TypeOK
INVARIANT WallsHold
INVARIANT ReverseExact
CHECK_DEADLOCK FALSE
