SPECIFICATION Spec
CONSTANTS Mode = "reverse"  Variant = "ok"  Family = "list"  List = { 1021013, 3081203, 1090312, 2130406 }  Steps = 3  PairMod = 1
          Extra = { 1002 }
INVARIANT TypeOK
INVARIANT WallsHold
INVARIANT ReverseExact
CHECK_DEADLOCK FALSE
