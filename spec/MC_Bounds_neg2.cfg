SPECIFICATION Spec
CONSTANTS TypeSet = {"pml", "periodic", "pec"}  BaseSet = {"pml"}  OvSet = {"none", "pec"}
          MaxTh = 2  ThickMode = "few"  Scope = "all"  NX = 5  NY = 6  NZ = 7  Variant = "wrong_end"
INVARIANT TypeOK
INVARIANT ErrorIffUnknown
INVARIANT TablesPerFace
INVARIANT ClassPerFace
INVARIANT ThicknessRule
INVARIANT ParamsPerFace
INVARIANT BlochVector
INVARIANT SlabFlush
INVARIANT OppositeDisjoint
INVARIANT CornerExact
INVARIANT WrapIffPeriodic
INVARIANT InsideAvoidsPml
CHECK_DEADLOCK FALSE
