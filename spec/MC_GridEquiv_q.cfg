SPECIFICATION Spec
CONSTANTS
  MaxN = 4
  MaxD = 3
  MaxT = 2
  Variant = "ok"
INVARIANT TypeOK
INVARIANT AllEqual
INVARIANT ScaleIsOne
CHECK_DEADLOCK FALSE
