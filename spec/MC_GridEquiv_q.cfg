SPECIFICATION Spec
CONSTANTS
  MaxN = 4
  MaxD = 3
  MaxT = 2
  Variant = "ok"
  Volumes <- VolumesQ
INVARIANT TypeOK
INVARIANT AllEqual
INVARIANT ScaleIsOne
INVARIANT EdgesAgree
INVARIANT PlacementAgrees
INVARIANT CentrePlacementAgrees
CHECK_DEADLOCK FALSE
