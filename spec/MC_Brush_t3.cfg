SPECIFICATION Spec
CONSTANTS
  Dims <- DimsT3
  Brushes = { "d2", "d3" }
  Levels <- ThreeLevels
  Variant = "paper"
  DesignSet <- AllLevels
INVARIANT TypeOK
INVARIANT NoConflict
INVARIANT Progress
INVARIANT StepsBounded
INVARIANT PostCondition
INVARIANT RunLoopAgrees
PROPERTY Grows
CHECK_DEADLOCK TRUE
