SPECIFICATION Spec
CONSTANTS Variant = "ok"  RampSteps = 4  GaussShare = 8
INVARIANT TypeOK
INVARIANT Directional
INVARIANT ForwardCarriesPower
PROPERTY PhaseMonotone
CHECK_DEADLOCK FALSE
