---------------------------- MODULE Trace_Yee ----------------------------
(* Validates numbers observed from the REAL fdtdx time step (fdtd.forward.forward / fdtd.backward.backward /
   run_fdtd, driven by harness/yee_sys.py) against YeeDefs.tla.  One record = one configuration (lattice,
   boundary kind per face, material arrays) with
     runs  exact observations: integer initial fields and the implementation's fields after each step, sent as exact
           integers after scaling by the known power of 4 (plus the rounding deviation `dev` in ppb, bounded here);
     mons  tolerance monitors: float64 residuals computed by the harness, as integer multiples of 1e-13, bounded by
           the record's `tol` here (lossy media, non-uniform grids, sources, random float scenes, detector records).
   For every run the property's OWN predicate is evaluated on the implementation's numbers
     energy   EnergyBalanced(step 1 state, step 2 state)                                   (C01)
     reverse  backward(forward(s)) = s                                                     (C02)
     linear   third run = alpha * first + beta * second                                    (C10)
     complex  complex-storage step has zero imaginary part and the real run's real part    (C11)
   and, separately, the implementation's next state is compared with the spec's own Forward / Backward
   (a mismatch there alone is "model:" = spec drift, not a violation).  Verdicts are total.                 *)
EXTENDS Integers, Sequences, FiniteSets, TLC, TLCExt, Json, IOUtils

Y == INSTANCE YeeDefs

Cases == JsonDeserialize(IOEnv.TRACE_FILE)

VARIABLES ci,     \* record index
          l,      \* next run of the record
          g,      \* compiled configuration of the record
          bad,    \* first failing hard clause (malformed / property)
          soft    \* first failing soft clause (inexact / model drift)
tvars == << ci, l, g, bad, soft >>

CfgOK(c) == /\ Len(c.N) = 3 /\ \A a \in 1..3 : c.N[a] >= 1 /\ Len(c.w[a]) = c.N[a] /\ \A k \in 1..c.N[a] : c.w[a][k] \in {1, 2}
            /\ Len(c.ie2) = Y!NF(c.N) /\ Len(c.im2) = Y!NF(c.N) /\ Len(c.loss) = Y!NF(c.N)
            /\ \A i \in 1..Y!NF(c.N) : c.ie2[i] \in {1, 2, 4} /\ c.im2[i] \in {1, 2, 4} /\ c.loss[i] \in {0, 1}
            /\ \A a \in 1..3 : c.ph[a] \in 0..3
CompileRec(c) ==
    IF ~c.exact \/ ~CfgOK(c) THEN [ n |-> 0 ]
    ELSE Y!Compile([ N |-> c.N, wrap |-> c.wrap, ph |-> c.ph, pec |-> c.pec, pmc |-> c.pmc, ie2 |-> c.ie2, im2 |-> c.im2,
                     loss |-> c.loss, w |-> c.w, src |-> << >>, variant |-> "ok" ])

Gauss(re, im) == TLCEval([ i \in 1..Len(re) |-> << re[i], im[i] >> ])
\* run state from an observed state o, with H of the preceding observed state p as Hp
St(o, p) == [ E |-> Gauss(o.Er, o.Ei), H |-> Gauss(o.Hr, o.Hi), Hp |-> Gauss(p.Hr, p.Hi),
              dE |-> o.dE, dH |-> o.dH, dHp |-> p.dH, amp |-> << 0, 0 >> ]
ObsOK(c, o) == /\ Len(o.Er) = g.n /\ Len(o.Ei) = g.n /\ Len(o.Hr) = g.n /\ Len(o.Hi) = g.n /\ o.dE >= 1 /\ o.dH >= 1

Note(reg, cl) == IF reg = "" THEN cl ELSE reg

\* verdict of one run: << hard clause, soft clause >>
RunVerdict(c, rn) ==
    LET S == rn.S
        n == Len(S)
        inexact == IF rn.dev > c.devtol THEN "inexact: rounding deviation of the scaled fields above devtol" ELSE ""
    IN
    IF g.n = 0 THEN << "malformed: configuration", "" >>
    ELSE IF \E k \in 1..n : ~ObsOK(c, S[k]) THEN << "malformed: observed state shape", "" >>
    ELSE IF c.kind = "energy" THEN
        \* S = s0, s1, s2: energies of the boundaries after step 1 and after step 2
        IF n # 3 THEN << "malformed: energy run needs 3 states", "" >>
        ELSE LET s0 == St(S[1], S[1])  s1 == St(S[2], S[1])  s2 == St(S[3], S[2]) IN
             IF ~Y!WallOK(g, s0) THEN << "malformed: initial state violates the wall conditions", "" >>
             ELSE IF inexact # "" THEN << "", inexact >>
             ELSE IF ~Y!EnergyBalanced(g, s1, s2) THEN << "energy: discrete energy changed over a lossless step", "" >>
             \* first step: H one half-step before the initial state is DEFINED by the documented H update (Yee!Prime)
             ELSE IF ~Y!EnergyBalanced(g, Y!Prime(g, s0), s1) THEN << "energy: discrete energy changed over the first step from a state satisfying the wall conditions", "" >>
             ELSE IF ~(Y!SameEH(Y!Forward(g, s0, 0), s1) /\ Y!SameEH(Y!Forward(g, s1, 1), s2))
                  THEN << "", "model: next state differs from Yee!Forward" >>
             ELSE << "", "" >>
    ELSE IF c.kind = "reverse" THEN
        \* S = s0, forward(s0), backward(forward(s0))
        IF n # 3 THEN << "malformed: reverse run needs 3 states", "" >>
        ELSE LET s0 == St(S[1], S[1])  s1 == St(S[2], S[1])  sb == St(S[3], S[3]) IN
             IF ~Y!WallOK(g, s0) THEN << "malformed: initial state violates the wall conditions", "" >>
             ELSE IF inexact # "" THEN << "", inexact >>
             ELSE IF ~Y!SameEH(sb, s0) THEN << "reverse: backward(forward(s)) differs from s", "" >>
             ELSE IF ~Y!SameEH(Y!Forward(g, s0, rn.t0), s1) THEN << "", "model: next state differs from Yee!Forward" >>
             ELSE IF ~Y!SameEH(Y!Backward(g, s1, rn.t0), s0) THEN << "", "model: Yee!Backward does not undo the observed step" >>
             ELSE << "", "" >>
    ELSE IF c.kind = "linear" THEN
        \* S = a0, b0, c0, a1, b1, c1 with c0 = al a0 + be b0
        IF n # 6 THEN << "malformed: linear run needs 6 states", "" >>
        ELSE LET a0 == St(S[1], S[1])  b0 == St(S[2], S[2])  c0 == St(S[3], S[3])
                 a1 == St(S[4], S[1])  b1 == St(S[5], S[2])  c1 == St(S[6], S[3])
                 al == rn.ab[1]  be == rn.ab[2]
             IN
             IF ~(c0.E = Y!LinComb(al, a0.E, be, b0.E) /\ c0.H = Y!LinComb(al, a0.H, be, b0.H))
                  THEN << "malformed: third initial state is not the stated combination", "" >>
             ELSE IF inexact # "" THEN << "", inexact >>
             ELSE IF ~(/\ c1.dE = a1.dE /\ b1.dE = a1.dE /\ c1.dH = a1.dH /\ b1.dH = a1.dH
                       /\ c1.E = Y!LinComb(al, a1.E, be, b1.E) /\ c1.H = Y!LinComb(al, a1.H, be, b1.H))
                  THEN << "linear: step of the combination differs from the combination of the steps", "" >>
             ELSE IF ~Y!SameEH(Y!Forward(g, a0, 0), a1) THEN << "", "model: next state differs from Yee!Forward" >>
             ELSE << "", "" >>
    ELSE IF c.kind = "complex" THEN
        \* S = s0 (real data), step in real storage, step in complex storage
        IF n # 3 THEN << "malformed: complex run needs 3 states", "" >>
        ELSE LET s0 == St(S[1], S[1])  r1 == St(S[2], S[1])  c1 == St(S[3], S[1]) IN
             IF ~(g.real /\ Y!IsReal(s0.E) /\ Y!IsReal(s0.H) /\ Y!IsReal(r1.E) /\ Y!IsReal(r1.H))
                  THEN << "malformed: complex run needs real data and no Bloch phase", "" >>
             ELSE IF inexact # "" THEN << "", inexact >>
             ELSE IF ~(Y!IsReal(c1.E) /\ Y!IsReal(c1.H)) THEN << "complex: imaginary part of the complex-storage step is not zero", "" >>
             ELSE IF ~Y!SameEH(c1, r1) THEN << "complex: real part of the complex-storage step differs from the real run", "" >>
             ELSE IF ~Y!SameEH(Y!Forward(g, s0, 0), r1) THEN << "", "model: next state differs from Yee!Forward" >>
             ELSE << "", "" >>
    ELSE << "malformed: unknown kind", "" >>

\* tolerance monitors: d in units of 1e-13; two-sided |d| <= tol, one-sided d <= tol.  A monitor flagged `soft` states
\* more than the property claims (e.g. the exact dissipation balance where the statement only says "never increases"):
\* its failure alone is spec drift ("model:"), not a violation.
IsSoft(m) == IF "soft" \in DOMAIN m THEN m.soft ELSE FALSE
RECURSIVE FirstMon(_, _, _)
FirstMon(c, k, wantSoft) ==
    IF k > Len(c.mons) THEN ""
    ELSE LET m == c.mons[k]
             ok == IF m.two THEN (m.d <= c.tol /\ 0 - m.d <= c.tol) ELSE m.d <= c.tol
         IN  IF ok \/ IsSoft(m) # wantSoft THEN FirstMon(c, k + 1, wantSoft)
             ELSE (IF wantSoft THEN "model: " ELSE "tol: ") \o m.name

C == Cases[ci]
TInit == /\ ci = 1 /\ l = 1 /\ bad = "" /\ soft = ""
         /\ g = IF Len(Cases) >= 1 THEN CompileRec(Cases[1]) ELSE [ n |-> 0 ]
         /\ TLCSet(1, << >>)

RunStep ==
    /\ l <= Len(C.runs)
    /\ LET v == RunVerdict(C, C.runs[l]) IN
          /\ bad' = IF v[1] # "" THEN Note(bad, v[1]) ELSE bad
          /\ soft' = IF v[2] # "" THEN Note(soft, v[2]) ELSE soft
    /\ l' = l + 1 /\ UNCHANGED << ci, g >>

NextCase ==
    /\ l > Len(C.runs)
    /\ LET mv == FirstMon(C, 1, FALSE)
           sv == FirstMon(C, 1, TRUE)
           hard == IF bad # "" THEN bad ELSE mv
           v == IF hard # "" THEN hard ELSE IF soft # "" THEN soft ELSE IF sv # "" THEN sv ELSE "ok"
       IN  TLCSet(1, Append(TLCGet(1), [ id |-> C.id, v |-> v ]))
    /\ ci' = ci + 1 /\ l' = 1 /\ bad' = "" /\ soft' = ""
    /\ g' = IF ci + 1 <= Len(Cases) THEN CompileRec(Cases[ci + 1]) ELSE [ n |-> 0 ]

TNext == /\ ci <= Len(Cases)
         /\ (RunStep \/ NextCase)
TSpec == TInit /\ [][TNext]_tvars

Post == ndJsonSerialize(IOEnv.VERDICT_FILE, TLCGet(1))
=============================================================================
