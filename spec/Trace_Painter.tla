------------------------ MODULE Trace_Painter ------------------------
(* Validates the material arrays returned by the REAL fdtdx.place_objects against the painter's rule of
   PainterDefs.  One record = one scene:
     mats  : material catalogue of the scene as integer 9-sequences (eps, mu, se, sm)
     objs  : static objects in LIST order (1 = volume): placement order, painted material, further
             dictionary materials (tier only), cover = cells (1-based C-order indices) of the placed box
             or of the object's own voxel mask
     tiers : component counts of the returned arrays (0 = scalar permeability / no conductivity array)
     eps, mu: per cell the stored INVERSE components times `scale`; se, sm: per cell the stored
             conductivity components divided by the grid spacing; dev/tol: rounding deviation in ppb
   TLC finds, per cell, the highest-placement-order covering object (list order breaks ties), and checks
   that the stored components are exactly that material's: MatMul(material, stored) = scale * identity
   for eps and mu, equality for the conductivities; and that the tiers are the widest needed.       *)
EXTENDS Integers, Sequences, FiniteSets, TLC, TLCExt, Json, IOUtils

P == INSTANCE PainterDefs

Cases == JsonDeserialize(IOEnv.TRACE_FILE)
VARIABLES ci

Seq9(x) == [ i \in 1..9 |-> x[i] ]
MatsOf(c) == [ m \in 1..Len(c.mats) |-> [ eps |-> Seq9(c.mats[m].eps), mu |-> Seq9(c.mats[m].mu),
                                          se |-> Seq9(c.mats[m].se), sm |-> Seq9(c.mats[m].sm) ] ]
ObjsOf(c) == [ i \in 1..Len(c.objs) |-> [ ord |-> c.objs[i].ord, cover |-> { c.objs[i].cells[j] : j \in 1..Len(c.objs[i].cells) },
                                          mat |-> c.objs[i].mat ] ]
NCells(c) == c.shape[1] * c.shape[2] * c.shape[3]
Comp(x, t) == [ i \in 1..t |-> x[i] ]

WellFormed(c) ==
    /\ Len(c.shape) = 3 /\ Len(c.objs) >= 1 /\ Len(c.mats) >= 1
    /\ \A m \in 1..Len(c.mats) : Len(c.mats[m].eps) = 9 /\ Len(c.mats[m].mu) = 9 /\ Len(c.mats[m].se) = 9 /\ Len(c.mats[m].sm) = 9
    /\ \A i \in 1..Len(c.objs) : /\ c.objs[i].mat \in 1..Len(c.mats)
                                 /\ \A j \in 1..Len(c.objs[i].cells) : c.objs[i].cells[j] \in 1..NCells(c)
    /\ { c.objs[1].cells[j] : j \in 1..Len(c.objs[1].cells) } = 1..NCells(c)           \* object 1 is the volume
    /\ \A i \in 2..Len(c.objs) : c.objs[i].ord > c.objs[1].ord                          \* precondition: the volume is lowest
    /\ c.tiers.eps \in {1, 3, 9} /\ c.tiers.mu \in {0, 1, 3, 9} /\ c.tiers.se \in {0, 1, 3, 9} /\ c.tiers.sm \in {0, 1, 3, 9}
    /\ Len(c.eps) = NCells(c) /\ \A x \in 1..NCells(c) : Len(c.eps[x]) = c.tiers.eps
    /\ c.tiers.mu # 0 => Len(c.mu) = NCells(c) /\ \A x \in 1..NCells(c) : Len(c.mu[x]) = c.tiers.mu
    /\ c.tiers.se # 0 => Len(c.se) = NCells(c) /\ \A x \in 1..NCells(c) : Len(c.se[x]) = c.tiers.se
    /\ c.tiers.sm # 0 => Len(c.sm) = NCells(c) /\ \A x \in 1..NCells(c) : Len(c.sm[x]) = c.tiers.sm

CellBad(c, os, ms, x) ==
    LET m == ms[os[P!Top(os, x)].mat] IN
    \/ ~P!IsInverse(Comp(c.eps[x], c.tiers.eps), c.tiers.eps, m.eps, c.scale)
    \/ c.tiers.mu # 0 /\ ~P!IsInverse(Comp(c.mu[x], c.tiers.mu), c.tiers.mu, m.mu, c.scale)
    \/ c.tiers.se # 0 /\ P!Expand(Comp(c.se[x], c.tiers.se), c.tiers.se) # m.se
    \/ c.tiers.sm # 0 /\ P!Expand(Comp(c.sm[x], c.tiers.sm), c.tiers.sm) # m.sm

Verdict(c) ==
    IF ~WellFormed(c) THEN "malformed: record shape"
    ELSE LET ms == MatsOf(c)  os == ObjsOf(c)  exp == P!ExpTiers(ms) IN
    IF c.tiers.eps # exp.eps THEN "tier: permittivity component count is not the widest tier needed"
    ELSE IF (c.tiers.mu = 0) # (exp.mu = 0) THEN "scalar: permeability is scalar 1 iff the scene is non-magnetic"
    ELSE IF c.tiers.mu = 0 /\ c.mu_scalar # c.scale THEN "scalar: scalar permeability is not 1"
    ELSE IF c.tiers.mu # exp.mu THEN "tier: permeability component count is not the widest tier needed"
    ELSE IF c.tiers.se # exp.se \/ c.tiers.sm # exp.sm THEN "tier: conductivity arrays are not the widest tier needed"
    ELSE IF c.dev > c.tol THEN "value: stored values are not the exact material values (rounding deviation above tol)"
    ELSE IF \E x \in 1..NCells(c) : CellBad(c, os, ms, x)
         THEN "painter: a cell does not hold the material of the highest-placement-order object covering it; first cell "
              \o ToString(CHOOSE x \in 1..NCells(c) : CellBad(c, os, ms, x) /\ \A y \in 1..(x-1) : ~CellBad(c, os, ms, y))
    ELSE "ok"

TInit == ci = 1 /\ TLCSet(1, << >>)
TNext == /\ ci <= Len(Cases)
         /\ TLCSet(1, Append(TLCGet(1), [ id |-> Cases[ci].id, v |-> Verdict(Cases[ci]) ]))
         /\ ci' = ci + 1
TSpec == TInit /\ [][TNext]_ci
Post == ndJsonSerialize(IOEnv.VERDICT_FILE, TLCGet(1))
=======================================================================
