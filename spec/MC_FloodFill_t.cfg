SPECIFICATION Spec
CONSTANTS
  Shapes <- ShapesT
  Modes = { "material", "air" }
  Loop = "fixpoint"
  Seed = "bottom"
  Filter <- AnyDesign
INVARIANT TypeOK
INVARIANT RankWitness
INVARIANT ConnSound
INVARIANT TerminalClosed
INVARIANT TerminalIsReach
INVARIANT LeastClosed
INVARIANT RemoveCorrect
INVARIANT RoundsBounded
INVARIANT RepairFeasible
PROPERTY GrowOnly
CHECK_DEADLOCK TRUE
