SPECIFICATION Spec
CONSTANTS N = 6  K = 3  Vals <- ValsPM  Amps = { 1, 3 }  Delays = { 0, 2 }  NSteps = 8  Variant = "ok"  Origin = "entry"
INVARIANT TypeOK
INVARIANT OutsideZero
INVARIANT InsideIncident
INVARIANT EOutsideZeroMid
CHECK_DEADLOCK FALSE
