SPECIFICATION Spec
CONSTANTS
  Pairs <- PairsN
  MaxT = 2
  Variant = "no_conj"
  Dense = TRUE
  Basis = "origin"
  Singles = "none"
INVARIANT TypeOK
INVARIANT TileInv
CHECK_DEADLOCK FALSE
