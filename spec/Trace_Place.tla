------------------------- MODULE Trace_Place -------------------------
(* Conformance of the REAL constraint solver (fdtdx.fdtd.initialization.resolve_object_constraints from
   /repo/src) with PlaceDefs.tla.  One case = one constraint system (integer JSON, harness/place_sys.py) and
   the results of running the real solver under several permutations of the object list and of the constraint
   list:  runs[k] = [ok, sl]  (success flag, final slices of every object in system order).

   Verdict = the properties' own predicates evaluated by TLC on the implementation's results:
     C26  for every successful run: inside the volume with positive size, unconstrained axes span the volume,
          every constraint holds on the final slices (PlaceDefs!Holds: nearest edge / closest fitting interval)
     C27  all runs agree on the success flag and, when successful, on every slice
   c.want \in {"C26","C27"} selects which property this batch is judged for.  If the property holds but the
   result differs from the specification's own run of the code's schedule (SchedStep with the code flags), the
   clause starts with "drift:".                                                                         *)
EXTENDS Integers, Sequences, FiniteSets, TLC, TLCExt, Json, IOUtils

D == INSTANCE PlaceDefs

Cases == JsonDeserialize(IOEnv.TRACE_FILE)
VARIABLES ci

\* the specification's own result: iterate the code's schedule to completion (fuel bounds the recursion)
RECURSIVE RunSched(_, _, _, _)
RunSched(sys, S, P, fuel) ==
    IF P.pc = "done" \/ fuel = 0 THEN << S, P >>
    ELSE LET r == D!SchedStep(sys, S, P, sys.fl.eb) IN RunSched(sys, r[1], r[2], fuel - 1)
SpecOutcome(sys) ==
    LET r == RunSched(sys, D!InitS(sys), D!SchedInit, 400)
    IN IF r[2].pc # "done" THEN [ ok |-> FALSE, sl |-> << >>, finished |-> FALSE ]
       ELSE [ ok |-> ~r[1].fail, sl |-> (IF r[1].fail THEN << >> ELSE r[1].sl), finished |-> TRUE ]

WellFormed(c) ==
    /\ Len(c.sys.ed) = 3 /\ Len(c.runs) >= 1
    /\ \A k \in 1..Len(c.runs) : Len(c.runs[k].sl) = Len(c.sys.objs)
    /\ \A a \in 1..3 : D!G!StrictlyIncreasing(c.sys.ed[a])

C26Run(sys, r) ==
    IF ~r.ok THEN "ok"
    ELSE IF ~D!InsideOK(sys, r.sl) THEN "C26 inside: a resolved object is unresolved, outside the volume or has non-positive size"
    ELSE IF ~D!SpansOK(sys, r.sl) THEN "C26 span: an unconstrained axis does not span the volume"
    ELSE IF \E j \in 1..D!NCon(sys) : ~D!Holds(sys, r.sl, j)
         THEN LET c == sys.cons[D!FirstBroken(sys, r.sl)] IN
              IF c.t = "pos" THEN "C26 position constraint violated by the final slices"
              ELSE IF c.t = "size" THEN "C26 size constraint violated by the final slices"
              ELSE IF c.t = "ext" THEN "C26 size-extension constraint violated by the final slices"
              ELSE IF c.t = "gc" THEN "C26 grid-coordinate constraint violated by the final slices"
              ELSE "C26 real-coordinate constraint violated by the final slices"
    ELSE "ok"

C26V(c) ==
    LET bad == { k \in 1..Len(c.runs) : C26Run(c.sys, c.runs[k]) # "ok" }
    IN IF bad = {} THEN "ok" ELSE C26Run(c.sys, c.runs[D!G!MinOf(bad)])

C27V(c) ==
    IF \E k \in 2..Len(c.runs) : c.runs[k].ok # c.runs[1].ok THEN "C27 success flag depends on the order of objects/constraints"
    ELSE IF c.runs[1].ok /\ \E k \in 2..Len(c.runs) : c.runs[k].sl # c.runs[1].sl THEN "C27 resolved slices depend on the order of objects/constraints"
    ELSE "ok"

DriftV(c) ==
    LET sp == SpecOutcome(c.sys) IN
    IF ~sp.finished THEN "drift: specification schedule did not finish"
    ELSE IF sp.ok # c.runs[1].ok THEN "drift: success flag differs from the specification's schedule"
    ELSE IF sp.ok /\ sp.sl # c.runs[1].sl THEN "drift: slices differ from the specification's schedule"
    ELSE "ok"

Verdict(c) ==
    IF ~WellFormed(c) THEN "malformed: case"
    ELSE LET v == IF c.want = "C26" THEN C26V(c) ELSE IF c.want = "C27" THEN C27V(c) ELSE "malformed: want"
         IN IF v # "ok" THEN v ELSE DriftV(c)

TInit == ci = 1 /\ TLCSet(1, << >>)
TNext == /\ ci <= Len(Cases)
         /\ TLCSet(1, Append(TLCGet(1), [ id |-> Cases[ci].id, v |-> Verdict(Cases[ci]) ]))
         /\ ci' = ci + 1
TSpec == TInit /\ [][TNext]_ci
Post == ndJsonSerialize(IOEnv.VERDICT_FILE, TLCGet(1))
=======================================================================
