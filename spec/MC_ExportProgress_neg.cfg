SPECIFICATION Spec
CONSTANTS MaxStart = 10  MaxLen = 30  Variant = "no_offset"
INVARIANT InRange
INVARIANT Monotone
INVARIANT CountIsSteps
INVARIANT AtMostTwenty
INVARIANT ClosedForm
INVARIANT FinalIsTotal
INVARIANT NiceMinimal
CHECK_DEADLOCK FALSE
