SPECIFICATION Spec
CONSTANTS
  N = 4
  BaseEps <- Eps14
  MatEps <- Eps14
  PVals <- P02
  MaxHist = 2
  Backup = "none"
  Scenes <- Single
  DispWrite = "every"
  MatTable = "own"
INVARIANT TypeOK
INVARIANT OutsideUnchanged
INVARIANT HistoryIndependent
CHECK_DEADLOCK TRUE
