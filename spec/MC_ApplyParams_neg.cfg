SPECIFICATION Spec
CONSTANTS
  N = 4
  BaseEps <- Eps14
  MatEps <- Eps14
  PVals <- P02
  MaxHist = 2
  Backup = "none"
  Scenes <- Single
INVARIANT TypeOK
INVARIANT OutsideUnchanged
INVARIANT HistoryIndependent
CHECK_DEADLOCK TRUE
