------------------------ MODULE Trace_Supercell ------------------------
(* C09 conformance: TLC evaluates the supercell relation of SupercellDefs on field arrays observed from the
   REAL solver.  One record = one pair of stepped runs (fdtdx.fdtd.forward.forward, scenes built by
   place_objects/apply_params): an N-cell domain with periodic / Bloch boundaries (phase phi[a] per axis) and
   the m*N-cell domain with the same boundary objects and wave vector, materials tiled, initial fields tiled with
   phase phi^j on copy j.  For every recorded step (0 = initial state) the record carries the four arrays
   sE, sH (N cells) and bE, bH (m*N cells), flattened in memory order (index = SupercellDefs!Lin), every entry
   as six limbs <<re2, re1, re0, im2, im1, im0>> (RelNum).  phi[a] = <<pr, pi, den>> is the Gaussian rational
   (pr + i pi)/den with pr^2 + pi^2 = den^2 (units, or Pythagorean phases for generic k).

   Relation (exactly TileRel, cleared of denominators):
        den_j * big[I]  =  P_j * small[SrcIdx(I)]     P_j = prod_a (pr_a + i pi_a)^j[a],  den_j = prod_a den_a^j[a]
   up to  tol * (den_j + |Re P_j| + |Im P_j|)  units of the last limb (tol = 0 for exact inputs).          *)
EXTENDS Integers, Sequences, FiniteSets, TLC, TLCExt, Json, IOUtils

D == INSTANCE SupercellDefs
R == INSTANCE RelNum

Cases == JsonDeserialize(IOEnv.TRACE_FILE)
VARIABLES ci

PhNum(c, j) == D!GMul(D!GPow(<< c.phi[1][1], c.phi[1][2] >>, j[1]),
               D!GMul(D!GPow(<< c.phi[2][1], c.phi[2][2] >>, j[2]), D!GPow(<< c.phi[3][1], c.phi[3][2] >>, j[3])))
PhDen(c, j) == D!IPow(c.phi[1][3], j[1]) * D!IPow(c.phi[2][3], j[2]) * D!IPow(c.phi[3][3], j[3])

\* one entry: den*b = P*s   (b, s six-limb values)
EntryOK(b, s, P, den, tolv) ==
    /\ R!SmallL3(den * b[1] - (P[1] * s[1] - P[2] * s[4]), den * b[2] - (P[1] * s[2] - P[2] * s[5]),
                 den * b[3] - (P[1] * s[3] - P[2] * s[6]), tolv)
    /\ R!SmallL3(den * b[4] - (P[1] * s[4] + P[2] * s[1]), den * b[5] - (P[1] * s[5] + P[2] * s[2]),
                 den * b[6] - (P[1] * s[6] + P[2] * s[3]), tolv)

TileOK(c, big, small) ==
    LET N == c.N  M == c.M
    IN  \A I \in 1..D!Size(D!Mul3(N, M)) :
          LET j   == << D!CopyNo(I, N, M, 1), D!CopyNo(I, N, M, 2), D!CopyNo(I, N, M, 3) >>
              P   == PhNum(c, j)
              den == PhDen(c, j)
          IN  EntryOK(big[I], small[D!SrcIdx(I, N, M)], P, den, c.tol * (den + R!Abs(P[1]) + R!Abs(P[2])))

\* materials of the big scene are the small ones tiled (no phase): precondition of the property
MatOK(c) == \A I \in 1..Len(c.mB) : c.mB[I] = c.mS[D!SrcIdx1(I, c.N, c.M, c.mcomp)]

UnitNorm(ph) == ph[1] * ph[1] + ph[2] * ph[2] = ph[3] * ph[3] /\ ph[3] >= 1
MaxMult(c) ==   \* largest multiplier that can occur: copies 0..M[a]-1
    LET j == << c.M[1] - 1, c.M[2] - 1, c.M[3] - 1 >> IN 3 * PhDen(c, j)
WellFormed(c) ==
    /\ \A a \in 1..3 : c.N[a] >= 1 /\ c.M[a] >= 1 /\ UnitNorm(c.phi[a])
    /\ MaxMult(c) < 90000
    /\ Len(c.mS) = c.mcomp * D!Cells(c.N) /\ Len(c.mB) = c.mcomp * D!Cells(D!Mul3(c.N, c.M))
    /\ \A k \in 1..Len(c.steps) :
         /\ Len(c.steps[k].sE) = D!Size(c.N) /\ Len(c.steps[k].sH) = D!Size(c.N)
         /\ Len(c.steps[k].bE) = D!Size(D!Mul3(c.N, c.M)) /\ Len(c.steps[k].bH) = D!Size(D!Mul3(c.N, c.M))

FirstBad(c) ==
    LET bad == { k \in 1..Len(c.steps) :
                   ~(TileOK(c, c.steps[k].bE, c.steps[k].sE) /\ TileOK(c, c.steps[k].bH, c.steps[k].sH)) }
    IN  IF bad = {} THEN 0 ELSE CHOOSE k \in bad : \A k2 \in bad : k <= k2

Verdict(c) ==
    IF ~WellFormed(c) THEN "malformed: record shape / phase encoding"
    ELSE IF ~MatOK(c) THEN "malformed: materials of the m*N-cell scene are not the tiled N-cell materials"
    ELSE IF \E k \in 1..Len(c.steps) : c.steps[k].dev > c.devtol
         THEN "exactness: an observed value is not the exact dyadic number the inputs imply"
    ELSE LET k == FirstBad(c)
         IN  IF k = 0 THEN "ok"
             ELSE IF k = 1 THEN "malformed: initial fields of the m*N-cell run are not the phase-tiled N-cell fields"
             ELSE IF ~TileOK(c, c.steps[k].bE, c.steps[k].sE)
                  THEN "tile: E of the m*N-cell run differs from the phase-tiled E of the N-cell run"
             ELSE "tile: H of the m*N-cell run differs from the phase-tiled H of the N-cell run"

TInit == ci = 1 /\ TLCSet(1, << >>)
TNext == /\ ci <= Len(Cases)
         /\ LET c == Cases[ci] IN TLCSet(1, Append(TLCGet(1), [ id |-> c.id, v |-> Verdict(c) ]))
         /\ ci' = ci + 1
TSpec == TInit /\ [][TNext]_ci
Post == ndJsonSerialize(IOEnv.VERDICT_FILE, TLCGet(1))
=======================================================================
