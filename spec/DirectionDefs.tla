---------------------------- MODULE DirectionDefs ----------------------------
(* C13 "plane sources radiate only in their stated direction" - pure definitions shared by DirectionScenes.tla
   (configuration space + phase machine over abstract observations) and Trace_Direction.tla (the same predicates on
   logged numbers of REAL runs).  Trace-monitor level: the thresholds are those of the statement.            *)
EXTENDS Integers, Sequences, FiniteSets

Axes     == {0, 1, 2}
Dirs     == {"+", "-"}
PolClasses == {"h", "v", "obl", "hfix"}  \* E along the 1st / 2nd transverse axis, oblique E vector, oblique and given through H
Profiles == {"cw", "pulse"}              \* SingleFrequencyProfile (linear ramp, then CW) / GaussianPulseProfile
Resolutions == {15, 20}                  \* cells per wavelength (precondition: >= 15)
Beams    == {"uniform", "gauss"}         \* UniformPlaneSource / GaussianPlaneSource (radius >= 0.3 wavelengths)
\* on/off switch of the source: default always-on | switched on after 2 periods | on from 1.5 periods until after the end of
\* the run (a start+end window that covers the measuring interval).  A switched source runs on its own clock (number of
\* on-steps so far); the update loop takes a different code path for it than for the default switch.
Switches == {"on", "delay", "window"}
Configs  == [axis : Axes, dir : Dirs, pol : PolClasses, profile : Profiles, res : Resolutions, beam : Beams, switch : Switches]

\* ---- scaled-integer units of the log: powers in ppb
Ppb == 1000000000
UniformBound == 1000000        \* statement: P_back < 1e-3 * P_fwd   (ratio in ppb of P_fwd)
GaussBound   == 100000000      \* statement: P_back < 0.1  * P_fwd
Bound(beam) == IF beam = "uniform" THEN UniformBound ELSE GaussBound
MinRes == 15                   \* cells per wavelength
MinRadiusMilli == 300          \* Gaussian radius in 1e-3 wavelengths

\* ---- phase machine  Ramp -> Steady  (driven by the time stamp the harness declares)
\*   cw   : Steady = whole periods that start after the linear ramp is over and the wave has crossed the set-up
\*   pulse: Steady = the pulse is over and has passed both planes (time-integrated powers are final)
PhaseAt(t0, tSteady) == IF t0 < tSteady THEN "Ramp" ELSE "Steady"

\* ---- the property's inequality on one observation window (ratio = |P_back| / P_fwd in ppb, only defined if P_fwd > 0)
DirectionalOK(phase, beam, fwdPos, ratio) == phase = "Steady" => (fwdPos /\ ratio < Bound(beam))
\* ---- the property's preconditions
Precond(beam, cpwMilli, radiusMilli, normal, periodic, homogeneous) ==
    /\ cpwMilli >= MinRes * 1000 /\ normal /\ homogeneous
    /\ (beam = "uniform" => periodic)
    /\ (beam = "gauss" => radiusMilli >= MinRadiusMilli)
=============================================================================
