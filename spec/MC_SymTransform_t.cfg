SPECIFICATION Spec
CONSTANTS
  KindSet <- AllKinds
  ShapeSet <- ShapesT
  Full3 = 9
  Full2 = 12
  Variant = "spec"
INVARIANT TypeOK
INVARIANT Invariance
INVARIANT IdentityOnSym
INVARIANT Idempotent
INVARIANT MeanKept
CHECK_DEADLOCK FALSE
