SPECIFICATION Spec
CONSTANTS Mode = "complex"  Variant = "ok"  Family = "full"  List = { }  Steps = 2  PairMod = 1
          Extra = { 1002 }
INVARIANT TypeOK
INVARIANT RealStaysReal
CHECK_DEADLOCK FALSE
