-------------------------- MODULE Trace_Bounds --------------------------
(* Validates REAL executions of BoundaryConfig(...) / from_uniform_bound -> get_*_dict ->
   boundary_objects_from_config -> place_objects -> get_wrap_padding_axes (records of kind "scene") and of
   extend_material_to_pml (kind "extend") against the rules of BoundsDefs.  Python only ran the code and
   encoded what it saw as integers/strings; every rule is evaluated here.

   scene record:  mode "direct" (ov = the six types, thick/par per face) | "uniform" (base, ov with "none",
     uth, upar); dims; bv; what came back: err, cfgf (the 66+3 attributes of the config object), tabs (the
     eleven get_*_dict tables), objs (six placed objects: dict key -> face, class, axis, dir, thickness,
     resolved slice, PML parameters, Bloch vector, uses_wrap_padding, compute_extent, axis_direction_from_kind),
     nbound, wrap (get_wrap_padding_axes), inside (get_inside_boundary_slice), dev.
     Parameters are scaled integers (value * c.scale); -1 = None (not configured); read-back of an
     unconfigured field whose default is not a dyadic number: -2 = "finite and positive".
   extend record: dims, types, thick, arrays = [name, before, after] as [comp][x][y][z] integer codes
     (an injective code of the float values, so equality is preserved).                                   *)
EXTENDS Integers, Sequences, FiniteSets, TLC, TLCExt, Json, IOUtils

B == INSTANCE BoundsDefs

Cases == JsonDeserialize(IOEnv.TRACE_FILE)
VARIABLES ci

Faces == B!Faces
Axes == B!Axes
Fields == B!Fields
Iv(x) == << x[1], x[2] >>
FieldName == << "kappa_start", "kappa_end", "kappa_order", "alpha_start", "alpha_end", "alpha_order", "sigma_start", "sigma_end", "sigma_order" >>
\* class defaults (x64) used when a parameter is not configured; -2: positive, not exactly representable
DefaultPar == << 64, 64, 192, -2, 0, 64, 0, -2, 192 >>

\* ---------------------------------------------------------------- scene records
ET(c, f)       == B!EffType(c.base, c.ov, f)
ETs(c)         == [ f \in Faces |-> ET(c, f) ]
ExpThick(c, f) == IF c.mode = "uniform" THEN c.uth ELSE c.thick[f]
ExpPar(c, f, fl) == IF c.mode = "uniform" THEN c.upar[fl] ELSE c.par[f][fl]
Unknown(c)     == \E f \in Faces : ET(c, f) \notin B!Types

IsTab(t) == /\ Len(t.types) = 6 /\ Len(t.thick) = 6 /\ Len(t.par) = 6 /\ \A f \in Faces : Len(t.par[f]) = 9
SceneWellFormed(c) ==
    /\ c.mode \in {"direct", "uniform"}
    /\ Len(c.dims) = 3 /\ \A a \in Axes : c.dims[a] >= 3 /\ c.dims[a] <= 64
    /\ Len(c.ov) = 6 /\ Len(c.bv) = 3
    /\ c.mode = "direct" => /\ c.base = "pml" /\ \A f \in Faces : c.ov[f] # "none"
                            /\ Len(c.thick) = 6 /\ Len(c.par) = 6 /\ \A f \in Faces : Len(c.par[f]) = 9 /\ c.thick[f] >= 1
    /\ c.mode = "uniform" => Len(c.upar) = 9 /\ c.uth >= 1
    /\ \A a \in Axes : ExpThick(c, B!MinFace(a)) + ExpThick(c, B!MaxFace(a)) < c.dims[a]       \* an interior is left on every axis
    /\ c.err \in {"none", "unknown_type", "other"}
    /\ c.scale = 64
    /\ IsTab(c.cfgf) /\ Len(c.cfgf.bv) = 3 /\ IsTab(c.tabs)
    /\ c.err = "none" => /\ Len(c.wrap) = 3 /\ Len(c.inside) = 3
                         /\ \A k \in 1..Len(c.objs) : LET o == c.objs[k] IN
                               /\ Len(o.slice) = 3 /\ Len(o.extent) = 3 /\ o.axis \in Axes /\ o.kindaxis \in Axes
                               /\ Len(o.par) \in {0, 9} /\ Len(o.bloch) \in {0, 3}

\* first field (1..9) / face for which P fails, as a readable clause name
BadTabField(c, t) == { fl \in Fields : \E f \in Faces : t.par[f][fl] # ExpPar(c, f, fl) }
MinOf(S) == CHOOSE x \in S : \A y \in S : x <= y

ConfigVerdict(c) ==
    IF \E f \in Faces : c.cfgf.types[f] # ET(c, f) THEN "config: boundary_type_<face> is not the type given for that face"
    ELSE IF \E f \in Faces : c.cfgf.thick[f] # ExpThick(c, f) THEN "config: thickness_grid_<face> is not the thickness given for that face"
    ELSE IF BadTabField(c, c.cfgf) # {} THEN "config: attribute " \o FieldName[MinOf(BadTabField(c, c.cfgf))] \o "_<face> is not the value given for that face"
    ELSE IF \E a \in Axes : c.cfgf.bv[a] # c.bv[a] THEN "config: bloch_vector"
    ELSE "ok"

TablesVerdict(c) ==
    IF \E f \in Faces : c.tabs.types[f] # ET(c, f) THEN "tables: get_type_dict entry is not the type configured for that face"
    ELSE IF \E f \in Faces : c.tabs.thick[f] # ExpThick(c, f) THEN "tables: get_dict entry is not the thickness configured for that face"
    ELSE IF BadTabField(c, c.tabs) # {} THEN "tables: " \o FieldName[MinOf(BadTabField(c, c.tabs))] \o " table entry is not the value configured for that face"
    ELSE "ok"

ObjOf(c, f) == c.objs[CHOOSE k \in 1..Len(c.objs) : c.objs[k].face = f]
ThOf(c, f)  == B!ThickOf(ET(c, f), ExpThick(c, f))            \* thickness the rules give face f
ExpObjPar(c, f, fl) == IF ExpPar(c, f, fl) = -1 THEN DefaultPar[fl] ELSE ExpPar(c, f, fl)
BadObjField(c) == { fl \in Fields : \E f \in Faces : ET(c, f) = "pml" /\ ExpPar(c, f, fl) # -1 /\ ObjOf(c, f).par[fl] # ExpPar(c, f, fl) }
PmlCells(c, a) == B!SlabCells(B!MinFace(a), IF ET(c, B!MinFace(a)) = "pml" THEN ThOf(c, B!MinFace(a)) ELSE 0, c.dims[a])
                  \cup B!SlabCells(B!MaxFace(a), IF ET(c, B!MaxFace(a)) = "pml" THEN ThOf(c, B!MaxFace(a)) ELSE 0, c.dims[a])

ObjectsVerdict(c) ==
    IF Len(c.objs) # 6 \/ { c.objs[k].face : k \in 1..Len(c.objs) } # Faces \/ c.nbound # 6
         THEN "objects: not exactly one boundary object per face"
    ELSE IF \E f \in Faces : ObjOf(c, f).cls # B!ClassOf(ET(c, f)) THEN "class: object class is not the one of the type configured for that face"
    ELSE IF \E f \in Faces : ObjOf(c, f).axis # B!AxisOf(f) \/ ObjOf(c, f).dir # B!DirOf(f) THEN "class: object's axis/direction is not its face"
    ELSE IF \E f \in Faces : ObjOf(c, f).kindaxis # B!AxisOf(f) \/ ObjOf(c, f).kinddir # B!DirOf(f) THEN "class: axis_direction_from_kind disagrees with the face name"
    ELSE IF \E f \in Faces : ObjOf(c, f).th # ThOf(c, f) THEN "thickness: not (PML: configured thickness of that face, others: 1)"
    ELSE IF \E f \in Faces : Len(ObjOf(c, f).par) # (IF ET(c, f) = "pml" THEN 9 ELSE 0) THEN "params: parameters on a non-PML object or missing on a PML"
    ELSE IF BadObjField(c) # {} THEN "params: PML " \o FieldName[MinOf(BadObjField(c))] \o " is not the value configured for that face"
    ELSE IF \E f \in Faces : Len(ObjOf(c, f).bloch) # (IF B!Wraps(ET(c, f)) THEN 3 ELSE 0) THEN "bloch: Bloch vector on a non-Bloch object or missing"
    ELSE IF \E f \in Faces : B!Wraps(ET(c, f)) /\ \E a \in Axes : ObjOf(c, f).bloch[a] # B!BlochOf(ET(c, f), c.bv)[a]
         THEN "bloch: vector is not (bloch: the configured one, periodic: zero)"
    ELSE "ok"

PlaceVerdict(c) ==
    IF \E f \in Faces : \E a \in Axes : ~(ObjOf(c, f).slice[a][1] >= 0 /\ ObjOf(c, f).slice[a][1] < ObjOf(c, f).slice[a][2] /\ ObjOf(c, f).slice[a][2] <= c.dims[a])
         THEN "slab: resolved slice empty or outside the volume"
    ELSE IF \E f \in Faces : B!CellsOf(Iv(ObjOf(c, f).slice[B!AxisOf(f)])) # B!SlabCells(f, ThOf(c, f), c.dims[B!AxisOf(f)])
         THEN "slab: not the layer of its thickness flush with its face"
    ELSE IF \E f \in Faces : \E a \in Axes \ {B!AxisOf(f)} : B!CellsOf(Iv(ObjOf(c, f).slice[a])) # B!AllCells(c.dims[a])
         THEN "slab: does not span the whole volume on the other two axes"
    ELSE IF \E a \in Axes : B!CellsOf(Iv(ObjOf(c, B!MinFace(a)).slice[a])) \cap B!CellsOf(Iv(ObjOf(c, B!MaxFace(a)).slice[a])) # {}
         THEN "opposite: the two boundaries of an axis overlap"
    ELSE IF \E f, g \in Faces : B!Perp(f, g) /\ \E a \in Axes :
              B!CellsOf(B!IvCap(Iv(ObjOf(c, f).slice[a]), Iv(ObjOf(c, g).slice[a]))) #
                 (CASE a = B!AxisOf(f) -> B!SlabCells(f, ThOf(c, f), c.dims[a]) [] a = B!AxisOf(g) -> B!SlabCells(g, ThOf(c, g), c.dims[a]) [] OTHER -> B!AllCells(c.dims[a]))
         THEN "corner: overlap of perpendicular boundaries is not the intersection of their slabs"
    ELSE IF \E f \in Faces : \E a \in Axes : Iv(ObjOf(c, f).extent[a]) # Iv(ObjOf(c, f).slice[a]) THEN "extent: compute_extent(kind, thickness) is not the placed slab"
    ELSE "ok"

WrapVerdict(c) ==
    IF \E f \in Faces : ObjOf(c, f).wrapflag # B!Wraps(ET(c, f)) THEN "wrap: uses_wrap_padding is not (periodic or bloch)"
    ELSE IF \E a \in Axes : B!Paired(ETs(c), a) /\ (c.wrap[a] # (B!Wraps(ET(c, B!MinFace(a))) /\ B!Wraps(ET(c, B!MaxFace(a)))))
         THEN "wrap: padding flag of a paired axis is not (axis is periodic/Bloch)"
    ELSE IF \E a \in Axes : c.wrap[a] # B!WrapAxis(ETs(c), a, "code") THEN "wrap: padding flag is not (some boundary of the axis is periodic/Bloch)"
    ELSE "ok"

InsideVerdict(c) ==
    IF \E a \in Axes : ~(c.inside[a][1] >= 0 /\ c.inside[a][2] <= c.dims[a]) THEN "inside: slice outside the volume"
    ELSE IF \E a \in Axes : B!CellsOf(Iv(c.inside[a])) \cap PmlCells(c, a) # {} THEN "inside: get_inside_boundary_slice contains PML cells"
    ELSE "ok"

\* detailed model (code-shaped arithmetic, class defaults): a mismatch here with every property clause true is spec drift
ModelVerdict(c) ==
    IF \E f \in Faces : ET(c, f) = "pml" /\ \E fl \in Fields : ObjOf(c, f).par[fl] # ExpObjPar(c, f, fl) THEN "model: unconfigured parameter does not hold the class default"
    ELSE IF \E f \in Faces : \E a \in Axes : Iv(ObjOf(c, f).slice[a]) # B!Slice3(f, ThOf(c, f), c.dims, "code")[a] THEN "model: slice differs from Slice3"
    ELSE IF \E a \in Axes : Iv(c.inside[a]) # B!InsideIv(ETs(c), [ f \in Faces |-> ThOf(c, f) ], a, c.dims[a]) THEN "model: inside slice differs from InsideIv"
    ELSE "ok"


SceneVerdict(c) ==
    IF ~SceneWellFormed(c) THEN "malformed: scene record shape"
    ELSE IF ConfigVerdict(c) # "ok" THEN ConfigVerdict(c)
    ELSE IF TablesVerdict(c) # "ok" THEN TablesVerdict(c)
    ELSE IF c.dev # 0 THEN "params: a read-back value is not a multiple of 1/scale, hence none of the configured values"
    ELSE IF Unknown(c) /\ c.err = "unknown_type" THEN "ok"
    ELSE IF Unknown(c) /\ c.err = "none" THEN "error: an unknown boundary type was accepted"
    ELSE IF Unknown(c) THEN "error: unexpected exception instead of the unknown-type error"
    ELSE IF c.err # "none" THEN "error: a valid configuration was rejected"
    ELSE IF ObjectsVerdict(c) # "ok" THEN ObjectsVerdict(c)
    ELSE IF PlaceVerdict(c) # "ok" THEN PlaceVerdict(c)
    ELSE IF WrapVerdict(c) # "ok" THEN WrapVerdict(c)
    ELSE IF InsideVerdict(c) # "ok" THEN InsideVerdict(c)
    ELSE ModelVerdict(c)

\* ---------------------------------------------------------------- extend records
ExtWellFormed(c) ==
    /\ Len(c.dims) = 3 /\ Len(c.types) = 6 /\ Len(c.thick) = 6
    /\ \A f \in Faces : c.types[f] \in B!Types /\ c.thick[f] >= 1
    /\ \A a \in Axes : B!Hi(c.types, c.thick, a, c.dims[a]) > B!Lo(c.types, c.thick, a)
    /\ c.err \in {"none", "other"}                       \* "setup" (the scene could not be built) is a harness failure
    /\ c.err = "none" => /\ Len(c.arrays) >= 1
                         /\ \A k \in 1..Len(c.arrays) : LET A == c.arrays[k] IN
                              /\ Len(A.before) = Len(A.after) /\ Len(A.before) >= 1
                              /\ \A m \in 1..Len(A.before) : \A M \in {A.before[m], A.after[m]} :
                                    /\ Len(M) = c.dims[1]
                                    /\ \A x \in 1..c.dims[1] : Len(M[x]) = c.dims[2] /\ \A y \in 1..c.dims[2] : Len(M[x][y]) = c.dims[3]
Cl(c, a, v) == B!ClampTo(v, B!Lo(c.types, c.thick, a), B!Hi(c.types, c.thick, a, c.dims[a]))
InPml(c, x, y, z) == Cl(c, 1, x) # x \/ Cl(c, 2, y) # y \/ Cl(c, 3, z) # z
ArrBad(c, A, pmlpart) ==
    \E m \in 1..Len(A.before) : \E x \in 0..(c.dims[1] - 1) : \E y \in 0..(c.dims[2] - 1) : \E z \in 0..(c.dims[3] - 1) :
        /\ InPml(c, x, y, z) = pmlpart
        /\ A.after[m][x + 1][y + 1][z + 1] # A.before[m][Cl(c, 1, x) + 1][Cl(c, 2, y) + 1][Cl(c, 3, z) + 1]
ExtVerdict(c) ==
    IF ~ExtWellFormed(c) THEN "malformed: extend record shape"
    ELSE IF c.err # "none" THEN "error: extend_material_to_pml raised"
    ELSE IF \E k \in 1..Len(c.arrays) : ArrBad(c, c.arrays[k], FALSE) THEN "extend: a cell outside the PMLs was changed"
    ELSE IF \E k \in 1..Len(c.arrays) : ArrBad(c, c.arrays[k], TRUE) THEN "extend: a PML cell does not hold the value of the nearest cell outside the PMLs"
    ELSE "ok"

Verdict(c) == IF c.kind = "scene" THEN SceneVerdict(c) ELSE IF c.kind = "extend" THEN ExtVerdict(c) ELSE "malformed: kind"

TInit == ci = 1 /\ TLCSet(1, << >>)
TNext == /\ ci <= Len(Cases)
         /\ LET c == Cases[ci] IN TLCSet(1, Append(TLCGet(1), [ id |-> c.id, v |-> Verdict(c) ]))
         /\ ci' = ci + 1
TSpec == TInit /\ [][TNext]_ci
Post == ndJsonSerialize(IOEnv.VERDICT_FILE, TLCGet(1))
=======================================================================
