------------------------ MODULE Trace_SymPlace ------------------------
(* Validates REAL place_objects executions with config.symmetry against the rules of SymPlaceDefs.
   One record = one scene: volume cell counts `dims`, symmetry tuple `sym`, requested full-domain boxes,
   and what fdtdx returned: error kind, reduced volume slice, field-array shape, per object whether it
   survived with its placed (clipped) slice and its recorded unreduced slice, the PEC/PMC boundary
   objects that were added.  TLC evaluates every clause of C34 on these observed integers, both in the
   arithmetic form (ClipIv/UnclippedIv) and in the declarative cell-set form (ClippedCells/ShiftedCells). *)
EXTENDS Integers, Sequences, FiniteSets, TLC, TLCExt, Json, IOUtils

S == INSTANCE SymPlaceDefs

Cases == JsonDeserialize(IOEnv.TRACE_FILE)
VARIABLES ci

Iv(x) == << x[1], x[2] >>
Ax == 1..3
WellFormed(c) ==
    /\ Len(c.dims) = 3 /\ Len(c.sym) = 3
    /\ \A a \in Ax : c.dims[a] >= 1 /\ c.dims[a] <= 64 /\ c.sym[a] \in {-1, 0, 1}
    /\ c.err \in {"none", "odd", "other"}
    /\ \A k \in 1..Len(c.objs) : /\ Len(c.objs[k].box) = 3
                                 /\ \A a \in Ax : Iv(c.objs[k].box[a]) \in S!Intervals(c.dims[a])
    /\ c.err = "none" => /\ Len(c.vol) = 3 /\ Len(c.vol_unred) = 3 /\ Len(c.arr_shape) = 3
                         /\ \A k \in 1..Len(c.objs) : c.objs[k].present => Len(c.objs[k].red) = 3 /\ Len(c.objs[k].unred) = 3
                         /\ \A w \in 1..Len(c.walls) : c.walls[w].axis \in Ax /\ Len(c.walls[w].slice) = 3

MustFail(c) == \E a \in Ax : ~S!AxisOK(c.dims[a], c.sym[a])
RedShape(c) == [ a \in Ax |-> S!RedVol(c.dims[a], c.sym[a])[2] ]

ObjVerdict(o, c) ==
    LET drop == \E a \in Ax : S!InLowerHalf(Iv(o.box[a]), c.dims[a], c.sym[a]) IN
    IF drop /\ o.present THEN "drop: object entirely in the lower half survived"
    ELSE IF ~drop /\ ~o.present THEN "drop: object reaching into the kept half was dropped"
    ELSE IF drop THEN "ok"
    ELSE IF \E a \in Ax : ~(o.red[a][1] < o.red[a][2]) THEN "clip: empty placed slice"
    ELSE IF \E a \in Ax : S!CellsOf(Iv(o.red[a])) # S!ClippedCells(Iv(o.box[a]), c.dims[a], c.sym[a])
         THEN "clip: placed cells are not the object's cells in the kept half, shifted by the plane index"
    ELSE IF \E a \in Ax : Iv(o.red[a]) # S!ClipIv(Iv(o.box[a]), c.dims[a], c.sym[a], "code") THEN "model: clipped slice differs from ClipIv"
    ELSE IF \E a \in Ax : S!CellsOf(Iv(o.unred[a])) # S!ShiftedCells(Iv(o.box[a]), c.dims[a], c.sym[a])
         THEN "unclipped: recorded extent is not the full extent shifted by the plane index"
    ELSE IF \E a \in Ax : Iv(o.unred[a]) # S!UnclippedIv(Iv(o.box[a]), c.dims[a], c.sym[a]) THEN "model: unreduced slice differs from UnclippedIv"
    ELSE "ok"

RECURSIVE FirstBadObj(_, _)
FirstBadObj(c, k) == IF k > Len(c.objs) THEN "ok"
                     ELSE LET v == ObjVerdict(c.objs[k], c) IN IF v # "ok" THEN v ELSE FirstBadObj(c, k + 1)

WallAxesObs(c) == { c.walls[w].axis : w \in 1..Len(c.walls) }
Verdict(c) ==
    IF ~WellFormed(c) THEN "malformed: record shape"
    ELSE IF MustFail(c) /\ c.err = "odd" THEN "ok"
    ELSE IF MustFail(c) /\ c.err = "none" THEN "even: odd (or < 2) cell count on a symmetric axis was accepted"
    ELSE IF MustFail(c) THEN "error: unexpected exception instead of the even-count error"
    ELSE IF c.err = "odd" THEN "even: even cell counts were rejected"
    ELSE IF c.err = "other" THEN "error: placement raised on a valid symmetric scene"
    ELSE IF \E a \in Ax : Iv(c.vol[a]) # S!RedVol(c.dims[a], c.sym[a]) THEN "volume: reduced volume is not the upper half"
    ELSE IF \E a \in Ax : c.arr_shape[a] # RedShape(c)[a] THEN "volume: field arrays do not have the reduced shape"
    ELSE IF \E a \in Ax : S!CellsOf(Iv(c.vol_unred[a])) # S!ShiftedCells(<< 0, c.dims[a] >>, c.dims[a], c.sym[a])
         THEN "unclipped: volume extent not shifted by the plane index"
    ELSE IF FirstBadObj(c, 1) # "ok" THEN FirstBadObj(c, 1)
    ELSE IF WallAxesObs(c) # { a \in Ax : c.sym[a] = -1 } \/ Len(c.walls) # Cardinality(WallAxesObs(c))
         THEN "walls: PEC walls are not exactly one per electric plane"
    ELSE IF \E w \in 1..Len(c.walls) : \/ c.walls[w].dir # "-"
                                       \/ \E b \in Ax : Iv(c.walls[w].slice[b]) # S!WallSlice(c.walls[w].axis, RedShape(c))[b]
         THEN "walls: wall is not the first cell layer of the reduced volume"
    ELSE IF c.npmc # 0 THEN "model: a PMC object was added"
    ELSE "ok"

TInit == ci = 1 /\ TLCSet(1, << >>)
TNext == /\ ci <= Len(Cases)
         /\ TLCSet(1, Append(TLCGet(1), [ id |-> Cases[ci].id, v |-> Verdict(Cases[ci]) ]))
         /\ ci' = ci + 1
TSpec == TInit /\ [][TNext]_ci
Post == ndJsonSerialize(IOEnv.VERDICT_FILE, TLCGet(1))
=======================================================================
