SPECIFICATION Spec
CONSTANTS TypeSet = {"pml", "periodic", "pec", "pmc", "bloch"}  BaseSet = {"pml", "periodic", "pec", "pmc", "bloch", "other"}  OvSet = {"none", "pml", "periodic", "pec", "pmc", "bloch"}
          MaxTh = 2  ThickMode = "all"  NX = 5  NY = 6  NZ = 7  Variant = "code"
INVARIANT TypeOK
INVARIANT ErrorIffUnknown
INVARIANT TablesPerFace
INVARIANT ClassPerFace
INVARIANT ThicknessRule
INVARIANT ParamsPerFace
INVARIANT BlochVector
INVARIANT SlabFlush
INVARIANT OppositeDisjoint
INVARIANT CornerExact
INVARIANT WrapIffPeriodic
CHECK_DEADLOCK FALSE
