---------------------------- MODULE Trace_Absorb ----------------------------
(* C12 conformance (trace-monitor).  One record = one REAL pulsed run of fdtdx in a small domain whose six faces
   carry absorbing layers, plus the REAL run of the same source in a much larger reference domain:
     face, kind, pol, thick, grading   the configuration (must be one of AbsorbDefs!Configs)
     thickFaces, kappaEndFaces    thickness (cells) and kappa_end * 1000 of the six placed PerfectlyMatchedLayer objects
     dcPpb                        |sum s| / sum |s| of the source pulse sampled at the run's time steps  (ppb)
     tOff, transit, tQuiet, T     time stamps (steps): pulse over / one transit of the whole domain / quiet / end
     events [{t, e}]              interior energy from the library's EnergyDetector, units 1e-9 * peak (floor)
     winSteps, margin, courantMilli, winDiffPpb, winRefPos
                                  window length, free cells added on every side in the reference domain, Courant
                                  number * 1000 (ceil), relative energy of (small - reference) over the whole free
                                  region and the window in ppb (floor), reference energy > 0
     slabDiffPpb                  the same ratio restricted to the 2-cell slab next to the layer under test (diagnostic)
   TLC walks the events through the phase machine Pulse -> Ringdown -> Quiet of AbsorbDefs and evaluates the
   statement's inequalities; the harness only runs the simulations and scales the numbers.                *)
EXTENDS Integers, Sequences, FiniteSets, TLC, TLCExt, Json, IOUtils
D == INSTANCE AbsorbDefs
Cases == JsonDeserialize(IOEnv.TRACE_FILE)
VARIABLE ci

Phase(c, ev) == D!PhaseAt(ev.t, c.tOff, c.tQuiet)
N(c) == Len(c.events)
Shape(c) ==
    /\ [face |-> c.face, kind |-> c.kind, pol |-> c.pol, thick |-> c.thick, grading |-> c.grading] \in D!Configs
    /\ Len(c.thickFaces) = 6 /\ Len(c.kappaEndFaces) = 6
    /\ N(c) >= 3 /\ \A i \in 1..N(c) : c.events[i].t >= 0 /\ c.events[i].t < c.T /\ c.events[i].e >= 0
    /\ \A i \in 1..(N(c) - 1) : c.events[i].t < c.events[i + 1].t
Timing(c) ==
    /\ 0 < c.tOff /\ c.transit > 0
    /\ c.tQuiet >= c.tOff + D!QuietTransits * c.transit          \* "after the pulse has left": >= 4 transits
    /\ c.tQuiet < c.T
\* the reference domain is reflection-free inside the window by causality: a signal needs more than winSteps
\* steps for the detour source -> outer wall -> recorded region (2 * margin cells at speed <= courant cells/step)
Causal(c) == 2 * c.margin * 1000 > c.courantMilli * c.winSteps
Verdict(c) ==
    IF ~Shape(c) THEN "malformed: configuration / event list"
    ELSE IF ~Timing(c) THEN "malformed: time stamps of the phase machine"
    ELSE IF ~Causal(c) THEN "malformed: reference domain too small for the window"
    \* premise: the CONFIGURED thickness (>= 8 on every face, BoundaryConfig.from_uniform_bound) and a charge-free pulse
    ELSE IF ~(D!AllFacesAbsorb(<< c.thick >>) /\ D!ZeroCharge(c.dcPpb)) THEN "ok"      \* outside the premise: no claim
    ELSE IF ~(\E i \in 1..N(c) : c.events[i].e = D!PeakUnits) THEN "malformed: peak sample missing from the log"
    ELSE IF ~(\E i \in 1..N(c) : Phase(c, c.events[i]) = "Quiet") THEN "malformed: no Quiet sample"
    ELSE IF \E i \in 1..N(c) : ~D!QuietOK(Phase(c, c.events[i]), c.events[i].e)
         THEN "quiet: interior energy after the pulse has left is not below 1e-6 of its peak"
    ELSE IF ~c.winRefPos THEN "malformed: reference field is zero in the window (vacuous)"
    ELSE IF ~D!DiffOK(c.winDiffPpb)
         THEN "window: recorded field differs from the large reference domain by 1e-4 or more in relative energy"
    \* not part of the statement (reported as spec drift): the placed layers are not the configured ones
    ELSE IF \E i \in 1..6 : c.thickFaces[i] # c.thick THEN "layers: a placed layer does not have the configured thickness"
    ELSE IF \E i \in 1..6 : c.kappaEndFaces[i] # D!KappaEndMilli(c.grading) THEN "layers: a placed layer does not have the configured kappa grading"
    \* diagnostic, stricter than the statement (spec drift): the same ratio restricted to the 2-cell slab next to the layer under test
    ELSE IF ~D!DiffOK(c.slabDiffPpb) THEN "slab: difference to the reference restricted to the slab next to the layer under test is 1e-4 or more"
    ELSE "ok"
TInit == ci = 1 /\ TLCSet(1, << >>)
TNext == /\ ci <= Len(Cases)
         /\ LET c == Cases[ci] IN TLCSet(1, Append(TLCGet(1), [ id |-> c.id, v |-> Verdict(c) ]))
         /\ ci' = ci + 1
TSpec == TInit /\ [][TNext]_ci
Post == ndJsonSerialize(IOEnv.VERDICT_FILE, TLCGet(1))
=============================================================================
