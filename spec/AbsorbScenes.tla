---------------------------- MODULE AbsorbScenes ----------------------------
(* C12: Init enumerates the configuration space of the sweep
       face under test x source kind x polarisation x thickness class x grading           (576 scenes)
   and the phase machine  Pulse -> Ringdown -> Quiet  runs over an ABSTRACT observation: lvl = decades by which
   the interior energy lies below its peak.  The abstraction states what "absorbing" has to mean for the two
   thresholds of the statement to be consistent with each other:
     * every arrival at an absorbing face (>= MinThick cells) costs at least LossPerHit decades
       (windowDiff < 1e-4 of the statement = 4 decades per reflection);
     * a face that does not absorb costs nothing;
     * a source that deposits net charge leaves a static field StaticLevel decades below the peak for ever
       (probe on the real code: electric dipole with spectral width f0/3 -> 2.5e-3 of the peak);
     * without a source the energy never grows.
   Invariant QuietAbsorbed is the statement's first clause; DiffClause its second.  The negative instances
   (MC_AbsorbScenes_neg: a source with net charge; _neg2: one face without layer; _neg3: too few transits
   waited for the stated bound; _neg4: the (1/kappa - 1) dF term of kappa-graded layers is dropped while a/b
   still contain kappa - such layers then lose only 2 decades per hit and DiffClause fails) must be rejected. *)
EXTENDS AbsorbDefs, TLC
CONSTANTS LossPerHit,     \* decades lost per arrival at an absorbing face
          ChargeFree,     \* TRUE: the statement's "zero-net-charge" precondition holds for every source kind
          OpenFace,       \* "none" or a face name: that face has no absorbing layer (precondition violated)
          Transits,       \* number of domain transits the monitor waits before it calls the run Quiet
          StretchApplied  \* TRUE: layers with graded kappa apply the real-stretch term to the derivative
VARIABLES cfg, phase, k, lvl
vars == << cfg, phase, k, lvl >>
MaxLevel == 24
StaticLevel == 3
Min2(a, b) == IF a < b THEN a ELSE b
ThickOf(f) == IF f = OpenFace THEN 0 ELSE cfg.thick
Absorbing(f) == ThickOf(f) >= MinThick
\* real runs with the stretch term dropped (seeded regression): kappa 1 -> 10 layers keep about 1e-5 of the peak for long
StretchResidue == 5
Floor == IF ~(ChargeFree \/ cfg.kind # "edipole") THEN StaticLevel
         ELSE IF cfg.grading \in {"kappa5", "kappa10"} /\ ~StretchApplied THEN StretchResidue ELSE MaxLevel
KappaGraded == cfg.grading \in {"kappa5", "kappa10"}
Min0(a, b) == IF a < b THEN a ELSE b
Loss(f) == IF ~Absorbing(f) THEN 0
           ELSE IF KappaGraded /\ ~StretchApplied THEN Min0(2, LossPerHit) ELSE LossPerHit

Init == /\ cfg \in Configs
        /\ phase = "Pulse" /\ k = 0 /\ lvl = 0        \* lvl = 0: the peak is reached while the source is on
EndPulse == /\ phase = "Pulse" /\ phase' = "Ringdown" /\ UNCHANGED << cfg, k, lvl >>
\* one domain transit: what is left arrives at some face f (any face, also the ones not under test)
Transit(f) == /\ phase = "Ringdown" /\ k < Transits
              /\ k' = k + 1 /\ lvl' = Min2(Floor, lvl + Loss(f))
              /\ UNCHANGED << cfg, phase >>
Settle == /\ phase = "Ringdown" /\ k = Transits /\ phase' = "Quiet" /\ UNCHANGED << cfg, k, lvl >>
Idle == /\ phase = "Quiet" /\ \E l \in lvl..Floor : lvl' = l      \* passive: never grows
        /\ UNCHANGED << cfg, phase, k >>
Next == EndPulse \/ (\E f \in Faces : Transit(f)) \/ Settle \/ Idle
Spec == Init /\ [][Next]_vars

TypeOK == cfg \in Configs /\ phase \in {"Pulse", "Ringdown", "Quiet"} /\ k \in 0..Transits /\ lvl \in 0..MaxLevel
QuietAbsorbed == phase = "Quiet" => lvl >= QuietDecades                  \* energy <= 1e-6 * peak
\* after the first arrival at the face under test the reflected part is at least 4 decades down (1e-4)
DiffClause == (phase = "Ringdown" /\ k >= 1) => lvl >= 4
PhaseMonotone == [][PhaseOrder(phase') >= PhaseOrder(phase)]_vars
NoGrowth == [][phase # "Pulse" => lvl' >= lvl]_vars
\* the enumeration is what the harness sweeps (count cross-checked by checks/C12.py)
ConfigCount == Cardinality(Configs) = 576
ASSUME ConfigCount
=============================================================================
