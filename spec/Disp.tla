-------------------------------- MODULE Disp --------------------------------
(* Dispersive materials of fdtdx as a small state machine, shaped like the code path

     declare poles                    LorentzPole / DrudePole / CCPRPole(.from_critical_point)     (dispersion.py)
     Discretise   -> slots            compute_pole_coefficients_{per_axis,tensor}, zero padding of the unused
                                      pole slots in compute_allowed_dispersive_coefficients          (materials.py)
     Reconstruct  -> rec              inverse map inside susceptibility_from_coefficients
     Evaluate(x)  -> chi              chi(omega) summed over the slots at x = omega*dt

   in exact rational arithmetic (DispDefs).  Property C35, clauses (a)-(c):
     RoundTrip / ChiMatches   the susceptibility reconstructed from the stored coefficients is the declared pole
                              model: equal rational-function coefficients (w2, g, a, b) and equal values at the
                              rational test frequencies, the declared side evaluated from each kind's own formula;
     JuryOK / RootsOK         for w0*dt < 2, damping >= 0 no root of z^2 - c1 z - c2 lies outside the unit circle;
     PadZero                  zero-padded slots reconstruct to "no pole" and add nothing to chi.
   NyquistLoad / CoupledRegion make the coupled field/polarisation bound of C36 explicit.
   Variant # "ok" selects a deliberately wrong coefficient map (negative instances).                       *)
EXTENDS DispDefs

CONSTANTS Variant,      \* "ok" | "c2_sign" | "half_dropped" | "c3_plus_b"
          Guard,        \* "or" (the code's axis_active rule) | "and" (wrong: the omega_0*dt < 2 check never fires for Lorentz/Drude)
          Ws, Gs, Des,  \* Lorentz grid: w0*dt, gamma*dt, delta_epsilon   (sets of <<n,d>>)
          Wps,          \* Drude grid: wp*dt
          CpA, CpOm, CpGa, CpPh,   \* critical-point grid: amplitude, Omega*dt, Gamma*dt, <<cos, sin>> pairs
          Xs,           \* test frequencies x = omega*dt
          Slots,        \* number of pole slots per material (padding target)
          Pairs         \* BOOLEAN: also enumerate two-pole materials (Lorentz + Drude)

\* grids for the .cfg files (a .cfg cannot contain tuples)
QW   == { << 1, 4 >>, << 1, 1 >>, << 7, 4 >> }
QG   == { << 0, 1 >>, << 1, 4 >>, << 3, 1 >> }
QDe  == { << 0, 1 >>, << 2, 1 >>, << 5, 4 >> }
QWp  == { << 1, 2 >>, << 3, 1 >> }
QA   == { << 1, 2 >> }
QOm  == { << 1, 2 >>, << 3, 2 >> }
QGa  == { << 0, 1 >>, << 1, 4 >>, << 1, 1 >> }
QPh  == { << << 1, 1 >>, << 0, 1 >> >>, << << 3, 5 >>, << 4, 5 >> >>, << << 0, 1 >>, << -1, 1 >> >> }
QX   == { << 1, 4 >>, << 1, 1 >>, << 5, 2 >> }
TW   == { << 1, 8 >>, << 1, 4 >>, << 1, 2 >>, << 1, 1 >>, << 3, 2 >>, << 7, 4 >>, << 15, 8 >> }
TG   == { << 0, 1 >>, << 1, 100 >>, << 1, 4 >>, << 1, 1 >>, << 2, 1 >>, << 3, 1 >>, << 8, 1 >> }
TDe  == { << 0, 1 >>, << 1, 2 >>, << 2, 1 >>, << 5, 4 >>, << -1, 2 >>, << 10, 1 >> }
TWp  == { << 1, 8 >>, << 1, 2 >>, << 1, 1 >>, << 3, 1 >>, << 5, 1 >> }
TA   == { << 1, 2 >>, << 2, 1 >> }
TOm  == { << 1, 4 >>, << 1, 2 >>, << 1, 1 >>, << 3, 2 >> }
TGa  == { << 0, 1 >>, << 1, 4 >>, << 1, 2 >>, << 1, 1 >> }
TPh  == QPh \cup { << << 4, 5 >>, << -3, 5 >> >>, << << -5, 13 >>, << 12, 13 >> >> }
TX   == { << 1, 8 >>, << 1, 4 >>, << 1, 1 >>, << 3, 2 >>, << 5, 2 >>, << 3, 1 >> }

Lorentz == { [ ptype |-> "lorentz", v |-> << w, g, de >> ] : w \in Ws, g \in Gs, de \in Des }
Drude   == { [ ptype |-> "drude", v |-> << wp, g >> ] : wp \in Wps, g \in Gs }
Cp      == { [ ptype |-> "cp", v |-> << A, om, ga, ph[1], ph[2] >> ] : A \in CpA, om \in CpOm, ga \in CpGa, ph \in CpPh }
Single  == Lorentz \cup Drude \cup { p \in Cp : Precond(Unified(p)) }
\* poles at or beyond the uncoupled limit omega_0*dt = 2 (strength 0 = the documented way to switch an axis off: exempt)
Beyond  == { [ ptype |-> "lorentz", v |-> << w, g, de >> ] : w \in { << 2, 1 >>, << 5, 2 >>, << 4, 1 >> }, g \in { << 0, 1 >>, << 1, 4 >> },
                                                              de \in { << 0, 1 >>, << 2, 1 >> } }
Materials == { << p >> : p \in Single \cup Beyond } \cup { << [ ptype |-> "drude", v |-> << << 1, 2 >>, << 1, 4 >> >> ], p >> : p \in Beyond } \cup
             (IF Pairs THEN { << [ ptype |-> "lorentz", v |-> << w, g, << 2, 1 >> >> ], [ ptype |-> "drude", v |-> << wp, h >> ] >> :
                                 w \in QW, g \in QG, wp \in QWp, h \in QG } ELSE {})   \* two-pole materials (small grid: sums stay in range)

VARIABLES poles, phase, slots, rec, xx, chi
vars == << poles, phase, slots, rec, xx, chi >>

Init == /\ poles \in Materials
        /\ phase = "declared" /\ slots = << >> /\ rec = << >> /\ xx = RZ /\ chi = CZ

\* placement: compute_pole_coefficients_tensor raises for an active axis with omega_0*dt >= 2; nothing is stored then
Placeable == \A i \in 1..Len(poles) : Accepts(Unified(poles[i]), Guard)
Discretise ==
    /\ phase = "declared" /\ Placeable
    /\ slots' = [ i \in 1..Slots |-> IF i <= Len(poles) THEN Coef(Unified(poles[i]), Variant) ELSE CZero ]
    /\ phase' = "stored"
    /\ UNCHANGED << poles, rec, xx, chi >>

Reconstruct ==
    /\ phase = "stored"
    /\ rec' = [ i \in 1..Slots |-> Inverse(slots[i]) ]
    /\ phase' = "rec"
    /\ UNCHANGED << poles, slots, xx, chi >>

RECURSIVE SumChi(_, _, _)
SumChi(us, x, k) == IF k = 0 THEN CZ ELSE CAdd(SumChi(us, x, k - 1), ChiU(us[k], x))
RECURSIVE SumDecl(_, _, _)
SumDecl(ps, x, k) == IF k = 0 THEN CZ ELSE CAdd(SumDecl(ps, x, k - 1), ChiDecl(ps[k], x))

Evaluate(x) ==
    /\ phase \in { "rec", "eval" }
    /\ \A i \in 1..Slots : DenOK(rec[i], x) \/ rec[i] = UZero
    /\ \A i \in 1..Len(poles) : DeclDenOK(poles[i], x)
    /\ xx' = x
    /\ chi' = SumChi(rec, x, Slots)
    /\ phase' = "eval"
    /\ UNCHANGED << poles, slots, rec >>

Next == Discretise \/ Reconstruct \/ \E x \in Xs : Evaluate(x)
Spec == Init /\ [][Next]_vars

\* ---------------------------------------------------------------- properties
TypeOK == /\ phase \in { "declared", "stored", "rec", "eval" }
          /\ Len(poles) \in 1..Slots
          /\ phase # "declared" => Len(slots) = Slots
          /\ phase \in { "rec", "eval" } => Len(rec) = Slots

\* acceptance precondition, explicit: whatever placement lets through has omega_0*dt < 2 on every axis that couples,
\* and then (damping >= 0) its stored recurrence is Jury-stable WITHOUT assuming the precondition separately
AcceptsWithinLimit == phase # "declared" => \A i \in 1..Len(poles) :
                          LET u == Unified(poles[i]) IN Couples(u) => RLt(u.w2, RI(4))
AcceptedJury == (phase # "declared" /\ Variant = "ok") => \A i \in 1..Len(poles) :
                          LET u == Unified(poles[i]) IN (Couples(u) /\ RLe(RZ, u.g)) => Jury(slots[i])
RejectsBeyond == \A i \in 1..Len(poles) : LET u == Unified(poles[i]) IN
                          (Couples(u) /\ ~RLt(u.w2, RI(4))) => phase = "declared"

\* (b) Jury stability inside the property's preconditions (all enumerated poles satisfy them)
JuryOK  == phase # "declared" => \A i \in 1..Len(poles) : Precond(Unified(poles[i])) => Jury(slots[i])
RootsOK == phase # "declared" => \A i \in 1..Len(poles) : Precond(Unified(poles[i])) => RootsInDisc(slots[i])
\* strictly inside for a damped resonance; the undamped / Drude cases sit ON the circle (marginal), never outside
StrictWhenDamped ==
    phase # "declared" => \A i \in 1..Len(poles) :
        LET u == Unified(poles[i]) IN (Precond(u) /\ RLt(RZ, u.g) /\ RLt(RZ, u.w2)) => StrictJury(slots[i])
\* the bound w0*dt < 2 is the binding one: Lorentz/Drude coefficients are documented as c4 = 0
NoC4 == phase # "declared" => \A i \in 1..Len(poles) : poles[i].ptype \in { "lorentz", "drude" } => RIsZ(slots[i].c4)

\* (a) equality of the rational-function coefficients: the inverse map returns the declared (w2, g, a, b);
\*     a pole that couples to nothing may also come back as "no pole" (all-zero coefficients are masked)
RoundTrip ==
    phase \in { "rec", "eval" } => \A i \in 1..Len(poles) :
        LET u == Unified(poles[i]) IN rec[i] = u \/ (~Couples(u) /\ rec[i] = UZero)
\* (a) equality at the test frequencies, declared side from the kind's own physical formula
ChiMatches == phase = "eval" => chi = SumDecl(poles, xx, Len(poles))
\* the unified form agrees with each kind's physical formula (independent of the coefficient map)
UnifiedIsDeclared ==
    phase = "declared" => \A i \in 1..Len(poles) : \A x \in Xs :
        (DeclDenOK(poles[i], x) /\ DenOK(Unified(poles[i]), x)) => ChiU(Unified(poles[i]), x) = ChiDecl(poles[i], x)

\* (c) padding
PadZero == /\ phase # "declared" => \A i \in (Len(poles) + 1)..Slots : slots[i] = CZero
           /\ phase \in { "rec", "eval" } => \A i \in (Len(poles) + 1)..Slots : rec[i] = UZero /\ (phase = "rec" => \A x \in Xs : ChiU(rec[i], x) = CZ)

\* C36: load of a pole on the grid's Nyquist mode, and the explicit coupled acceptance region
NyquistLoad ==
    phase # "declared" => \A i \in 1..Len(poles) :
        LET u == Unified(poles[i]) IN
        (Precond(u) /\ RIsZ(u.b)) => NyqLoad(slots[i]) = RDiv(u.a, RSub(RI(4), u.w2))
\* witnesses for the region (cf^2 as a rational; 9801/10000 = 0.99^2, 9409/10000 = 0.97^2):
\* the DESIGN section 8 medium (w = 3/10, g = 1/100, de = 2, eps = 1) is outside at 0.99 and inside at 0.97
Mild == Coef(Unified([ ptype |-> "lorentz", v |-> << << 3, 10 >>, << 1, 100 >>, << 2, 1 >> >> ]), "ok")
ASSUME CoupledRegion ==
                 /\ ~CoupledStable(<< 9801, 10000 >>, RI(1), << Mild >>)
                 /\ CoupledStable(<< 9409, 10000 >>, RI(1), << Mild >>)
                 /\ CoupledStable(<< 9801, 10000 >>, RI(1), << CZero >>)
                 /\ CoupledStable(<< 9801, 10000 >>, RI(2), << Mild >>)
\* the bound is a SUM over the cell's poles: two Drude poles (wp*dt = 3/4, load 9/64 each) are outside at cf = 0.9 although
\* each alone is inside; three mixed poles likewise; halving the coupling (wp*dt = 1/2) brings the pair inside
Dru34(g) == Coef(Unified([ ptype |-> "drude", v |-> << << 3, 4 >>, g >> ]), "ok")
Dru12(g) == Coef(Unified([ ptype |-> "drude", v |-> << << 1, 2 >>, g >> ]), "ok")
Lor12 == Coef(Unified([ ptype |-> "lorentz", v |-> << << 1, 2 >>, << 1, 100 >>, << 2, 1 >> >> ]), "ok")
ASSUME CoupledSum ==
    /\ SumLoad(<< Dru34(<< 1, 100 >>), Dru34(<< 1, 50 >>) >>, 2) = << 9, 32 >>
    /\ CoupledStable(<< 81, 100 >>, RI(1), << Dru34(<< 1, 100 >>) >>) /\ CoupledStable(<< 81, 100 >>, RI(1), << Dru34(<< 1, 50 >>) >>)
    /\ ~CoupledStable(<< 81, 100 >>, RI(1), << Dru34(<< 1, 100 >>), Dru34(<< 1, 50 >>) >>)
    /\ CoupledStable(<< 1, 4 >>, RI(1), << Dru34(<< 1, 100 >>), Dru34(<< 1, 50 >>) >>)
    /\ SumLoad(<< Lor12, Dru12(<< 1, 100 >>), Dru12(<< 1, 10 >>) >>, 3) = << 31, 120 >>
    /\ ~CoupledStable(<< 81, 100 >>, RI(1), << Lor12, Dru12(<< 1, 100 >>), Dru12(<< 1, 10 >>) >>)
    /\ CoupledStable(<< 9801, 10000 >>, RI(2), << Lor12, Dru12(<< 1, 100 >>), Dru12(<< 1, 10 >>) >>)
    /\ CoupledStable(<< 81, 100 >>, RI(1), << Dru12(<< 1, 100 >>), Dru12(<< 1, 50 >>) >>)
    /\ CoupledStable(<< 81, 100 >>, RI(1), << CZero, Dru12(<< 1, 100 >>), CZero >>)            \* padded slots add nothing
=============================================================================
