SPECIFICATION Spec
CONSTANTS
  Shapes <- ShapesQ
  MaxT = 2
  Variant = "ok"
INVARIANT TypeOK
INVARIANT NoConeNeeded
INVARIANT StaysConsistent
CHECK_DEADLOCK FALSE
