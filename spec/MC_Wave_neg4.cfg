SPECIFICATION Spec
CONSTANTS Nums = {1, 2}  MaxLen = 2  Vals <- ValsB  Sub = 4  WaveVariant = "design"  AmpVariant = "truncated"  RampVariant = "clamped"
INVARIANT TypeOK
INVARIANT WaveOK
INVARIANT AtSamples
INVARIANT Linear
INVARIANT OutsideWindow
INVARIANT HoldLast
INVARIANT Between
INVARIANT CwBounded
INVARIANT CwReaches
PROPERTY CwRampUp
CHECK_DEADLOCK FALSE
