SPECIFICATION Spec
CONSTANTS Mode = "energy"  Variant = "curl_sign"  Family = "list"  List = { 1010101 }  Steps = 1  PairMod = 7
          Extra = { 1000 }
INVARIANT TypeOK
INVARIANT EnergyBalance
CHECK_DEADLOCK FALSE
