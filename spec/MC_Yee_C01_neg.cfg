SPECIFICATION Spec
CONSTANTS Mode = "energy"  Variant = "curl_sign"  Family = "list"  List = { 1090312 }  Steps = 1
          Extra = { 1000 }
INVARIANT TypeOK
INVARIANT EnergyBalance
CHECK_DEADLOCK FALSE
