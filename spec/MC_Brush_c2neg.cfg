SPECIFICATION Spec
CONSTANTS
  Dims <- Dims45
  Brushes = { "d2" }
  Levels <- NegPos
  Variant = "paper"
  DesignSet <- Case2Designs
INVARIANT TypeOK
INVARIANT NeverCase2
INVARIANT NoConflict
INVARIANT Progress
INVARIANT StepsBounded
INVARIANT PostCondition
INVARIANT RunLoopAgrees
PROPERTY Grows
CHECK_DEADLOCK TRUE
