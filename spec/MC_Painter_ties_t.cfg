SPECIFICATION Spec
CONSTANTS L = 3  Variant = "stable"  NObj = 7  Family = "ties"
INVARIANT TypeOK
INVARIANT PainterRule
INVARIANT PrefixRule
INVARIANT VolumeFirst
INVARIANT TiersWidest
INVARIANT ScalarMu
PROPERTY OnlyUpwards
CHECK_DEADLOCK FALSE
