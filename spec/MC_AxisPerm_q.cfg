SPECIFICATION Spec
CONSTANTS
  Shapes <- ShapesQ
  Kinds <- KindsQ
  MaxT = 1
  Variant = "ok"
  Srcs = "few"
INVARIANT TypeOK
INVARIANT PermInv
INVARIANT PermBijective
INVARIANT PermCubeId
INVARIANT TensorPermOK
CHECK_DEADLOCK FALSE
