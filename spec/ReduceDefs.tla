-------------------------- MODULE ReduceDefs --------------------------
(* Pure definitions of what the fdtdx detectors record from the (already co-located, already region-restricted)
   fields they are handed, and of the reductions they apply
   (objects/detectors/field.py, phasor.py, energy.py, poynting_flux.py, detector.py, core/physics/metrics.py).
   Shared by Reduce.tla (model-checked identities) and Trace_Reduce.tla (the same identities evaluated on the
   outputs of the real detectors).  Integer arithmetic; cell widths are integers, so volumes and areas are.

   A "cell function" is a TLA+ function over Cells(n) = (0..nx-1) x (0..ny-1) x (0..nz-1).
   W = <<wx, wy, wz>> are the cell widths of the detector region (1-based sequences).                 *)
EXTENDS Integers, Sequences, FiniteSets

Cells(n) == (0..(n[1] - 1)) \X (0..(n[2] - 1)) \X (0..(n[3] - 1))
Vol(W, q) == W[1][q[1] + 1] * W[2][q[2] + 1] * W[3][q[3] + 1]
\* area of the face of cell q normal to axis a (0..2) = product of the two transverse widths
Area(W, a, q) == LET j == (a + 1) % 3  k == (a + 2) % 3 IN W[j + 1][q[j + 1] + 1] * W[k + 1][q[k + 1] + 1]

RECURSIVE SumSet(_, _)
SumSet(S, g) == IF S = {} THEN 0 ELSE LET x == CHOOSE x \in S : TRUE IN g[x] + SumSet(S \ {x}, g)

\* ---- reductions
VolSum(W, n, g) == SumSet(Cells(n), [ q \in Cells(n) |-> Vol(W, q) * g[q] ])            \* sum_cells volume * g
TotVol(W, n) == SumSet(Cells(n), [ q \in Cells(n) |-> Vol(W, q) ])
AreaSum(W, n, a, g) == SumSet(Cells(n), [ q \in Cells(n) |-> Area(W, a, q) * g[q] ])    \* sum_cells area_a * g
\* `red` is the volume-weighted MEAN of the spatial record g  (exact: cross-multiplied)
IsMean(red, W, n, g) == red * TotVol(W, n) = VolSum(W, n, g)
IsVolSum(red, W, n, g) == red = VolSum(W, n, g)
IsAreaSum(red, W, n, a, g) == red = AreaSum(W, n, a, g)

\* ---- pointwise formulas (E, H : sequences of three cell functions)
\* Poynting vector component a of real fields: (E x H)_a
Cross(E, H, a, q) == LET j == (a + 1) % 3  k == (a + 2) % 3 IN E[j + 1][q] * H[k + 1][q] - E[k + 1][q] * H[j + 1][q]
\* twice the energy density for diagonal eps, mu (integers): sum_c eps_c E_c^2 + mu_c H_c^2
Energy2(E, H, eps, mu, q) ==
    LET term(c) == eps[c][q] * E[c][q] * E[c][q] + mu[c][q] * H[c][q] * H[c][q] IN term(1) + term(2) + term(3)

\* ---- closed surface of the box: outward normal +a on the max face, -a on the min face
Face(n, a, side) == { q \in Cells(n) : q[a + 1] = (IF side = "min" THEN 0 ELSE n[a + 1] - 1) }
FaceFlux(W, n, a, side, S) == SumSet(Face(n, a, side), [ q \in Face(n, a, side) |-> Area(W, a, q) * S[a + 1][q] ])
NetOutward(W, n, axes, S) ==
    SumSet(axes, [ a \in axes |-> FaceFlux(W, n, a, "max", S) - FaceFlux(W, n, a, "min", S) ])
DefaultAxes(n) == { a \in 0..2 : n[a + 1] > 1 }
=======================================================================
