SPECIFICATION Spec
CONSTANTS MaxT = 4  EndRule = "exclusive"
  Times = {0, 4, 6}  Durations = {0, 6}  HalfPeriods = {0, 2}  Periods = {4, 6}  Intervals = {1, 2}
  FixedLists <- FL_q
INVARIANT RecordsAreActiveSteps
INVARIANT SlotIsRank
INVARIANT InjectOnlyWhenOn
INVARIANT WindowContiguous
INVARIANT EndStepInclusive
INVARIANT AlwaysOffIsOff
INVARIANT DefaultIsAlwaysOn
CHECK_DEADLOCK FALSE
