----------------------------- MODULE ShardDefs -----------------------------
(* Pure definitions for C42: an array sharded over D devices along x is the concatenation of its D shards, and a
   nearest-neighbour stencil evaluated shard by shard with a one-cell halo exchange (what XLA's SPMD partitioner
   emits for the padded slices of curl_E / curl_H on arrays created by create_named_sharded_matrix with
   sharding_axis = 1) equals the stencil evaluated on the whole array.                                      *)
EXTENDS Integers, Sequences, FiniteSets, TLC

\* global periodic / zero-padded read
GRead(F, i, wrap) == IF i >= 1 /\ i <= Len(F) THEN F[i]
                     ELSE IF ~wrap THEN 0 ELSE IF i = 0 THEN F[Len(F)] ELSE F[1]
\* shards: sequence of D sequences of equal length
Split(F, D) == LET L == Len(F) \div D IN [ s \in 1..D |-> [ k \in 1..L |-> F[(s - 1) * L + k] ] ]
RECURSIVE Concat(_)
Concat(sh) == IF Len(sh) = 0 THEN << >> ELSE Head(sh) \o Concat(Tail(sh))
\* halo exchange: the cell left of shard s is the last cell of shard s-1 (global ghost for the first shard),
\* the cell right of it is the first cell of shard s+1.  variant "no_exchange": a shard reads its own edge cell
LeftHalo(sh, s, wrap, variant) ==
    IF variant = "no_exchange" /\ s > 1 THEN sh[s][1]
    ELSE IF s > 1 THEN sh[s - 1][Len(sh[s - 1])]
    ELSE IF wrap THEN sh[Len(sh)][Len(sh[Len(sh)])] ELSE 0
RightHalo(sh, s, wrap, variant) ==
    IF variant = "no_exchange" /\ s < Len(sh) THEN sh[s][Len(sh[s])]
    ELSE IF s < Len(sh) THEN sh[s + 1][1]
    ELSE IF wrap THEN sh[1][1] ELSE 0
SRead(sh, s, k, wrap, variant) ==
    IF k = 0 THEN LeftHalo(sh, s, wrap, variant)
    ELSE IF k = Len(sh[s]) + 1 THEN RightHalo(sh, s, wrap, variant) ELSE sh[s][k]
\* 1-D Yee pair (Ez, Hy): global and sharded half steps
GStepE(E, H, mat, wrap) == [ i \in 1..Len(E) |-> E[i] + mat[i] * (H[i] - GRead(H, i - 1, wrap)) ]
GStepH(E, H, wrap)      == [ i \in 1..Len(H) |-> H[i] + (GRead(E, i + 1, wrap) - E[i]) ]
SStepE(Es, Hs, ms, wrap, v) ==
    [ s \in 1..Len(Es) |-> [ k \in 1..Len(Es[s]) |-> Es[s][k] + ms[s][k] * (Hs[s][k] - SRead(Hs, s, k - 1, wrap, v)) ] ]
SStepH(Es, Hs, wrap, v) ==
    [ s \in 1..Len(Hs) |-> [ k \in 1..Len(Hs[s]) |-> Hs[s][k] + (SRead(Es, s, k + 1, wrap, v) - Es[s][k]) ] ]
=============================================================================
