SPECIFICATION Spec
CONSTANTS MaxN = 1  MaxC = 0  FullN = 1  SampleK = 1  SampleSet = "n"  Variant = "flip_top"  AssertFaceConnectedSuffices = FALSE
INVARIANT TypeOK
INVARIANT XFastest
INVARIANT RoundTrip
INVARIANT OnLatticeInv
INVARIANT ExposedFacesOnlyInv
INVARIANT TriCount
INVARIANT OrientedInv
INVARIANT WatertightInv
INVARIANT FaceConnectedSuffices
INVARIANT FaceCountRule
CHECK_DEADLOCK FALSE
