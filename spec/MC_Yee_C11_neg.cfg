SPECIFICATION Spec
CONSTANTS Mode = "complex"  Variant = "cplx_quad"  Family = "list"  List = { 1090112 }  Steps = 2  PairMod = 7
          Extra = { 1002 }
INVARIANT TypeOK
INVARIANT RealStaysReal
CHECK_DEADLOCK FALSE
