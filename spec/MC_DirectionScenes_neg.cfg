SPECIFICATION Spec
CONSTANTS Variant = "dir_ignored"  RampSteps = 4  GaussShare = 8
INVARIANT Directional
CHECK_DEADLOCK FALSE
