------------------------- MODULE FloodFillDefs -------------------------
(* Pure definitions for the fabrication clean-up transforms of fdtdx
   (objects/device/parameters/binary_transform.py, discrete.py), shared by FloodFill.tla (state machine)
   and Trace_FloodFill.tla (validation of what the real code returned).

   A lattice is given by its dimensions dm = <<X, Y, Z>>; a cell is <<x, y, z>> (0-based, integer-coded, see below); a design is the
   set of its material cells.  Connectivity is FACE adjacency (6-neighbourhood).                       *)
EXTENDS Integers, Sequences, FiniteSets, TLC

\* A cell <<x, y, z>> is coded as the integer 256*x + 16*y + z (sides are at most 15, so every coordinate
\* keeps a spare "guard" value: moving off the lattice never lands on the code of another lattice cell).
\* Integer cells make TLC several times faster than tuples; CX/CY/CZ give the coordinates back.
Code(x, y, z) == 256 * x + 16 * y + z
CX(c) == c \div 256
CY(c) == (c \div 16) % 16
CZ(c) == c % 16
Cells(dm) == { Code(x, y, z) : x \in 0..(dm[1] - 1), y \in 0..(dm[2] - 1), z \in 0..(dm[3] - 1) }
Stride(a) == CASE a = 1 -> 256 [] a = 2 -> 16 [] a = 3 -> 1
Shift(c, a, s) == c + s * Stride(a)
AllAxes == {1, 2, 3}
\* face neighbours of c inside the lattice
Nbrs(c, dm) == { d \in { Shift(c, a, s) : a \in AllAxes, s \in {-1, 1} } : d \in Cells(dm) }

Bottom(dm)   == { c \in Cells(dm) : CZ(c) = 0 }                       \* the substrate layer
SidesTop(dm) == { c \in Cells(dm) : \/ CZ(c) = dm[3] - 1             \* where background may escape
                                    \/ CX(c) = 0 \/ CX(c) = dm[1] - 1
                                    \/ CY(c) = 0 \/ CY(c) = dm[2] - 1 }
MaxSide(dm)  == CHOOSE m \in {dm[1], dm[2], dm[3]} : \A k \in {dm[1], dm[2], dm[3]} : k <= m

\* cells of mask M not yet in S that touch S through a move along one of `axes`
\* (S is a set of lattice cells, so a shifted cell that left the lattice is simply not in S)
Frontier(S, M, dm, axes) == { c \in M \ S : \E a \in axes, s \in {-1, 1} : Shift(c, a, s) \in S }

\* ---------- the documented meaning: reachability = least fixpoint of one-cell-thick growth ----------
\* breadth-first: S = everything found so far, F = the cells found last (only they can have new neighbours)
RECURSIVE Bfs(_, _, _)
Bfs(S, F, M) == IF F = {} THEN S
                ELSE LET N == { d \in UNION { { Shift(c, a, s) : a \in AllAxes, s \in {-1, 1} } : c \in F } :
                                  d \in M /\ d \notin S }
                     IN  Bfs(S \cup N, N, M)
\* smallest set that contains S (a subset of the mask M) and every mask cell face-adjacent to a member
Closure(S, M, dm) == Bfs(S, S, M)

\* material connected, through face-adjacent material, to the bottom layer
Reach(M, dm)    == Closure(M \cap Bottom(dm), M, dm)
\* background connected, through face-adjacent background, to a side face or the top face
AirReach(M, dm) == LET A == Cells(dm) \ M IN Closure(A \cap SidesTop(dm), A, dm)

\* C23, first sentence: what "remove floating material" must return
Keep(M, dm) == Reach(M, dm)
\* C23, second sentence: post-conditions of "connect holes and structures"
NoFloating(O, dm) == Reach(O, dm) = O
NoEnclosed(O, dm) == AirReach(O, dm) = Cells(dm) \ O

\* a simple repair that always meets both post-conditions (shows they are jointly satisfiable for every
\* design): drop floating material, then fill every enclosed background pocket with material
Repair(M, dm) == LET K == Reach(M, dm) IN K \cup ((Cells(dm) \ K) \ AirReach(K, dm))

\* ---------- the implementation's shape: rounds of three planar dilations (xy, xz, yz), masked ----------
SepRound(S, M, dm) == LET a == S \cup Frontier(S, M, dm, {1, 2})
                          b == a \cup Frontier(a, M, dm, {1, 3})
                      IN  b \cup Frontier(b, M, dm, {2, 3})
RECURSIVE Rounds(_, _, _, _)
Rounds(S, M, dm, n) == IF n = 0 THEN S ELSE Rounds(SepRound(S, M, dm), M, dm, n - 1)
\* compute_polymer_connection as written: max(shape) rounds; a design with Z = 1 is padded with an empty
\* layer below (and above), so that the seed layer is the padding and nothing is ever connected
BoundedReach(M, dm) == IF dm[3] = 1 THEN {} ELSE Rounds(M \cap Bottom(dm), M, dm, MaxSide(dm))

\* ---------- array codec: C-order flattening of an (X, Y, Z) array, 1-based ----------
Pos(c, dm) == CX(c) * dm[2] * dm[3] + CY(c) * dm[3] + CZ(c) + 1
NCells(dm) == dm[1] * dm[2] * dm[3]
=======================================================================
