---------------------------- MODULE PillarDefs ----------------------------
(* Pure definitions for fdtdx.PillarDiscretization (objects/device/parameters/discretization.py),
   compute_allowed_indices and nearest_index (objects/device/parameters/utils.py), shared by Pillar.tla and
   Trace_Pillar.tla.

   A column is a sequence of L material indices (0-based indices into the materials ordered by ascending
   permittivity), layer 1 = bottom, layer L = top (increasing coordinate along the pillar axis).
   Real numbers (input voxels, inverse permittivities) are integers in units of 1/den.                   *)
EXTENDS ParamArrays, TLC

\* ---------- allowed columns: the property's wording ----------
\* background only at the top end of the column; a single non-background material when requested
AllowedDecl(L, n, bg, single) ==
    { c \in [ 1..L -> 0..(n - 1) ] :
        \E i \in 0..L : /\ \A l \in 1..(L - i) : c[l] # bg
                        /\ \A l \in (L - i + 1)..L : c[l] = bg
                        /\ single => Cardinality({ c[l] : l \in 1..(L - i) }) <= 1 }

\* ---------- allowed columns: the code's construction (compute_allowed_indices) ----------
\* every layer assignment of non-background materials, with the top i layers replaced by background;
\* single_polymer_columns keeps those with one distinct element or at most one distinct non-fill element
FillTop(perm, L, i, bg) == [ l \in 1..L |-> IF l <= L - i THEN perm[l] ELSE bg ]
AllowedBuilt(L, n, bg, single) ==
    LET valid == (0..(n - 1)) \ {bg}
        all   == { FillTop(perm, L, i, bg) : perm \in [ 1..L -> valid ], i \in 0..L }
    IN  IF single
        THEN { c \in all : LET u == { c[l] : l \in 1..L } IN Cardinality(u) = 1 \/ Cardinality(u \ {bg}) <= 1 }
        ELSE all

\* ---------- distances (scaled to integers; only their ORDER matters) ----------
\* v: column of input values, a: column of inverse permittivities of a candidate, both in units 1/den
SumTo(f, L) == LET RECURSIVE S(_) S(l) == IF l = 0 THEN 0 ELSE f[l] + S(l - 1) IN S(L)
Euclid2(v, a, L) == SumTo([ l \in 1..L |-> (v[l] - a[l]) * (v[l] - a[l]) ], L)                 \* = norm^2
\* mean_l |diff(v) - diff(a)| + |mean(v) - mean(a)|, multiplied by L (L - 1)
DiffAvg(v, a, L) ==
    L * SumTo([ l \in 1..(L - 1) |-> Abs((v[l + 1] - v[l]) - (a[l + 1] - a[l])) ], L - 1)
    + (L - 1) * Abs(SumTo(v, L) - SumTo(a, L))
Dist(metric, v, a, L) == IF metric = "euclidean" \/ L = 1 THEN Euclid2(v, a, L) ELSE DiffAvg(v, a, L)

ValCol(c, invs, L) == [ l \in 1..L |-> invs[c[l] + 1] ]
\* all candidates at minimal distance (ties: every minimiser is acceptable).
\* (TLC note: operator arguments are re-evaluated at every use; binding them with "x \in {expr}" evaluates once.)
Minimisers(metric, v, cands, invs, L) ==
    UNION { UNION { UNION { { c \in cc : d[c] = m } : m \in { MinOf({ d[x] : x \in cc }) } }
                    : d \in { [ c \in cc |-> Dist(metric, vv, ValCol(c, invs, L), L) ] } }
            : vv \in { v }, cc \in { cands } }

\* ---------- materials ----------
\* eps: permittivities in dictionary order, pairwise distinct (any common unit);
\* OrderIdx(eps, j) = 0-based index of dictionary entry j after sorting by ascending permittivity
OrderIdx(eps, j) == Cardinality({ i \in 1..Len(eps) : eps[i] < eps[j] })
\* inverse permittivities by ORDERED index, given per dictionary entry
OrderedInvs(eps, invs) == [ k \in 1..Len(eps) |-> invs[CHOOSE j \in 1..Len(eps) : OrderIdx(eps, j) = k - 1] ]

\* ---------- columns of a rank-3 array along an axis ----------
OtherAxes(ax) == IF ax = 1 THEN << 2, 3 >> ELSE IF ax = 2 THEN << 1, 3 >> ELSE << 1, 2 >>
ColumnIds(shape, ax) == { << a, b >> : a \in 1..shape[OtherAxes(ax)[1]], b \in 1..shape[OtherAxes(ax)[2]] }
PosOf(ax, id, l) == [ k \in 1..3 |-> IF k = ax THEN l ELSE IF k = OtherAxes(ax)[1] THEN id[1] ELSE id[2] ]
Column(arr, shape, ax, id) == [ l \in 1..shape[ax] |-> arr[PosOf(ax, id, l)] ]
===========================================================================
