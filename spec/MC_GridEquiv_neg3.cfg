SPECIFICATION Spec
CONSTANTS
  MaxN = 3
  MaxD = 2
  MaxT = 1
  Variant = "center_nonuniform_only"
  Volumes <- VolumesQ
INVARIANT TypeOK
INVARIANT AllEqual
INVARIANT ScaleIsOne
INVARIANT EdgesAgree
INVARIANT PlacementAgrees
INVARIANT CentrePlacementAgrees
CHECK_DEADLOCK FALSE
