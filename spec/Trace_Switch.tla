--------------------------- MODULE Trace_Switch ---------------------------
(* C14 conformance.  Record kinds:
     "list": the REAL OnOffSwitch.calculate_on_list / calculate_time_step_to_on_arr_idx for one schedule
     "run" : a REAL simulation run with a switched detector (records vs. an always-on twin detector) and a
             switched source (field delta per step vs. the same step without the source)
   TLC evaluates the documented window rule (SwitchDefs) on every record.                              *)
EXTENDS SwitchDefs, Json, IOUtils, TLCExt
Cases == JsonDeserialize(IOEnv.TRACE_FILE)
VARIABLE ci
R == "inclusive"

Gated(p) == HasFixed(p) \/ p.off       \* the window parameters are not evaluated at all

ListVerdict(c) ==
    LET p == c.p IN
    IF ~Gated(p) /\ Invalid(p)
      THEN IF c.raised THEN "ok" ELSE "drift: ambiguous schedule specification accepted"
    ELSE IF c.raised THEN "rule: valid schedule rejected"
    ELSE IF Len(c.on) # c.T \/ Len(c.idx) # c.T THEN "rule: on-list has the wrong length"
    ELSE IF \E t \in 0..(c.T - 1) : c.on[t + 1] # IsOn(p, t, R) THEN "rule: a step is active/inactive contrary to the time-window rule"
    ELSE IF \E t \in 0..(c.T - 1) : c.idx[t + 1] # SlotOf(p, c.T, t, R) THEN "rule: step-to-slot map is not the rank among active steps"
    ELSE "ok"

RunVerdict(c) ==
    LET p == c.p
        n == Cardinality(OnTimes(p, c.T, R))
    IN
    IF c.det_n # n THEN "detector: number of stored records differs from the number of active steps"
    ELSE IF \E i \in 1..n : c.det_fp[i] # c.all_fp[NthOn(p, c.T, i, R) + 1]
         THEN "detector: a stored record is not the value of the corresponding active step (chronological order)"
    ELSE IF \E t \in 0..(c.T - 1) : c.src_delta[t + 1] /\ ~IsOn(p, t, R) THEN "source: adds to the fields at an inactive step"
    ELSE IF \E t \in 0..(c.T - 1) : IsOn(p, t, R) /\ c.src_would[t + 1] /\ ~c.src_delta[t + 1]
         THEN "source: adds nothing at an active step"
    ELSE "ok"

Verdict(c) == IF c.kind = "list" THEN ListVerdict(c) ELSE RunVerdict(c)
TInit == ci = 1 /\ TLCSet(1, << >>)
TNext == /\ ci <= Len(Cases)
         /\ LET c == Cases[ci] IN TLCSet(1, Append(TLCGet(1), [ id |-> c.id, v |-> Verdict(c) ]))
         /\ ci' = ci + 1
TSpec == TInit /\ [][TNext]_ci
Post == ndJsonSerialize(IOEnv.VERDICT_FILE, TLCGet(1))
=============================================================================
