SPECIFICATION Spec
CONSTANTS Variant = "ok"  Slots = 3  Guard = "and"  Pairs = TRUE
  Ws <- QW  Gs <- QG  Des <- QDe  Wps <- QWp  CpA <- QA  CpOm <- QOm  CpGa <- QGa  CpPh <- QPh  Xs <- QX
INVARIANT TypeOK
INVARIANT AcceptsWithinLimit
INVARIANT AcceptedJury
INVARIANT RejectsBeyond
INVARIANT JuryOK
INVARIANT RootsOK
INVARIANT StrictWhenDamped
INVARIANT NoC4
INVARIANT RoundTrip
INVARIANT ChiMatches
INVARIANT UnifiedIsDeclared
INVARIANT PadZero
INVARIANT NyquistLoad
CHECK_DEADLOCK FALSE
