SPECIFICATION Spec
CONSTANTS
  AxShapeSet <- AxShapesT
  InvSets <- InvSetsT
  Grid3 <- GridT3
  Grid4 <- GridT4
  Variant = "spec"
INVARIANT TypeOK
INVARIANT ColumnsAllowed
INVARIANT ColumnsNearest
CHECK_DEADLOCK FALSE
