SPECIFICATION Spec
CONSTANTS
  AxShapeSet <- AxShapesNeg
  InvSets <- InvSetsQ
  Grid3 <- GridQ3
  Grid4 <- GridQ4
  Variant = "euclid_always"
INVARIANT TypeOK
INVARIANT ColumnsAllowed
INVARIANT ColumnsNearest
CHECK_DEADLOCK FALSE
