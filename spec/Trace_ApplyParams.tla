---------------------- MODULE Trace_ApplyParams ----------------------
(* Validates executions of the REAL pipeline  place_objects -> apply_params -> apply_params ...  (/repo/src)
   on 1-D scenes with one device against ApplyParamsDefs.tla / ApplyParams.tla.

   A case is one scene and one parameter history:
     N, comps        cells; stored permittivity components (1 isotropic, 3 diagonal, 9 full tensor)
     base            integer permittivity tensor (9 entries) of every cell of the placed scene, as the harness
                     built it (volume / slab materials); event 1 checks the placed arrays against it
     devs            the devices in the order of objects.devices, each [lo, hi, vox, kind, mats]; mats = device
                     material tensors in the order the implementation documents (ascending first permittivity
                     component; checked here).  Cells covered by two devices are compared with "devices written in
                     list order" as detail only (drift) - the property does not say who wins there.
     events          1: arrays after place_objects (p = <<>>);  k > 1: after the (k-1)-th apply_params.
                     p   = per device, what its transform chain produced per design voxel for that parameter set
                           (doubled value 0|1|2 for continuous / etched, material index for discrete)
                     inv = inverse-permittivity tensor of every cell, 9 integers in units of 1/S
                     dc  = dispersive coefficients (c1, c2, c3 (, c4) flattened) of every cell, units 1/S  (disp = 1)
     dtables         (disp = 1) per device, per material: the coefficient tuple compute_allowed_dispersive_coefficients
                     gives (all zeros for a non-dispersive material)
     fresh           inv (and dc) after applying ONLY the last parameter set to a freshly placed scene
     rd (per event)  rounding deviation of every cell's sent values, in 1/1000 of a unit (must be 0 where the
                     result is claimed exact)
   Verdict clauses (first failing one is kept, all events are consumed):
     device   : every device cell is the inverse of the documented blend / of the selected material
                (inv * blend = identity within tol units; exact, tol = 0, for discrete devices without full
                tensors, whose inverses 1, 1/2, 1/4 are representable) and carries that material's coefficients
     outside  : every other cell is bit-for-bit what it was after placement
     history  : the arrays after the whole sequence equal `fresh` bit-for-bit                           *)
EXTENDS Integers, Sequences, FiniteSets, TLC, TLCExt, Json, IOUtils

D == INSTANCE ApplyParamsDefs

Cases == JsonDeserialize(IOEnv.TRACE_FILE)
VARIABLES ci, l, bad
tvars == << ci, l, bad >>

C == Cases[ci]
Note(cl) == IF bad = "" THEN cl ELSE bad

DevOK(c, d) ==
    /\ d.kind \in {"continuous", "etched", "discrete"}
    /\ d.lo >= 0 /\ d.hi <= c.N /\ d.lo < d.hi /\ (d.hi - d.lo) % d.vox = 0
    /\ Len(d.mats) = (CASE d.kind = "continuous" -> 2 [] d.kind = "etched" -> 1 [] OTHER -> Len(d.mats))
    /\ \A k \in 1..(Len(d.mats) - 1) : d.mats[k][1] <= d.mats[k + 1][1]
WellFormed(c) ==
    /\ c.N \in 1..12 /\ c.comps \in {1, 3, 9} /\ Len(c.base) = c.N /\ c.S = 100000000 /\ c.tol \in 0..64
    /\ Len(c.devs) \in 1..3 /\ \A i \in 1..Len(c.devs) : DevOK(c, c.devs[i])
    /\ Len(c.events) >= 2 /\ Len(c.events[1].p) = 0
    /\ \A k \in 1..Len(c.events) : Len(c.events[k].inv) = c.N
    /\ \A k \in 2..Len(c.events) :
          /\ Len(c.events[k].p) = Len(c.devs)
          /\ \A i \in 1..Len(c.devs) :
                /\ Len(c.events[k].p[i]) = D!NVoxels(c.devs[i])
                /\ \A v \in 1..Len(c.events[k].p[i]) :
                      c.events[k].p[i][v] \in (IF c.devs[i].kind = "discrete" THEN 0..(Len(c.devs[i].mats) - 1) ELSE 0..2)
    /\ Len(c.fresh.inv) = c.N

Malformed == { "malformed: record shape", "malformed: placed scene differs from the harness's description of it" }

TInit == ci = 1 /\ l = 1 /\ bad = "" /\ TLCSet(1, << >>)

\* first failing clause for the cells of device i at event e (cells covered by this device only)
DeviceClause(c, e, i) ==
    LET d == c.devs[i]
        exact == d.kind = "discrete" /\ c.comps # 9
        tol == IF exact THEN 0 ELSE c.tol
        exp == D!WriteDevice([ k \in 1..c.N |-> D!Dbl(c.base[k]) ], d, e.p[i])
        own == { k \in 1..c.N : D!InDevice(d, k - 1) /\ D!InOneDevice(c.devs, k - 1) }
    IN  IF \E k \in own : ~D!IsInverseOf(e.inv[k], exp[k], c.S, tol)
        THEN (IF d.kind = "discrete" THEN "device: a cell does not carry the inverse permittivity of the selected material"
              ELSE "device: a cell is not the inverse of the linear blend of the permittivities")
        ELSE IF exact /\ \E k \in own : e.rd[k] # 0 THEN "device: discrete inverse permittivity is not exact"
        ELSE IF c.disp = 1 /\ d.kind = "discrete" /\ \E k \in own : e.dc[k] # c.dtables[i][e.p[i][D!VoxelOf(d, k - 1)] + 1]
        THEN "device: a cell does not carry the dispersion coefficients of the selected material"
        ELSE ""

\* detail (the property speaks of dispersion coefficients only for discrete outputs): a continuous device writes
\* the blend (1-p)*t0 + p*t1 of its two materials' coefficients, stated doubled: 2*dc = (2-v)*t0 + v*t1 (+-2 units)
BlendCoefOK(c, e, i) ==
    LET d == c.devs[i]
        own == { k \in 1..c.N : D!InDevice(d, k - 1) /\ D!InOneDevice(c.devs, k - 1) }
    IN  d.kind # "continuous" \/
        \A k \in own : LET v == e.p[i][D!VoxelOf(d, k - 1)] IN
            \A j \in 1..Len(e.dc[k]) :
                D!Abs(2 * e.dc[k][j] - ((2 - v) * c.dtables[i][1][j] + v * c.dtables[i][2][j])) <= 2

Event ==
    LET c == C
        e == c.events[l]
    IN
    /\ bad' =
         IF l = 1 THEN
            (IF ~WellFormed(c) THEN Note("malformed: record shape")
             ELSE IF \E k \in 1..c.N : ~D!IsInverseOf(e.inv[k], D!Dbl(c.base[k]), c.S, c.tol)
                  THEN Note("malformed: placed scene differs from the harness's description of it")
             ELSE bad)
         ELSE IF bad \in Malformed THEN bad                   \* malformed record: nothing else is meaningful
         ELSE LET e1   == c.events[1]
                  dcl  == [ i \in 1..Len(c.devs) |-> DeviceClause(c, e, i) ]
                  seqm == D!After(c.base, c.devs, e.p)          \* devices written in list order
              IN  IF \E i \in 1..Len(c.devs) : dcl[i] # ""
                  THEN Note(dcl[CHOOSE i \in 1..Len(c.devs) : dcl[i] # "" /\ \A j \in 1..(i - 1) : dcl[j] = ""])
                  ELSE IF \E k \in 1..c.N : ~D!InAnyDevice(c.devs, k - 1) /\ (e.inv[k] # e1.inv[k] \/ (c.disp = 1 /\ e.dc[k] # e1.dc[k]))
                  THEN Note("outside: a cell outside the devices was changed")
                  ELSE IF l = Len(c.events) /\ (e.inv # c.fresh.inv \/ (c.disp = 1 /\ e.dc # c.fresh.dc))
                  THEN Note("history: arrays after the sequence differ from applying only the last parameter set")
                  ELSE IF c.disp = 1 /\ \E i \in 1..Len(c.devs) : ~BlendCoefOK(c, e, i)
                  THEN Note("drift: a continuous device cell does not carry the linear blend of its materials' dispersion coefficients")
                  ELSE IF \E k \in 1..c.N : D!InAnyDevice(c.devs, k - 1) /\ ~D!InOneDevice(c.devs, k - 1)
                                              /\ ~D!IsInverseOf(e.inv[k], seqm[k], c.S, c.tol)
                  THEN Note("drift: a cell shared by two devices differs from writing the devices in list order")
                  ELSE bad
    /\ l' = l + 1 /\ ci' = ci

NextCase ==
    /\ TLCSet(1, Append(TLCGet(1), [ id |-> C.id, v |-> IF bad = "" THEN "ok" ELSE bad ]))
    /\ ci' = ci + 1 /\ l' = 1 /\ bad' = ""

TNext == /\ ci <= Len(Cases)
         /\ IF l > Len(C.events) THEN NextCase ELSE Event
TSpec == TInit /\ [][TNext]_tvars

Post == ndJsonSerialize(IOEnv.VERDICT_FILE, TLCGet(1))
=======================================================================
