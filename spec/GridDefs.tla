--------------------------- MODULE GridDefs ---------------------------
(* Pure definitions for the grid geometry helpers of fdtdx (core/grid.py RectilinearGrid, config.py),
   shared by Grid.tla (state machine), Trace_Grid.tla (conformance) and PlaceDefs.tla (constraint solver).

   Exact integer arithmetic.  An axis is a sequence  e  of Len = n+1 strictly increasing EDGE coordinates
   given in QUARTER units (the real coordinate is e[i] * unit / 4); edge *indices* are 0-based as in the
   code:  E(e, i) = e[i+1],  i \in 0..n.  Cell widths are whole units, so every e[i] - e[j] is a multiple
   of 4, interval centres are multiples of 2 and anchors at relative position k/4 (k \in 0..4, i.e.
   object position -1, -1/2, 0, 1/2, 1) are integers.

   Two layers:
     * "Is..." predicates     = what property C37 claims (declarative: *a* nearest edge, *a* minimiser)
     * "...Alg" definitions   = what the code computes (argmin takes the FIRST minimum, searchsorted)
   Grid.tla checks Alg => Is for every input in the bound; the trace spec evaluates the Is-predicates on
   values observed from the real code (a violation) and the Alg-equalities (mere drift).                *)
EXTENDS Integers, Sequences, FiniteSets

Abs(x) == IF x < 0 THEN -x ELSE x
MinOf(S) == CHOOSE x \in S : \A y \in S : x <= y
MaxOf(S) == CHOOSE x \in S : \A y \in S : y <= x

RECURSIVE SumTo(_, _)
SumTo(w, k) == IF k = 0 THEN 0 ELSE SumTo(w, k - 1) + w[k]

\* ---------- axes ----------
\* edges (quarter units) from origin o (quarter units) and widths w (whole units)
EdgesOf(o, w) == [ i \in 1..(Len(w) + 1) |-> o + 4 * SumTo(w, i - 1) ]
NCells(e)     == Len(e) - 1
E(e, i)       == e[i + 1]
Idx(e)        == 0..NCells(e)
StrictlyIncreasing(e) == \A i \in 1..(Len(e) - 1) : e[i] < e[i + 1]
WidthQ(e, i)  == e[i + 2] - e[i + 1]                \* width of cell i (0-based), quarter units
WidthsQ(e)    == [ i \in 1..NCells(e) |-> e[i + 1] - e[i] ]
Centre2(e, i) == e[i + 1] + e[i + 2]                \* twice the centre of cell i
ExtentQ(e, l, u) == E(e, u) - E(e, l)

\* ---------- coordinate snapping (coord_to_index) ----------
Dist(e, i, c) == Abs(E(e, i) - c)
\* property: i is AN edge of minimal distance
IsNearest(e, c, i) == i \in Idx(e) /\ \A j \in Idx(e) : Dist(e, i, c) <= Dist(e, j, c)
\* code: np.argmin(|edges - c|) = the first (lowest) minimiser
NearestAlg(e, c)   == MinOf({ i \in Idx(e) : IsNearest(e, c, i) })
\* property: the previous edge = the largest edge <= c   (exists iff E(e,0) <= c)
HasLower(e, c)     == E(e, 0) <= c
IsLower(e, c, i)   == i \in Idx(e) /\ E(e, i) <= c /\ (i = NCells(e) \/ E(e, i + 1) > c)
\* code: searchsorted(edges, c, side="right") - 1
LowerAlg(e, c)     == Cardinality({ j \in Idx(e) : E(e, j) <= c }) - 1
\* property: the next edge = the smallest edge >= c      (exists iff c <= E(e,n))
HasUpper(e, c)     == c <= E(e, NCells(e))
IsUpper(e, c, i)   == i \in Idx(e) /\ E(e, i) >= c /\ (i = 0 \/ E(e, i - 1) < c)
\* code: searchsorted(edges, c, side="left")
UpperAlg(e, c)     == Cardinality({ j \in Idx(e) : E(e, j) < c })

\* ---------- interval choice ----------
Fits(e, size)      == size >= 1 /\ size <= NCells(e)
Lowers(e, size)    == 0..(NCells(e) - size)
\* twice the distance of the interval centre from c
CentreDist2(e, lo, size, c) == Abs(E(e, lo) + E(e, lo + size) - 2 * c)
IsCentreChoice(e, size, c, lo, hi) ==
    /\ Fits(e, size) /\ lo \in Lowers(e, size) /\ hi = lo + size
    /\ \A l2 \in Lowers(e, size) : CentreDist2(e, lo, size, c) <= CentreDist2(e, l2, size, c)
CentreAlg(e, size, c) ==
    MinOf({ lo \in Lowers(e, size) : \A l2 \in Lowers(e, size) : CentreDist2(e, lo, size, c) <= CentreDist2(e, l2, size, c) })
\* anchor of the interval [lo, lo+size] at relative position k/4: lower + k/4 * (upper - lower)  (exact integer)
AnchorQ(e, lo, hi, k)  == E(e, lo) + ((k * (E(e, hi) - E(e, lo))) \div 4)
AnchorDist(e, lo, size, k, a) == Abs(AnchorQ(e, lo, lo + size, k) - a)
IsAnchorChoice(e, size, k, a, lo, hi) ==
    /\ Fits(e, size) /\ lo \in Lowers(e, size) /\ hi = lo + size
    /\ \A l2 \in Lowers(e, size) : AnchorDist(e, lo, size, k, a) <= AnchorDist(e, l2, size, k, a)
AnchorAlg(e, size, k, a) ==
    MinOf({ lo \in Lowers(e, size) : \A l2 \in Lowers(e, size) : AnchorDist(e, lo, size, k, a) <= AnchorDist(e, l2, size, k, a) })

\* ---------- 3-D grids: g = <<ex, ey, ez>> (edge sequences); slices sl = <<<<l,u>>, <<l,u>>, <<l,u>>>> ----------
Transverse(a) == IF a = 0 THEN << 1, 2 >> ELSE IF a = 1 THEN << 0, 2 >> ELSE << 0, 1 >>
SliceOK(g, sl) == \A a \in 1..3 : sl[a][1] \in Idx(g[a]) /\ sl[a][2] \in Idx(g[a]) /\ sl[a][1] <= sl[a][2]
SliceLen(sl, a) == sl[a + 1][2] - sl[a + 1][1]
\* face_area(axis, slice): outer product of the two transverse width vectors, normal axis collapsed to 1; flattened row-major,
\* in (quarter units)^2
FaceShape(sl, a) == [ b \in 1..3 |-> IF b - 1 = a THEN 1 ELSE SliceLen(sl, b - 1) ]
FaceAreaFlat(g, a, sl) ==
    LET t1 == Transverse(a)[1]  t2 == Transverse(a)[2]
        n1 == SliceLen(sl, t1)  n2 == SliceLen(sl, t2)
    IN [ p \in 1..(n1 * n2) |->
           WidthQ(g[t1 + 1], sl[t1 + 1][1] + ((p - 1) \div n2)) * WidthQ(g[t2 + 1], sl[t2 + 1][1] + ((p - 1) % n2)) ]
\* cell_volume(slice): dx*dy*dz per cell, flattened row-major, in (quarter units)^3
VolShape(sl) == [ b \in 1..3 |-> SliceLen(sl, b - 1) ]
CellVolumeFlat(g, sl) ==
    LET n1 == SliceLen(sl, 0)  n2 == SliceLen(sl, 1)  n3 == SliceLen(sl, 2)
    IN [ p \in 1..(n1 * n2 * n3) |->
           WidthQ(g[1], sl[1][1] + ((p - 1) \div (n2 * n3)))
         * WidthQ(g[2], sl[2][1] + (((p - 1) \div n3) % n2))
         * WidthQ(g[3], sl[3][1] + ((p - 1) % n3)) ]

\* ---------- CFL bound ----------
\* smallest width per axis in WHOLE units (widths are whole units)
MinW(e) == (MinOf({ WidthQ(e, i) : i \in 0..(NCells(e) - 1) })) \div 4
\* With m_a = MinW the bound is  (c*dt/cf)^2 <= 1 / (1/m1^2 + 1/m2^2 + 1/m3^2)
\*                             = (m1 m2 m3)^2 / (m2^2 m3^2 + m1^2 m3^2 + m1^2 m2^2)      [unit^2]
CflNum(g) == LET a == MinW(g[1]) b == MinW(g[2]) c == MinW(g[3]) IN (a * b * c) * (a * b * c)
CflDen(g) == LET a == MinW(g[1]) b == MinW(g[2]) c == MinW(g[3]) IN b*b*c*c + a*a*c*c + a*a*b*b
\* The harness reports X = (c*dt/cf)^2 / unit^2 as  X * 10^12 = xh * 10^6 + xl  (0 <= xl < 10^6).
\* Claim:  X * Den <= Num * (1 + tolppt * 10^-12); two-limb comparison so that every product stays below 2^31.
Mega == 1000000
CflHolds(g, xh, xl, tolppt) ==
    LET den == CflDen(g)  num == CflNum(g)
        lo  == xl * den
        hi  == xh * den + (lo \div Mega)
        lo2 == lo % Mega
        rlo == num * tolppt
        rhi == num * Mega + (rlo \div Mega)
        rl2 == rlo % Mega
    IN hi < rhi \/ (hi = rhi /\ lo2 <= rl2)
CflArithOK(g, xh, xl, tolppt) ==
    /\ xl >= 0 /\ xl < Mega /\ xh >= 0 /\ xh <= 4000000 /\ tolppt >= 0 /\ tolppt <= 1000
    /\ CflDen(g) <= 500 /\ CflNum(g) <= 2000

\* ---------- uniform detection ----------
\* all cell widths of all three axes equal the first x width (the exact case; tolerance band handled in the trace spec)
IsUniformExact(g) == \A a \in 1..3 : \A i \in 0..(NCells(g[a]) - 1) : WidthQ(g[a], i) = WidthQ(g[1], 0)

\* ---------- symmetric reduction ----------
MirrorSymmetric(e) == \A i \in 0..(NCells(e) - 1) : WidthQ(e, i) = WidthQ(e, NCells(e) - 1 - i)
ReducibleAxis(e)   == NCells(e) >= 2 /\ NCells(e) % 2 = 0 /\ MirrorSymmetric(e)
\* documented: raise iff some symmetric axis is odd / < 2 / not mirror symmetric
ReduceRaises(g, sym) == \E a \in 1..3 : sym[a] # 0 /\ ~ReducibleAxis(g[a])
\* kept upper half with absolute coordinates preserved; other axes unchanged
UpperHalf(e) == SubSeq(e, (NCells(e) \div 2) + 1, Len(e))
Reduced(g, sym) == [ a \in 1..3 |-> IF sym[a] # 0 THEN UpperHalf(g[a]) ELSE g[a] ]
\* what makes the reduction meaningful: mirroring the kept half about its lower edge reproduces the discarded widths
MirrorReconstructs(e) ==
    LET h == UpperHalf(e)  m == NCells(h)
    IN /\ NCells(e) = 2 * m
       /\ \A i \in 0..(m - 1) : WidthQ(h, i) = WidthQ(e, m + i) /\ WidthQ(h, i) = WidthQ(e, m - 1 - i)
       /\ E(h, 0) * 2 = E(e, 0) + E(e, NCells(e))
=======================================================================
