SPECIFICATION Spec
CONSTANTS MaxT = 7  MaxStride = 3  Variant = "doc"
INVARIANT TypeOK
INVARIANT AccIsDFT
INVARIANT KeptShape
INVARIANT Reconstructs
CHECK_DEADLOCK FALSE
