SPECIFICATION Spec
CONSTANTS MaxStart = 25  MaxLen = 45  Variant = "doc"
INVARIANT InRange
INVARIANT Monotone
INVARIANT CountIsSteps
INVARIANT AtMostTwenty
INVARIANT ClosedForm
INVARIANT FinalIsTotal
INVARIANT NiceMinimal
CHECK_DEADLOCK FALSE
