SPECIFICATION Spec
CONSTANTS MaxStart = 45  MaxLen = 64  Variant = "doc"
INVARIANT InRange
INVARIANT Monotone
INVARIANT CountIsSteps
INVARIANT AtMostTwenty
INVARIANT ClosedForm
INVARIANT FinalIsTotal
INVARIANT NiceMinimal
CHECK_DEADLOCK FALSE
