SPECIFICATION Spec
CONSTANTS MaxN = 2  Variant = "doc"  SubsetMode = "few"  AssertOnPlaneToo = FALSE
INVARIANT TypeOK
INVARIANT UpperIsOriginal
INVARIANT MirrorParity
INVARIANT ClosedForm
INVARIANT FillRepeats
INVARIANT ReduceCommutes
CHECK_DEADLOCK FALSE
