SPECIFICATION Spec
CONSTANTS Mode = "energy"  Variant = "shift"  Family = "list"  List = { 1010101 }  Steps = 1  PairMod = 7
          Extra = { 0 }
INVARIANT TypeOK
INVARIANT EnergyBalance
CHECK_DEADLOCK FALSE
