----------------------- MODULE Trace_Projection -----------------------
(* Trace monitor for the REAL fdtdx.TanhProjection / SubpixelSmoothedProjection (projection.py).
   kind "tanh": one record = TanhProjection.__call__(beta) on an ascending table of inputs + jax.grad flags
     binf / bnum / bden   beta = infinity, or bnum/bden          en / eden   threshold eta
     xs / xden            inputs (ascending, may leave [0,1])     out         outputs in units 1/S (S = 2^29), rounded
     gerr, gfin           exception text of the gradient call; per input 1 if d sum(out)/dx is finite
   kind "smooth": one record = SubpixelSmoothedProjection.__call__(beta) on a 2D field
     shape (2D), rho / rden (eta = en/rden on the same grid), plain (TanhProjection on the same field), smooth,
     gerr, gfin (gradient of the smoothed projection)
   Clauses (C20): range, monotone, fixed points (eta strictly inside (0,1)), clip at beta = 0, step at beta = inf away
   from eta, finite gradients for every beta and eta in [0,1]; smoothed = plain in cells CLEARLY without an interface
   (ProjectionDefs!NoInterface).  tol (units 1/S) is carried by the record.                                         *)
EXTENDS Integers, Sequences, FiniteSets, TLC, TLCExt, Json, IOUtils

D == INSTANCE ProjectionDefs

Cases == JsonDeserialize(IOEnv.TRACE_FILE)

VARIABLES ci
tvars == << ci >>

BetaOK(c) == c.binf \in BOOLEAN /\ c.bnum >= 0 /\ c.bden > 0
Ascending(xs) == \A i \in 1..(Len(xs) - 1) : xs[i] <= xs[i + 1]

WellFormedTanh(c) ==
    /\ BetaOK(c) /\ c.eden > 0 /\ c.en >= 0 /\ c.en <= c.eden /\ c.xden > 0 /\ D!S % c.xden = 0 /\ c.scale = D!S
    /\ c.tol >= 0 /\ c.tol <= 16 /\ Ascending(c.xs)
    /\ c.err = "" => Len(c.out) = Len(c.xs)
    /\ c.gerr = "" => Len(c.gfin) = Len(c.xs)

VerdictTanh(c) ==
    IF ~WellFormedTanh(c) THEN "malformed: tanh record"
    ELSE IF c.err # "" THEN "call: projection raised"
    ELSE IF ~D!RangeOK(c.xs, c.xden, c.out, c.tol) THEN "range: an input in [0,1] is mapped outside [0,1]"
    ELSE IF ~D!MonotoneOK(c.xs, c.out, c.tol) THEN "monotone: projection decreases somewhere"
    ELSE IF D!StrictlyInside(c.en, c.eden) /\ ~D!FixedOK(c.xs, c.xden, c.out, c.tol) THEN "fixed: 0 or 1 is not a fixed point"
    ELSE IF ~c.binf /\ c.bnum = 0 /\ ~D!ClipOK(c.xs, c.xden, c.out, c.tol) THEN "beta0: not equal to clipping"
    ELSE IF c.binf /\ ~D!StepOK(c.xs, c.xden, c.en, c.eden, c.out, c.tol) THEN "betainf: not a step at the threshold"
    ELSE IF c.gerr # "" THEN "gradient: gradient call raised"
    ELSE IF \E i \in 1..Len(c.gfin) : c.gfin[i] # 1 THEN "gradient: non-finite gradient of the tanh projection"
    ELSE "ok"

WellFormedSmooth(c) ==
    /\ BetaOK(c) /\ c.rden > 0 /\ c.en >= 0 /\ c.en <= c.rden /\ c.scale = D!S /\ c.tol >= 0 /\ c.tol <= 16
    /\ Len(c.shape) = 2 /\ c.shape[1] >= 2 /\ c.shape[2] >= 2 /\ Len(c.rho) = c.shape[1] * c.shape[2]
    /\ c.err = "" => Len(c.plain) = Len(c.rho) /\ Len(c.smooth) = Len(c.rho)
    /\ c.gerr = "" => Len(c.gfin) = Len(c.rho)

VerdictSmooth(c) ==
    IF ~WellFormedSmooth(c) THEN "malformed: smooth record"
    ELSE IF c.err # "" THEN "call: smoothed projection raised"
    ELSE LET rho == D!FromFlat(c.shape, c.rho)
             pl  == D!FromFlat(c.shape, c.plain)
             sm  == D!FromFlat(c.shape, c.smooth)
         IN  IF \E p \in D!Positions(c.shape) : D!NoInterface(rho, c.shape, c.en, p) /\ D!Abs(sm[p] - pl[p]) > c.tol
             THEN "agree: smoothed projection differs from the plain one in a cell without interface"
             ELSE IF c.gerr # "" THEN "gradient: gradient call raised"
             ELSE IF \E i \in 1..Len(c.gfin) : c.gfin[i] # 1 THEN "gradient: non-finite gradient of the smoothed projection"
             ELSE "ok"

\* kind "sgrad": finite-gradient clause of the smoothed projection on smooth float32 / float64 designs with almost flat tails
\* (Gaussian blobs, exponential decays); vfin / gfin = per-cell finiteness flags of the output / of d (weighted) sum / d rho
WellFormedSGrad(c) ==
    /\ BetaOK(c) /\ c.eden > 0 /\ c.en >= 0 /\ c.en <= c.eden /\ c.n >= 2
    /\ c.gerr = "" => Len(c.gfin) = c.n * c.n /\ Len(c.vfin) = c.n * c.n

VerdictSGrad(c) ==
    IF ~WellFormedSGrad(c) THEN "malformed: sgrad record"
    ELSE IF c.gerr # "" THEN "gradient: gradient call raised"
    ELSE IF \E i \in 1..Len(c.vfin) : c.vfin[i] # 1 THEN "gradient: non-finite value of the smoothed projection"
    ELSE IF \E i \in 1..Len(c.gfin) : c.gfin[i] # 1 THEN "gradient: non-finite gradient of the smoothed projection (smooth design)"
    ELSE "ok"

Verdict(c) == IF c.kind = "tanh" THEN VerdictTanh(c) ELSE IF c.kind = "smooth" THEN VerdictSmooth(c)
              ELSE IF c.kind = "sgrad" THEN VerdictSGrad(c) ELSE "malformed: kind"

TInit == ci = 1 /\ TLCSet(1, << >>)
TNext == /\ ci <= Len(Cases)
         /\ TLCSet(1, Append(TLCGet(1), [ id |-> Cases[ci].id, v |-> Verdict(Cases[ci]) ]))
         /\ ci' = ci + 1
TSpec == TInit /\ [][TNext]_tvars

Post == ndJsonSerialize(IOEnv.VERDICT_FILE, TLCGet(1))
=======================================================================
