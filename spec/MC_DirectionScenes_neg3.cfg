SPECIFICATION Spec
CONSTANTS Variant = "h_sign"  RampSteps = 4  GaussShare = 8
INVARIANT Directional
CHECK_DEADLOCK FALSE
