----------------------- MODULE ApplyParamsDefs -----------------------
(* Pure definitions for "device parameters -> materials" (fdtd/initialization.py: apply_params,
   objects/device/device.py: voxel expansion), shared by ApplyParams.tla and Trace_ApplyParams.tla.

   Arithmetic is exact on integers:
     * a permittivity tensor is a sequence of 9 integers (row-major 3x3; an isotropic eps is eps * identity,
       a diagonal one diag(ex, ey, ez));
     * a continuous parameter p in {0, 1/2, 1} is carried as p2 = 2p in {0, 1, 2};
     * a blended permittivity is carried DOUBLED:  Blend2(T0, T1, p2) = 2*T0 + p2*(T1 - T0) = 2*(T0 + p*(T1 - T0)).
   "inverse of the blend" is stated without division: inv * blend = identity.                             *)
EXTENDS Integers, Sequences, FiniteSets, TLC

Iso(e)          == << e, 0, 0, 0, e, 0, 0, 0, e >>
Diag(a, b, c)   == << a, 0, 0, 0, b, 0, 0, 0, c >>
Dbl(T)          == [ k \in 1..9 |-> 2 * T[k] ]
Blend2(T0, T1, p2) == [ k \in 1..9 |-> 2 * T0[k] + p2 * (T1[k] - T0[k]) ]

\* a device occupies cells lo..hi-1 (0-based) of a 1-D lattice, in design voxels of `vox` cells each
InDevice(d, c)  == c >= d.lo /\ c < d.hi
VoxelOf(d, c)   == ((c - d.lo) \div d.vox) + 1          \* 1-based index into the parameter vector
NVoxels(d)      == (d.hi - d.lo) \div d.vox

\* blend that starts from a DOUBLED tensor c2 (what is in the cell now): c + p*(T1 - c), doubled.
\* Exact whenever c2 or v is even (always the case when c2 comes from the placed scene).
BlendFrom2(c2, T1, v) == [ k \in 1..9 |-> (2 * c2[k] + v * (2 * T1[k] - c2[k])) \div 2 ]

\* one device writes its cells into the array `cur2` (DOUBLED tensors per cell):
\*   p = parameter vector of that device (p2 values for "continuous"/"etched", 0-based material index for
\*   "discrete");  d.mats = its materials in their documented order (ascending first permittivity component).
\*   An etched device blends what is in the cell NOW with its one material.
WriteDevice(cur2, d, p) ==
    [ c1 \in 1..Len(cur2) |->
        LET c == c1 - 1 IN
        IF ~InDevice(d, c) THEN cur2[c1]
        ELSE LET v == p[VoxelOf(d, c)] IN
             IF d.kind = "continuous" THEN Blend2(d.mats[1], d.mats[2], v)
             ELSE IF d.kind = "etched" THEN BlendFrom2(cur2[c1], d.mats[1], v)
             ELSE Dbl(d.mats[v + 1]) ]
\* all devices in the order of the scene's device list, starting from the array `start2`
RECURSIVE WriteAll(_, _, _, _)
WriteAll(cur2, devs, ps, k) == IF k > Len(devs) THEN cur2 ELSE WriteAll(WriteDevice(cur2, devs[k], ps[k]), devs, ps, k + 1)

\* ---------- dispersion coefficients, abstractly ----------
\* The recurrence coefficients c1..c4 of a material need exp()/cos(); here a material carries ONE abstract integer
\* `coef` standing for its whole coefficient tuple (0 = non-dispersive: all coefficients are zero), d.coefs[m] for
\* the m-th material, and a cell carries the DOUBLED value.  Every device writes its cells:
\*   discrete: the coefficient of the selected material;  continuous: the same linear blend as the permittivity.
\* `who` = "every": as documented;  "own": only a device that has a dispersive material of its own writes
\* (negative instance: a plain device on a dispersive background keeps the stale coefficients).
WriteDeviceCoef(dc2, d, p, who) ==
    IF who = "own" /\ \A m \in 1..Len(d.coefs) : d.coefs[m] = 0 THEN dc2
    ELSE [ c1 \in 1..Len(dc2) |->
             LET c == c1 - 1 IN
             IF ~InDevice(d, c) THEN dc2[c1]
             ELSE LET v == p[VoxelOf(d, c)] IN
                  IF d.kind = "continuous" THEN 2 * d.coefs[1] + v * (d.coefs[2] - d.coefs[1])
                  ELSE IF d.kind = "discrete" THEN 2 * d.coefs[v + 1]
                  ELSE dc2[c1] ]             \* etched devices in dispersive scenes are not modelled
RECURSIVE WriteAllCoef(_, _, _, _, _)
WriteAllCoef(dc2, devs, ps, k, who) ==
    IF k > Len(devs) THEN dc2 ELSE WriteAllCoef(WriteDeviceCoef(dc2, devs[k], ps[k], who), devs, ps, k + 1, who)
AfterCoef(bcoef, devs, ps) == WriteAllCoef([ c1 \in 1..Len(bcoef) |-> 2 * bcoef[c1] ], devs, ps, 1, "every")

\* the documented map: apply the parameter sets ps (one vector per device) to the PLACED scene `base`
\* (base[c] = permittivity of cell c after placement - what the etch backup stores).  DOUBLED tensors.
After(base, devs, ps) == WriteAll([ c1 \in 1..Len(base) |-> Dbl(base[c1]) ], devs, ps, 1)
InAnyDevice(devs, c) == \E k \in 1..Len(devs) : InDevice(devs[k], c)
\* cells covered by exactly one device do not depend on the order of the device list
InOneDevice(devs, c) == Cardinality({ k \in 1..Len(devs) : InDevice(devs[k], c) }) = 1

\* ---------- comparison with observed inverse permittivities ----------
\* obs = observed inverse-permittivity tensor of one cell, 9 integers in units of 1/S (components the
\* simulation does not store are filled in by the harness: isotropic -> diagonal, off-diagonals 0)
\* e2  = expected DOUBLED permittivity.  Identity:  sum_k obs[i,k] * e2[k,j] = 2*S*delta_ij   (within tol)
Abs(v) == IF v < 0 THEN 0 - v ELSE v
At(T, i, j) == T[3 * (i - 1) + j]
IsInverseOf(obs, e2, S, tol) ==
    \A i \in 1..3 : \A j \in 1..3 :
        Abs(At(obs, i, 1) * At(e2, 1, j) + At(obs, i, 2) * At(e2, 2, j) + At(obs, i, 3) * At(e2, 3, j)
            - (IF i = j THEN 2 * S ELSE 0)) <= tol
\* "within the range of the two materials" for an isotropic blend: min <= blend <= max (doubled values)
MinOf(S) == CHOOSE m \in S : \A k \in S : m <= k
MaxOf(S) == CHOOSE m \in S : \A k \in S : k <= m
=======================================================================
